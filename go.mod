module verif

go 1.21

require github.com/XiaoMi/Gaea v0.0.0

require (
	github.com/cznic/mathutil v0.0.0-20181122101859-297441e03548 // indirect
	github.com/golang/protobuf v1.5.2 // indirect
	github.com/google/uuid v1.6.0 // indirect
	github.com/hashicorp/go-version v1.6.0 // indirect
	github.com/pingcap/errors v0.11.1 // indirect
	github.com/pingcap/tipb v0.0.0-20190226124958-833c2ffd2fe7 // indirect
	github.com/remyoudompheng/bigfft v0.0.0-20190321074620-2f0d2b0e0001 // indirect
	github.com/shopspring/decimal v1.3.1 // indirect
	google.golang.org/protobuf v1.28.0 // indirect
)

replace github.com/XiaoMi/Gaea => /repo

replace github.com/dgrijalva/jwt-go => github.com/golang-jwt/jwt v3.2.2-0.20210713063142-860640e8862d+incompatible
