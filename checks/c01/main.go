// C01: sharded reads are routed to every table that can hold a matching row.
//
// Engine: enum (bounded-exhaustive). For every layout (rule type × slices × tables per
// slice), every statement form (SELECT / UPDATE / DELETE / SELECT … JOIN linked table with
// the condition in WHERE or ON / JOIN global table) and every condition tree of the bounded
// grammar over the rule's boundary universe, the real parser + plan.BuildPlan + ExecuteIn
// (through ref/planrig) produce the route. Oracle: for every row (x, k) — x from the same
// universe, k ∈ {NULL,1,2} — on which the reference three-valued evaluation of the
// statement's WHERE/ON conditions (evaluated on the parser's own AST) is TRUE and which the
// rule places (Rule.FindTableIndex), the route must contain that table on the slice /
// database the configuration assigns to it. Rejected statements are fine.
package main

import (
	"fmt"
	"os"
	"sort"
	"strconv"
	"strings"
	"sync"
	"sync/atomic"
	"time"

	"verif/engine/enum"
	"verif/engine/ev"
	"verif/engine/gx"
	"verif/ref/planrig"
)

// ---------------------------------------------------------------- universe

// Val is one value of the sharding column: usable as a literal and as a row's key.
type Val struct {
	Key   interface{} // int64 | string (what the rule is asked to place)
	SQL   string      // literal text
	Class string      // position relative to the rule's boundaries (feature only)
	Spell string      // int | str | date | datetime | unix
	Idx   int         // table that holds rows with this key, -1: not storable
	Raw   int         // FindTableIndex result regardless of configuration, -1: rejected
}

type universe struct {
	mode   string // int | str | unix
	vals   []Val
	byText map[string]int
}

func q(s string) string { return "'" + s + "'" }

func intVal(i int64, class, spell string) Val {
	return Val{Key: i, SQL: strconv.FormatInt(i, 10), Class: class, Spell: spell}
}
func strVal(s, class, spell string) Val { return Val{Key: s, SQL: q(s), Class: class, Spell: spell} }

func periodStart(rule string, p int) time.Time {
	switch rule {
	case "date_year":
		return time.Date(p, 1, 1, 0, 0, 0, 0, time.UTC)
	case "date_month":
		return time.Date(p/100, time.Month(p%100), 1, 0, 0, 0, 0, time.UTC)
	}
	return time.Date(p/10000, time.Month(p/100%100), p%100, 0, 0, 0, 0, time.UTC)
}

func periodNext(rule string, t time.Time) time.Time {
	switch rule {
	case "date_year":
		return t.AddDate(1, 0, 0)
	case "date_month":
		return t.AddDate(0, 1, 0)
	}
	return t.AddDate(0, 0, 1)
}

func periodMid(rule string, t time.Time) time.Time {
	switch rule {
	case "date_year":
		return t.AddDate(0, 5, 0) // June 1st
	case "date_month":
		return t.AddDate(0, 0, 14) // the 15th
	}
	return t.Add(12*time.Hour + 30*time.Minute)
}

func spellTime(t time.Time, mode, class string, forceDT bool) Val {
	if mode == "unix" {
		return intVal(t.Unix(), class, "unix")
	}
	if t.Hour() == 0 && t.Minute() == 0 && t.Second() == 0 && !forceDT {
		return strVal(t.Format("2006-01-02"), class, "date")
	}
	return strVal(t.Format("2006-01-02 15:04:05"), class, "datetime")
}

// buildUniverse lists the boundary-rich key values of a rig in one type mode, simplest
// (lowest table) first.
func buildUniverse(rig *planrig.Rig, mode string) *universe {
	l := rig.Layout
	u := &universe{mode: mode, byText: map[string]int{}}
	add := func(v Val) {
		if _, dup := u.byText[v.SQL]; dup {
			return
		}
		v.Idx, v.Raw = -1, -1
		if i, ok := rig.Place(v.Key); ok {
			v.Idx = i
		}
		func() {
			defer func() { recover() }()
			if i, err := rig.Rule.FindTableIndex(v.Key); err == nil {
				v.Raw = i
			}
		}()
		u.vals = append(u.vals, v)
		u.byText[v.SQL] = len(u.vals) - 1
	}
	n := l.Slices * l.TablesPerSlice
	switch {
	case l.Rule == "range":
		lim := int64(10)
		for i := int64(0); i < int64(n); i++ {
			s := i * lim
			cls := "start"
			if i == 0 {
				cls = "first_start"
			}
			if i > 0 {
				add(intVal(s-1, "start-1", "int"))
			}
			add(intVal(s, cls, "int"))
			add(intVal(s+1, "start+1", "int"))
			add(intVal(s+5, "mid", "int"))
		}
		add(intVal(int64(n)*lim-1, "last_end-1", "int"))
		add(intVal(int64(n)*lim, "last_end", "int"))
		add(intVal(int64(n)*lim+7, "beyond", "int"))
		add(intVal(-1, "negative", "int"))
	case l.IsDate():
		tabs := rig.Tables()
		conf := map[int]bool{}
		for _, p := range tabs {
			conf[p] = true
		}
		first := periodStart(l.Rule, tabs[0])
		add(spellTime(first.Add(-time.Second), mode, "before_first", false))
		for i, p := range tabs {
			s := periodStart(l.Rule, p)
			nx := periodNext(l.Rule, s)
			add(spellTime(s, mode, "period_start", false))
			if i == 1 || len(tabs) == 1 {
				if mode != "unix" {
					add(spellTime(s, mode, "period_start", true))
				}
				add(spellTime(s.Add(time.Second), mode, "period_start+1s", false))
			}
			if i == 1 || len(tabs) == 1 {
				// "partial starts": values that look like the first instant of the period in
				// some but not all components (a start test that forgets one component treats
				// them as the period start and drops the period that holds the rows before them)
				switch l.Rule {
				case "date_year":
					add(spellTime(s.AddDate(0, 0, 14), mode, "jan_midnight_not_first", false)) // Y-01-15
					add(spellTime(s.AddDate(0, 0, 14), mode, "jan_midnight_not_first", true))  // Y-01-15 00:00:00
					add(spellTime(s.AddDate(0, 5, 0), mode, "month_start_midnight", true))     // Y-06-01 00:00:00 (date-only form = mid_period)
					add(spellTime(s.AddDate(0, 5, 14), mode, "midnight_not_first", false))     // Y-06-15
					add(spellTime(s.Add(12*time.Hour+30*time.Minute), mode, "first_day_not_midnight", false))
				case "date_month":
					add(spellTime(s.AddDate(0, 0, 14), mode, "midnight_not_first", true)) // Y-M-15 00:00:00 (date-only form = mid_period)
					add(spellTime(s.Add(12*time.Hour+30*time.Minute), mode, "first_day_not_midnight", false))
				}
			}
			add(spellTime(periodMid(l.Rule, s), mode, "mid_period", false))
			add(spellTime(nx.Add(-time.Second), mode, "period_end", false))
			if i+1 < len(tabs) && !periodStart(l.Rule, tabs[i+1]).Equal(nx) { // unconfigured gap
				add(spellTime(nx, mode, "gap_start", false))
				add(spellTime(periodMid(l.Rule, nx), mode, "gap_mid", false))
			}
		}
		last := periodNext(l.Rule, periodStart(l.Rule, tabs[len(tabs)-1]))
		add(spellTime(last, mode, "after_last", false))
	default: // hash, mod, mycat_*
		var cands []Val
		if mode == "int" {
			for i := int64(0); i <= int64(2*n); i++ {
				cands = append(cands, intVal(i, "key", "int"))
			}
			for _, k := range []int64{255, 256, 257, 340, 341, 342, 511, 512, 682, 683, 767, 768, 1023} {
				cands = append(cands, intVal(k, "key", "int"))
			}
		} else {
			for i := 0; i <= 2*n; i++ {
				cands = append(cands, strVal(strconv.Itoa(i), "numstr", "str"))
			}
			for _, s := range []string{"a", "b", "ab", "abc", "abd", "zz", "k9", "user10", "user11", "user12", "user13"} {
				cands = append(cands, strVal(s, "alpha", "str"))
			}
		}
		per := map[int]int{}
		for _, c := range cands { // two keys per table: collisions and different tables
			if i, ok := rig.Place(c.Key); ok && per[i] < 2 {
				per[i]++
				add(c)
			}
		}
		if mode == "int" {
			add(intVal(1024, "wrap", "int"))
			add(intVal(1000003, "big", "int"))
			add(intVal(123456789012, "long", "int"))
			add(intVal(-1, "negative", "int"))
			add(intVal(-3, "negative", "int"))
		} else {
			add(strVal("012", "numstr0", "str"))
			add(strVal("", "empty", "str"))
			add(strVal("123456789012", "numstr_long", "str"))
		}
	}
	return u
}

func modesOf(l planrig.Layout) []string {
	switch {
	case l.Rule == "range":
		return []string{"int"}
	case l.IsDate():
		return []string{"str", "unix"}
	}
	return []string{"int", "str"}
}

// ---------------------------------------------------------------- conditions

type Atom struct {
	Col      string   `json:"col"`  // key | k
	Kind     string   `json:"kind"` // cmp | in | between | isnull
	Op       string   `json:"op,omitempty"`
	Rev      bool     `json:"rev,omitempty"` // literal on the left
	Not      bool     `json:"not,omitempty"` // NOT IN / NOT BETWEEN / IS NOT NULL
	Lits     []string `json:"lits,omitempty"`
	Reversed bool     `json:"reversed,omitempty"` // BETWEEN with lower > upper
}

type Cond struct {
	Op string `json:"op"` // atom | not (NOT (x)) | notbare (NOT x) | and | or
	A  *Atom  `json:"a,omitempty"`
	L  *Cond  `json:"l,omitempty"`
	R  *Cond  `json:"r,omitempty"`
}

func atomC(a Atom) *Cond { return &Cond{Op: "atom", A: &a} }

var flip = map[string]string{"=": "=", "<>": "<>", "<": ">", "<=": ">=", ">": "<", ">=": "<="}

// normOp is the operator as seen from the column: `5 > id` is "<".
func (a *Atom) normOp() string {
	switch a.Kind {
	case "cmp":
		if a.Rev {
			return flip[a.Op]
		}
		return a.Op
	case "in":
		if a.Not {
			return "NOT IN"
		}
		return "IN"
	case "between":
		if a.Not {
			return "NOT BETWEEN"
		}
		return "BETWEEN"
	}
	if a.Not {
		return "IS NOT NULL"
	}
	return "IS NULL"
}

func (a *Atom) render(keyCol, kCol string) string {
	col := keyCol
	if a.Col == "k" {
		col = kCol
	}
	switch a.Kind {
	case "cmp":
		if a.Rev {
			return a.Lits[0] + " " + a.Op + " " + col
		}
		return col + " " + a.Op + " " + a.Lits[0]
	case "in":
		s := col
		if a.Not {
			s += " NOT"
		}
		return s + " IN (" + strings.Join(a.Lits, ", ") + ")"
	case "between":
		s := col
		if a.Not {
			s += " NOT"
		}
		return s + " BETWEEN " + a.Lits[0] + " AND " + a.Lits[1]
	}
	if a.Not {
		return col + " IS NOT NULL"
	}
	return col + " IS NULL"
}

func (c *Cond) render(keyCol, kCol string) string {
	sub := func(x *Cond) string {
		s := x.render(keyCol, kCol)
		if x.Op == "and" || x.Op == "or" {
			return "(" + s + ")"
		}
		return s
	}
	switch c.Op {
	case "atom":
		return c.A.render(keyCol, kCol)
	case "not":
		return "NOT (" + c.L.render(keyCol, kCol) + ")"
	case "notbare":
		return "NOT " + c.L.render(keyCol, kCol)
	case "and":
		return sub(c.L) + " AND " + sub(c.R)
	}
	return sub(c.L) + " OR " + sub(c.R)
}

func (c *Cond) atoms(out []*Atom) []*Atom {
	if c == nil {
		return out
	}
	if c.Op == "atom" {
		return append(out, c.A)
	}
	return c.R.atoms(c.L.atoms(out))
}

func (c *Cond) shape() string {
	switch c.Op {
	case "atom":
		return c.A.normOp()
	case "not", "notbare":
		return "NOT(" + c.L.shape() + ")"
	}
	return strings.ToUpper(c.Op) + "(" + c.L.shape() + "," + c.R.shape() + ")"
}

var cmpOps = []string{"=", "<>", "<", "<=", ">", ">="}

func (u *universe) less(a, b *Val) bool {
	c, _ := planrig.DatetimeCompare(a.Key, b.Key)
	return c < 0
}

func (u *universe) between(i, j int, not bool) Atom {
	return Atom{Col: "key", Kind: "between", Not: not, Lits: []string{u.vals[i].SQL, u.vals[j].SQL},
		Reversed: u.less(&u.vals[j], &u.vals[i])}
}

func kAtoms() []Atom {
	return []Atom{
		{Col: "k", Kind: "cmp", Op: "=", Lits: []string{"1"}},
		{Col: "k", Kind: "isnull"},
		{Col: "k", Kind: "cmp", Op: "<>", Lits: []string{"1"}},
		{Col: "k", Kind: "cmp", Op: "<", Lits: []string{"2"}},
		{Col: "k", Kind: "in", Lits: []string{"1", "2"}},
		{Col: "k", Kind: "between", Lits: []string{"1", "1"}},
		{Col: "k", Kind: "isnull", Not: true},
	}
}

// level1 = every single atom over the whole universe (plain), then the NOT-wrapped ones.
func level1(u *universe, narrow bool) (plain, negated, bare []*Cond) {
	n := len(u.vals)
	var cmp []*Cond
	for _, op := range cmpOps {
		for _, rev := range []bool{false, true} {
			for i := range u.vals {
				cmp = append(cmp, atomC(Atom{Col: "key", Kind: "cmp", Op: op, Rev: rev, Lits: []string{u.vals[i].SQL}}))
			}
		}
	}
	plain = append(plain, cmp...)
	var ins, nins, btw []*Cond
	for i := range u.vals {
		ins = append(ins, atomC(Atom{Col: "key", Kind: "in", Lits: []string{u.vals[i].SQL}}))
	}
	for i := 0; i+1 < n; i++ {
		ins = append(ins, atomC(Atom{Col: "key", Kind: "in", Lits: []string{u.vals[i+1].SQL, u.vals[i].SQL}}))
	}
	nNeg := len(ins)
	for i := 0; i < n; i++ {
		for j := i + 1; j < n; j++ {
			ins = append(ins, atomC(Atom{Col: "key", Kind: "in", Lits: []string{u.vals[i].SQL, u.vals[j].SQL}}))
		}
	}
	if n >= 3 {
		ins = append(ins, atomC(Atom{Col: "key", Kind: "in", Lits: []string{u.vals[0].SQL, u.vals[n/2].SQL, u.vals[n-1].SQL}}))
		ins = append(ins, atomC(Atom{Col: "key", Kind: "in", Lits: []string{u.vals[1].SQL, "NULL"}}))
	}
	plain = append(plain, ins...)
	for i := range u.vals {
		nins = append(nins, atomC(Atom{Col: "key", Kind: "in", Not: true, Lits: []string{u.vals[i].SQL}}))
	}
	for i := 0; i+1 < n; i++ {
		nins = append(nins, atomC(Atom{Col: "key", Kind: "in", Not: true, Lits: []string{u.vals[i].SQL, u.vals[i+1].SQL}}))
	}
	plain = append(plain, nins...)
	var btwNear []*Cond
	for _, not := range []bool{false, true} {
		for i := 0; i < n; i++ {
			for j := 0; j < n; j++ {
				c := atomC(u.between(i, j, not))
				near := i-j >= -1 && i-j <= 1
				if near || !narrow {
					btw = append(btw, c)
				}
				if near {
					btwNear = append(btwNear, c)
				}
			}
		}
	}
	plain = append(plain, btw...)
	for _, a := range kAtoms() {
		plain = append(plain, atomC(a))
	}
	plain = append(plain, atomC(Atom{Col: "key", Kind: "isnull"}), atomC(Atom{Col: "key", Kind: "isnull", Not: true}),
		atomC(Atom{Col: "key", Kind: "cmp", Op: "=", Lits: []string{"NULL"}}),
		atomC(Atom{Col: "key", Kind: "cmp", Op: "<>", Lits: []string{"NULL"}}))
	for _, group := range [][]*Cond{cmp, ins[:nNeg], nins[:n], btwNear} {
		for _, c := range group {
			negated = append(negated, &Cond{Op: "not", L: c})
		}
	}
	for _, c := range cmp {
		bare = append(bare, &Cond{Op: "notbare", L: c})
	}
	return
}

// reduced picks ≤3 literals (a boundary, a mid value one table up, a late value) and the
// atom set used inside two- and three-atom trees.
func reduced(u *universe, small bool) []*Cond {
	var P []int // storable values, in universe order
	rank := map[int]int{}
	var tabs []int
	for i := range u.vals {
		if u.vals[i].Idx >= 0 {
			P = append(P, i)
			if _, ok := rank[u.vals[i].Idx]; !ok {
				rank[u.vals[i].Idx] = 0
				tabs = append(tabs, u.vals[i].Idx)
			}
		}
	}
	sort.Ints(tabs)
	for r, t := range tabs {
		rank[t] = r
	}
	find := func(minRank int, classes ...string) int {
		for _, i := range P {
			v := &u.vals[i]
			if rank[v.Idx] < minRank {
				continue
			}
			for _, c := range classes {
				if v.Class == c {
					return i
				}
			}
		}
		return -1
	}
	first := func(xs ...int) int {
		for _, x := range xs {
			if x >= 0 {
				return x
			}
		}
		return -1
	}
	p0 := first(find(1, "start", "period_start"), find(0, "start", "period_start", "first_start"), P[0])
	p1 := first(find(2, "mid", "mid_period"), find(1, "mid", "mid_period"), find(0, "mid", "mid_period"), P[len(P)/2])
	p2 := P[len(P)-1]
	used := map[int]bool{}
	var pick []int
	for _, x := range []int{p0, p1, p2} {
		if !used[x] {
			used[x] = true
			pick = append(pick, x)
		}
	}
	for _, i := range P { // fill up
		if len(pick) >= 3 {
			break
		}
		if !used[i] {
			used[i] = true
			pick = append(pick, i)
		}
	}
	sort.Ints(pick)
	var out []*Cond
	lit := func(i int) string { return u.vals[pick[i%len(pick)]].SQL }
	ops := cmpOps
	if small {
		ops = []string{"=", "<", ">="}
	}
	for _, op := range ops {
		for i := range pick {
			if small && i == 2 {
				continue
			}
			out = append(out, atomC(Atom{Col: "key", Kind: "cmp", Op: op, Lits: []string{lit(i)}}))
		}
	}
	out = append(out, atomC(Atom{Col: "key", Kind: "cmp", Op: ">", Rev: true, Lits: []string{lit(1)}}))
	if !small {
		out = append(out, atomC(Atom{Col: "key", Kind: "cmp", Op: "<=", Rev: true, Lits: []string{lit(0)}}))
		out = append(out, atomC(Atom{Col: "key", Kind: "in", Lits: []string{lit(0)}}))
	}
	out = append(out, atomC(Atom{Col: "key", Kind: "in", Lits: []string{lit(0), lit(2)}}))
	if !small {
		out = append(out, atomC(Atom{Col: "key", Kind: "in", Not: true, Lits: []string{lit(1)}}))
	}
	pairs := [][2]int{{0, 1}, {1, 2}, {2, 0}}
	if small {
		pairs = [][2]int{{0, 1}}
	}
	for _, not := range []bool{false, true} {
		for _, p := range pairs {
			out = append(out, atomC(u.between(pick[p[0]%len(pick)], pick[p[1]%len(pick)], not)))
		}
	}
	ks := kAtoms()[:3]
	if small {
		ks = ks[:1]
	}
	for _, a := range ks {
		out = append(out, atomC(a))
	}
	// de-duplicate by text (tiny universes repeat picks)
	seen := map[string]bool{}
	var ded []*Cond
	for _, c := range out {
		t := c.render("key", "k")
		if !seen[t] {
			seen[t] = true
			ded = append(ded, c)
		}
	}
	return ded
}

// level2 = a ∘ b over the reduced atoms; notMode 0: plain, 1: NOT (a) ∘ b, 2: a ∘ NOT (b), 3: NOT (a ∘ b).
func level2(atoms []*Cond, notMode int) []*Cond {
	var out []*Cond
	for _, op := range []string{"and", "or"} {
		for _, a := range atoms {
			for _, b := range atoms {
				l, r := a, b
				switch notMode {
				case 1:
					l = &Cond{Op: "not", L: a}
				case 2:
					r = &Cond{Op: "not", L: b}
				}
				c := &Cond{Op: op, L: l, R: r}
				if notMode == 3 {
					c = &Cond{Op: "not", L: c}
				}
				out = append(out, c)
			}
		}
	}
	return out
}

// level3 = three atoms in every AND/OR bracketing (thorough tier).
func level3(atoms []*Cond) []*Cond {
	var out []*Cond
	for _, a := range atoms {
		for _, b := range atoms {
			for _, c := range atoms {
				for _, o1 := range []string{"and", "or"} {
					for _, o2 := range []string{"and", "or"} {
						out = append(out, &Cond{Op: o2, L: &Cond{Op: o1, L: a, R: b}, R: c}) // (a o1 b) o2 c
						if o1 != o2 {
							out = append(out, &Cond{Op: o1, L: a, R: &Cond{Op: o2, L: b, R: c}}) // a o1 (b o2 c)
						}
					}
				}
			}
		}
	}
	return out
}

// ---------------------------------------------------------------- statement forms

var forms = []string{"select", "update", "delete", "join_where", "join_on", "join_global"}

func renderSQL(form, key string, c *Cond) string {
	switch form {
	case "select":
		return "SELECT * FROM t WHERE " + c.render(key, "k")
	case "update":
		return "UPDATE t SET v = 7 WHERE " + c.render(key, "k")
	case "delete":
		return "DELETE FROM t WHERE " + c.render(key, "k")
	case "join_where": // the linked table's column carries the condition
		return "SELECT * FROM t JOIN t2 ON t." + key + " = t2." + key + " WHERE " + c.render("t2."+key, "t.k")
	case "join_on":
		s := c.render("t."+key, "t.k")
		if c.Op == "or" {
			s = "(" + s + ")"
		}
		return "SELECT * FROM t JOIN t2 ON t." + key + " = t2." + key + " AND " + s
	case "join_global":
		return "SELECT * FROM t JOIN g ON t.k = g.id WHERE " + c.render("t."+key, "t.k")
	}
	panic("form " + form)
}

// ---------------------------------------------------------------- the check

type Case struct {
	Layout planrig.Layout `json:"layout"`
	Mode   string         `json:"mode"`
	Form   string         `json:"form"`
	Cond   *Cond          `json:"cond"`
	SQL    string         `json:"sql"`
}

type outcome struct {
	rejected  string
	route     []int
	needRow   map[int]int // table -> first TRUE row that lives there (value index*3 + k index)
	missing   []int       // needed tables absent from the route (or present on the wrong slice/db)
	misplaced bool
	trueRows  int
	rows      int
	sig       string // plan signature (history family only)
}

type worker struct {
	rig     *planrig.Rig
	u       *universe
	l       planrig.Layout
	all     []int
	cache   map[string]*outcome
	nRun    int
	pos     map[int]int // table index -> position in all
	wantSig bool
}

func (w *worker) rowText(code int) string {
	ks := "NULL"
	if kv := kVals[code%3]; kv != nil {
		ks = fmt.Sprint(kv)
	}
	return fmt.Sprintf("(%s=%s, k=%s)", w.l.Key(), w.u.vals[code/3].SQL, ks)
}

var kVals = []interface{}{nil, int64(1), int64(2)}

func newWorker(l planrig.Layout, mode string) *worker {
	rig, err := planrig.New(l)
	if err != nil {
		ev.Fatalf("layout %v: %v", l, err)
	}
	w := &worker{rig: rig, u: buildUniverse(rig, mode), l: l, all: rig.Tables(), cache: map[string]*outcome{}, pos: map[int]int{}}
	for i, t := range w.all {
		w.pos[t] = i
	}
	return w
}

func (w *worker) run(form string, c *Cond) *outcome {
	sql := renderSQL(form, w.l.Key(), c)
	return w.runSQL(sql)
}

func (w *worker) runSQL(sql string) *outcome {
	o := &outcome{needRow: map[int]int{}}
	w.nRun++
	stmt, err := w.rig.Parse(sql)
	if err != nil {
		ev.Fatalf("generated statement does not parse: %s: %v", sql, err)
	}
	conds, err := planrig.Conditions(stmt)
	if err != nil {
		ev.Fatalf("%s: %v", sql, err)
	}
	// reference evaluation on the pristine AST (BuildPlan rewrites it)
	key := w.l.Key()
	var x, k interface{}
	env := planrig.Env{Column: func(table, col string) (interface{}, bool) {
		switch {
		case col == key && (table == "" || table == "t" || table == "t2"):
			return x, true
		case col == "k" && (table == "" || table == "t"):
			return k, true
		case col == "id" && table == "g":
			return k, true
		}
		return nil, false
	}}
	twoSem := w.u.mode == "str" && w.l.IsDate()
	cc, err := planrig.Compile(conds)
	if err != nil {
		ev.Fatalf("%s: %v", sql, err)
	}
	cross := w.nRun%211 == 1 // self-check of the compiled evaluator against the AST walker
	for i := range w.u.vals {
		v := &w.u.vals[i]
		if v.Idx < 0 {
			continue
		}
		x = v.Key
		for ki, kv := range kVals {
			k = kv
			o.rows++
			env.Compare = planrig.DatetimeCompare
			t, err := cc.Eval(&env)
			if err != nil {
				ev.Fatalf("reference evaluation of %s: %v", sql, err)
			}
			if cross {
				if t2, err2 := planrig.EvalAll(conds, &env); err2 != nil || t2 != t {
					ev.Fatalf("compiled and direct evaluation disagree on %s: %v / %v %v", sql, t, t2, err2)
				}
			}
			if t == planrig.True && twoSem { // must also hold if the column were a string column
				env.Compare = planrig.BytewiseCompare
				t, err = cc.Eval(&env)
				if err != nil {
					ev.Fatalf("reference evaluation of %s: %v", sql, err)
				}
			}
			if t != planrig.True {
				continue
			}
			o.trueRows++
			if _, ok := o.needRow[v.Idx]; !ok {
				o.needRow[v.Idx] = i*3 + ki
			}
		}
	}
	p, err := w.rig.PlanStmt(planrig.DB, sql, stmt)
	if err != nil {
		o.rejected = err.Error()
		o.sig = "ERR: " + o.rejected
		return o
	}
	rt, err := w.rig.RouteOf(p)
	if err != nil {
		o.rejected = err.Error()
		o.sig = "ERR: " + o.rejected
		return o
	}
	if w.wantSig {
		o.sig = rt.Signature()
	}
	o.route = rt.Indexes()
	for idx := range o.needRow {
		if !w.rig.HasAtHome(rt, idx) {
			o.missing = append(o.missing, idx)
			if rt.Has(idx) {
				o.misplaced = true
			}
		}
	}
	sort.Ints(o.missing)
	return o
}

func (w *worker) runCached(form string, c *Cond) *outcome {
	sql := renderSQL(form, w.l.Key(), c)
	if o, ok := w.cache[sql]; ok {
		return o
	}
	o := w.runSQL(sql)
	w.cache[sql] = o
	return o
}

// litClass describes the literal(s) of an atom relative to the rule's boundaries.
func (w *worker) litClass(a *Atom) (class, spell string) {
	cl := func(s string) (string, string) {
		if i, ok := w.u.byText[s]; ok && a.Col == "key" {
			return w.u.vals[i].Class, w.u.vals[i].Spell
		}
		return "other", "other"
	}
	switch a.Kind {
	case "cmp":
		return cl(a.Lits[0])
	case "between":
		c0, sp := cl(a.Lits[0])
		c1, _ := cl(a.Lits[1])
		if a.Reversed {
			return "reversed", sp
		}
		return c0 + "/" + c1, sp
	case "in":
		set := map[string]bool{}
		sp := ""
		for _, l := range a.Lits {
			c, s := cl(l)
			set[c] = true
			sp = s
		}
		var cs []string
		for c := range set {
			cs = append(cs, c)
		}
		sort.Strings(cs)
		return strings.Join(cs, ","), sp
	}
	return "none", "none"
}

// missingRel names the missing table relative to the atom's literal(s).
func (w *worker) missingRel(a *Atom, m int) string {
	raw := func(s string) int {
		if i, ok := w.u.byText[s]; ok {
			return w.u.vals[i].Raw
		}
		return -1
	}
	if a.Col != "key" {
		return "n/a"
	}
	switch a.Kind {
	case "cmp":
		li := raw(a.Lits[0])
		switch {
		case li < 0:
			return "n/a"
		case m == li:
			return "own"
		case m < li:
			return "below"
		}
		return "above"
	case "between":
		l0, l1 := raw(a.Lits[0]), raw(a.Lits[1])
		if l0 < 0 || l1 < 0 {
			return "n/a"
		}
		lo, hi := l0, l1
		if lo > hi {
			lo, hi = hi, lo
		}
		switch {
		case m == l0:
			return "own_first"
		case m == l1:
			return "own_second"
		case m > lo && m < hi:
			return "between"
		case m < lo:
			return "below"
		}
		return "above"
	case "in":
		for _, l := range a.Lits {
			if raw(l) == m {
				return "own"
			}
		}
		return "other"
	}
	return "n/a"
}

// report classifies a failing case. The enumeration is ordered simplest-first, and a
// failing tree is first re-checked part by part (same layout, same statement form): if a
// smaller part fails on its own the violation is attributed to that part, so a signature
// always describes the smallest failing condition.
func (w *worker) report(r *ev.Run, mode, form string, c *Cond, o *outcome) {
	min, mo := w.minimise(form, c, o)
	base := map[string]string{"rule": w.l.Rule, "stmt": form, "mode": mode}
	for _, m := range mo.missing {
		f := map[string]string{}
		for k, v := range base {
			f[k] = v
		}
		f["kind"] = "missing_table"
		if mo.misplaced {
			f["kind"] = "wrong_slice_or_db"
		}
		core := min
		f["not"] = "0"
		if (core.Op == "not" || core.Op == "notbare") && core.L.Op == "atom" {
			f["not"] = "1"
			core = core.L
		}
		if core.Op == "atom" {
			f["op"] = core.A.normOp()
			f["col"] = core.A.Col
			f["litclass"], f["spell"] = w.litClass(core.A)
			f["missing"] = w.missingRel(core.A, m)
		} else {
			f["op"] = core.shape()
			f["col"] = "-"
			f["litclass"], f["spell"], f["missing"] = "compound", "-", "n/a"
			f["kind"] = "compound_" + f["kind"]
		}
		sql := renderSQL(form, w.l.Key(), min)
		if debugSigs != nil {
			key := fmt.Sprintf("rule=%s op=%s not=%s litclass=%s missing=%s kind=%s", f["rule"], f["op"], f["not"], f["litclass"], f["missing"], f["kind"])
			debugMu.Lock()
			debugSigs[key]++
			if _, ok := debugEx[key]; !ok {
				debugEx[key] = fmt.Sprintf("%s: %s route=%v missing=%d", w.l, sql, mo.route, m)
			}
			debugMu.Unlock()
		}
		r.Violation(ev.Witness{
			Summary:  fmt.Sprintf("%s: %s  → route %v misses table %d which holds the matching row %s", w.l, sql, mo.route, m, w.rowText(mo.needRow[m])),
			Features: f,
			Case:     Case{Layout: w.l, Mode: mode, Form: form, Cond: min, SQL: sql},
		})
	}
}

func (w *worker) minimise(form string, c *Cond, o *outcome) (*Cond, *outcome) {
	if c.Op == "atom" {
		return c, o
	}
	var parts []*Cond
	switch c.Op {
	case "not", "notbare":
		parts = []*Cond{c.L}
	default:
		parts = []*Cond{c.L, c.R}
	}
	for _, p := range parts {
		po := w.runCached(form, p)
		if po.rejected == "" && len(po.missing) > 0 {
			return w.minimise(form, p, po)
		}
	}
	// no direct part fails alone; try the atoms (a NOT-wrapped part may hide one)
	for _, a := range c.atoms(nil) {
		ac := &Cond{Op: "atom", A: a}
		ao := w.runCached(form, ac)
		if ao.rejected == "" && len(ao.missing) > 0 {
			return ac, ao
		}
	}
	return c, o
}

// ---------------------------------------------------------------- driver

// C01_DEBUG=1 prints every distinct violation signature with a count and an example.
var (
	debugSigs map[string]int
	debugEx   = map[string]string{}
	debugMu   sync.Mutex
)

type task struct {
	l      planrig.Layout
	mode   string
	form   string
	gen    string // l1 | l1not | l1bare | l2n0..l2n3 | l3
	sample bool
}

type stats struct {
	evals, rejected, nontrivial, rowsChecked, trueRows, needTables, emptyRoutes int64
}

func layouts(r *ev.Run) (all, deep []planrig.Layout) {
	shapes := [][2]int{{1, 2}, {2, 1}, {2, 2}, {3, 1}, {1, 4}, {4, 1}}
	deepShapes := map[[2]int]bool{{2, 2}: true, {3, 1}: true}
	if r.Thorough() {
		shapes = nil
		for s := 1; s <= 4; s++ {
			for t := 1; t <= 4; t++ {
				if s*t > 1 {
					shapes = append(shapes, [2]int{s, t})
				}
			}
		}
		deepShapes = map[[2]int]bool{{1, 2}: true, {2, 1}: true, {2, 2}: true, {3, 1}: true, {1, 4}: true, {4, 1}: true, {2, 3}: true, {4, 4}: true}
	}
	for _, rule := range planrig.ShardRuleTypes {
		for _, s := range shapes {
			l := planrig.Layout{Rule: rule, Slices: s[0], TablesPerSlice: s[1]}
			all = append(all, l)
			if deepShapes[s] {
				deep = append(deep, l)
			}
			if l.IsDate() && s[0] > 1 && deepShapes[s] { // periods left unconfigured between the slices
				g := planrig.Layout{Rule: rule, Slices: s[0], TablesPerSlice: s[1], Params: map[string]string{"date_gap": "1"}}
				all = append(all, g)
				deep = append(deep, g)
			}
		}
	}
	return
}

func conds(u *universe, gen string) []*Cond {
	switch gen {
	case "l1", "l1narrow":
		p, _, _ := level1(u, gen == "l1narrow")
		return p
	case "l1not":
		_, n, _ := level1(u, false)
		return n
	case "l1bare":
		_, _, b := level1(u, false)
		return b
	case "l2n0", "l2n1", "l2n2", "l2n3", "l2s0", "l2s1", "l2s2", "l2s3":
		return level2(reduced(u, gen[2] == 's'), int(gen[3]-'0'))
	case "l3":
		return level3(reduced(u, true))
	}
	panic(gen)
}

func runTask(r *ev.Run, t task, st *stats, routes map[string]struct{}) {
	w := newWorker(t.l, t.mode)
	cs := conds(w.u, t.gen)
	sampled := 0
	masks := map[int]struct{}{}
	defer func() {
		for m := range masks {
			routes[fmt.Sprintf("%s|%b", t.l.String(), m)] = struct{}{}
		}
	}()
	for _, c := range cs {
		if r.TimeUp() {
			return
		}
		o := w.run(t.form, c)
		st.evals++
		st.rowsChecked += int64(o.rows)
		st.trueRows += int64(o.trueRows)
		if o.rejected != "" {
			st.rejected++
			continue
		}
		st.needTables += int64(len(o.needRow))
		if len(o.route) == 0 {
			st.emptyRoutes++
		}
		mask := 0
		for _, ti := range o.route {
			mask |= 1 << uint(w.pos[ti])
		}
		masks[mask] = struct{}{}
		pruned := len(o.route) < len(w.all)
		if pruned && len(o.needRow) > 0 {
			st.nontrivial++
			if t.sample && sampled < 2 && len(o.route) > 0 && st.nontrivial%97 == 1 {
				sampled++
				sql := renderSQL(t.form, t.l.Key(), c)
				var need []int
				for i := range o.needRow {
					need = append(need, i)
				}
				sort.Ints(need)
				r.Sample(map[string]interface{}{"layout": t.l.String(), "mode": t.mode, "sql": sql,
					"tables": w.all, "route": o.route, "tables_holding_matching_rows": need, "rows_evaluated": o.rows})
			}
		}
		if len(o.missing) > 0 {
			// the worker's router has planned every earlier case of this task: decide on a
			// fresh router whether the statement itself is mis-routed or an earlier plan left
			// something behind in the shared rule objects
			fw := newWorker(t.l, t.mode)
			if fo := fw.run(t.form, c); fo.rejected == "" && len(fo.missing) > 0 {
				fw.report(r, t.mode, t.form, c, fo)
			} else {
				sql := renderSQL(t.form, t.l.Key(), c)
				r.Violation(ev.Witness{
					Summary: fmt.Sprintf("%s: %s → route %v misses table %d (row %s) — only on the router that had planned the earlier cases of this enumeration task; on a fresh router the route is correct, so an earlier plan changed shared router state (see the history family for a minimal history)", t.l, sql, o.route, o.missing[0], w.rowText(o.needRow[o.missing[0]])),
					Features: map[string]string{"kind": "missing_table_after_history", "rule": t.l.Rule, "mode": t.mode, "hist": "enumeration_order", "stmt": t.form,
						"op": "-", "not": "-", "col": "-", "litclass": "-", "missing": "-", "spell": "-"},
					Case: Case{Layout: t.l, Mode: t.mode, Form: t.form, Cond: c, SQL: sql},
				})
			}
		}
	}
}

func main() {
	gx.Quiet()
	time.Local = time.UTC // unix-timestamp keys of the calendar rules are interpreted in the local zone
	r := ev.Start("C01", "exploration")
	r.Assume("reference = three-valued evaluation (planrig.Eval) of the WHERE/ON conditions on the AST produced by Gaea's own parser; column and literal types are equal (int/int, string/string), strings are lower-case ASCII or 'YYYY-MM-DD[ hh:mm:ss]'")
	r.Assume("a calendar-sharded column may be DATETIME or a string column: a row only counts as matching when it matches under datetime AND bytewise string comparison")
	r.Assume("placement of a row = the rule's own Rule.FindTableIndex on a configured table (checked against Mycat / the configured intervals by C08 / C09); process time zone is UTC for unix-timestamp keys")
	r.Assume("slice / database of a table are derived from the layout the rig wrote, independently of the router; a statement rejected by BuildPlan (error or recovered panic) is accepted")

	var probe struct {
		Family string `json:"family"`
	}
	if r.ReplayCase(&probe) && probe.Family == "history" {
		var hc HistCase
		r.ReplayCase(&hc)
		hb := newWorker(hc.Layout, hc.Mode)
		_, _, fresh := histPlan(hb, nil, hc.Stmt)
		bad := checkHistory(r, hb, hc.Mode, hc.Hist, hc.Stmt, fresh, false)
		fmt.Printf("replay (history): %d statement(s), then %q: violation=%v\n", len(hc.Hist), hc.Stmt.SQL, bad)
		r.Set("evaluations", 1)
		r.Finish()
	}
	var c Case
	if r.ReplayCase(&c) {
		w := newWorker(c.Layout, c.Mode)
		o := w.run(c.Form, c.Cond)
		fmt.Printf("replay: %s\n  rejected=%q route=%v tables_needed=%d missing=%v\n", renderSQL(c.Form, c.Layout.Key(), c.Cond), o.rejected, o.route, len(o.needRow), o.missing)
		r.Set("evaluations", 1)
		if o.rejected == "" && len(o.missing) > 0 {
			w.report(r, c.Mode, c.Form, c.Cond, o)
		}
		r.Finish()
	}

	if os.Getenv("C01_DEBUG") != "" {
		debugSigs = map[string]int{}
	}
	all, deep := layouts(r)
	var tasks []task
	quick := r.Quick()
	isDeep := map[string]bool{}
	for _, l := range deep {
		isDeep[l.String()] = true
	}
	sampleLeft := map[string]int{}
	for _, l := range all {
		hashLike := !l.IsDate() && l.Rule != "range" // only = and IN prune: BETWEEN far off the diagonal adds nothing
		for mi, mode := range modesOf(l) {
			second := mi == 1 // unix keys of calendar rules, string keys of hash-like rules
			if quick && second && l.IsDate() && !isDeep[l.String()] {
				continue
			}
			fs := forms
			if quick && second && hashLike {
				fs = []string{"select", "join_on"}
			}
			g1 := "l1"
			if quick && hashLike {
				g1 = "l1narrow"
			}
			for _, form := range fs {
				smp := false
				if sampleLeft[l.Rule+form] == 0 && mi == 0 && (l.Rule == "range" && form == "select" || l.Rule == "date_month" && form == "join_on" || l.Rule == "mycat_long" && form == "delete" || l.Rule == "hash" && form == "update") && l.Slices == 2 && l.TablesPerSlice == 2 {
					sampleLeft[l.Rule+form] = 1
					smp = true
				}
				tasks = append(tasks, task{l: l, mode: mode, form: form, gen: g1, sample: smp})
			}
			for _, form := range []string{"select", "update", "join_on"} {
				tasks = append(tasks, task{l: l, mode: mode, form: form, gen: "l1not"})
			}
			tasks = append(tasks, task{l: l, mode: mode, form: "select", gen: "l1bare"})
		}
	}
	for _, l := range deep {
		hashLike := !l.IsDate() && l.Rule != "range"
		for mi, mode := range modesOf(l) {
			if quick && l.IsDate() { // string keys on three layouts, unix keys on the fourth
				wantUnix := l.Slices == 3 && len(l.Params) > 0
				if (mi == 1) != wantUnix {
					continue
				}
			}
			fam := "l2n"
			if quick && hashLike {
				fam = "l2s"
			}
			for _, form := range forms[:5] {
				gens := []string{fam + "0"}
				if form == "select" || !quick {
					gens = []string{fam + "0", fam + "1", fam + "2", fam + "3"}
				}
				for _, g := range gens {
					tasks = append(tasks, task{l: l, mode: mode, form: form, gen: g, sample: g == "l2n0" && form == "select" && l.Rule == "date_year" && mode == "str" && len(l.Params) == 0 && l.Slices == 2})
				}
			}
			if !quick {
				tasks = append(tasks, task{l: l, mode: mode, form: "select", gen: "l3"})
				tasks = append(tasks, task{l: l, mode: mode, form: "join_where", gen: "l3"})
			}
		}
	}

	// history family: S after 1-2 other statements on the same router (see history.go)
	type histTask struct {
		l    planrig.Layout
		mode string
		si   int
	}
	var histTasks []histTask
	for _, rule := range planrig.ShardRuleTypes {
		l := planrig.Layout{Rule: rule, Slices: 2, TablesPerSlice: 2}
		var hp map[string]string
		if rule == "mycat_murmur" { // building the 160-fold consistent-hash ring dominates a fresh router
			hp = map[string]string{"virtual_bucket_times": "8"}
			l.Params = hp
		}
		shapes := []planrig.Layout{l}
		if !quick {
			shapes = append(shapes, planrig.Layout{Rule: rule, Slices: 3, TablesPerSlice: 1, Params: hp}, planrig.Layout{Rule: rule, Slices: 1, TablesPerSlice: 4, Params: hp})
		}
		for _, hl := range shapes {
			modes := modesOf(hl)
			if quick {
				modes = modes[:1]
			}
			for _, mode := range modes {
				n := len(histStatements(newWorker(hl, mode)))
				for si := 0; si < n; si++ {
					histTasks = append(histTasks, histTask{hl, mode, si})
				}
			}
		}
	}

	switch os.Getenv("C01_FAMILY") { // development aid: run one family only (evidence then says so)
	case "history":
		tasks = nil
		r.Capped("C01_FAMILY=history: pristine-instance families skipped")
	case "pristine":
		histTasks = nil
		r.Capped("C01_FAMILY=pristine: history family skipped")
	}

	var mu sync.Mutex
	var total stats
	var htotal histStats
	routes := map[string]struct{}{}
	var done int64
	n := enum.Parallel(len(tasks)+len(histTasks), r.TimeUp, func(i int) {
		if i >= len(tasks) {
			ht := histTasks[i-len(tasks)]
			var hs histStats
			runHistory(r, ht.l, ht.mode, ht.si, &hs)
			mu.Lock()
			htotal.histories += hs.histories
			htotal.plans += hs.plans
			htotal.cond += hs.cond
			htotal.diffOnly += hs.diffOnly
			mu.Unlock()
			return
		}
		var st stats
		local := map[string]struct{}{}
		runTask(r, tasks[i], &st, local)
		atomic.AddInt64(&done, 1)
		mu.Lock()
		total.evals += st.evals
		total.rejected += st.rejected
		total.nontrivial += st.nontrivial
		total.rowsChecked += st.rowsChecked
		total.trueRows += st.trueRows
		total.needTables += st.needTables
		total.emptyRoutes += st.emptyRoutes
		for k := range local {
			routes[k] = struct{}{}
		}
		mu.Unlock()
	})
	if n < len(tasks)+len(histTasks) || r.TimeUp() {
		r.Capped(fmt.Sprintf("%d of %d (layout, type mode, statement form, tree family) tasks completed before the time budget", n, len(tasks)))
	}
	// non-vacuity: every prunable layout must have shown several different routes
	perLayout := map[string]int{}
	for k := range routes {
		perLayout[k[:strings.Index(k, "|")]]++
	}
	for _, l := range all {
		if perLayout[l.String()] < 3 && !r.TimeUp() && len(tasks) > 0 {
			ev.Fatalf("vacuous: layout %v produced only %d distinct routes", l, perLayout[l.String()])
		}
	}
	if debugSigs != nil {
		var ks []string
		for k := range debugSigs {
			ks = append(ks, k)
		}
		sort.Strings(ks)
		for _, k := range ks {
			fmt.Printf("SIG %6d  %s\n        e.g. %s\n", debugSigs[k], k, debugEx[k])
		}
	}
	r.Set("history_cases", htotal.histories)
	r.Set("history_plans", htotal.plans)
	r.Set("history_cases_with_inclusion_oracle", htotal.cond)
	r.Set("history_cases_differential_only", htotal.diffOnly)
	r.Set("history_rule", "history family: per rule type (2x2 layout; thorough also 3x1 and 1x4, both key modes) 30 representative statements (SELECT/UPDATE/DELETE/JOIN with = < >= IN NOT IN BETWEEN NOT BETWEEN OR AND; INSERT VALUES single/multi-row, INSERT SET, REPLACE, ON DUPLICATE, insert into the linked child; global SELECT/UPDATE/INSERT; unsharded SELECT/INSERT, other database); each statement S is planned on a fresh router after every one-statement prefix over the other 29 and every ordered two-statement prefix over a 11-statement alphabet; oracles: inclusion oracle for S and plan(S after H) == plan(S fresh)")
	r.Set("evaluations", total.evals+htotal.histories)
	r.Set("distinct_nontrivial", total.nontrivial)
	r.Set("rejected_statements", total.rejected)
	r.Set("rows_evaluated", total.rowsChecked)
	r.Set("rows_matching", total.trueRows)
	r.Set("table_inclusions_checked", total.needTables)
	r.Set("empty_routes", total.emptyRoutes)
	r.Set("distinct_routes", len(routes))
	r.Set("layouts", len(all))
	r.Set("layouts_with_two_atom_trees", len(deep))
	r.Set("tasks", len(tasks))
	r.Set("universe", fmt.Sprintf("%d layouts (%d rule types × slices×tables shapes, calendar rules also with unconfigured gaps) × type modes × %d statement forms × {all single atoms over the rule's boundary universe, NOT-wrapped atoms; on %d layouts all two-atom AND/OR trees over a reduced atom set with 0–1 NOT%s}", len(all), len(planrig.ShardRuleTypes), len(forms), len(deep), map[bool]string{true: "; all three-atom trees over a smaller atom set", false: ""}[r.Thorough()]))
	r.Set("rule", "every case = (layout, key type mode, statement form, condition tree), each distinct by construction (atoms are de-duplicated by text); enumerated simplest-first: single atoms, NOT atoms, two-atom trees. A case counts as non-trivial when the plan really pruned (route is a strict subset of the configured tables) AND at least one universe row satisfies the condition, i.e. the inclusion oracle was exercised against a pruned route")
	r.Finish()
}
