package main

// History family ("start from non-initial states"): every representative statement S is
// planned AFTER a prefix H of one or two OTHER statements on the SAME router / namespace
// objects, and must (a) still satisfy the inclusion oracle and (b) get exactly the plan it
// gets on a fresh instance. Planning is supposed to be a pure function of (configuration,
// session db, statement text); a plan that leaves something behind in the shared rule
// objects (the rule's sub-table index list, a cached route, …) mis-routes LATER statements
// and is invisible to the pristine-instance families.

import (
	"fmt"
	"strings"

	"verif/engine/ev"
	"verif/ref/planrig"
)

// HStmt is one statement of the history universe.
type HStmt struct {
	ID    string `json:"id"`
	SQL   string `json:"sql"`
	Class string `json:"class"` // cond: inclusion oracle applies | other: differential oracle only
	Prime bool   `json:"-"`     // member of the prefix alphabet for two-statement histories
	NoDet bool   `json:"-"`     // plan is legitimately random (SELECT on a global table only)
}

// HistCase is the replayable witness of the history family.
type HistCase struct {
	Layout planrig.Layout `json:"layout"`
	Mode   string         `json:"mode"`
	Hist   []HStmt        `json:"hist"`
	Stmt   HStmt          `json:"stmt"`
	Family string         `json:"family"` // "history"
}

// histPick chooses three storable literals on three different tables where possible: a = a
// boundary value NOT on the first table, b = a mid value one table further, c = a value on
// the last table; plus z on the first table.
func histPick(w *worker) (z, a, b, c *Val) {
	pos := func(v *Val) int { return w.pos[v.Idx] }
	var st []*Val
	for i := range w.u.vals {
		if w.u.vals[i].Idx >= 0 {
			st = append(st, &w.u.vals[i])
		}
	}
	find := func(p int, classes ...string) *Val {
		for _, cl := range classes {
			for _, v := range st {
				if pos(v) == p && v.Class == cl {
					return v
				}
			}
		}
		for _, v := range st {
			if pos(v) == p {
				return v
			}
		}
		return nil
	}
	n := len(w.all)
	z = find(0, "mid", "mid_period", "key", "numstr")
	a = find(1%n, "start", "period_start", "key", "numstr")
	b = find(2%n, "mid", "mid_period", "key", "numstr")
	c = find(n-1, "mid", "mid_period", "key", "numstr")
	for _, p := range []**Val{&z, &a, &b, &c} { // hash-like rules may leave a table without a universe key
		if *p == nil {
			*p = st[0]
		}
	}
	return
}

// histStatements: one representative per statement template × operator family for the
// layout, with literals on different tables (so that INSERTs route to a table that is not
// the rule's first, and NOT BETWEEN leaves tables strictly between its bounds).
func histStatements(w *worker) []HStmt {
	key := w.l.Key()
	z, a, b, c := histPick(w)
	A, B, C, Z := a.SQL, b.SQL, c.SQL, z.SQL
	f := func(s string) string {
		r := strings.NewReplacer("{key}", key, "{A}", A, "{B}", B, "{C}", C, "{Z}", Z)
		return r.Replace(s)
	}
	cond := func(id, sql string, prime bool) HStmt { return HStmt{ID: id, SQL: f(sql), Class: "cond", Prime: prime} }
	other := func(id, sql string, prime bool) HStmt {
		return HStmt{ID: id, SQL: f(sql), Class: "other", Prime: prime}
	}
	return []HStmt{
		cond("select_all", "SELECT * FROM t", false),
		cond("select_eq_first", "SELECT * FROM t WHERE {key} = {Z}", false),
		cond("select_eq", "SELECT * FROM t WHERE {key} = {B}", true),
		cond("select_lt", "SELECT * FROM t WHERE {key} < {B}", true),
		cond("select_ge", "SELECT * FROM t WHERE {key} >= {B}", false),
		cond("select_in", "SELECT * FROM t WHERE {key} IN ({C}, {A})", true),
		cond("select_not_in", "SELECT * FROM t WHERE {key} NOT IN ({A})", false),
		cond("select_between", "SELECT * FROM t WHERE {key} BETWEEN {A} AND {B}", false),
		cond("select_not_between", "SELECT * FROM t WHERE {key} NOT BETWEEN {Z} AND {C}", true),
		cond("select_or", "SELECT * FROM t WHERE {key} = {A} OR {key} = {C}", false),
		cond("select_and_k", "SELECT * FROM t WHERE {key} >= {A} AND k = 1", false),
		cond("update_eq", "UPDATE t SET v = 7 WHERE {key} = {C}", false),
		cond("update_not_between", "UPDATE t SET v = 7 WHERE {key} NOT BETWEEN {A} AND {C}", true),
		cond("delete_le", "DELETE FROM t WHERE {key} <= {A}", false),
		cond("delete_in", "DELETE FROM t WHERE {key} IN ({B})", false),
		cond("join_where_eq", "SELECT * FROM t JOIN t2 ON t.{key} = t2.{key} WHERE t2.{key} = {C}", false),
		cond("join_on_not_between", "SELECT * FROM t JOIN t2 ON t.{key} = t2.{key} AND t.{key} NOT BETWEEN {Z} AND {B}", false),
		cond("join_global_lt", "SELECT * FROM t JOIN g ON t.k = g.id WHERE t.{key} < {C}", false),
		other("insert_values", "INSERT INTO t ({key}, k) VALUES ({B}, 1)", true),
		other("insert_values_multi", "INSERT INTO t ({key}, k) VALUES ({C}, 1), ({A}, 2), ({B}, 3)", true),
		other("insert_set", "INSERT INTO t SET {key} = {A}, k = 1", false),
		other("replace_values", "REPLACE INTO t ({key}, k) VALUES ({C}, 1)", false),
		other("insert_child", "INSERT INTO t2 ({key}, w) VALUES ({B}, 1)", true),
		other("insert_ondup", "INSERT INTO t ({key}, k) VALUES ({A}, 1) ON DUPLICATE KEY UPDATE k = 2", false),
		{ID: "global_select", SQL: "SELECT * FROM g WHERE id = 1", Class: "other", Prime: true, NoDet: true},
		other("global_update", "UPDATE g SET name = 'x' WHERE id = 1", false),
		other("global_insert", "INSERT INTO g (id, name) VALUES (1, 'a')", true),
		other("unshard_select", "SELECT * FROM u WHERE id = 1", true),
		other("unshard_other_db", "SELECT * FROM db2.x WHERE id = 1", false),
		other("unshard_insert", "INSERT INTO u (id, k) VALUES (1, 1)", false),
	}
}

// histPlan plans S after H on a fresh worker; it returns the inclusion outcome (cond
// statements) and the plan signature.
func histPlan(base *worker, hist []HStmt, s HStmt) (*worker, *outcome, string) {
	// a fresh router with fresh rule objects; universe, table list and the (read-only)
	// namespace model are those of base
	rig, err := planrig.NewWith(base.l, base.rig.Namespace)
	if err != nil {
		ev.Fatalf("layout %v: %v", base.l, err)
	}
	w := &worker{rig: rig, u: base.u, l: base.l, all: base.all, pos: base.pos, cache: map[string]*outcome{}}
	for _, h := range hist {
		w.rig.Route(planrig.DB, h.SQL) // outcome irrelevant: only what it leaves behind matters
	}
	if s.Class == "cond" {
		w.wantSig = true
		o := w.runSQL(s.SQL)
		return w, o, o.sig
	}
	return w, nil, w.rig.RouteSignature(planrig.DB, s.SQL)
}

type histStats struct {
	histories, plans, cond, diffOnly int64
}

// runHistory checks every (H, S) with H over the other statements: all single-statement
// prefixes, and all ordered pairs over the prime alphabet.
func runHistory(r *ev.Run, l planrig.Layout, mode string, si int, hs *histStats) {
	w0 := newWorker(l, mode)
	stmts := histStatements(w0)
	s := stmts[si]
	if s.NoDet {
		return
	}
	_, _, fresh := histPlan(w0, nil, s)
	if _, _, again := histPlan(w0, nil, s); again != fresh {
		ev.Fatalf("history family: the plan of %q on two fresh instances differs (harness not deterministic)", s.SQL)
	}
	var hists [][]HStmt
	for i, h := range stmts {
		if i != si {
			hists = append(hists, []HStmt{h})
		}
	}
	for i, h1 := range stmts {
		for j, h2 := range stmts {
			if i != si && j != si && i != j && h1.Prime && h2.Prime {
				hists = append(hists, []HStmt{h1, h2})
			}
		}
	}
	for _, h := range hists {
		if r.TimeUp() {
			return
		}
		hs.histories++
		hs.plans += int64(len(h)) + 1
		if s.Class == "cond" {
			hs.cond++
		} else {
			hs.diffOnly++
		}
		checkHistory(r, w0, mode, h, s, fresh, true)
	}
	// the namespace model is shared by all "fresh" routers of this task: make sure no plan wrote to it
	if _, _, end := histPlan(newWorker(l, mode), nil, s); end != fresh {
		ev.Fatalf("history family: plan of %q on a rig built from scratch differs from the baseline", s.SQL)
	}
	if _, _, end := histPlan(w0, nil, s); end != fresh {
		r.Violation(ev.Witness{Summary: fmt.Sprintf("%s: planning statements changed the shared namespace MODEL: a fresh router built from it now plans %q differently", l, s.SQL),
			Features: map[string]string{"kind": "config_model_mutated", "rule": l.Rule, "mode": mode, "hist": "-", "stmt": s.ID,
				"op": "-", "not": "-", "col": "-", "litclass": "-", "missing": "-", "spell": "-"},
			Case: HistCase{Layout: l, Mode: mode, Stmt: s, Family: "history"}})
	}
}

// checkHistory evaluates one (H, S); on a violation it first tries the one-statement
// sub-histories so that the witness names the single culprit when there is one.
func checkHistory(r *ev.Run, base *worker, mode string, h []HStmt, s HStmt, fresh string, minimise bool) bool {
	l := base.l
	w, o, sig := histPlan(base, h, s)
	missing := o != nil && o.rejected == "" && len(o.missing) > 0
	if sig == fresh && !missing {
		return false
	}
	if minimise && len(h) > 1 {
		for _, one := range h {
			if checkHistory(r, base, mode, []HStmt{one}, s, fresh, false) {
				return true // reported with the shorter history
			}
		}
	}
	var ids []string
	for _, x := range h {
		ids = append(ids, x.ID)
	}
	kind := "plan_depends_on_history"
	detail := fmt.Sprintf("plan after the history:\n%s\nplan on a fresh instance:\n%s", sig, fresh)
	if missing {
		kind = "missing_table_after_history"
		detail = fmt.Sprintf("route %v misses table %d which holds the matching row %s (fresh instance: correct)", o.route, o.missing[0], w.rowText(o.needRow[o.missing[0]]))
	}
	var hsql []string
	for _, x := range h {
		hsql = append(hsql, x.SQL)
	}
	r.Violation(ev.Witness{
		Summary: fmt.Sprintf("%s: after planning [%s] on the same router, %q is planned differently — %s", l, strings.Join(hsql, " ; "), s.SQL, detail),
		Features: map[string]string{"kind": kind, "rule": l.Rule, "mode": mode, "hist": strings.Join(ids, ","), "stmt": s.ID,
			"op": "-", "not": "-", "col": "-", "litclass": "-", "missing": "-", "spell": "-"},
		Case: HistCase{Layout: l, Mode: mode, Hist: h, Stmt: s, Family: "history"},
	})
	return true
}
