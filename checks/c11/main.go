// C11: MySQL packets arrive intact and correctly sequenced.
//
// Engine: enum (bounded-exhaustive) on the real mysql.Conn over an in-memory net.Conn.
//
//	write side  payload (position-dependent bytes) x starting sequence id x writer
//	            (WritePacket direct | inside StartWriterBuffering/Flush | StartEphemeralPacket +
//	            WriteEphemeralPacket), followed by a small sentinel packet on the same Conn.
//	            The bytes that reached the transport are parsed by an independent peer
//	            (peerCheck, written from the protocol text): frames <= 2^24-1, a frame shorter
//	            than 2^24-1 ends the packet, sequence ids start, start+1, ... (mod 256), an
//	            empty frame after an exact multiple of 2^24-1, payload byte-for-byte, sentinel
//	            follows with the next id, nothing else on the wire.
//	read side   a correctly framed stream (built by the harness' own framer, checked against
//	            peerCheck at start-up) is served by a net.Conn whose Read answers are chosen by
//	            the enumeration: cut points (1..5 bytes after each frame start, frame end
//	            -1/0/+1) that no Read crosses, and a maximum chunk size. ReadPacket,
//	            ReadEphemeralPacket+RecycleReadPacket and ReadEphemeralPacketDirect must return
//	            the payload byte-for-byte and then the sentinel. For every frame j (including
//	            the empty terminator) a stream whose frame j carries a wrong sequence id must
//	            make the read fail.
package main

import (
	"bytes"
	"fmt"
	"io"
	"net"
	"runtime/debug"
	"sort"
	"strings"
	"sync"
	"time"

	"github.com/XiaoMi/Gaea/mysql"

	"verif/engine/enum"
	"verif/engine/ev"
	"verif/engine/gx"
)

const M = 1<<24 - 1 // frame limit per the protocol

var sentinel = []byte("END-OF-CASE")

type Case struct {
	Side     string `json:"side"` // write | read
	Len      int    `json:"len"`
	Seq      int    `json:"seq"`
	Writer   string `json:"writer,omitempty"` // direct | buffered | ephemeral
	Reader   string `json:"reader,omitempty"` // ReadPacket | ReadEphemeralPacket | ReadEphemeralPacketDirect
	Cuts     []int  `json:"cuts,omitempty"`   // stream offsets no Read crosses
	Chunk    int    `json:"chunk,omitempty"`  // max bytes per Read (0 = unlimited)
	MutFrame int    `json:"mut_frame"`        // -1: valid stream; j: frame j carries seq+MutDelta
	MutDelta int    `json:"mut_delta,omitempty"`
}

func (c Case) String() string {
	if c.Side == "write" {
		return fmt.Sprintf("write len=%s seq=%d writer=%s", lenName(c.Len), c.Seq, c.Writer)
	}
	s := fmt.Sprintf("read len=%s seq=%d reader=%s cuts=%v chunk=%d", lenName(c.Len), c.Seq, c.Reader, c.Cuts, c.Chunk)
	if c.MutFrame >= 0 {
		s += fmt.Sprintf(" frame %d carries sequence id expected%+d", c.MutFrame, c.MutDelta)
	}
	return s
}

func lenName(l int) string {
	if l >= M-2 {
		k := (l + 2) / M
		d := l - k*M
		switch {
		case d == 0:
			return fmt.Sprintf("%d(=%dM)", l, k)
		case d > 0:
			return fmt.Sprintf("%d(=%dM+%d)", l, k, d)
		default:
			return fmt.Sprintf("%d(=%dM%d)", l, k, d)
		}
	}
	return fmt.Sprint(l)
}

func lenClass(l int) string {
	switch {
	case l == 0:
		return "zero"
	case l < M:
		return "lt_M"
	case l%M == 0:
		return "multiple_of_M"
	}
	return "gt_M"
}

// ---- payload and reference framing ----

var pattern []byte

func makePattern(n int) {
	pattern = make([]byte, n)
	const step = 1 << 20
	enum.Parallel((n+step-1)/step, nil, func(k int) {
		hi := (k + 1) * step
		if hi > n {
			hi = n
		}
		for i := k * step; i < hi; i++ {
			pattern[i] = byte(i) + byte(i>>8)*7 + byte(i>>16)*13 + byte(i>>24)*31
		}
	})
}

func payload(l int) []byte { return pattern[:l:l] }

// frameLens: the frame sizes the protocol prescribes for a payload of l bytes.
func frameLens(l int) []int {
	var fl []int
	for l >= M {
		fl = append(fl, M)
		l -= M
	}
	return append(fl, l) // last frame < M, possibly empty (terminator / empty payload)
}

type stream struct {
	l       int
	data    []byte // frames of payload(l) with ids 0,1,.. followed by the sentinel packet
	hdr     []int  // offset of every frame header, sentinel last
	flen    []int  // payload frames' lengths
	pktEnd  int    // offset where the sentinel packet starts
	cutCand []int  // 1..5 bytes after each frame start, frame end -1/0/+1
	cutFew  []int  // subset {2,4,5 after frame start, frame end -1/0}: one cut inside the header, at the header/body border, one byte into the body, one byte before the end, at the frame border
}

func buildStream(l int) *stream {
	s := &stream{l: l, flen: frameLens(l)}
	p := payload(l)
	s.data = make([]byte, 0, l+4*len(s.flen)+4+len(sentinel))
	off := 0
	for j, n := range s.flen {
		s.hdr = append(s.hdr, len(s.data))
		s.data = append(s.data, byte(n), byte(n>>8), byte(n>>16), byte(j))
		s.data = append(s.data, p[off:off+n]...)
		off += n
	}
	s.pktEnd = len(s.data)
	s.hdr = append(s.hdr, len(s.data))
	n := len(sentinel)
	s.data = append(s.data, byte(n), byte(n>>8), byte(n>>16), byte(len(s.flen)))
	s.data = append(s.data, sentinel...)
	set, few := map[int]bool{}, map[int]bool{}
	for j, h := range s.hdr[:len(s.flen)] {
		for d := 1; d <= 5; d++ {
			set[h+d] = true
		}
		end := h + 4 + s.flen[j]
		for d := -1; d <= 1; d++ {
			set[end+d] = true
		}
		for _, c := range []int{h + 2, h + 4, h + 5, end - 1, end} {
			few[c] = true
		}
	}
	for c := range set {
		if c > 0 && c < len(s.data) {
			s.cutCand = append(s.cutCand, c)
			if few[c] {
				s.cutFew = append(s.cutFew, c)
			}
		}
	}
	sort.Ints(s.cutCand)
	sort.Ints(s.cutFew)
	return s
}

var (
	streams   = map[int]*stream{}
	streamsMu sync.Mutex
)

func getStream(l int) *stream {
	streamsMu.Lock()
	s := streams[l]
	streamsMu.Unlock()
	if s == nil {
		s = buildStream(l)
		streamsMu.Lock()
		streams[l] = s
		streamsMu.Unlock()
	}
	return s
}

func prebuild(lens []int) {
	enum.Parallel(len(lens), nil, func(i int) { getStream(lens[len(lens)-1-i]) })
}

// peerCheck is the independent peer: it parses wire by the protocol rule and compares with
// the payloads that were written. Returns "" or a description of the first discrepancy.
func peerCheck(wire []byte, startSeq byte, want [][]byte) (string, int) {
	off, seq, frames := 0, startSeq, 0
	for pi, p := range want {
		pp := 0
		for {
			if len(wire)-off < 4 {
				return fmt.Sprintf("packet %d: wire ends inside/before a frame header at offset %d (payload bytes seen %d of %d)", pi, off, pp, len(p)), frames
			}
			n := int(wire[off]) | int(wire[off+1])<<8 | int(wire[off+2])<<16
			if wire[off+3] != seq {
				return fmt.Sprintf("packet %d frame at offset %d: sequence id %d, expected %d", pi, off, wire[off+3], seq), frames
			}
			seq++
			frames++
			off += 4
			if len(wire)-off < n {
				return fmt.Sprintf("packet %d: frame announces %d bytes, only %d on the wire", pi, n, len(wire)-off), frames
			}
			if pp+n > len(p) {
				return fmt.Sprintf("packet %d: peer reads more payload (%d+%d) than was written (%d)", pi, pp, n, len(p)), frames
			}
			if !bytes.Equal(wire[off:off+n], p[pp:pp+n]) {
				return fmt.Sprintf("packet %d: payload bytes differ in the frame at offset %d", pi, off-4), frames
			}
			off += n
			pp += n
			if n < M {
				break
			}
		}
		if pp != len(p) {
			return fmt.Sprintf("packet %d: peer's packet ends after %d bytes, %d were written", pi, pp, len(p)), frames
		}
	}
	if off != len(wire) {
		return fmt.Sprintf("%d unexpected bytes on the wire after the last packet", len(wire)-off), frames
	}
	return "", frames
}

// ---- transports ----

type addr struct{}

func (addr) Network() string { return "mem" }
func (addr) String() string  { return "mem" }

type baseConn struct{}

func (baseConn) Close() error                       { return nil }
func (baseConn) LocalAddr() net.Addr                { return addr{} }
func (baseConn) RemoteAddr() net.Addr               { return addr{} }
func (baseConn) SetDeadline(t time.Time) error      { return nil }
func (baseConn) SetReadDeadline(t time.Time) error  { return nil }
func (baseConn) SetWriteDeadline(t time.Time) error { return nil }

type wconn struct {
	baseConn
	buf    []byte
	writes int
}

func (w *wconn) Read(p []byte) (int, error) { return 0, io.EOF }
func (w *wconn) Write(p []byte) (int, error) {
	w.buf = append(w.buf, p...)
	w.writes++
	return len(p), nil
}

type patch struct {
	off int
	val byte
}

type rconn struct {
	baseConn
	data    []byte
	patches []patch
	cuts    []int
	chunk   int
	off     int
	reads   int
	split   int // reads that were cut short by a cut point or the chunk limit
}

func (r *rconn) Write(p []byte) (int, error) { return 0, fmt.Errorf("read-only transport") }
func (r *rconn) Read(p []byte) (int, error) {
	if len(p) == 0 {
		return 0, nil
	}
	if r.off >= len(r.data) {
		return 0, io.EOF
	}
	n := len(p)
	if rest := len(r.data) - r.off; rest < n {
		n = rest
	}
	full := n
	for _, c := range r.cuts {
		if c > r.off && c-r.off < n {
			n = c - r.off
		}
	}
	if r.chunk > 0 && n > r.chunk {
		n = r.chunk
	}
	if n < full {
		r.split++
	}
	copy(p[:n], r.data[r.off:r.off+n])
	for _, pt := range r.patches {
		if pt.off >= r.off && pt.off < r.off+n {
			p[pt.off-r.off] = pt.val
		}
	}
	r.off += n
	r.reads++
	return n, nil
}

// ---- running one case ----

type verdict struct {
	kind, detail string
	features     map[string]string
	outcome      string
	nontrivial   bool
}

func catch(f func()) (msg string) {
	defer func() {
		if e := recover(); e != nil {
			msg = fmt.Sprint(e)
		}
	}()
	f()
	return ""
}

func runWrite(c Case) verdict {
	p := payload(c.Len)
	nfr := len(frameLens(c.Len))
	wc := &wconn{buf: make([]byte, 0, c.Len+4*nfr+64)}
	conn := mysql.NewConn(wc)
	conn.SetSequence(uint8(c.Seq))
	var err error
	write := func(b []byte) error {
		if c.Writer == "ephemeral" {
			buf := conn.StartEphemeralPacket(len(b))
			if len(buf) != len(b) {
				return fmt.Errorf("StartEphemeralPacket(%d) returned %d bytes", len(b), len(buf))
			}
			copy(buf, b)
			return conn.WriteEphemeralPacket()
		}
		return conn.WritePacket(b)
	}
	pm := catch(func() {
		if c.Writer == "buffered" {
			conn.StartWriterBuffering()
		}
		if err = write(p); err != nil {
			return
		}
		if err = write(sentinel); err != nil {
			return
		}
		if c.Writer == "buffered" {
			err = conn.Flush()
		}
	})
	f := map[string]string{"side": "write", "writer": c.Writer, "lenclass": lenClass(c.Len), "frame": "-"}
	v := verdict{features: f, nontrivial: nfr >= 2 || c.Seq+nfr > 255}
	switch {
	case pm != "":
		v.kind, v.detail = "panic", pm
	case err != nil:
		v.kind, v.detail = "write_error", err.Error()
	default:
		msg, frames := peerCheck(wc.buf, byte(c.Seq), [][]byte{p, sentinel})
		if msg != "" {
			v.kind, v.detail = "bad_framing", msg
		} else if got, want := conn.GetSequence(), uint8(c.Seq+nfr+1); got != want {
			v.kind, v.detail = "bad_sequence_state", fmt.Sprintf("Conn sequence after the two packets is %d, expected %d", got, want)
		}
		v.outcome = fmt.Sprintf("write|%s|frames=%d|wrap=%v|transport_writes=%d", c.Writer, frames, c.Seq+nfr > 255, wc.writes)
	}
	f["kind"] = v.kind
	return v
}

func frameKind(s *stream, j int) string {
	n := s.flen[j]
	switch {
	case n == 0 && s.l == 0:
		return "empty_payload"
	case n == 0:
		return "empty_terminator"
	case n == M:
		return "full"
	}
	return "partial"
}

func runRead(c Case) verdict {
	s := getStream(c.Len)
	rc := &rconn{data: s.data, cuts: c.Cuts, chunk: c.Chunk}
	for j, h := range s.hdr {
		id := c.Seq + j
		if j == c.MutFrame {
			id += c.MutDelta
		}
		rc.patches = append(rc.patches, patch{h + 3, byte(id)})
	}
	conn := mysql.NewConn(rc)
	conn.SetSequence(uint8(c.Seq))
	read := func() (b []byte, err error) {
		switch c.Reader {
		case "ReadPacket":
			b, err = conn.ReadPacket()
		case "ReadEphemeralPacket":
			b, err = conn.ReadEphemeralPacket()
		case "ReadEphemeralPacketDirect":
			b, err = conn.ReadEphemeralPacketDirect()
		default:
			ev.Fatalf("unknown reader %q", c.Reader)
		}
		return
	}
	recycle := func() {
		if c.Reader != "ReadPacket" {
			conn.RecycleReadPacket()
		}
	}
	f := map[string]string{"side": "read", "reader": c.Reader, "lenclass": lenClass(c.Len), "frame": "-"}
	v := verdict{features: f}
	if c.MutFrame >= 0 {
		f["frame"] = frameKind(s, c.MutFrame)
	}
	var got, got2 []byte
	var err, err2 error
	var eq bool
	pm := catch(func() {
		got, err = read()
		if err == nil {
			eq = bytes.Equal(got, payload(c.Len)) // before the pooled buffer is recycled
		}
		if c.MutFrame >= 0 || err != nil {
			return
		}
		recycle()
		got2, err2 = read()
		if err2 == nil {
			got2 = append([]byte(nil), got2...)
			recycle()
		}
	})
	nfr := len(s.flen)
	v.nontrivial = nfr >= 2 || rc.split > 0 || c.MutFrame >= 0 || c.Seq+nfr > 255
	switch {
	case pm != "":
		v.kind, v.detail = "panic", pm
	case c.MutFrame >= 0:
		if err == nil {
			v.kind = "wrong_seq_accepted"
			v.detail = fmt.Sprintf("frame %d (%s) carries sequence id %d instead of %d and the read returned %d bytes without error", c.MutFrame, f["frame"], byte(c.Seq+c.MutFrame+c.MutDelta), byte(c.Seq+c.MutFrame), len(got))
		}
		v.outcome = fmt.Sprintf("read|%s|mutated %s|rejected=%v", c.Reader, f["frame"], err != nil)
	case err != nil:
		v.kind, v.detail = "error_on_valid_stream", err.Error()
	case !eq:
		v.kind, v.detail = "payload_mismatch", fmt.Sprintf("returned %d bytes, expected %d (first difference at %d)", len(got), c.Len, firstDiff(got, payload(c.Len)))
	case err2 != nil:
		v.kind, v.detail = "next_packet_error", "the packet that follows on the same connection: "+err2.Error()
	case !bytes.Equal(got2, sentinel):
		v.kind, v.detail = "next_packet_mismatch", fmt.Sprintf("the packet that follows was read as %q", trunc(got2))
	default:
		if gs, want := conn.GetSequence(), uint8(c.Seq+nfr+1); gs != want {
			v.kind, v.detail = "bad_sequence_state", fmt.Sprintf("Conn sequence after the two packets is %d, expected %d", gs, want)
		}
		v.outcome = fmt.Sprintf("read|%s|frames=%d|wrap=%v|split_reads=%d|transport_reads=%d", c.Reader, nfr, c.Seq+nfr > 255, rc.split, rc.reads)
	}
	f["kind"] = v.kind
	return v
}

func firstDiff(a, b []byte) int {
	n := len(a)
	if len(b) < n {
		n = len(b)
	}
	for i := 0; i < n; i++ {
		if a[i] != b[i] {
			return i
		}
	}
	return n
}

func trunc(b []byte) string {
	if len(b) > 32 {
		return string(b[:32]) + "..."
	}
	return string(b)
}

func runCase(r *ev.Run, c Case) {
	var v verdict
	if c.Side == "write" {
		v = runWrite(c)
	} else {
		v = runRead(c)
	}
	r.Add("evaluations", 1)
	r.Add("evaluations_"+c.Side, 1)
	if v.nontrivial {
		r.Distinct("nontrivial", c.String())
	}
	if v.outcome != "" {
		r.Distinct("outcomes", v.outcome)
	}
	if v.kind != "" {
		r.Violation(ev.Witness{Summary: fmt.Sprintf("%s: %s — %s", v.kind, v.detail, c.String()), Features: v.features, Case: c})
	}
}

// ---- universe ----

var (
	seqs    = []int{0, 1, 254, 255}
	writers = []string{"direct", "buffered", "ephemeral"}
	readers = []string{"ReadPacket", "ReadEphemeralPacket", "ReadEphemeralPacketDirect"}
)

func readersFor(l int) []string {
	if l >= M {
		return readers[:2] // ReadEphemeralPacketDirect documents that it refuses multi-frame packets
	}
	return readers
}

func chunksFor(l int) []int {
	if l <= 1<<17 {
		return []int{0, 1, 1021}
	}
	return []int{0, 65521}
}

func cutSets(s *stream, k int) [][]int {
	out := [][]int{nil}
	for i, a := range s.cutCand {
		out = append(out, []int{a})
		if k >= 2 {
			for _, b := range s.cutCand[i+1:] {
				out = append(out, []int{a, b})
			}
		}
	}
	return out
}

func universe(r *ev.Run) (small, big []Case) {
	smallLens := []int{0, 1, 2, 3, 250, 16379, 16380, 16381, 16384, 65536, 1 << 17}
	bigLens := []int{M - 1, M, M + 1, 2 * M, 2*M + 1} // 2M+1 = three data frames (added after seeded change c11-3 was missed: the third frame cut from the wrong offset)
	if r.Thorough() {
		bigLens = []int{M - 2, M - 1, M, M + 1, 2*M - 1, 2 * M, 2*M + 1, 3 * M}
	}
	k := r.Pick(1, 2)
	deltas := []int{1, -1, 128}
	prebuild(append(append([]int{5}, smallLens...), bigLens...))
	for _, l := range smallLens {
		s := getStream(l)
		for _, q := range seqs {
			for _, w := range writers {
				small = append(small, Case{Side: "write", Len: l, Seq: q, Writer: w, MutFrame: -1})
			}
			for _, rd := range readersFor(l) {
				for _, ch := range chunksFor(l) {
					for _, cs := range cutSets(s, k) {
						small = append(small, Case{Side: "read", Len: l, Seq: q, Reader: rd, Chunk: ch, Cuts: cs, MutFrame: -1})
					}
				}
				for j := range s.flen {
					for _, d := range deltas {
						small = append(small, Case{Side: "read", Len: l, Seq: q, Reader: rd, MutFrame: j, MutDelta: d})
					}
				}
			}
		}
	}
	for _, l := range bigLens {
		s := getStream(l)
		rds := readersFor(l)
		if r.Quick() {
			// ≤1 deviation from (seq 0, first writer/reader, unlimited chunk, no cut)
			for _, q := range seqs {
				big = append(big, Case{Side: "write", Len: l, Seq: q, Writer: writers[0], MutFrame: -1})
			}
			for _, w := range writers[1:] {
				big = append(big, Case{Side: "write", Len: l, Seq: 0, Writer: w, MutFrame: -1})
			}
			dims := []int{len(seqs), len(rds), len(chunksFor(l)), 1 + len(s.cutFew)}
			enum.Deviations(dims, 1, func(idx []int) {
				c := Case{Side: "read", Len: l, Seq: seqs[idx[0]], Reader: rds[idx[1]], Chunk: chunksFor(l)[idx[2]], MutFrame: -1}
				if idx[3] > 0 {
					c.Cuts = []int{s.cutFew[idx[3]-1]}
				}
				big = append(big, c)
			})
			for _, rd := range rds {
				for j := range s.flen {
					big = append(big, Case{Side: "read", Len: l, Seq: 0, Reader: rd, MutFrame: j, MutDelta: 1})
				}
			}
			// the id wrap inside a multi-frame packet, with the other reader as well
			if len(s.flen) >= 2 {
				for _, rd := range rds[1:] {
					big = append(big, Case{Side: "read", Len: l, Seq: 255, Reader: rd, MutFrame: -1})
				}
			}
			continue
		}
		for _, q := range seqs {
			for _, w := range writers {
				big = append(big, Case{Side: "write", Len: l, Seq: q, Writer: w, MutFrame: -1})
			}
			for _, rd := range rds {
				for _, ch := range chunksFor(l) {
					for _, cs := range cutSets(s, 1) {
						big = append(big, Case{Side: "read", Len: l, Seq: q, Reader: rd, Chunk: ch, Cuts: cs, MutFrame: -1})
					}
				}
				for j := range s.flen {
					for _, d := range deltas {
						big = append(big, Case{Side: "read", Len: l, Seq: q, Reader: rd, MutFrame: j, MutDelta: d})
					}
				}
			}
		}
		for _, q := range []int{0, 255} {
			for _, rd := range rds {
				for _, cs := range cutSets(s, 2) {
					if len(cs) == 2 {
						big = append(big, Case{Side: "read", Len: l, Seq: q, Reader: rd, Cuts: cs, MutFrame: -1})
					}
				}
			}
		}
	}
	return small, big
}

func selfTest() {
	// the harness' framer and its peer parser must agree with each other (they are written
	// separately), and the peer must notice a wrong id / a missing terminator.
	for _, l := range []int{0, 1, 5, M - 1, M, M + 1} {
		s := getStream(l)
		if msg, _ := peerCheck(s.data, 0, [][]byte{payload(l), sentinel}); msg != "" {
			ev.Fatalf("self-test: framer and peer disagree for len %d: %s", l, msg)
		}
	}
	s := getStream(M)
	bad := append([]byte(nil), s.data[:s.hdr[1]]...) // terminator and sentinel dropped
	if msg, _ := peerCheck(bad, 0, [][]byte{payload(M)}); msg == "" {
		ev.Fatalf("self-test: peer accepts a packet of exactly M bytes without terminator")
	}
	if msg, _ := peerCheck(s.data, 1, [][]byte{payload(M), sentinel}); !strings.Contains(msg, "sequence") {
		ev.Fatalf("self-test: peer does not notice wrong sequence ids")
	}
}

func main() {
	gx.Quiet()
	debug.SetGCPercent(50) // cases hold tens of MiB each; keep the heap tight
	r := ev.Start("C11", "exploration")
	var rc Case
	if r.ReplayCase(&rc) {
		makePattern(rc.Len + 16)
		runCase(r, rc)
		r.Finish()
	}
	makePattern(r.Pick(2, 3)*M + 16)
	small, big := universe(r)
	selfTest()

	// big cases first (at most bigPar at a time: each holds up to ~150 MiB), small ones fill in
	const bigPar = 10
	sem := make(chan struct{}, bigPar)
	all := append(append([]Case(nil), big...), small...)
	done := enum.Parallel(len(all), r.TimeUp, func(i int) {
		if all[i].Len >= M-2 {
			sem <- struct{}{}
			defer func() { <-sem }()
		}
		runCase(r, all[i])
	})
	if done < len(all) {
		r.Capped(fmt.Sprintf("%d of %d cases (all large-payload cases come first in the order)", done, len(all)))
	}
	r.Set("cases_large_payload", len(big))
	r.Set("cases_small_payload", len(small))
	r.Set("universe", len(all))
	lens := make([]string, 0)
	ls := make([]int, 0)
	for l := range streams {
		ls = append(ls, l)
	}
	sort.Ints(ls)
	for _, l := range ls {
		lens = append(lens, lenName(l))
	}
	r.Set("payload_lengths", lens)
	r.Set("rule", "write side: payload length x starting sequence id {0,1,254,255} x writer {WritePacket, WritePacket inside StartWriterBuffering/Flush, StartEphemeralPacket+WriteEphemeralPacket}; read side: payload length x starting id x reader {ReadPacket, ReadEphemeralPacket+Recycle, ReadEphemeralPacketDirect (<2^24-1 only)} x max bytes per transport Read {unlimited,1,1021 | unlimited,65521} x cut points no Read crosses (1..5 bytes after each frame start, frame end -1/0/+1; at most 1 quick, 2 thorough; for large payloads in the quick tier the subset 2/4/5 bytes after frame start and frame end -1/0), plus for every frame j (incl. empty terminator) and delta {+1,-1,+128} the stream whose frame j carries id+delta. Small payloads: full product. Large payloads (>= 2^24-3 bytes): quick = all vectors with at most one deviation from (id 0, WritePacket/ReadPacket, unlimited, no cut) plus one wrong-id stream per frame and reader; thorough = full product with <=1 cut and {0,255} x readers x every pair of cuts. A case is non-trivial when the packet has >=2 frames, the id wraps 255->0 inside the case, a transport Read was really cut short, or a frame id was falsified; distinct_nontrivial counts distinct such cases, distinct_outcomes the observed (side, function, frames, wrap, split reads, transport calls) combinations")
	r.Sample(all[0])
	r.Sample(all[len(big)/2])
	r.Sample(all[len(big)+len(small)/3])
	r.Sample(all[len(all)-1])
	r.Assume("the transport delivers written bytes unchanged and in order; only Read fragmentation is adversarial (no short writes, no errors)")
	r.Assume("payload bytes are a fixed position-dependent pattern (byte(i)+7*byte(i>>8)+13*byte(i>>16)+31*byte(i>>24)): a frame displaced by 4 bytes or by 2^24-1 bytes changes the content")
	r.Finish()
}
