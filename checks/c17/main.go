// C17: multi-statement text is split exactly at statement boundaries.
//
// Engine: enum. Universe: texts built from ≤N pieces (statements with ';' inside every kind
// of string / identifier / comment, a SET, empty and blank pieces) joined by a separator
// and followed by a trailer.
//
//	(a) parser.SplitStatementToPieces(text) versus the statements Gaea's multi-statement
//	    Parse finds (and the independent splitter ref/mylex, which must agree with Parse on
//	    every accepted text — otherwise exit 2).
//	(b) the same text as COM_QUERY through a real session (namespace with multi-query
//	    support, client with CLIENT_MULTI_STATEMENTS) onto a fake backend that records what
//	    it is asked to execute; for every position f the f-th backend statement is made to
//	    fail. The backend must see exactly the grammar's statements, in order, up to and
//	    including the first failing one; a later SET must not have been applied.
package main

import (
	"fmt"
	"strings"
	"sync"
	"sync/atomic"
	"time"

	"github.com/XiaoMi/Gaea/parser"
	_ "github.com/XiaoMi/Gaea/parser/tidb-types/parser_driver"

	"verif/engine/enum"
	"verif/engine/ev"
	"verif/engine/gx"
	"verif/ref/mylex"
	sessrig "verif/ref/sessrig_stmt"
)

var pieces = []string{
	"select 1",                // 0
	"",                        // 1 empty statement
	" ",                       // 2 blank statement
	"set @a=1",                // 3 handled inside the proxy
	"select ';'",              // 4
	"select \"a;b\"",          // 5
	"select `a;b` from t",     // 6
	"select 1 /* ; */",        // 7
	"select 1 -- ;\n",         // 8
	"select 1 # ;\n",          // 9
	"select '\\';'",           // 10 ; after a backslash-escaped quote
	"select ''';'",            // 11 ; after a doubled quote
	"select '\\\\'",           // 12 string ending in an escaped backslash: the next ; splits
	"select 1 /* ' */",        // 13 quote character inside a comment
	"/* ; */",                 // 14 comment-only statement
	"select 2 from t where a", // 15 a second plain statement (distinguishable from 0)
	// control bytes inside a string / comment / quoted identifier: harmless, part of the token
	"select '\x00\x01'",       // 16
	"select 1 /* \x1f\x7f */", // 17
	"select `a\x01` from t",   // 18
	// stand-alone control bytes: bytes no token starts with. No grammar accepts them, but the
	// proxy still has to answer (pieces or an error), i.e. the split has to RETURN.
	"\x00", // 19
	"\x01", // 20
	"\x1f", // 21
	"\x7f", // 22
}

const (
	firstStandalone = 19 // pieces[firstStandalone:] are the stand-alone control bytes
)

// controlFamily is the sub-alphabet of the second family: every sequence over it that
// contains at least one stand-alone control byte.
var controlFamily = []int{0, 1, 2, 4, 16, 17, 18, 19, 20, 21, 22}

func hasStandalone(seq []int) bool {
	for _, x := range seq {
		if x >= firstStandalone {
			return true
		}
	}
	return false
}

var seps = []string{";", " ; ", ";\n"}
var trails = []string{"", ";", " ; ", ";;"}

type tcase struct {
	Seq   []int  `json:"seq"`
	Sep   int    `json:"sep"`
	Trail int    `json:"trail"`
	Fail  int    `json:"fail"` // (b) only: index of the backend statement that fails, -1 none, -2 = part (a) only
	Text  string `json:"text"`
}

func (c *tcase) build() string {
	parts := make([]string, len(c.Seq))
	for i, p := range c.Seq {
		parts[i] = pieces[p]
	}
	return strings.Join(parts, seps[c.Sep]) + trails[c.Trail]
}

var parsers = sync.Pool{New: func() interface{} { return parser.New() }}

// sig is the comparison form of a statement text: its tokens without comments and without
// statement separators at either end.
func sig(s string) string {
	toks := mylex.Lex(s, mylex.Mode{}, false)
	for len(toks) > 0 && toks[0].Kind == mylex.Semicolon {
		toks = toks[1:]
	}
	for len(toks) > 0 && toks[len(toks)-1].Kind == mylex.Semicolon {
		toks = toks[:len(toks)-1]
	}
	var sb strings.Builder
	for _, t := range toks {
		sb.WriteString(t.Kind.String())
		sb.WriteByte(':')
		sb.WriteString(t.Text)
		sb.WriteByte('\x00')
	}
	return sb.String()
}

// norm is the comparison form of a statement handed to the backend: the text without
// surrounding blanks and without trailing separators and comments (a statement terminator
// and what follows it up to the end of the packet is not part of the statement; a MySQL
// connection without CLIENT_MULTI_STATEMENTS — Gaea's backend connections — accepts
// "stmt ; -- c" as the single statement "stmt"). Nothing is removed at the front.
func norm(s string) string {
	toks := mylex.Lex(s, mylex.Mode{}, true)
	for len(toks) > 0 && (toks[len(toks)-1].Kind == mylex.Semicolon || (toks[len(toks)-1].Kind == mylex.Comment && !toks[len(toks)-1].Exec)) {
		toks = toks[:len(toks)-1]
	}
	if len(toks) == 0 {
		return ""
	}
	return strings.TrimSpace(s[:toks[len(toks)-1].End])
}

// stripLeadingSeparators removes the empty statements (blanks, comments, ';') in front of
// the first non-empty one; had reports whether a ';' was removed.
func stripLeadingSeparators(s string) (rest string, had bool) {
	toks := mylex.Lex(s, mylex.Mode{}, true)
	cut := 0
	for _, t := range toks {
		if t.Kind == mylex.Semicolon {
			cut = t.End
			had = true
			continue
		}
		if t.Kind == mylex.Comment && !t.Exec {
			continue
		}
		break
	}
	return s[cut:], had
}

func isSet(stmt string) bool {
	return strings.HasPrefix(strings.ToLower(strings.TrimSpace(stmt)), "set ")
}

// classify names what the text contains, for known-finding signatures.
func classify(c tcase) map[string]string {
	has := func(p int) bool {
		for _, x := range c.Seq {
			if x == p {
				return true
			}
		}
		return false
	}
	f := map[string]string{}
	f["empty_pieces"] = fmt.Sprint(has(1) || has(2) || has(14))
	f["trailer"] = fmt.Sprintf("%q", trails[c.Trail])
	f["sep"] = fmt.Sprintf("%q", seps[c.Sep])
	f["control"] = "none"
	if hasStandalone(c.Seq) {
		f["control"] = "standalone_control_byte"
	}
	return f
}

var nEval, nAccepted, nRejected, nRejectedReturned, nSessions, nSessionCases int64

// reference returns the grammar's statements of text (trimmed), or ok=false if Gaea's
// parser rejects the text.
func reference(text string) (stmts []string, ok bool) {
	ps := parsers.Get().(*parser.Parser)
	defer parsers.Put(ps)
	var perr error
	var texts []string
	if p := ev.Catch(func() {
		nodes, _, err := ps.Parse(text, "", "")
		perr = err
		for _, n := range nodes {
			texts = append(texts, n.Text())
		}
	}); p != nil || perr != nil {
		return nil, false
	}
	m, merr := mylex.Split(text, mylex.Mode{})
	if merr != nil || len(m) != len(texts) {
		ev.Fatalf("oracle disagreement on %q: parser %q, mylex %q (%v)", text, texts, m, merr)
	}
	for i := range m {
		if sig(m[i]) != sig(texts[i]) {
			ev.Fatalf("oracle disagreement on %q: parser %q, mylex %q", text, texts, m)
		}
		stmts = append(stmts, strings.TrimSpace(m[i]))
	}
	return stmts, true
}

func partA(r *ev.Run, c tcase, text string, want []string) {
	var got []string
	var err error
	if p := ev.Catch(func() { got, err = parser.SplitStatementToPieces(text) }); p != nil {
		err = fmt.Errorf("panic: %v", p)
	}
	if len(want) >= 2 {
		semi := 0
		for _, t := range mylex.Lex(text, mylex.Mode{}, true) {
			if t.Kind != mylex.Semicolon {
				semi += strings.Count(t.Text, ";")
			}
		}
		if semi > 0 {
			// ≥2 statements and at least one ';' that is not a separator
			r.Distinct("nontrivial", text)
		}
	}
	feat := classify(c)
	feat["part"] = "split"
	if err != nil {
		feat["kind"] = "split_error"
		r.Violation(ev.Witness{Summary: fmt.Sprintf("SplitStatementToPieces(%q) fails (%v); the grammar sees %q", text, err, want), Features: feat, Case: c})
		return
	}
	if len(want) == 0 {
		// no statement in the grammar: what matters is that nothing is executed (part b);
		// here only that no non-empty statement is invented
		for _, g := range got {
			if len(mylex.Lex(g, mylex.Mode{}, false)) != 0 {
				feat["kind"] = "invented"
				r.Violation(ev.Witness{Summary: fmt.Sprintf("SplitStatementToPieces(%q) = %q; the grammar sees no statement", text, got), Features: feat, Case: c})
				return
			}
		}
		return
	}
	if len(got) != len(want) {
		feat["kind"] = "count"
		r.Violation(ev.Witness{Summary: fmt.Sprintf("SplitStatementToPieces(%q) = %q; the grammar sees %d statement(s) %q", text, got, len(want), want), Features: feat, Case: c})
		return
	}
	for i := range got {
		if strings.TrimSpace(got[i]) != want[i] {
			feat["kind"] = "text"
			r.Violation(ev.Witness{Summary: fmt.Sprintf("SplitStatementToPieces(%q) piece %d = %q; the grammar's statement is %q", text, i, got[i], want[i]), Features: feat, Case: c})
			return
		}
	}
}

func partB(r *ev.Run, c tcase, text string, want []string) {
	var backendWant []string
	setIdx := -1 // index (in want) of the first SET
	for i, s := range want {
		if isSet(s) {
			if setIdx < 0 {
				setIdx = i
			}
			continue
		}
		backendWant = append(backendWant, s)
	}
	fails := []int{-1}
	for f := range backendWant {
		fails = append(fails, f)
	}
	if c.Fail >= -1 {
		fails = []int{c.Fail}
	}
	for _, f := range fails {
		atomic.AddInt64(&nSessions, 1)
		rig := sessrig.Acquire()
		if f >= 0 {
			ff := f
			rig.Backend.Fail = func(n int, sql string) error {
				if n == ff {
					return fmt.Errorf("backend refuses statement %d", n)
				}
				return nil
			}
		}
		s := rig.NewSession(true)
		qerr := s.Query(text)
		log := rig.Backend.Log()
		aSet := server_var(s)
		leaked := rig.Backend.Leaked()
		sessrig.Release(rig)

		cc := c
		cc.Fail = f
		feat := classify(c)
		feat["part"] = "session"
		feat["fault"] = fmt.Sprint(f >= 0)
		feat["statements"] = fmt.Sprint(len(want))
		if len(want) == 1 {
			feat["statements"] = "1"
		} else if len(want) > 1 {
			feat["statements"] = "many"
		}
		expect := backendWant
		if f >= 0 {
			expect = backendWant[:f+1]
		}
		var seen []string
		for _, e := range log {
			seen = append(seen, e.SQL)
		}
		bad := ""
		switch {
		case len(seen) != len(expect):
			feat["kind"] = "backend_count"
			bad = fmt.Sprintf("backend executed %d statement(s) %q, expected %d %q", len(seen), seen, len(expect), expect)
		case f >= 0 && qerr == nil:
			feat["kind"] = "error_swallowed"
			bad = fmt.Sprintf("backend statement %d failed but the query succeeded", f)
		case f < 0 && qerr != nil && len(want) > 0:
			feat["kind"] = "spurious_error"
			bad = fmt.Sprintf("no backend failure but the query failed: %v", qerr)
		default:
			for i := range seen {
				if norm(seen[i]) != norm(expect[i]) {
					if t, had := stripLeadingSeparators(seen[i]); had && norm(t) == norm(expect[i]) {
						feat["kind"] = "leading_separator_forwarded"
					} else {
						feat["kind"] = "backend_text"
					}
					bad = fmt.Sprintf("backend statement %d is %q, the grammar's statement is %q", i, seen[i], expect[i])
					break
				}
			}
		}
		if bad == "" && setIdx >= 0 {
			// the SET is applied iff every backend statement before it succeeded
			before := 0
			for _, s := range want[:setIdx] {
				if !isSet(s) {
					before++
				}
			}
			shouldApply := f < 0 || f >= before
			if aSet != shouldApply {
				feat["kind"] = "set_applied_wrongly"
				bad = fmt.Sprintf("SET at position %d applied=%v, expected %v (failing backend statement %d)", setIdx, aSet, shouldApply, f)
			}
		}
		if bad == "" && leaked != 0 {
			feat["kind"] = "backend_conn_not_returned"
			bad = fmt.Sprintf("%d backend connection(s) not returned", leaked)
		}
		r.Distinct("session_outcomes", fmt.Sprintf("%d/%d/%v", len(seen), len(want), qerr != nil))
		if bad != "" {
			r.Violation(ev.Witness{Summary: fmt.Sprintf("COM_QUERY %q (fail=%d): %s", text, f, bad), Features: feat, Case: cc})
		}
	}
}

func server_var(s *sessrig.Session) bool { return s.UserVarSet("@a") }

// runCase evaluates one case. ph (may be nil) is told which part is running, so that the
// watchdog can say where a case that never returns is stuck.
func runCase(r *ev.Run, c tcase, session bool, ph func(string)) {
	phase := func(p string) {
		if ph != nil {
			ph(p)
		}
	}
	text := c.build()
	c.Text = text
	atomic.AddInt64(&nEval, 1)
	phase("reference")
	want, ok := reference(text)
	if !ok {
		// outside the grammar: nothing is required of the RESULT, but the proxy has to come
		// back with pieces or an error (a call that never returns is neither)
		atomic.AddInt64(&nRejected, 1)
		if c.Fail == -2 || !session {
			phase("split")
			ev.Catch(func() { parser.SplitStatementToPieces(text) })
		}
		if session {
			phase("session")
			rig := sessrig.Acquire()
			s := rig.NewSession(true)
			ev.Catch(func() { s.Query(text) })
			sessrig.Release(rig)
			atomic.AddInt64(&nSessions, 1)
		}
		atomic.AddInt64(&nRejectedReturned, 1)
		return
	}
	atomic.AddInt64(&nAccepted, 1)
	if c.Fail == -2 || !session {
		phase("split")
		partA(r, c, text, want)
	}
	if session {
		phase("session")
		atomic.AddInt64(&nSessionCases, 1)
		partB(r, c, text, want)
	}
}

// ---------- worker pool with a hang watchdog ----------
//
// A case is a microsecond call. A case that has not returned after the horizon is reported as
// a "hang" violation; its goroutine cannot be stopped, so that worker is abandoned (it keeps
// its session rig) and the others go on. When every worker is lost the run ends (capped).

type slot struct {
	mu      sync.Mutex
	busy    bool
	dead    bool
	start   time.Time
	c       tcase
	session bool
	phase   string
}

func runPool(r *ev.Run, n int, horizon time.Duration, decode func(i int) (tcase, bool), onDone func(i int, c tcase)) (done int64, lost int) {
	const workers = 16
	slots := make([]*slot, workers)
	var next int64
	finished := make(chan int, workers)
	for w := 0; w < workers; w++ {
		sl := &slot{}
		slots[w] = sl
		go func(w int) {
			for {
				i := int(atomic.AddInt64(&next, 1) - 1)
				if i >= n || r.TimeUp() {
					finished <- w
					return
				}
				c, session := decode(i)
				sl.mu.Lock()
				sl.busy, sl.start, sl.c, sl.session, sl.phase = true, time.Now(), c, session, "start"
				sl.mu.Unlock()
				runCase(r, c, session, func(p string) {
					sl.mu.Lock()
					sl.phase = p
					sl.mu.Unlock()
				})
				sl.mu.Lock()
				dead := sl.dead
				sl.busy = false
				sl.mu.Unlock()
				if dead {
					return // declared hung while it was (very) slow: already accounted for
				}
				atomic.AddInt64(&done, 1)
				if onDone != nil {
					onDone(i, c)
				}
			}
		}(w)
	}
	live := workers
	tick := time.NewTicker(200 * time.Millisecond)
	defer tick.Stop()
	for live > 0 {
		select {
		case <-finished:
			live--
		case <-tick.C:
			for _, sl := range slots {
				sl.mu.Lock()
				if sl.busy && !sl.dead && time.Since(sl.start) > horizon {
					sl.dead = true
					live--
					lost++
					c := sl.c
					c.Text = c.build()
					feat := classify(c)
					feat["kind"] = "hang"
					feat["part"] = sl.phase
					what := "parser.SplitStatementToPieces"
					if sl.phase == "session" {
						what = "COM_QUERY on a multi-statement session (doMultiStmts)"
					}
					r.Violation(ev.Witness{Summary: fmt.Sprintf("%s never returns for %q (no answer after %v; the call normally takes microseconds)", what, c.Text, horizon), Features: feat, Case: c})
				}
				sl.mu.Unlock()
			}
		}
	}
	return done, lost
}

func main() {
	gx.Quiet()
	r := ev.Start("C17", "exploration")
	if err := sessrig.Init(16); err != nil {
		ev.Fatalf("sessrig: %v", err)
	}
	var rc tcase
	horizon := 20 * time.Second
	if r.Thorough() {
		horizon = 30 * time.Second
	}
	if r.ReplayCase(&rc) {
		runPool(r, 1, horizon, func(int) (tcase, bool) { return rc, rc.Fail != -2 }, nil)
		r.Finish()
	}

	// Family 1: the pieces without the stand-alone control bytes. (a): every sequence up to
	// fullLen in every sep x trailer combination, and up to extraLen in the first; (b): every
	// sequence up to sessLen in every combination.
	// Family 2 (runs last): every sequence over the control sub-alphabet that contains at
	// least one stand-alone control byte, up to ctlLen (a) / ctlSessLen (b), every combination.
	a := firstStandalone
	combos := len(seps) * len(trails)
	fullLen, extraLen, sessLen, ctlLen, ctlSessLen := 3, 4, 2, 3, 2
	if r.Thorough() {
		fullLen, extraLen, sessLen, ctlLen, ctlSessLen = 4, 5, 3, 4, 3
	}
	type block struct {
		l, combo, size int
		session        bool
		seqs           [][]int // family 2: explicit list
	}
	var blocks []block
	universe := 0
	for l, n := 1, a; l <= extraLen; l, n = l+1, n*a {
		for cb := 0; cb < combos; cb++ {
			if l > fullLen && cb > 0 {
				continue
			}
			blocks = append(blocks, block{l: l, combo: cb, size: n})
			universe += n
			if l <= sessLen {
				blocks = append(blocks, block{l: l, combo: cb, size: n, session: true})
				universe += n
			}
		}
	}
	family1 := universe
	for l := 1; l <= ctlLen; l++ {
		var seqs [][]int
		dims := make([]int, l)
		for i := range dims {
			dims[i] = len(controlFamily)
		}
		enum.Product(dims, func(idx []int) {
			seq := make([]int, l)
			for i, x := range idx {
				seq[i] = controlFamily[x]
			}
			if hasStandalone(seq) {
				seqs = append(seqs, seq)
			}
		})
		for cb := 0; cb < combos; cb++ {
			blocks = append(blocks, block{l: l, combo: cb, size: len(seqs), seqs: seqs})
			universe += len(seqs)
			if l <= ctlSessLen {
				blocks = append(blocks, block{l: l, combo: cb, size: len(seqs), seqs: seqs, session: true})
				universe += len(seqs)
			}
		}
	}
	r.Set("universe", universe)
	r.Set("control_family_cases", universe-family1)
	r.Set("bound", fmt.Sprintf("family 1: alphabet of %d pieces x %d separators x %d trailers; split-vs-grammar on every sequence of 1..%d pieces (1..%d with the first separator/trailer); through a session, with every failing position, on every sequence of 1..%d pieces. Family 2 (control bytes): every sequence of 1..%d pieces over a sub-alphabet of %d (incl. the stand-alone bytes 0x00 0x01 0x1f 0x7f) that contains a stand-alone control byte, all combinations; through a session up to length %d. Hang horizon %v",
		a, len(seps), len(trails), fullLen, extraLen, sessLen, ctlLen, len(controlFamily), ctlSessLen, horizon))

	decode := func(i int) (tcase, bool) {
		for _, bl := range blocks {
			if i >= bl.size {
				i -= bl.size
				continue
			}
			var seq []int
			if bl.seqs != nil {
				seq = bl.seqs[i]
			} else {
				seq = make([]int, bl.l)
				for k := bl.l - 1; k >= 0; k-- {
					seq[k] = i % a
					i /= a
				}
			}
			c := tcase{Seq: seq, Sep: bl.combo / len(trails), Trail: bl.combo % len(trails), Fail: -2}
			if bl.session {
				c.Fail = -3 // all failing positions
			}
			return c, bl.session
		}
		panic("index out of universe")
	}
	done, lost := runPool(r, universe, horizon, decode, func(i int, c tcase) {
		if i%(universe/7+1) == 3 {
			c.Text = c.build()
			r.Sample(c)
		}
	})
	r.Set("workers_lost_to_hangs", lost)
	if int(done)+lost < universe {
		r.Capped(fmt.Sprintf("%d of %d cases completed in index order (family 1 first, shortest first); %d worker(s) lost to cases that never return", done, universe, lost))
	}
	r.Set("evaluations", nEval)
	r.Set("parser_accepted", nAccepted)
	r.Set("parser_rejected", nRejected)
	r.Set("rejected_texts_answered", nRejectedReturned)
	r.Set("session_texts", nSessionCases)
	r.Set("session_runs", nSessions)
	if nAccepted == 0 || r.DistinctN("nontrivial") < 2 || r.DistinctN("session_outcomes") < 2 {
		ev.Fatalf("vacuous run: accepted=%d nontrivial=%d session outcomes=%d", nAccepted, r.DistinctN("nontrivial"), r.DistinctN("session_outcomes"))
	}
	r.Set("rule", "texts = sequences of pieces (plain statements, a SET, empty/blank/comment-only pieces, statements with ';' inside '…', \"…\", `…`, /* */, -- and # comments, after escaped and doubled quotes) joined by ';' variants plus a trailer; control bytes 0x00/0x01/0x1f/0x7f inside strings, comments and quoted identifiers and as stand-alone pieces before/between/after ';' (texts no grammar accepts: only an answer — pieces or an error — is demanded). distinct_nontrivial = distinct accepted texts with ≥2 grammar statements and ≥1 ';' that is not a separator. session_outcomes = distinct (backend statements executed / grammar statements / error) triples")
	r.Assume("Gaea's multi-statement parser.Parse defines the grammar's statements; cross-checked on every accepted text against the independent splitter ref/mylex (disagreement = exit 2)")
	r.Assume("unsharded namespace: the statement text is forwarded to the backend as it was cut; SET is executed inside the proxy and observed through the session's variables")
	r.Assume("a case (a microsecond call) that has not returned after the hang horizon is reported as a hang; its worker is abandoned")
	r.Assume("statement comparison is on trimmed text; differences that are only separators or comments are reported with their own kind")
	r.Finish()
}
