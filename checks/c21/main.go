// C21: read-only users cannot change data or schema.
//
// Engine: enum (bounded-exhaustive inputs) on the C21 session rig (checks/c21/rig): real
// Manager/Namespace/Session objects, Session.Run fed protocol packets over an in-memory
// connection, slice pools replaced by recording fakes.
//
// Universe: statement kind x decoration (lead x letter case x separator after the first
// keyword) x transport (COM_QUERY, COM_QUERY from a multi-statement capable client, first /
// second piece of a multi-statement query, COM_STMT_PREPARE+EXECUTE) x read-only user
// (rw_split on / off) x namespace (without / with shard rules; unsharded / sharded table).
//
// Reference classification: the AST node type produced by Gaea's own parser
// (parser.ParseOneStmt) for the decorated text — independent of the token-based
// parser.Preview used by the check under test. Decorations that change the token stream
// (parentheses, executable version comment) are part of the universe only if the parser accepts
// the text and yields the same node type as the plain statement; for whitespace / comment /
// letter-case decorations the parser cannot read (a leading `/*+ h */`, a hint behind
// INSERT/REPLACE) the plain statement's node type is used.
//
// Oracle (statement, word by word): a modifying statement from a read-only user is
// "rejected" (the response to the statement ends with an ERR packet, or the proxy closes the
// session) "before reaching any backend" (no fake-pool Execute carried anything but the
// innocent `select 1` piece, and no more connections were taken than innocent pieces ran).
package main

import (
	"fmt"
	"os"
	"reflect"
	"sort"
	"strings"
	"sync"
	"unicode"

	"github.com/XiaoMi/Gaea/models"
	"github.com/XiaoMi/Gaea/parser"
	"github.com/XiaoMi/Gaea/parser/ast"

	"verif/checks/c21/rig"
	"verif/engine/enum"
	"verif/engine/ev"
	"verif/engine/gx"
)

// ---------------------------------------------------------------- alphabet

type kind struct {
	Name string
	SQL  string // lower case, %T = table; first blank separates the first keyword
	PSQL string // text used for the prepared-statement transport ("" = SQL)
}

var kinds = []kind{
	// data modifying
	{"insert", "insert into %T (id, v) values (1, 'a')", "insert into %T (id, v) values (?, 'a')"},
	{"insert-select", "insert into %T (id, v) select id, v from tsrc where id = 1", "insert into %T (id, v) select id, v from tsrc where id = ?"},
	{"replace", "replace into %T (id, v) values (1, 'a')", "replace into %T (id, v) values (?, 'a')"},
	{"update", "update %T set v = 'b' where id = 1", "update %T set v = 'b' where id = ?"},
	{"delete", "delete from %T where id = 1", "delete from %T where id = ?"},
	{"load-data", "load data local infile '/tmp/x.csv' into table %T", ""},
	// schema modifying
	{"create-table", "create table %T (id int primary key, v varchar(8))", ""},
	{"alter-table", "alter table %T add column w int", ""},
	{"drop-table", "drop table %T", ""},
	{"truncate-table", "truncate table %T", ""},
	{"rename-table", "rename table %T to tnew", ""},
	{"create-index", "create index ix on %T (v)", ""},
	{"drop-index", "drop index ix on %T", ""},
	{"create-database", "create database dbnew", ""},
	{"drop-database", "drop database dbnew", ""},
	// not modifying (rig sanity and non-vacuity; never alarmed on)
	{"select", "select id, v from %T where id = 1", "select id, v from %T where id = ?"},
	{"select-const", "select 2", ""},
	{"show", "show tables", ""},
	{"set", "set @a = 1", ""},
	{"begin", "begin", ""},
	{"use", "use db1", ""},
	{"explain", "explain select id from %T where id = 1", ""},
}

type deco struct {
	Name string
	Pre  string
	Post string
	// Syntactic decorations change the token stream (parentheses, executable version
	// comment); all others add only whitespace / comments / letter case, which by SQL's
	// lexical rules cannot change what the statement does.
	Syntactic bool
}

var leads = []deco{
	{"none", "", "", false},
	{"blank", "  ", "", false},
	{"tab", "\t", "", false},
	{"newline", "\n", "", false},
	{"crlf", "\r\n", "", false},
	{"block-comment", "/* c */ ", "", false},
	{"block-comment-nospace", "/* c */", "", false},
	{"hint-comment", "/*+ h */ ", "", false},
	{"dash-comment", "-- c\n", "", false},
	{"hash-comment", "# c\n", "", false},
	{"paren", "(", ")", true},
	{"version-comment", "/*!40101 ", " */", true},
	// `--` comment lines whose dashes are followed by a blank, a tab, a newline or CRLF (MySQL:
	// `--` starts a comment when white space or a control character follows) and whose TEXT
	// begins with a read or a write keyword, as in mysqldump-style banners (added after
	// seeded change c22-5). firstExtraLead is the index of the first of them.
	{"dash-space-select", "-- Select stale rows\n", "", false},
	{"dash-tab-select", "--\tselect stale rows\n", "", false},
	{"dash-tab-show", "--\tshow what is stale\n", "", false},
	{"dash-newline-banner-select", "--\n-- Select stale rows\n--\n", "", false},
	{"dash-crlf-banner-select", "--\r\n-- Select stale rows\r\n--\r\n", "", false},
	{"dash-space-delete", "-- delete old rows\n", "", false},
	{"dash-tab-delete", "--\tdelete old rows\n", "", false},
	{"dash-newline-banner-delete", "--\n-- Delete old rows\n--\n", "", false},
}

const firstExtraLead = 12

var cases = []string{"lower", "upper", "mixed"}

var afters = []deco{
	{"blank", " ", "", false},
	{"tab", "\t", "", false},
	{"newline", "\n", "", false},
	// the other ASCII white space MySQL (and Gaea's lexer) accept between tokens; added after
	// seeded change c21-2 (first word cut at a separator set without \v and \f) was missed
	{"vertical-tab", "\v", "", false},
	{"form-feed", "\f", "", false},
	{"carriage-return", "\r", "", false},
	{"comment-nospace", "/**/", "", false},
	{"block-comment", " /* c */ ", "", false},
	{"hint-comment", " /*+ h */ ", "", false},
}

var transports = []string{"query", "query-multicap", "multi-first", "multi-second", "prepared"}
var users = []string{rig.RoSplit, rig.RoNoSplit}

// namespace kind x table
type place struct {
	NS    string // norules | rules
	Table string // tc (unsharded) | ts (sharded by mod(id) over slice-0, slice-1)
}

var places = []place{{"norules", "tc"}, {"rules", "tc"}, {"rules", "ts"}}

const innocent = "select 1"

func recase(s string, mode int) string {
	switch mode {
	case 1:
		return strings.ToUpper(s)
	case 2:
		var b strings.Builder
		up := true
		for _, r := range s {
			if unicode.IsLetter(r) {
				if up {
					b.WriteRune(unicode.ToUpper(r))
				} else {
					b.WriteRune(unicode.ToLower(r))
				}
				up = !up
			} else {
				b.WriteRune(r)
			}
		}
		return b.String()
	}
	return s
}

func decorate(base string, lead, cs, after int) string {
	kw, rest := base, ""
	if i := strings.IndexByte(base, ' '); i >= 0 {
		kw, rest = base[:i], base[i+1:]
	}
	body := recase(kw, cs)
	if rest != "" {
		body += afters[after].Pre + recase(rest, cs)
	}
	return leads[lead].Pre + body + leads[lead].Post
}

// ---------------------------------------------------------------- reference classification

func nodeType(sql string) (string, error) {
	n, err := parser.New().ParseOneStmt(sql, "", "")
	if err != nil {
		return "", err
	}
	return reflect.TypeOf(n).Elem().Name(), nil
}

// modifying reports whether the AST node is one of the statement kinds the property names.
func modifying(sql string) (bool, string, error) {
	n, err := parser.New().ParseOneStmt(sql, "", "")
	if err != nil {
		return false, "", err
	}
	name := reflect.TypeOf(n).Elem().Name()
	switch n.(type) {
	case *ast.InsertStmt, // INSERT and REPLACE
		*ast.UpdateStmt, *ast.DeleteStmt, *ast.LoadDataStmt,
		*ast.CreateTableStmt, *ast.AlterTableStmt, *ast.DropTableStmt, *ast.TruncateTableStmt,
		*ast.RenameTableStmt, *ast.CreateIndexStmt, *ast.DropIndexStmt,
		*ast.CreateDatabaseStmt, *ast.DropDatabaseStmt, *ast.CreateViewStmt:
		return true, name, nil
	}
	return false, name, nil
}

var previewNames = map[int]string{
	parser.StmtSelect: "SELECT", parser.StmtStream: "STREAM", parser.StmtInsert: "INSERT",
	parser.StmtReplace: "REPLACE", parser.StmtUpdate: "UPDATE", parser.StmtDelete: "DELETE",
	parser.StmtDDL: "DDL", parser.StmtBegin: "BEGIN", parser.StmtCommit: "COMMIT",
	parser.StmtRollback: "ROLLBACK", parser.StmtSet: "SET", parser.StmtShow: "SHOW",
	parser.StmtUse: "USE", parser.StmtOther: "OTHER", parser.StmtUnknown: "UNKNOWN",
	parser.StmtComment: "COMMENT", parser.StmtSavepoint: "SAVEPOINT", parser.StmtExplain: "EXPLAIN",
	parser.StmtLockTables: "LOCK", parser.StmtUnlockTables: "UNLOCK", parser.StmtFlush: "FLUSH",
	parser.StmtKill: "KILL", parser.StmtRelease: "RELEASE", parser.StmeSRollback: "SROLLBACK",
}

func previewName(sql string) string {
	if s, ok := previewNames[parser.Preview(sql)]; ok {
		return s
	}
	return fmt.Sprintf("T%d", parser.Preview(sql))
}

// ---------------------------------------------------------------- case

type caseT struct {
	Kind      string `json:"kind"`
	Lead      string `json:"lead"`
	Case      string `json:"case"`
	After     string `json:"after"`
	Transport string `json:"transport"`
	User      string `json:"user"`
	NS        string `json:"ns"`
	Table     string `json:"table"`
	SQL       string `json:"sql"`    // the decorated statement as sent (prepared: with ? placeholders)
	Base      string `json:"base"`   // the plain statement the decoration was applied to
	Parses    bool   `json:"parses"` // Gaea's parser accepts the decorated text
	// transport "history" only: the user's rw_flag when the open session shook hands, and the
	// steps (reload:ro | reload:rw | open:<stmt> | new:<stmt>) applied in order
	Init string   `json:"init,omitempty"`
	Hist []string `json:"hist,omitempty"`
}

type classT struct {
	mod  bool
	node string
}

var classCache = map[string]classT{}

type worker struct {
	w  *rig.World
	ns map[string]string // ns kind -> namespace name
	// rw_flag currently configured for the two users of the history namespace ("rw" | "ro")
	histFlag map[string]string
}

type outcome struct {
	Modifying bool
	Node      string
	Rejected  bool
	Reached   []rig.Event
	ErrMsg    string
	Desc      string
}

// ---------------------------------------------------------------- histories with namespace reloads

// Statements a history can send. The prepared INSERT is prepared when the open session is
// created, i.e. possibly under another rw_flag than the one in force when it is executed.
var histStmts = map[string]struct {
	sql string
	mod bool
}{
	"insert":        {"insert into tc (id, v) values (1, 'a')", true},
	"drop-table":    {"drop table tc", true},
	"exec-prepared": {"insert into tc (id, v) values (?, 'a')", true},
	"select":        {"select id, v from tc where id = 1", false},
}

var histSteps = []string{"reload:ro", "reload:rw", "open:insert", "open:drop-table", "open:exec-prepared", "open:select", "new:insert", "new:select"}

func flagValue(f string) int {
	if f == "ro" {
		return 1 // models.ReadOnly
	}
	return 2 // models.ReadWrite
}

// setFlag reloads the history namespace (real ReloadNamespacePrepare + ReloadNamespaceCommit)
// with the rw_flag of user set to f; the other users keep their current flags.
func (wk *worker) setFlag(user, f string) {
	next := map[string]string{}
	for k, v := range wk.histFlag {
		next[k] = v
	}
	next[user] = f
	err := wk.w.Reload(wk.ns["hist"], func(cfg *models.Namespace) {
		for u, fl := range next {
			split := 0
			if u == rig.RwSplit {
				split = 1
			}
			rig.SetUserFlags(cfg, u, flagValue(fl), split)
		}
	})
	if err != nil {
		ev.Fatalf("reload: %v", err)
	}
	wk.histFlag = next
}

// runHistory: one user whose rw_flag is changed by namespace reloads while a session that
// shook hands under the initial flag stays open. Every statement is judged against the flag of
// the CURRENT namespace configuration: read-only now => a modifying statement is rejected
// before any backend, whatever the flag was when the session (or the prepared statement) was
// created. The reverse direction (read-write now, statement refused) is not part of the
// property; it is counted and reported only.
func runHistory(r *ev.Run, wk *worker, c caseT) outcome {
	var o outcome
	ns := wk.ns["hist"]
	if wk.histFlag[c.User] != c.Init {
		wk.setFlag(c.User, c.Init)
	}
	open, err := wk.w.NewSession(ns, c.User, rig.CapsBase)
	if err != nil {
		ev.Fatalf("session: %v", err)
	}
	defer open.Close()
	pid, pn, prep := open.Prepare(histStmts["exec-prepared"].sql)
	prepared := !(prep.Closed || prep.AnyErr)
	cur := c.Init
	r.Add("evaluations", 1)
	r.Add("histories", 1)
	var trace []string
	for i, st := range c.Hist {
		parts := strings.SplitN(st, ":", 2)
		if parts[0] == "reload" {
			wk.setFlag(c.User, parts[1])
			cur = parts[1]
			trace = append(trace, st)
			continue
		}
		hs, ok := histStmts[parts[1]]
		if !ok {
			ev.Fatalf("history step %q", st)
		}
		var rep rig.Reply
		sess, handshake := "open", c.Init
		switch {
		case parts[0] == "new":
			sess, handshake = "fresh", cur
			fs, err := wk.w.NewSession(ns, c.User, rig.CapsBase)
			if err != nil {
				ev.Fatalf("session: %v", err)
			}
			rep = fs.Query(hs.sql)
			fs.Close()
		case parts[1] == "exec-prepared":
			if !prepared {
				rep = prep
				rep.Err = true
				rep.Events = nil
			} else {
				rep = open.Execute(pid, pn)
			}
		default:
			rep = open.Query(hs.sql)
		}
		rejected := rep.Err || rep.Closed
		reached := rig.Execs(rep.Events)
		gets := rig.Count(rep.Events, "get")
		served := "none"
		if len(reached) > 0 {
			served = reached[0].Class
		} else if gets > 0 {
			served = "get-only"
		}
		trace = append(trace, fmt.Sprintf("%s[%s:rejected=%v,reached=%s]", st, cur, rejected, served))
		r.Add("history_statements", 1)
		r.Distinct("outcomes", fmt.Sprintf("history|%s|%s|handshake=%s|now=%s|rejected=%v|%s", sess, parts[1], handshake, cur, rejected, served))
		if !hs.mod {
			if !rejected && len(reached) > 0 {
				r.Add("reads_served", 1)
			}
			continue
		}
		if cur == "rw" {
			if rejected {
				r.Add("history_rw_user_write_refused", 1) // observed, not judged
			} else if len(reached) > 0 {
				r.Add("history_rw_user_write_executed", 1)
				if sess == "open" && handshake == "ro" {
					r.Add("history_open_session_gained_write", 1)
				}
			}
			continue
		}
		r.Add("modifying_cases", 1)
		if rejected && len(reached) == 0 && gets == 0 {
			r.Distinct("nontrivial", fmt.Sprintf("history|%s|%s|%s|%d|%s", c.User, c.Init, strings.Join(c.Hist, ","), i, st))
			if sess == "open" && handshake == "rw" {
				r.Add("history_open_session_lost_write", 1)
			}
			continue
		}
		outc := "executed-on-" + served
		if len(reached) == 0 && gets > 0 {
			outc = "connection-taken"
		} else if len(reached) == 0 {
			outc = "accepted-not-executed"
		} else if rejected {
			outc = "error-after-" + outc
		}
		o.Desc = outc
		r.Violation(ev.Witness{
			Summary: fmt.Sprintf("user %s is read-only in the current namespace configuration (rw_flag at the open session's handshake: %s; history %s): step %d %s %q -> %s",
				c.User, c.Init, strings.Join(c.Hist, ", "), i+1, st, hs.sql, outc),
			Features: map[string]string{
				"kind": parts[1], "preview": previewName(strings.ReplaceAll(hs.sql, "?", "1")),
				"lead": "none", "case": "lower", "after": "blank", "parses": "true",
				"transport": "history", "user": c.User, "ns": "history", "table": "tc",
				"outcome": outc, "session": sess, "flag_at_handshake": handshake, "flag_now": cur,
			},
			Case: c,
		})
	}
	o.Modifying = true
	if o.Desc == "" {
		o.Desc = "history ok"
	}
	o.ErrMsg = strings.Join(trace, " ; ")
	return o
}

func runCase(r *ev.Run, wk *worker, c caseT) outcome {
	var o outcome
	if c.Transport == "history" {
		return runHistory(r, wk, c)
	}
	// reference classification: AST of the decorated text; where the parser cannot read a
	// whitespace/comment/case-only decoration, AST of the plain statement it decorates
	ref := c.SQL
	if !c.Parses {
		ref = c.Base
	}
	ref = strings.ReplaceAll(ref, "?", "1")
	cls, ok := classCache[ref] // filled while the universe is built; read-only afterwards
	if !ok {
		mod, node, err := modifying(ref)
		if err != nil {
			ev.Fatalf("case outside the universe (parser rejects it): %q: %v", ref, err)
		}
		cls = classT{mod, node}
	}
	mod, node := cls.mod, cls.node
	o.Modifying, o.Node = mod, node

	caps := uint32(rig.CapsBase)
	if c.Transport != "query" && c.Transport != "prepared" {
		caps = rig.CapsMulti
	}
	s, err := wk.w.NewSession(wk.ns[c.NS], c.User, caps)
	if err != nil {
		ev.Fatalf("session: %v", err)
	}
	defer s.Close()

	var rep rig.Reply
	innocentPieces := 0
	switch c.Transport {
	case "query", "query-multicap":
		rep = s.Query(c.SQL)
	case "multi-first":
		rep = s.Query(c.SQL + "; " + innocent)
		innocentPieces = 1
	case "multi-second":
		rep = s.Query(innocent + "; " + c.SQL)
		innocentPieces = 1
	case "prepared":
		id, np, prep := s.Prepare(c.SQL)
		if prep.Closed || prep.AnyErr {
			rep = prep
			rep.Err = true
		} else {
			rep = s.Execute(id, np)
			rep.Events = append(prep.Events, rep.Events...)
		}
	default:
		ev.Fatalf("transport %q", c.Transport)
	}
	o.Rejected = rep.Err || rep.Closed
	o.ErrMsg = rep.ErrMsg
	o.Reached = rig.Execs(rep.Events, innocent)
	gets := rig.Count(rep.Events, "get")
	innocentExecs := rig.Count(rep.Events, "exec") - len(o.Reached)
	if innocentExecs > innocentPieces {
		ev.Fatalf("rig: more innocent executions than innocent pieces: %+v", rep.Events)
	}
	extraGets := gets - innocentExecs
	if extraGets < 0 {
		extraGets = 0
	}

	r.Add("evaluations", 1)
	classes := map[string]bool{}
	for _, e := range o.Reached {
		classes[e.Class] = true
	}
	var cl []string
	for k := range classes {
		cl = append(cl, k)
	}
	sort.Strings(cl)
	reached := "none"
	if len(cl) > 0 {
		reached = strings.Join(cl, "+")
	} else if extraGets > 0 {
		reached = "get-only"
	}
	o.Desc = fmt.Sprintf("rejected=%v reached=%s", o.Rejected, reached)
	r.Distinct("outcomes", fmt.Sprintf("%s|mod=%v|%s", c.Kind, mod, o.Desc))

	if !mod {
		if !o.Rejected && len(o.Reached) > 0 {
			r.Add("reads_served", 1)
		}
		return o
	}
	r.Add("modifying_cases", 1)
	if o.Rejected && len(o.Reached) == 0 && extraGets == 0 {
		// non-trivial: the proxy really turned a modifying statement away
		r.Distinct("nontrivial", fmt.Sprintf("%s|%s|%s|%s|%s|%s|%s|%s", c.Kind, c.Lead, c.Case, c.After, c.Transport, c.User, c.NS, c.Table))
		return o
	}
	outc := "executed-on-" + reached
	if len(o.Reached) == 0 && extraGets > 0 {
		outc = "connection-taken"
	} else if len(o.Reached) == 0 {
		outc = "accepted-not-executed"
	} else if o.Rejected {
		outc = "error-after-" + outc
	}
	first := ""
	if len(o.Reached) > 0 {
		first = fmt.Sprintf(" backend(%s) got %q", o.Reached[0].Class, o.Reached[0].SQL)
	}
	if os.Getenv("C21_DEBUG") != "" {
		fmt.Fprintf(os.Stderr, "V\t%s\t%s\t%s\t%s\t%s\t%s\t%s\t%s\t%s\n", c.Kind, previewName(strings.ReplaceAll(c.SQL, "?", "1")), c.Lead, c.After, c.Case, c.Transport, c.User, c.NS+"/"+c.Table, outc)
	}
	r.Violation(ev.Witness{
		Summary: fmt.Sprintf("read-only user %s, %s, %s table %s: %q (AST %s, Preview %s) -> %s%s",
			c.User, c.Transport, c.NS, c.Table, c.SQL, node, previewName(c.SQL), outc, first),
		Features: map[string]string{
			"kind": c.Kind, "node": node, "preview": previewName(strings.ReplaceAll(c.SQL, "?", "1")),
			"lead": c.Lead, "case": c.Case, "after": c.After, "parses": fmt.Sprint(c.Parses),
			"transport": c.Transport, "user": c.User, "ns": c.NS, "table": c.Table,
			"outcome": outc,
		},
		Case: c,
	})
	return o
}

func newWorker(i int) *worker {
	specs := []rig.NSSpec{
		{Name: fmt.Sprintf("norules%d", i), Rules: false, CheckSelectLock: true, MultiQuery: true},
		{Name: fmt.Sprintf("rules%d", i), Rules: true, CheckSelectLock: true, MultiQuery: true},
	}
	return &worker{ns: map[string]string{"norules": specs[0].Name, "rules": specs[1].Name, "hist": fmt.Sprintf("hist%d", i)},
		histFlag: map[string]string{rig.RwSplit: "rw", rig.RwNoSplit: "rw"}}
}

func main() {
	gx.Quiet()
	r := ev.Start("C21", "exploration")

	const nWorkers = 16
	var specs []rig.NSSpec
	var wks []*worker
	for i := 0; i < nWorkers; i++ {
		wk := newWorker(i)
		wks = append(wks, wk)
		specs = append(specs,
			rig.NSSpec{Name: wk.ns["norules"], Rules: false, CheckSelectLock: true, MultiQuery: true},
			rig.NSSpec{Name: wk.ns["rules"], Rules: true, CheckSelectLock: true, MultiQuery: true},
			rig.NSSpec{Name: wk.ns["hist"], Rules: false, CheckSelectLock: true, MultiQuery: true})
	}
	w, err := rig.NewWorld(specs)
	if err != nil {
		ev.Fatalf("rig: %v", err)
	}
	for _, wk := range wks {
		wk.w = w
	}

	var rc caseT
	if r.ReplayCase(&rc) {
		o := runCase(r, wks[0], rc)
		fmt.Printf("replay: %+v\n  modifying=%v node=%s %s err=%q reached=%+v\n", rc, o.Modifying, o.Node, o.Desc, o.ErrMsg, o.Reached)
		r.Set("rule", "replay of one case")
		r.Finish()
	}

	// decorations: quick = all vectors (lead, case, after) differing from the plain form in
	// at most 2 positions; thorough = the full product.
	type dv struct{ lead, cs, after int }
	var decos []dv
	dims := []int{len(leads), len(cases), len(afters)}
	if r.Quick() {
		enum.Deviations(dims, 2, func(idx []int) { decos = append(decos, dv{idx[0], idx[1], idx[2]}) })
	} else {
		enum.Product(dims, func(idx []int) { decos = append(decos, dv{idx[0], idx[1], idx[2]}) })
	}

	// build the universe; texts the parser does not accept as the same statement are outside
	var all []caseT
	skipped := map[string]int{}
	texts, unparsed := 0, 0
	for _, k := range kinds {
		for _, pl := range places {
			if !strings.Contains(k.SQL, "%T") && pl != places[0] && pl != places[1] {
				continue // no table in the statement: the sharded-table place adds nothing
			}
			for _, d := range decos {
				ndev := 0
				for _, x := range []int{d.lead, d.cs, d.after} {
					if x != 0 {
						ndev++
					}
				}
				if r.Quick() && ndev == 2 && d.lead >= firstExtraLead {
					continue // quick: the keyword-bearing `--` banners only on otherwise plain texts
				}
				if r.Quick() && ndev == 2 && pl != places[0] {
					continue // quick: doubly decorated texts only in the namespace without shard rules
				}
				for _, tr := range transports {
					base := k.SQL
					if tr == "prepared" && k.PSQL != "" {
						base = k.PSQL
					}
					base = strings.ReplaceAll(base, "%T", pl.Table)
					sql := decorate(base, d.lead, d.cs, d.after)
					if !strings.Contains(base, " ") && d.after != 0 {
						continue // single-word statement: no separator to vary
					}
					probe := strings.ReplaceAll(sql, "?", "1")
					want, err0 := nodeType(strings.ReplaceAll(base, "?", "1"))
					if err0 != nil {
						ev.Fatalf("base statement %q does not parse: %v", base, err0)
					}
					got, err1 := nodeType(probe)
					parses := err1 == nil
					if !parses && leads[d.lead].Syntactic {
						skipped["parser-rejects:"+leads[d.lead].Name]++
						continue
					}
					if parses && got != want {
						if !leads[d.lead].Syntactic {
							ev.Fatalf("lexical decoration changed the AST node: %q %s vs %s", sql, got, want)
						}
						skipped["different-node:"+leads[d.lead].Name]++
						continue
					}
					if !parses {
						unparsed++
					}
					texts++
					ref := probe
					if !parses {
						ref = strings.ReplaceAll(base, "?", "1")
					}
					if _, ok := classCache[ref]; !ok {
						m, nd, err := modifying(ref)
						if err != nil {
							ev.Fatalf("classification of %q: %v", ref, err)
						}
						classCache[ref] = classT{m, nd}
					}
					for _, u := range users {
						all = append(all, caseT{Kind: k.Name, Lead: leads[d.lead].Name, Case: cases[d.cs],
							After: afters[d.after].Name, Transport: tr, User: u, NS: pl.NS, Table: pl.Table, SQL: sql, Base: base, Parses: parses})
					}
				}
			}
		}
	}

	// histories with namespace reloads: every sequence of at most 3 (thorough: 4) steps over
	// {reload the user read-only, reload read-write, 4 statements on the session opened at the
	// start, 2 statements on a fresh session}, for both initial flags and both rw_split values
	maxLen := r.Pick(3, 4)
	nHist := 0
	enum.Seqs(len(histSteps), 1, maxLen, func(seq []int) {
		steps := make([]string, len(seq))
		stmt := false
		for i, x := range seq {
			steps[i] = histSteps[x]
			if !strings.HasPrefix(steps[i], "reload:") {
				stmt = true
			}
		}
		if !stmt {
			return // nothing to judge
		}
		for _, u := range []string{rig.RwSplit, rig.RwNoSplit} {
			for _, init := range []string{"rw", "ro"} {
				all = append(all, caseT{Kind: "history", Lead: "none", Case: "lower", After: "blank", Transport: "history",
					User: u, NS: "history", Table: "tc", SQL: strings.Join(steps, " ; "), Parses: true, Init: init, Hist: steps})
				nHist++
			}
		}
	})
	r.Set("history_cases", nHist)

	var mu sync.Mutex
	sampled := map[string]bool{}
	free := make(chan *worker, nWorkers)
	for _, wk := range wks {
		free <- wk
	}
	done := enum.Parallel(len(all), r.TimeUp, func(i int) {
		wk := <-free
		o := runCase(r, wk, all[i])
		free <- wk
		key := fmt.Sprintf("%v/%s/%v", o.Modifying, o.Desc, all[i].Transport == "history")
		mu.Lock()
		if !sampled[key] {
			sampled[key] = true
			r.Sample(map[string]interface{}{"case": all[i], "ast_node": o.Node, "modifying": o.Modifying,
				"outcome": o.Desc, "error": o.ErrMsg, "reached": o.Reached})
		}
		mu.Unlock()
	})
	if done < len(all) {
		r.Capped(fmt.Sprintf("%d of %d cases (in enumeration order: kinds, places, decorations, transports, users)", done, len(all)))
	}

	r.Set("universe", len(all))
	r.Set("namespace_reloads", w.Reloads())
	r.Set("decorations", len(decos))
	r.Set("statement_kinds", len(kinds))
	r.Set("texts_outside_universe", skipped)
	r.Set("texts", texts)
	r.Set("texts_classified_by_plain_statement", unparsed)
	r.Set("bound", map[string]interface{}{
		"kinds": len(kinds), "leads": len(leads), "letter_cases": len(cases), "separators_after_keyword": len(afters),
		"decoration_vectors": fmt.Sprintf("%d (%s)", len(decos), map[bool]string{true: "<=2 deviations from plain; 2-deviation vectors only for the namespace without shard rules", false: "full product"}[r.Quick()]),
		"transports":         transports, "users": users, "places": places,
	})
	r.Set("rule", "every statement kind x decoration vector (lead, letter case, separator after the first keyword) x transport x read-only user x (namespace, table) whose decorated text Gaea's parser accepts with the same AST node type as the plain statement; each case runs on a fresh real Session. distinct_nontrivial = distinct cases in which a statement the AST classifies as data/schema modifying was really turned away (ERR response and nothing reached a fake backend); non-modifying kinds and accepted statements are not counted.")
	r.Assume("the AST node type of Gaea's parser (ParseOneStmt) is the reference for 'could modify data or schema'; decorated texts the parser rejects or classifies differently are outside the universe")
	r.Assume("fake pools/connections always succeed; a statement 'reaches a backend' when a fake PooledConnect.Execute receives it or a pool Get is issued for it")
	// self-tests of the harness; when the run has unexplained violations they are the verdict
	if r.Violations() > 0 {
		r.Finish()
	}
	if r.Count("history_open_session_lost_write") == 0 || r.Count("history_open_session_gained_write") == 0 {
		ev.Fatalf("vacuous: reload histories: open sessions that lost write=%d, gained write=%d", r.Count("history_open_session_lost_write"), r.Count("history_open_session_gained_write"))
	}
	if r.DistinctN("outcomes") < 3 {
		ev.Fatalf("vacuous: only %d distinct outcomes", r.DistinctN("outcomes"))
	}
	if r.Count("reads_served") == 0 {
		ev.Fatalf("vacuous: no read was ever served by a fake backend")
	}
	r.Finish()
}
