// C21: read-only users cannot change data or schema.
//
// Engine: enum (bounded-exhaustive inputs) on the C21 session rig (checks/c21/rig): real
// Manager/Namespace/Session objects, Session.Run fed protocol packets over an in-memory
// connection, slice pools replaced by recording fakes.
//
// Universe: statement kind x decoration (lead x letter case x separator after the first
// keyword) x transport (COM_QUERY, COM_QUERY from a multi-statement capable client, first /
// second piece of a multi-statement query, COM_STMT_PREPARE+EXECUTE) x read-only user
// (rw_split on / off) x namespace (without / with shard rules; unsharded / sharded table).
//
// Reference classification: the AST node type produced by Gaea's own parser
// (parser.ParseOneStmt) for the decorated text — independent of the token-based
// parser.Preview used by the check under test. Decorations that change the token stream
// (parentheses, executable version comment) are part of the universe only if the parser accepts
// the text and yields the same node type as the plain statement; for whitespace / comment /
// letter-case decorations the parser cannot read (a leading `/*+ h */`, a hint behind
// INSERT/REPLACE) the plain statement's node type is used.
//
// Oracle (statement, word by word): a modifying statement from a read-only user is
// "rejected" (the response to the statement ends with an ERR packet, or the proxy closes the
// session) "before reaching any backend" (no fake-pool Execute carried anything but the
// innocent `select 1` piece, and no more connections were taken than innocent pieces ran).
package main

import (
	"fmt"
	"os"
	"reflect"
	"sort"
	"strings"
	"sync"
	"unicode"

	"github.com/XiaoMi/Gaea/parser"
	"github.com/XiaoMi/Gaea/parser/ast"

	"verif/checks/c21/rig"
	"verif/engine/enum"
	"verif/engine/ev"
	"verif/engine/gx"
)

// ---------------------------------------------------------------- alphabet

type kind struct {
	Name string
	SQL  string // lower case, %T = table; first blank separates the first keyword
	PSQL string // text used for the prepared-statement transport ("" = SQL)
}

var kinds = []kind{
	// data modifying
	{"insert", "insert into %T (id, v) values (1, 'a')", "insert into %T (id, v) values (?, 'a')"},
	{"insert-select", "insert into %T (id, v) select id, v from tsrc where id = 1", "insert into %T (id, v) select id, v from tsrc where id = ?"},
	{"replace", "replace into %T (id, v) values (1, 'a')", "replace into %T (id, v) values (?, 'a')"},
	{"update", "update %T set v = 'b' where id = 1", "update %T set v = 'b' where id = ?"},
	{"delete", "delete from %T where id = 1", "delete from %T where id = ?"},
	{"load-data", "load data local infile '/tmp/x.csv' into table %T", ""},
	// schema modifying
	{"create-table", "create table %T (id int primary key, v varchar(8))", ""},
	{"alter-table", "alter table %T add column w int", ""},
	{"drop-table", "drop table %T", ""},
	{"truncate-table", "truncate table %T", ""},
	{"rename-table", "rename table %T to tnew", ""},
	{"create-index", "create index ix on %T (v)", ""},
	{"drop-index", "drop index ix on %T", ""},
	{"create-database", "create database dbnew", ""},
	{"drop-database", "drop database dbnew", ""},
	// not modifying (rig sanity and non-vacuity; never alarmed on)
	{"select", "select id, v from %T where id = 1", "select id, v from %T where id = ?"},
	{"select-const", "select 2", ""},
	{"show", "show tables", ""},
	{"set", "set @a = 1", ""},
	{"begin", "begin", ""},
	{"use", "use db1", ""},
	{"explain", "explain select id from %T where id = 1", ""},
}

type deco struct {
	Name string
	Pre  string
	Post string
	// Syntactic decorations change the token stream (parentheses, executable version
	// comment); all others add only whitespace / comments / letter case, which by SQL's
	// lexical rules cannot change what the statement does.
	Syntactic bool
}

var leads = []deco{
	{"none", "", "", false},
	{"blank", "  ", "", false},
	{"tab", "\t", "", false},
	{"newline", "\n", "", false},
	{"crlf", "\r\n", "", false},
	{"block-comment", "/* c */ ", "", false},
	{"block-comment-nospace", "/* c */", "", false},
	{"hint-comment", "/*+ h */ ", "", false},
	{"dash-comment", "-- c\n", "", false},
	{"hash-comment", "# c\n", "", false},
	{"paren", "(", ")", true},
	{"version-comment", "/*!40101 ", " */", true},
}

var cases = []string{"lower", "upper", "mixed"}

var afters = []deco{
	{"blank", " ", "", false},
	{"tab", "\t", "", false},
	{"newline", "\n", "", false},
	// the other ASCII white space MySQL (and Gaea's lexer) accept between tokens; added after
	// seeded change c21-2 (first word cut at a separator set without \v and \f) was missed
	{"vertical-tab", "\v", "", false},
	{"form-feed", "\f", "", false},
	{"carriage-return", "\r", "", false},
	{"comment-nospace", "/**/", "", false},
	{"block-comment", " /* c */ ", "", false},
	{"hint-comment", " /*+ h */ ", "", false},
}

var transports = []string{"query", "query-multicap", "multi-first", "multi-second", "prepared"}
var users = []string{rig.RoSplit, rig.RoNoSplit}

// namespace kind x table
type place struct {
	NS    string // norules | rules
	Table string // tc (unsharded) | ts (sharded by mod(id) over slice-0, slice-1)
}

var places = []place{{"norules", "tc"}, {"rules", "tc"}, {"rules", "ts"}}

const innocent = "select 1"

func recase(s string, mode int) string {
	switch mode {
	case 1:
		return strings.ToUpper(s)
	case 2:
		var b strings.Builder
		up := true
		for _, r := range s {
			if unicode.IsLetter(r) {
				if up {
					b.WriteRune(unicode.ToUpper(r))
				} else {
					b.WriteRune(unicode.ToLower(r))
				}
				up = !up
			} else {
				b.WriteRune(r)
			}
		}
		return b.String()
	}
	return s
}

func decorate(base string, lead, cs, after int) string {
	kw, rest := base, ""
	if i := strings.IndexByte(base, ' '); i >= 0 {
		kw, rest = base[:i], base[i+1:]
	}
	body := recase(kw, cs)
	if rest != "" {
		body += afters[after].Pre + recase(rest, cs)
	}
	return leads[lead].Pre + body + leads[lead].Post
}

// ---------------------------------------------------------------- reference classification

func nodeType(sql string) (string, error) {
	n, err := parser.New().ParseOneStmt(sql, "", "")
	if err != nil {
		return "", err
	}
	return reflect.TypeOf(n).Elem().Name(), nil
}

// modifying reports whether the AST node is one of the statement kinds the property names.
func modifying(sql string) (bool, string, error) {
	n, err := parser.New().ParseOneStmt(sql, "", "")
	if err != nil {
		return false, "", err
	}
	name := reflect.TypeOf(n).Elem().Name()
	switch n.(type) {
	case *ast.InsertStmt, // INSERT and REPLACE
		*ast.UpdateStmt, *ast.DeleteStmt, *ast.LoadDataStmt,
		*ast.CreateTableStmt, *ast.AlterTableStmt, *ast.DropTableStmt, *ast.TruncateTableStmt,
		*ast.RenameTableStmt, *ast.CreateIndexStmt, *ast.DropIndexStmt,
		*ast.CreateDatabaseStmt, *ast.DropDatabaseStmt, *ast.CreateViewStmt:
		return true, name, nil
	}
	return false, name, nil
}

var previewNames = map[int]string{
	parser.StmtSelect: "SELECT", parser.StmtStream: "STREAM", parser.StmtInsert: "INSERT",
	parser.StmtReplace: "REPLACE", parser.StmtUpdate: "UPDATE", parser.StmtDelete: "DELETE",
	parser.StmtDDL: "DDL", parser.StmtBegin: "BEGIN", parser.StmtCommit: "COMMIT",
	parser.StmtRollback: "ROLLBACK", parser.StmtSet: "SET", parser.StmtShow: "SHOW",
	parser.StmtUse: "USE", parser.StmtOther: "OTHER", parser.StmtUnknown: "UNKNOWN",
	parser.StmtComment: "COMMENT", parser.StmtSavepoint: "SAVEPOINT", parser.StmtExplain: "EXPLAIN",
	parser.StmtLockTables: "LOCK", parser.StmtUnlockTables: "UNLOCK", parser.StmtFlush: "FLUSH",
	parser.StmtKill: "KILL", parser.StmtRelease: "RELEASE", parser.StmeSRollback: "SROLLBACK",
}

func previewName(sql string) string {
	if s, ok := previewNames[parser.Preview(sql)]; ok {
		return s
	}
	return fmt.Sprintf("T%d", parser.Preview(sql))
}

// ---------------------------------------------------------------- case

type caseT struct {
	Kind      string `json:"kind"`
	Lead      string `json:"lead"`
	Case      string `json:"case"`
	After     string `json:"after"`
	Transport string `json:"transport"`
	User      string `json:"user"`
	NS        string `json:"ns"`
	Table     string `json:"table"`
	SQL       string `json:"sql"`    // the decorated statement as sent (prepared: with ? placeholders)
	Base      string `json:"base"`   // the plain statement the decoration was applied to
	Parses    bool   `json:"parses"` // Gaea's parser accepts the decorated text
}

type classT struct {
	mod  bool
	node string
}

var classCache = map[string]classT{}

type worker struct {
	w  *rig.World
	ns map[string]string // ns kind -> namespace name
}

type outcome struct {
	Modifying bool
	Node      string
	Rejected  bool
	Reached   []rig.Event
	ErrMsg    string
	Desc      string
}

func runCase(r *ev.Run, wk *worker, c caseT) outcome {
	var o outcome
	// reference classification: AST of the decorated text; where the parser cannot read a
	// whitespace/comment/case-only decoration, AST of the plain statement it decorates
	ref := c.SQL
	if !c.Parses {
		ref = c.Base
	}
	ref = strings.ReplaceAll(ref, "?", "1")
	cls, ok := classCache[ref] // filled while the universe is built; read-only afterwards
	if !ok {
		mod, node, err := modifying(ref)
		if err != nil {
			ev.Fatalf("case outside the universe (parser rejects it): %q: %v", ref, err)
		}
		cls = classT{mod, node}
	}
	mod, node := cls.mod, cls.node
	o.Modifying, o.Node = mod, node

	caps := uint32(rig.CapsBase)
	if c.Transport != "query" && c.Transport != "prepared" {
		caps = rig.CapsMulti
	}
	s, err := wk.w.NewSession(wk.ns[c.NS], c.User, caps)
	if err != nil {
		ev.Fatalf("session: %v", err)
	}
	defer s.Close()

	var rep rig.Reply
	innocentPieces := 0
	switch c.Transport {
	case "query", "query-multicap":
		rep = s.Query(c.SQL)
	case "multi-first":
		rep = s.Query(c.SQL + "; " + innocent)
		innocentPieces = 1
	case "multi-second":
		rep = s.Query(innocent + "; " + c.SQL)
		innocentPieces = 1
	case "prepared":
		id, np, prep := s.Prepare(c.SQL)
		if prep.Closed || prep.AnyErr {
			rep = prep
			rep.Err = true
		} else {
			rep = s.Execute(id, np)
			rep.Events = append(prep.Events, rep.Events...)
		}
	default:
		ev.Fatalf("transport %q", c.Transport)
	}
	o.Rejected = rep.Err || rep.Closed
	o.ErrMsg = rep.ErrMsg
	o.Reached = rig.Execs(rep.Events, innocent)
	gets := rig.Count(rep.Events, "get")
	innocentExecs := rig.Count(rep.Events, "exec") - len(o.Reached)
	if innocentExecs > innocentPieces {
		ev.Fatalf("rig: more innocent executions than innocent pieces: %+v", rep.Events)
	}
	extraGets := gets - innocentExecs
	if extraGets < 0 {
		extraGets = 0
	}

	r.Add("evaluations", 1)
	classes := map[string]bool{}
	for _, e := range o.Reached {
		classes[e.Class] = true
	}
	var cl []string
	for k := range classes {
		cl = append(cl, k)
	}
	sort.Strings(cl)
	reached := "none"
	if len(cl) > 0 {
		reached = strings.Join(cl, "+")
	} else if extraGets > 0 {
		reached = "get-only"
	}
	o.Desc = fmt.Sprintf("rejected=%v reached=%s", o.Rejected, reached)
	r.Distinct("outcomes", fmt.Sprintf("%s|mod=%v|%s", c.Kind, mod, o.Desc))

	if !mod {
		if !o.Rejected && len(o.Reached) > 0 {
			r.Add("reads_served", 1)
		}
		return o
	}
	r.Add("modifying_cases", 1)
	if o.Rejected && len(o.Reached) == 0 && extraGets == 0 {
		// non-trivial: the proxy really turned a modifying statement away
		r.Distinct("nontrivial", fmt.Sprintf("%s|%s|%s|%s|%s|%s|%s|%s", c.Kind, c.Lead, c.Case, c.After, c.Transport, c.User, c.NS, c.Table))
		return o
	}
	outc := "executed-on-" + reached
	if len(o.Reached) == 0 && extraGets > 0 {
		outc = "connection-taken"
	} else if len(o.Reached) == 0 {
		outc = "accepted-not-executed"
	} else if o.Rejected {
		outc = "error-after-" + outc
	}
	first := ""
	if len(o.Reached) > 0 {
		first = fmt.Sprintf(" backend(%s) got %q", o.Reached[0].Class, o.Reached[0].SQL)
	}
	if os.Getenv("C21_DEBUG") != "" {
		fmt.Fprintf(os.Stderr, "V\t%s\t%s\t%s\t%s\t%s\t%s\t%s\t%s\t%s\n", c.Kind, previewName(strings.ReplaceAll(c.SQL, "?", "1")), c.Lead, c.After, c.Case, c.Transport, c.User, c.NS+"/"+c.Table, outc)
	}
	r.Violation(ev.Witness{
		Summary: fmt.Sprintf("read-only user %s, %s, %s table %s: %q (AST %s, Preview %s) -> %s%s",
			c.User, c.Transport, c.NS, c.Table, c.SQL, node, previewName(c.SQL), outc, first),
		Features: map[string]string{
			"kind": c.Kind, "node": node, "preview": previewName(strings.ReplaceAll(c.SQL, "?", "1")),
			"lead": c.Lead, "case": c.Case, "after": c.After, "parses": fmt.Sprint(c.Parses),
			"transport": c.Transport, "user": c.User, "ns": c.NS, "table": c.Table,
			"outcome": outc,
		},
		Case: c,
	})
	return o
}

func newWorker(i int) *worker {
	specs := []rig.NSSpec{
		{Name: fmt.Sprintf("norules%d", i), Rules: false, CheckSelectLock: true, MultiQuery: true},
		{Name: fmt.Sprintf("rules%d", i), Rules: true, CheckSelectLock: true, MultiQuery: true},
	}
	return &worker{ns: map[string]string{"norules": specs[0].Name, "rules": specs[1].Name}}
}

func main() {
	gx.Quiet()
	r := ev.Start("C21", "exploration")

	const nWorkers = 16
	var specs []rig.NSSpec
	var wks []*worker
	for i := 0; i < nWorkers; i++ {
		wk := newWorker(i)
		wks = append(wks, wk)
		specs = append(specs,
			rig.NSSpec{Name: wk.ns["norules"], Rules: false, CheckSelectLock: true, MultiQuery: true},
			rig.NSSpec{Name: wk.ns["rules"], Rules: true, CheckSelectLock: true, MultiQuery: true})
	}
	w, err := rig.NewWorld(specs)
	if err != nil {
		ev.Fatalf("rig: %v", err)
	}
	for _, wk := range wks {
		wk.w = w
	}

	var rc caseT
	if r.ReplayCase(&rc) {
		o := runCase(r, wks[0], rc)
		fmt.Printf("replay: %+v\n  modifying=%v node=%s %s err=%q reached=%+v\n", rc, o.Modifying, o.Node, o.Desc, o.ErrMsg, o.Reached)
		r.Set("rule", "replay of one case")
		r.Finish()
	}

	// decorations: quick = all vectors (lead, case, after) differing from the plain form in
	// at most 2 positions; thorough = the full product.
	type dv struct{ lead, cs, after int }
	var decos []dv
	dims := []int{len(leads), len(cases), len(afters)}
	if r.Quick() {
		enum.Deviations(dims, 2, func(idx []int) { decos = append(decos, dv{idx[0], idx[1], idx[2]}) })
	} else {
		enum.Product(dims, func(idx []int) { decos = append(decos, dv{idx[0], idx[1], idx[2]}) })
	}

	// build the universe; texts the parser does not accept as the same statement are outside
	var all []caseT
	skipped := map[string]int{}
	texts, unparsed := 0, 0
	for _, k := range kinds {
		for _, pl := range places {
			if !strings.Contains(k.SQL, "%T") && pl != places[0] && pl != places[1] {
				continue // no table in the statement: the sharded-table place adds nothing
			}
			for _, d := range decos {
				ndev := 0
				for _, x := range []int{d.lead, d.cs, d.after} {
					if x != 0 {
						ndev++
					}
				}
				if r.Quick() && ndev == 2 && pl != places[0] {
					continue // quick: doubly decorated texts only in the namespace without shard rules
				}
				for _, tr := range transports {
					base := k.SQL
					if tr == "prepared" && k.PSQL != "" {
						base = k.PSQL
					}
					base = strings.ReplaceAll(base, "%T", pl.Table)
					sql := decorate(base, d.lead, d.cs, d.after)
					if !strings.Contains(base, " ") && d.after != 0 {
						continue // single-word statement: no separator to vary
					}
					probe := strings.ReplaceAll(sql, "?", "1")
					want, err0 := nodeType(strings.ReplaceAll(base, "?", "1"))
					if err0 != nil {
						ev.Fatalf("base statement %q does not parse: %v", base, err0)
					}
					got, err1 := nodeType(probe)
					parses := err1 == nil
					if !parses && leads[d.lead].Syntactic {
						skipped["parser-rejects:"+leads[d.lead].Name]++
						continue
					}
					if parses && got != want {
						if !leads[d.lead].Syntactic {
							ev.Fatalf("lexical decoration changed the AST node: %q %s vs %s", sql, got, want)
						}
						skipped["different-node:"+leads[d.lead].Name]++
						continue
					}
					if !parses {
						unparsed++
					}
					texts++
					ref := probe
					if !parses {
						ref = strings.ReplaceAll(base, "?", "1")
					}
					if _, ok := classCache[ref]; !ok {
						m, nd, err := modifying(ref)
						if err != nil {
							ev.Fatalf("classification of %q: %v", ref, err)
						}
						classCache[ref] = classT{m, nd}
					}
					for _, u := range users {
						all = append(all, caseT{Kind: k.Name, Lead: leads[d.lead].Name, Case: cases[d.cs],
							After: afters[d.after].Name, Transport: tr, User: u, NS: pl.NS, Table: pl.Table, SQL: sql, Base: base, Parses: parses})
					}
				}
			}
		}
	}

	var mu sync.Mutex
	sampled := map[string]bool{}
	free := make(chan *worker, nWorkers)
	for _, wk := range wks {
		free <- wk
	}
	done := enum.Parallel(len(all), r.TimeUp, func(i int) {
		wk := <-free
		o := runCase(r, wk, all[i])
		free <- wk
		key := fmt.Sprintf("%v/%s", o.Modifying, o.Desc)
		mu.Lock()
		if !sampled[key] {
			sampled[key] = true
			r.Sample(map[string]interface{}{"case": all[i], "ast_node": o.Node, "modifying": o.Modifying,
				"outcome": o.Desc, "error": o.ErrMsg, "reached": o.Reached})
		}
		mu.Unlock()
	})
	if done < len(all) {
		r.Capped(fmt.Sprintf("%d of %d cases (in enumeration order: kinds, places, decorations, transports, users)", done, len(all)))
	}

	r.Set("universe", len(all))
	r.Set("decorations", len(decos))
	r.Set("statement_kinds", len(kinds))
	r.Set("texts_outside_universe", skipped)
	r.Set("texts", texts)
	r.Set("texts_classified_by_plain_statement", unparsed)
	r.Set("bound", map[string]interface{}{
		"kinds": len(kinds), "leads": len(leads), "letter_cases": len(cases), "separators_after_keyword": len(afters),
		"decoration_vectors": fmt.Sprintf("%d (%s)", len(decos), map[bool]string{true: "<=2 deviations from plain; 2-deviation vectors only for the namespace without shard rules", false: "full product"}[r.Quick()]),
		"transports":         transports, "users": users, "places": places,
	})
	r.Set("rule", "every statement kind x decoration vector (lead, letter case, separator after the first keyword) x transport x read-only user x (namespace, table) whose decorated text Gaea's parser accepts with the same AST node type as the plain statement; each case runs on a fresh real Session. distinct_nontrivial = distinct cases in which a statement the AST classifies as data/schema modifying was really turned away (ERR response and nothing reached a fake backend); non-modifying kinds and accepted statements are not counted.")
	r.Assume("the AST node type of Gaea's parser (ParseOneStmt) is the reference for 'could modify data or schema'; decorated texts the parser rejects or classifies differently are outside the universe")
	r.Assume("fake pools/connections always succeed; a statement 'reaches a backend' when a fake PooledConnect.Execute receives it or a pool Get is issued for it")
	// self-tests of the harness; when the run has unexplained violations they are the verdict
	if r.Violations() > 0 {
		r.Finish()
	}
	if r.DistinctN("outcomes") < 3 {
		ev.Fatalf("vacuous: only %d distinct outcomes", r.DistinctN("outcomes"))
	}
	if r.Count("reads_served") == 0 {
		ev.Fatalf("vacuous: no read was ever served by a fake backend")
	}
	r.Finish()
}
