// Package rig is the small session rig of C21/C22: a real server.Manager with real
// server.Namespace objects (router, users, slices, balancers), whose slice nodes' connection
// pools are replaced by recording fakes of the exported backend.ConnectionPool /
// backend.PooledConnect interfaces, and real server.Session objects whose command loop
// (Session.Run) is fed MySQL protocol packets through an in-memory net.Conn.
//
// Everything that decides about a statement — Session.Run, ExecuteCommand, handleQuery,
// doMultiStmts, checkSQLAllowed, Preview, Tokenize, checkExecuteFromSlave, handleShow, the plan
// builders, Slice.GetConn and the balancers — is Gaea's code. The rig only observes which pool
// (master / replica) handed out a connection and which SQL text was executed on it.
package rig

import (
	"context"
	"encoding/binary"
	"fmt"
	"io"
	"net"
	"os"
	"strings"
	"sync"
	"time"

	"github.com/XiaoMi/Gaea/backend"
	"github.com/XiaoMi/Gaea/log"
	"github.com/XiaoMi/Gaea/models"
	"github.com/XiaoMi/Gaea/mysql"
	"github.com/XiaoMi/Gaea/proxy/server"
)

// ---------------------------------------------------------------- ledger

// Event is one call that reached a fake backend.
type Event struct {
	Op    string `json:"op"`    // get | exec | usedb | begin | commit | rollback | autocommit | recycle | close | fieldlist
	Class string `json:"class"` // master | replica
	Slice string `json:"slice"`
	Conn  int    `json:"conn"`
	SQL   string `json:"sql,omitempty"`
	// Failed: the environment answered this Execute with "the connection broke" (error
	// returned, connection closed) — see Ledger.FailNextExec
	Failed bool `json:"failed,omitempty"`
}

// Ledger records the events of one namespace (one namespace is used by one worker at a time).
type Ledger struct {
	mu     sync.Mutex
	events []Event
	nextID int
	// failNext: the next Execute on any fake connection of this ledger fails like a broken
	// socket / a connection killed by max_sql_execute_time: error + connection closed
	failNext bool
}

// FailNextExec arms the fault answer for the next Execute of this ledger's connections.
func (l *Ledger) FailNextExec() {
	l.mu.Lock()
	l.failNext = true
	l.mu.Unlock()
}

// Disarm clears an unused fault answer and reports whether it was still armed.
func (l *Ledger) Disarm() bool {
	l.mu.Lock()
	a := l.failNext
	l.failNext = false
	l.mu.Unlock()
	return a
}

func (l *Ledger) takeFault() bool {
	l.mu.Lock()
	a := l.failNext
	l.failNext = false
	l.mu.Unlock()
	return a
}

func (l *Ledger) add(e Event) {
	l.mu.Lock()
	l.events = append(l.events, e)
	l.mu.Unlock()
}

// Take returns and clears the recorded events.
func (l *Ledger) Take() []Event {
	l.mu.Lock()
	ev := l.events
	l.events = nil
	l.mu.Unlock()
	return ev
}

func (l *Ledger) id() int {
	l.mu.Lock()
	l.nextID++
	n := l.nextID
	l.mu.Unlock()
	return n
}

// ---------------------------------------------------------------- fake pool / conn

type pool struct {
	led   *Ledger
	class string
	slice string
	addr  string
}

func (p *pool) Open() error        { return nil }
func (p *pool) Addr() string       { return p.addr }
func (p *pool) Datacenter() string { return "dc" }
func (p *pool) Close()             {}
func (p *pool) Get(ctx context.Context) (backend.PooledConnect, error) {
	c := &conn{p: p, id: p.led.id()}
	p.led.add(Event{Op: "get", Class: p.class, Slice: p.slice, Conn: c.id})
	return c, nil
}

// GetCheck is what the health-check loops use; the rig never lets them run (see Reload), a
// call would be recorded under its own op so that it can never pass for a statement's Get.
func (p *pool) GetCheck(ctx context.Context) (backend.PooledConnect, error) {
	c := &conn{p: p, id: p.led.id()}
	p.led.add(Event{Op: "getcheck", Class: p.class, Slice: p.slice, Conn: c.id})
	return c, nil
}
func (p *pool) Put(pc backend.PooledConnect)   {}
func (p *pool) SetCapacity(capacity int) error { return nil }
func (p *pool) SetIdleTimeout(d time.Duration) {}
func (p *pool) StatsJSON() string              { return "{}" }
func (p *pool) Capacity() int64                { return 8 }
func (p *pool) Available() int64               { return 8 }
func (p *pool) Active() int64                  { return 0 }
func (p *pool) InUse() int64                   { return 0 }
func (p *pool) MaxCap() int64                  { return 8 }
func (p *pool) WaitCount() int64               { return 0 }
func (p *pool) WaitTime() time.Duration        { return 0 }
func (p *pool) IdleTimeout() time.Duration     { return 0 }
func (p *pool) IdleClosed() int64              { return 0 }
func (p *pool) SetLastChecked()                {}
func (p *pool) GetLastChecked() int64          { return 0 }

type conn struct {
	p      *pool
	id     int
	closed bool
}

func (c *conn) ev(op, sql string) {
	c.p.led.add(Event{Op: op, Class: c.p.class, Slice: c.p.slice, Conn: c.id, SQL: sql})
}
func (c *conn) Recycle()              { c.ev("recycle", "") }
func (c *conn) Reconnect() error      { return nil }
func (c *conn) Close()                { c.closed = true; c.ev("close", "") }
func (c *conn) IsClosed() bool        { return c.closed }
func (c *conn) UseDB(db string) error { c.ev("usedb", db); return nil }
func (c *conn) Execute(sql string, maxRows int) (*mysql.Result, error) {
	if c.p.led.takeFault() {
		// the connection is closed and an error handed up
		c.p.led.add(Event{Op: "exec", Class: c.p.class, Slice: c.p.slice, Conn: c.id, SQL: sql, Failed: true})
		c.closed = true
		// a plain error, as on the max_sql_execute_time path (connection closed, "execution
		// timed out"); mysql.ErrBadConn would additionally make the proxy close the client
		// session, after which nothing can follow
		return nil, fmt.Errorf("fake backend: connection lost while executing")
	}
	c.ev("exec", sql)
	return &mysql.Result{Status: mysql.ServerStatusAutocommit}, nil
}
func (c *conn) ExecuteWithTimeout(sql string, maxRows int, timeout time.Duration) (*mysql.Result, error) {
	return c.Execute(sql, maxRows)
}
func (c *conn) SetAutoCommit(v uint8) error         { c.ev("autocommit", fmt.Sprint(v)); return nil }
func (c *conn) Begin() error                        { c.ev("begin", ""); return nil }
func (c *conn) Commit() error                       { c.ev("commit", ""); return nil }
func (c *conn) Rollback() error                     { c.ev("rollback", ""); return nil }
func (c *conn) Ping() error                         { return nil }
func (c *conn) PingWithTimeout(time.Duration) error { return nil }
func (c *conn) SetCharset(charset string, collation mysql.CollationID) (bool, error) {
	return false, nil
}
func (c *conn) FieldList(table string, wildcard string) ([]*mysql.Field, error) {
	c.ev("fieldlist", table)
	return nil, nil
}
func (c *conn) GetAddr() string { return c.p.addr }
func (c *conn) SetSessionVariables(frontend *mysql.SessionVariables) (bool, error) {
	return false, nil
}
func (c *conn) SyncSessionVariables(frontend *mysql.SessionVariables) error { return nil }
func (c *conn) WriteSetStatement() error                                    { return nil }
func (c *conn) GetConnectionID() int64                                      { return int64(c.id) }
func (c *conn) GetReturnTime() time.Time                                    { return time.Time{} }
func (c *conn) MoreRowsExist() bool                                         { return false }
func (c *conn) MoreResultsExist() bool                                      { return false }
func (c *conn) FetchMoreRows(result *mysql.Result, maxRows int) error       { return nil }
func (c *conn) ReadMoreResult(maxRows int) (*mysql.Result, error)           { return nil, nil }

// ---------------------------------------------------------------- null logger

type nullLogger struct{}

func (nullLogger) SetLevel(name, level string) error                    { return nil }
func (nullLogger) Debug(format string, a ...interface{}) error          { return nil }
func (nullLogger) Trace(format string, a ...interface{}) error          { return nil }
func (nullLogger) Notice(format string, a ...interface{}) error         { return nil }
func (nullLogger) Warn(format string, a ...interface{}) error           { return nil }
func (nullLogger) Fatal(format string, a ...interface{}) error          { return nil }
func (nullLogger) Debugx(logID, format string, a ...interface{}) error  { return nil }
func (nullLogger) Tracex(logID, format string, a ...interface{}) error  { return nil }
func (nullLogger) Noticex(logID, format string, a ...interface{}) error { return nil }
func (nullLogger) Warnx(logID, format string, a ...interface{}) error   { return nil }
func (nullLogger) Fatalx(logID, format string, a ...interface{}) error  { return nil }
func (nullLogger) Close()                                               {}
func (nullLogger) Dropped(i int) uint64                                 { return 0 }

var _ log.Logger = nullLogger{}

// ---------------------------------------------------------------- world

// NSSpec describes one namespace of the world.
type NSSpec struct {
	Name            string
	Rules           bool // a mod shard rule for table db1.ts on slice-0/slice-1 (db1.tc stays unsharded)
	CheckSelectLock bool // value of check_select_lock in the namespace config
	MultiQuery      bool // support_multi_query
}

// User kinds present in every namespace (user name = kind + "__" + namespace, password "pw").
const (
	RoSplit   = "ro_split"   // rw_flag=1 rw_split=1
	RoNoSplit = "ro_nosplit" // rw_flag=1 rw_split=0
	RwSplit   = "rw_split"   // rw_flag=2 rw_split=1
	RwNoSplit = "rw_nosplit" // rw_flag=2 rw_split=0
)

var UserKinds = []string{RoSplit, RoNoSplit, RwSplit, RwNoSplit}

const DB = "db1"

type World struct {
	Manager *server.Manager
	cfg     *models.Proxy
	ledgers map[string]*Ledger

	mu   sync.Mutex
	srvs map[string]*srvUse // per namespace: the Server object sessions are attached to

	specs    map[string]NSSpec
	reloadMu sync.Mutex // the proxy's prepare/commit pair is one admin operation at a time
	reloads  int64
}

// A Server (never-started one-bucket time wheel included) is shared by the sessions of one
// namespace and replaced every 256 sessions, long before the wheel's 4096-entry queue — which
// nobody drains here — could fill up (Session.Run enqueues one entry per command).
type srvUse struct {
	srv  *server.Server
	uses int
}

func (w *World) serverFor(ns string) (*server.Server, error) {
	w.mu.Lock()
	defer w.mu.Unlock()
	if w.srvs == nil {
		w.srvs = map[string]*srvUse{}
	}
	u := w.srvs[ns]
	if u == nil || u.uses >= 256 {
		srv, err := server.VerifNewServer(w.cfg, w.Manager)
		if err != nil {
			return nil, err
		}
		u = &srvUse{srv: srv}
		w.srvs[ns] = u
	}
	u.uses++
	return u.srv, nil
}

func nsConfig(sp NSSpec) *models.Namespace {
	n := &models.Namespace{
		Name:              sp.Name,
		Online:            true,
		AllowedDBS:        map[string]bool{DB: true},
		DefaultPhyDBS:     map[string]string{DB: DB},
		DefaultSlice:      "slice-0",
		CheckSelectLock:   sp.CheckSelectLock,
		SupportMultiQuery: sp.MultiQuery,
		DefaultCharset:    "utf8",
	}
	for i, s := range []string{"slice-0", "slice-1"} {
		n.Slices = append(n.Slices, &models.Slice{
			Name: s, UserName: "u", Password: "p",
			Master:   fmt.Sprintf("m%d.invalid:3306#dc", i),
			Slaves:   []string{fmt.Sprintf("r%d.invalid:3306#dc", i)},
			Capacity: 4, MaxCapacity: 4, IdleTimeout: 3600,
		})
	}
	if sp.Rules {
		n.ShardRules = []*models.Shard{{
			DB: DB, Table: "ts", Type: "mod", Key: "id",
			Locations: []int{1, 1}, Slices: []string{"slice-0", "slice-1"},
		}}
	}
	add := func(kind string, flag, split int) {
		n.Users = append(n.Users, &models.User{UserName: kind + "__" + sp.Name, Password: "pw",
			Namespace: sp.Name, RWFlag: flag, RWSplit: split})
	}
	add(RoSplit, models.ReadOnly, models.ReadWriteSplit)
	add(RoNoSplit, models.ReadOnly, models.NoReadWriteSplit)
	add(RwSplit, models.ReadWrite, models.ReadWriteSplit)
	add(RwNoSplit, models.ReadWrite, models.NoReadWriteSplit)
	return n
}

// NewWorld builds one Manager holding one namespace per spec and replaces every node's
// connection pool by a recording fake (class master / replica).
func NewWorld(specs []NSSpec) (*World, error) {
	tmp, err := os.MkdirTemp("", "c21-rig-")
	if err != nil {
		return nil, err
	}
	defer os.RemoveAll(tmp)
	cfg := &models.Proxy{
		ConfigType: "file", Service: "gaea_proxy", Cluster: "gaea",
		LogPath: tmp, LogLevel: "fatal", LogFileName: "gaea", LogOutput: "file",
		StatsEnabled: "false", ServerIdc: "dc", ServerVersion: "5.7.25-gaea",
		SlowSQLTime: 0, SessionTimeout: 3600,
	}
	// proxy option net_buffer_size: per-connection read/write buffer (default 16 KiB); the
	// smallest setting keeps the thousands of short-lived sessions cheap
	mysql.InitNetBufferSize(1024)
	var nss []*models.Namespace
	for _, sp := range specs {
		nss = append(nss, nsConfig(sp))
	}
	m, err := server.VerifNewManager(cfg, nss, nullLogger{})
	if err != nil {
		return nil, err
	}
	w := &World{Manager: m, cfg: cfg, ledgers: map[string]*Ledger{}, specs: map[string]NSSpec{}}
	for _, sp := range specs {
		w.specs[sp.Name] = sp
		w.ledgers[sp.Name] = &Ledger{}
		if err := w.plugFakes(sp.Name); err != nil {
			return nil, err
		}
	}
	return w, nil
}

// plugFakes replaces the pools of the manager's CURRENT namespace object called name by
// recording fakes writing to the namespace's ledger.
func (w *World) plugFakes(name string) error {
	ns := server.VerifManagerNamespace(w.Manager, name)
	if ns == nil {
		return fmt.Errorf("namespace %s missing", name)
	}
	led := w.ledgers[name]
	for _, sn := range []string{"slice-0", "slice-1"} {
		sl := ns.GetSlice(sn)
		if sl == nil {
			return fmt.Errorf("slice %s missing", sn)
		}
		swap := func(info *backend.DBInfo, class string) {
			if info == nil {
				return
			}
			for _, nd := range info.Nodes {
				if nd.ConnPool != nil {
					nd.ConnPool.Close() // stops the real pool's timers; it never connected
				}
				nd.ConnPool = &pool{led: led, class: class, slice: sn, addr: nd.Address}
			}
		}
		if len(sl.Master.Nodes) != 1 || len(sl.Slave.Nodes) != 1 {
			return fmt.Errorf("slice %s: unexpected node layout", sn)
		}
		swap(sl.Master, "master")
		swap(sl.Slave, "replica")
		swap(sl.StatisticSlave, "statistic-replica")
		swap(sl.MonitorMaster, "monitor-master")
		swap(sl.MonitorSlave, "monitor-replica")
	}
	return nil
}

// Reload replaces the configuration of namespace name through the proxy's own reload path —
// Manager.ReloadNamespacePrepare + ReloadNamespaceCommit, what the admin API calls when an
// operator edits a namespace — with the rig's configuration changed by mutate (e.g. a user's
// rw_flag). Open sessions stay open and pick the new namespace up with their next command,
// exactly as in the proxy. The commit starts the health-check loops of the new namespace
// (first tick after 4 s); they are cancelled at once through the exported Namespace.CloseCancel
// and the new namespace's pools are replaced by fakes on the same ledger.
func (w *World) Reload(name string, mutate func(*models.Namespace)) error {
	sp, ok := w.specs[name]
	if !ok {
		return fmt.Errorf("namespace %s unknown", name)
	}
	cfg := nsConfig(sp)
	if mutate != nil {
		mutate(cfg)
	}
	w.reloadMu.Lock()
	defer w.reloadMu.Unlock()
	if err := w.Manager.ReloadNamespacePrepare(cfg); err != nil {
		return fmt.Errorf("reload prepare: %v", err)
	}
	if err := w.Manager.ReloadNamespaceCommit(name); err != nil {
		return fmt.Errorf("reload commit: %v", err)
	}
	ns := server.VerifManagerNamespace(w.Manager, name)
	if ns == nil {
		return fmt.Errorf("namespace %s missing after reload", name)
	}
	if ns.CloseCancel != nil {
		ns.CloseCancel()
	}
	w.reloads++
	return w.plugFakes(name)
}

// Reloads returns the number of namespace reloads performed.
func (w *World) Reloads() int64 {
	w.reloadMu.Lock()
	defer w.reloadMu.Unlock()
	return w.reloads
}

// SetUserFlags is a mutate helper for Reload: it sets rw_flag / rw_split of a user kind.
func SetUserFlags(cfg *models.Namespace, userKind string, rwFlag, rwSplit int) {
	for _, u := range cfg.Users {
		if u.UserName == userKind+"__"+cfg.Name {
			u.RWFlag, u.RWSplit = rwFlag, rwSplit
		}
	}
}

func (w *World) Ledger(ns string) *Ledger { return w.ledgers[ns] }

// CheckSelectLockEffective reports the value the real Namespace ended up with.
func (w *World) CheckSelectLockEffective(ns string) bool {
	return server.VerifManagerNamespace(w.Manager, ns).CheckSelectLock
}

// ---------------------------------------------------------------- in-memory client connection

type pipe struct {
	in     chan []byte
	cur    []byte
	idle   chan struct{}
	closed chan struct{}
	once   sync.Once
	mu     sync.Mutex
	out    []byte
}

type addr string

func (a addr) Network() string { return "tcp" }
func (a addr) String() string  { return string(a) }

func (p *pipe) Read(b []byte) (int, error) {
	if len(p.cur) == 0 {
		// the session wants the next command: everything written so far is the complete
		// response to the previous one
		select {
		case p.idle <- struct{}{}:
		case <-p.closed:
			return 0, io.EOF
		}
		select {
		case d := <-p.in:
			p.cur = d
		case <-p.closed:
			return 0, io.EOF
		}
	}
	n := copy(b, p.cur)
	p.cur = p.cur[n:]
	return n, nil
}
func (p *pipe) Write(b []byte) (int, error) {
	p.mu.Lock()
	p.out = append(p.out, b...)
	p.mu.Unlock()
	return len(b), nil
}
func (p *pipe) Close() error                       { p.once.Do(func() { close(p.closed) }); return nil }
func (p *pipe) LocalAddr() net.Addr                { return addr("127.0.0.1:13306") }
func (p *pipe) RemoteAddr() net.Addr               { return addr("127.0.0.1:40000") }
func (p *pipe) SetDeadline(t time.Time) error      { return nil }
func (p *pipe) SetReadDeadline(t time.Time) error  { return nil }
func (p *pipe) SetWriteDeadline(t time.Time) error { return nil }

func (p *pipe) takeOut() []byte {
	p.mu.Lock()
	o := p.out
	p.out = nil
	p.mu.Unlock()
	return o
}

// Sess is one client session (real server.Session) of a user.
type Sess struct {
	w    *World
	NS   string
	User string
	S    *server.Session
	p    *pipe
	done chan struct{}
}

// Reply is the complete response to one command.
type Reply struct {
	Packets [][]byte `json:"-"`
	NPacket int      `json:"packets"`
	Err     bool     `json:"err"`     // the last packet is an ERR packet
	AnyErr  bool     `json:"any_err"` // some packet is an ERR packet
	ErrMsg  string   `json:"err_msg,omitempty"`
	Closed  bool     `json:"closed"` // the session ended instead of waiting for the next command
	Events  []Event  `json:"events"` // what reached the fake backends while the command ran
}

// Capabilities of the simulated client.
const (
	CapsBase  = mysql.ClientLongPassword | mysql.ClientLongFlag | mysql.ClientConnectWithDB | mysql.ClientProtocol41 | mysql.ClientTransactions | mysql.ClientSecureConnection | mysql.ClientMultiResults | mysql.ClientPluginAuth
	CapsMulti = CapsBase | mysql.ClientMultiStatements
)

// NewSession logs a user kind of namespace ns in (real handleHandshakeResponse) and starts the
// real command loop on an in-memory connection.
func (w *World) NewSession(ns, userKind string, caps uint32) (*Sess, error) {
	srv, err := w.serverFor(ns)
	if err != nil {
		return nil, err
	}
	p := &pipe{in: make(chan []byte), idle: make(chan struct{}), closed: make(chan struct{})}
	user := userKind + "__" + ns
	ss, err := server.VerifNewSession(srv, p, user, "pw", DB, caps)
	if err != nil {
		return nil, err
	}
	s := &Sess{w: w, NS: ns, User: user, S: ss, p: p, done: make(chan struct{})}
	go func() {
		defer close(s.done)
		server.VerifRun(ss)
	}()
	select {
	case <-p.idle:
	case <-s.done:
		return nil, fmt.Errorf("session ended before the first command")
	}
	w.ledgers[ns].Take()
	return s, nil
}

// Do sends one command packet and waits until the session asks for the next one.
func (s *Sess) Do(cmd byte, payload []byte) Reply {
	pkt := make([]byte, 4+1+len(payload))
	n := 1 + len(payload)
	pkt[0], pkt[1], pkt[2], pkt[3] = byte(n), byte(n>>8), byte(n>>16), 0
	pkt[4] = cmd
	copy(pkt[5:], payload)
	var r Reply
	select {
	case s.p.in <- pkt:
	case <-s.done:
		r.Closed = true
		return r
	}
	select {
	case <-s.p.idle:
	case <-s.done:
		r.Closed = true
	}
	out := s.p.takeOut()
	for len(out) >= 4 {
		l := int(out[0]) | int(out[1])<<8 | int(out[2])<<16
		if len(out) < 4+l {
			break
		}
		r.Packets = append(r.Packets, out[4:4+l])
		out = out[4+l:]
	}
	r.NPacket = len(r.Packets)
	for i, pk := range r.Packets {
		if len(pk) > 0 && pk[0] == 0xff {
			r.AnyErr = true
			if i == len(r.Packets)-1 {
				r.Err = true
				msg := pk[1:]
				if len(msg) >= 2 {
					msg = msg[2:]
				}
				if len(msg) >= 6 && msg[0] == '#' {
					msg = msg[6:]
				}
				r.ErrMsg = string(msg)
			}
		}
	}
	r.Events = s.w.ledgers[s.NS].Take()
	return r
}

func (s *Sess) Query(sql string) Reply { return s.Do(mysql.ComQuery, []byte(sql)) }

// QueryBackendBreaks sends sql while the environment answers the statement's first backend
// Execute with a broken connection. consumed=false: the statement never reached a backend.
func (s *Sess) QueryBackendBreaks(sql string) (r Reply, consumed bool) {
	led := s.w.ledgers[s.NS]
	led.FailNextExec()
	r = s.Do(mysql.ComQuery, []byte(sql))
	return r, !led.Disarm()
}

// Prepare sends COM_STMT_PREPARE; ok=false when the proxy answered with an error.
func (s *Sess) Prepare(sql string) (id uint32, params int, r Reply) {
	r = s.Do(mysql.ComStmtPrepare, []byte(sql))
	if r.Closed || len(r.Packets) == 0 || r.AnyErr || len(r.Packets[0]) < 9 || r.Packets[0][0] != 0 {
		return 0, 0, r
	}
	p0 := r.Packets[0]
	return binary.LittleEndian.Uint32(p0[1:5]), int(binary.LittleEndian.Uint16(p0[7:9])), r
}

// Execute sends COM_STMT_EXECUTE with every parameter bound to the 4-byte integer 1.
func (s *Sess) Execute(id uint32, params int) Reply {
	b := make([]byte, 9)
	binary.LittleEndian.PutUint32(b[0:4], id)
	b[4] = 0 // CURSOR_TYPE_NO_CURSOR
	binary.LittleEndian.PutUint32(b[5:9], 1)
	if params > 0 {
		b = append(b, make([]byte, (params+7)>>3)...) // null bitmap: none null
		b = append(b, 1)                              // new-params-bound
		for i := 0; i < params; i++ {
			b = append(b, mysql.TypeLong, 0)
		}
		for i := 0; i < params; i++ {
			b = append(b, 1, 0, 0, 0)
		}
	}
	return s.Do(mysql.ComStmtExecute, b)
}

// Close ends the session (client closes the connection) and waits for Session.Run to return.
func (s *Sess) Close() {
	s.p.Close()
	<-s.done
	s.w.ledgers[s.NS].Take()
}

// Execs returns the SQL texts executed on backends with the node class, ignoring the
// statements in skip (compared case-insensitively after trimming).
func Execs(ev []Event, skip ...string) (out []Event) {
	for _, e := range ev {
		if e.Op != "exec" {
			continue
		}
		t := strings.ToLower(strings.TrimSpace(e.SQL))
		sk := false
		for _, s := range skip {
			if t == s {
				sk = true
			}
		}
		if !sk {
			out = append(out, e)
		}
	}
	return out
}

// Count returns the number of events with the op.
func Count(ev []Event, op string) int {
	n := 0
	for _, e := range ev {
		if e.Op == op {
			n++
		}
	}
	return n
}
