package main

import (
	"fmt"
	"reflect"

	"github.com/XiaoMi/Gaea/parser"
	_ "github.com/XiaoMi/Gaea/parser/tidb-types/parser_driver"
)

func main() {
	for _, s := range []string{
		"/*+ h */ insert into t values (1)",
		"insert /*+ h */ into t values (1)",
		"insert /*+ MAX_EXECUTION_TIME(1000) */ into t values (1)",
		"select /*+ MAX_EXECUTION_TIME(1000) */ * from t",
		"select /*+ h */ * from t",
		"/*+ MAX_EXECUTION_TIME(1000) */ select * from t",
		"update /*+ MAX_EXECUTION_TIME(1000) */ t set a=1",
		"delete /*+ MAX_EXECUTION_TIME(1000) */ from t",
		"replace /*+ MAX_EXECUTION_TIME(1000) */ into t values (1)",
		"select /*+ TIDB_INLJ(t) */ * from t",
		"insert /*+ TIDB_INLJ(t) */ into t values(1)",
		"/*+ TIDB_INLJ(t) */ insert into t values(1)",
		"/*+ master */ select * from t",
		"select /*+ master */ * from t",
		"select * from t for update",
		"select * from t for share",
		"select * from t lock in share mode",
		"select * from t for update nowait",
		"select * from t for update skip locked",
		"select * from t for share nowait",
		"select * from t for share skip locked",
		"select * from t for update /* trace */",
		"select * from t for update -- x",
		"select * from t /*master*/",
		"/*master*/ select * from t",
		"select /*master*/ * from t",
		"/*!40101 insert into t values (1) */",
	} {
		n, err := parser.New().ParseOneStmt(s, "", "")
		if err != nil {
			fmt.Printf("ERR  %-60q %v\n", s, err)
			continue
		}
		fmt.Printf("OK   %-60q %s preview=%d\n", s, reflect.TypeOf(n).Elem().Name(), parser.Preview(s))
	}
}
