// C13: prepared-statement (binary protocol) results carry the same values as the backend's
// text results.
//
// Engine: enum (bounded-exhaustive). For every row of the universe:
//
//	text row (length-encoded strings / 0xfb, built by the harness)
//	  -> mysql.RowData.ParseText(fields)              (what backend.DirectConnection does)
//	  -> (*mysql.Result).BuildBinaryResultSet()        (what Session.writeResponse does for
//	                                                    COM_STMT_EXECUTE)
//	  -> RowDatas[0]  -> verif/ref/binproto.DecodeRow  (independent decoder, same column list)
//	  -> compared column by column with the ORIGINAL text: integers/floats/decimals
//	     numerically, strings byte-for-byte, temporal values field by field.
//
// An error (or a panic, which Session.Run's recover turns into a closed connection) from Gaea
// is accepted: the statement allows "or the proxy reports an error instead of sending a
// different value". A row that decodes to a different value, or does not decode, is a violation.
package main

import (
	"bytes"
	"encoding/hex"
	"fmt"
	"math/big"
	"regexp"
	"runtime/debug"
	"strconv"
	"strings"

	"github.com/XiaoMi/Gaea/mysql"

	"verif/engine/enum"
	"verif/engine/ev"
	"verif/engine/gx"
	bp "verif/ref/binproto"
)

// Col is one column of a case: type code, flags, and the text value the backend sent.
type Col struct {
	Type  byte   `json:"type"`
	Name  string `json:"type_name"`
	Flags uint16 `json:"flags"`
	Null  bool   `json:"null,omitempty"`
	Hex   string `json:"hex,omitempty"`  // text value, hex
	Text  string `json:"text,omitempty"` // the same, readable (informational)
	raw   []byte // decoded Hex (cache; nil after a JSON round trip)
}

// Case is one result set: Cols is its first row, More the later rows (same column types and
// flags, other values). The whole set goes through ONE BuildBinaryResultSet call.
type Case struct {
	Cols []Col   `json:"cols"`
	More [][]Col `json:"more_rows,omitempty"`
}

func (c Case) rows() [][]Col { return append([][]Col{c.Cols}, c.More...) }

const (
	fNotNull  = 1 << 0
	fUnsigned = 1 << 5
	fZerofill = 1 << 6
	fBinary   = 1 << 7
)

func mkCol(t byte, flags uint16, val string) Col {
	txt := val
	if len(txt) > 40 {
		txt = fmt.Sprintf("%q...(%d bytes)", txt[:24], len(val))
	} else {
		txt = strconv.Quote(txt)
	}
	return Col{Type: t, Name: bp.TypeName(t), Flags: flags, Hex: hex.EncodeToString([]byte(val)), Text: txt, raw: []byte(val)}
}

func nullCol(t byte, flags uint16) Col {
	return Col{Type: t, Name: bp.TypeName(t), Flags: flags, Null: true}
}

func (c Col) value() []byte {
	if c.raw != nil || c.Hex == "" {
		return c.raw
	}
	b, err := hex.DecodeString(c.Hex)
	if err != nil {
		ev.Fatalf("bad hex in case: %v", err)
	}
	return b
}

func rowString(cols []Col) string {
	var parts []string
	for _, col := range cols {
		v := col.Text
		if col.Null {
			v = "NULL"
		}
		parts = append(parts, fmt.Sprintf("%s/flags=%#x %s", col.Name, col.Flags, v))
	}
	return "row(" + strings.Join(parts, " | ") + ")"
}

func (c Case) String() string {
	if len(c.More) == 0 {
		return rowString(c.Cols)
	}
	var parts []string
	for _, r := range c.rows() {
		parts = append(parts, rowString(r))
	}
	return fmt.Sprintf("resultset of %d rows [", len(parts)) + strings.Join(parts, " ; ") + "]"
}

// ---- text row ----

func lenencInt(v uint64) []byte {
	switch {
	case v < 251:
		return []byte{byte(v)}
	case v < 1<<16:
		return []byte{0xfc, byte(v), byte(v >> 8)}
	case v < 1<<24:
		return []byte{0xfd, byte(v), byte(v >> 8), byte(v >> 16)}
	}
	b := []byte{0xfe, 0, 0, 0, 0, 0, 0, 0, 0}
	for i := 0; i < 8; i++ {
		b[1+i] = byte(v >> (8 * uint(i)))
	}
	return b
}

func textRow(cols []Col) []byte {
	var row []byte
	for _, col := range cols {
		if col.Null {
			row = append(row, 0xfb)
			continue
		}
		v := col.value()
		row = append(row, lenencInt(uint64(len(v)))...)
		row = append(row, v...)
	}
	return row
}

// ---- oracle: what the text value means ----

var (
	reInt      = regexp.MustCompile(`^-?[0-9]+$`)
	reDecimal  = regexp.MustCompile(`^-?[0-9]+(\.[0-9]+)?$`)
	reDate     = regexp.MustCompile(`^([0-9]{4})-([0-9]{2})-([0-9]{2})$`)
	reDatetime = regexp.MustCompile(`^([0-9]{4})-([0-9]{2})-([0-9]{2}) ([0-9]{2}):([0-9]{2}):([0-9]{2})(?:\.([0-9]{1,6}))?$`)
	reTime     = regexp.MustCompile(`^(-?)([0-9]{2,3}):([0-9]{2}):([0-9]{2})(?:\.([0-9]{1,6}))?$`)
)

func atoi(s string) int {
	n, err := strconv.Atoi(s)
	if err != nil {
		ev.Fatalf("harness: atoi(%q)", s)
	}
	return n
}

func micro(frac string) int {
	if frac == "" {
		return 0
	}
	for len(frac) < 6 {
		frac += "0"
	}
	return atoi(frac)
}

// valueClass describes the text value for finding signatures (computed from the input only).
func valueClass(t byte, txt string) string {
	switch t {
	case bp.TDate:
		m := reDate.FindStringSubmatch(txt)
		if m == nil {
			return "-"
		}
		y, mo, d := atoi(m[1]), atoi(m[2]), atoi(m[3])
		switch {
		case y == 0 && mo == 0 && d == 0:
			return "zero_date"
		case mo == 0 || d == 0:
			return "date_zero_month_or_day"
		case !validCalendar(y, mo, d):
			return "date_not_in_calendar"
		}
		return "calendar_date"
	}
	return "-"
}

func validCalendar(y, m, d int) bool {
	if m < 1 || m > 12 || d < 1 {
		return false
	}
	dim := []int{31, 28, 31, 30, 31, 30, 31, 31, 30, 31, 30, 31}[m-1]
	if m == 2 && (y%4 == 0 && (y%100 != 0 || y%400 == 0)) {
		dim = 29
	}
	return d <= dim
}

// compare returns "" when the decoded binary value v means the same as the text value.
func compare(col Col, v bp.Value) string {
	txt := ""
	if len(col.value()) < 1<<12 { // long values are strings/blobs, compared as bytes below
		txt = string(col.value())
	}
	unsigned := col.Flags&fUnsigned != 0
	switch col.Type {
	case bp.TTiny, bp.TShort, bp.TInt24, bp.TLong, bp.TLonglong, bp.TYear:
		if !reInt.MatchString(txt) {
			ev.Fatalf("harness: integer text %q", txt)
		}
		want, _ := new(big.Int).SetString(txt, 10)
		got := new(big.Int)
		switch {
		case v.Kind == bp.KUint && unsigned:
			got.SetUint64(v.U)
		case v.Kind == bp.KInt && !unsigned:
			got.SetInt64(v.I)
		default:
			return fmt.Sprintf("decoded kind %d for an integer column", v.Kind)
		}
		if want.Cmp(got) != 0 {
			return fmt.Sprintf("binary row carries %s, text value is %s", got, want)
		}
	case bp.TFloat:
		w, err := strconv.ParseFloat(txt, 32)
		if err != nil {
			ev.Fatalf("harness: float text %q", txt)
		}
		if v.Kind != bp.KFloat || v.F32 != float32(w) {
			return fmt.Sprintf("binary row carries float %v, text value is %s (float32 %v)", v.F32, txt, float32(w))
		}
	case bp.TDouble:
		w, err := strconv.ParseFloat(txt, 64)
		if err != nil {
			ev.Fatalf("harness: double text %q", txt)
		}
		if v.Kind != bp.KDouble || v.F64 != w {
			return fmt.Sprintf("binary row carries double %v, text value is %s", v.F64, txt)
		}
	case bp.TDecimal, bp.TNewDecimal:
		if !reDecimal.MatchString(txt) {
			ev.Fatalf("harness: decimal text %q", txt)
		}
		if v.Kind != bp.KBytes || !reDecimal.Match(v.B) {
			return fmt.Sprintf("binary row carries %q, not a decimal string", v.B)
		}
		w, _ := new(big.Rat).SetString(txt)
		g, _ := new(big.Rat).SetString(string(v.B))
		if w.Cmp(g) != 0 {
			return fmt.Sprintf("binary row carries decimal %s, text value is %s", v.B, txt)
		}
	case bp.TVarchar, bp.TBit, bp.TEnum, bp.TSet, bp.TTinyBlob, bp.TMediumBlob, bp.TLongBlob, bp.TBlob,
		bp.TVarString, bp.TString, bp.TGeometry, bp.TJSON:
		if v.Kind != bp.KBytes || !bytes.Equal(v.B, col.value()) {
			return fmt.Sprintf("binary row carries %d bytes %q, text value has %d bytes %q", len(v.B), clip(v.B), len(col.value()), clip(col.value()))
		}
	case bp.TDate:
		m := reDate.FindStringSubmatch(txt)
		if m == nil {
			ev.Fatalf("harness: date text %q", txt)
		}
		if v.Kind != bp.KDate {
			return "not decoded as a date"
		}
		if v.Year != atoi(m[1]) || v.Month != atoi(m[2]) || v.Day != atoi(m[3]) || v.Hour != 0 || v.Min != 0 || v.Sec != 0 || v.Micro != 0 {
			return fmt.Sprintf("binary row carries %04d-%02d-%02d %02d:%02d:%02d.%06d (length byte %d), text value is %s", v.Year, v.Month, v.Day, v.Hour, v.Min, v.Sec, v.Micro, v.N, txt)
		}
	case bp.TDatetime, bp.TTimestamp:
		m := reDatetime.FindStringSubmatch(txt)
		if m == nil {
			ev.Fatalf("harness: datetime text %q", txt)
		}
		if v.Kind != bp.KDate {
			return "not decoded as a datetime"
		}
		if v.Year != atoi(m[1]) || v.Month != atoi(m[2]) || v.Day != atoi(m[3]) || v.Hour != atoi(m[4]) || v.Min != atoi(m[5]) || v.Sec != atoi(m[6]) || v.Micro != micro(m[7]) {
			return fmt.Sprintf("binary row carries %04d-%02d-%02d %02d:%02d:%02d.%06d (length byte %d), text value is %s", v.Year, v.Month, v.Day, v.Hour, v.Min, v.Sec, v.Micro, v.N, txt)
		}
	case bp.TTime:
		m := reTime.FindStringSubmatch(txt)
		if m == nil {
			ev.Fatalf("harness: time text %q", txt)
		}
		if v.Kind != bp.KTime {
			return "not decoded as a time"
		}
		want := ((int64(atoi(m[2]))*60+int64(atoi(m[3])))*60+int64(atoi(m[4])))*1000000 + int64(micro(m[5]))
		if m[1] == "-" {
			want = -want
		}
		got := (((int64(v.Days)*24+int64(v.Hour))*60+int64(v.Min))*60+int64(v.Sec))*1000000 + int64(v.Micro)
		if v.Neg {
			got = -got
		}
		if want != got {
			return fmt.Sprintf("binary row carries neg=%v days=%d %02d:%02d:%02d.%06d (length byte %d), text value is %s", v.Neg, v.Days, v.Hour, v.Min, v.Sec, v.Micro, v.N, txt)
		}
	case bp.TNull:
		return "a NULL-typed column carries a value"
	default:
		ev.Fatalf("harness: no oracle for type %d", col.Type)
	}
	return ""
}

func clip(b []byte) string {
	if len(b) > 24 {
		return string(b[:24]) + "..."
	}
	return string(b)
}

// ---- running one case ----

type verdict struct {
	kind, detail string
	row, col     int // row and column the violation is attributed to
	outcome      string
	built        bool
}

func run(c Case) (v verdict) {
	rows := c.rows()
	fields := make([]*mysql.Field, len(c.Cols))
	cols := make([]bp.Column, len(c.Cols))
	for i, col := range c.Cols {
		fields[i] = &mysql.Field{Name: []byte(fmt.Sprintf("c%d", i)), Type: col.Type, Flag: col.Flags}
		cols[i] = bp.Column{Type: col.Type, Unsigned: col.Flags&fUnsigned != 0}
	}
	for ri, r := range rows {
		if len(r) != len(c.Cols) {
			ev.Fatalf("harness: row %d has %d columns, the field list %d", ri, len(r), len(c.Cols))
		}
		for i := range r {
			if r[i].Type != c.Cols[i].Type || r[i].Flags != c.Cols[i].Flags {
				ev.Fatalf("harness: row %d column %d changes type/flags", ri, i)
			}
		}
	}
	var built []mysql.RowData
	var gerr error
	stage := "ParseText"
	pm := ev.Catch(func() {
		values := make([][]interface{}, 0, len(rows))
		for _, r := range rows {
			vals, err := mysql.RowData(textRow(r)).ParseText(fields)
			if err != nil {
				gerr = err
				return
			}
			values = append(values, vals)
		}
		stage = "BuildBinaryResultSet"
		res := &mysql.Result{Resultset: &mysql.Resultset{Fields: fields, Values: values}}
		if gerr = res.BuildBinaryResultSet(); gerr != nil {
			return
		}
		built = res.RowDatas
	})
	switch {
	case pm != nil:
		v.outcome = "panic in " + stage
		return
	case gerr != nil:
		v.outcome = "error from " + stage
		return
	}
	v.built = true
	if len(built) != len(rows) {
		v.kind, v.row, v.col = "row_count", 0, 0
		v.detail = fmt.Sprintf("%d text rows went in, the binary result set has %d rows", len(rows), len(built))
		return
	}
	// every row of the set is decoded on its own and compared with ITS text row
	for ri, r := range rows {
		if kind, col, detail := judgeRow(r, cols, built[ri]); kind != "" {
			v.kind, v.row, v.col = kind, ri, col
			if len(rows) > 1 {
				detail = fmt.Sprintf("row %d of %d: %s", ri, len(rows), detail)
			}
			v.detail = detail
			return
		}
	}
	v.outcome = "same value"
	return
}

// judgeRow attributes a violation to the FIRST column that is wrong: a column decoded before
// the point of failure may already differ from its text value, and only if all decoded columns
// agree is the column at which decoding stopped (or, for left-over bytes, the last non-NULL
// column) to blame.
func judgeRow(text []Col, cols []bp.Column, row []byte) (kind string, at int, detail string) {
	vals, failedAt, derr := bp.DecodeRow(cols, row)
	for i, val := range vals {
		col := text[i]
		switch {
		case col.Null && val.Kind != bp.KNull:
			return "null_mismatch", i, fmt.Sprintf("column %d is NULL in the text row but carries a value in the binary row %x", i, clipRow(row))
		case !col.Null && val.Kind == bp.KNull:
			return "null_mismatch", i, fmt.Sprintf("column %d has a value in the text row but is NULL in the binary row %x", i, clipRow(row))
		case col.Null:
			continue
		}
		if d := compare(col, val); d != "" {
			return "wrong_value", i, fmt.Sprintf("column %d (%s): %s; binary row %x", i, col.Name, d, clipRow(row))
		}
	}
	if derr != nil {
		at = failedAt
		if failedAt >= len(text) {
			at = len(text) - 1
			for at > 0 && text[at].Null {
				at--
			}
		}
		return "undecodable_row", at, fmt.Sprintf("binary row %x does not decode: %v", clipRow(row), derr)
	}
	return "", 0, ""
}

func clipRow(b []byte) []byte {
	if len(b) > 48 {
		return b[:48]
	}
	return b
}

func runCase(r *ev.Run, c Case) {
	v := run(c)
	rows := c.rows()
	r.Add("evaluations", 1)
	if len(rows) == 1 {
		r.Add(fmt.Sprintf("rows_with_%d_columns", len(c.Cols)), 1)
	} else {
		r.Add(fmt.Sprintf("resultsets_of_%d_rows", len(rows)), 1)
		r.Add("rows_in_multi_row_resultsets", int64(len(rows)))
	}
	nonNull, nullThenValue := 0, false
	for ri, row := range rows {
		for i, col := range row {
			if !col.Null {
				nonNull++
				for _, earlier := range rows[:ri] {
					if earlier[i].Null {
						nullThenValue = true
					}
				}
			}
		}
	}
	if v.built && nonNull > 0 {
		r.Distinct("nontrivial", c.String())
	}
	if v.built && nullThenValue {
		r.Add("resultsets_with_null_then_value_in_a_column", 1)
	}
	if len(rows) == 1 && len(c.Cols) == 1 {
		col := c.Cols[0]
		o := v.outcome
		if v.kind != "" {
			o = v.kind
		}
		null := ""
		if col.Null {
			null = "|NULL"
		}
		r.Distinct("outcomes", fmt.Sprintf("%s|flags=%#x%s|%s", col.Name, col.Flags, null, o))
	}
	if v.kind != "" {
		text := rows[v.row]
		col := text[v.col]
		// A raw (unprefixed) ENUM/SET value shifts every byte after it, and by coincidence its
		// own decoded value can even equal the text (ENUM "" followed by an empty string), so
		// that mechanism is named by "a non-NULL ENUM/SET column at or before the first wrong one".
		upstream := "no"
		for i := 0; i <= v.col; i++ {
			if !text[i].Null && (text[i].Type == bp.TEnum || text[i].Type == bp.TSet) {
				upstream = "yes"
			}
		}
		f := map[string]string{"kind": v.kind, "coltype": col.Name, "valueclass": "-", "columns": strconv.Itoa(len(c.Cols)),
			"enum_set_upstream": upstream, "rows": strconv.Itoa(len(rows)), "row": strconv.Itoa(v.row)}
		if !col.Null {
			f["valueclass"] = valueClass(col.Type, string(col.value()))
		}
		r.Violation(ev.Witness{Summary: fmt.Sprintf("%s: %s — %s", v.kind, v.detail, c.String()), Features: f, Case: c})
	} else {
		r.Add("outcome_"+strings.ReplaceAll(v.outcome, " ", "_"), 1)
	}
}

// ---- universe ----

func pat(n int) string {
	b := make([]byte, n)
	for i := range b {
		b[i] = byte(0x20 + (i*7)%0x5f)
	}
	return string(b)
}

var stringVals = []string{"", "a", "\x00", "\xff", "'", "\"", "a'b\"c\\d", "\x00\xff'\"", pat(250), pat(251), pat(300)}

type typeSpec struct {
	t        byte
	signed   []string // values when UNSIGNED is not set (or for non-numeric types: all values)
	unsigned []string // values when UNSIGNED is set (nil: same as signed without negatives)
	reps     []string // representatives used in multi-column rows
}

func universeTypes() []typeSpec {
	dt := []string{"0000-00-00 00:00:00", "0000-00-00 00:00:00.000", "0000-00-00 00:00:00.000000", "1000-01-01 00:00:00",
		"9999-12-31 23:59:59", "9999-12-31 23:59:59.999999", "2021-03-04 05:06:07", "2021-03-04 05:06:07.123",
		"2021-03-04 05:06:07.000001", "2021-03-04 05:06:07.000", "2021-03-04 05:06:07.100000", "2021-00-00 00:00:00",
		"1970-01-01 00:00:01", "2038-01-19 03:14:07", "0001-01-01 00:00:00", "2020-02-29 12:00:00",
		// midnight with and without a fraction (added after seeded change c13-2 was missed: a
		// "time part is zero" test that forgets the fractional seconds)
		"2024-12-23 00:00:00", "2024-12-23 00:00:00.250000", "2024-12-23 00:00:00.000001", "2024-12-23 00:00:00.5",
		"2024-12-23 00:00:01", "2024-12-23 00:01:00", "2024-12-23 01:00:00"}
	ts := []typeSpec{
		{t: bp.TTiny, signed: []string{"-128", "-1", "0", "1", "127"}, unsigned: []string{"0", "1", "127", "128", "255"}, reps: []string{"-1", "127"}},
		{t: bp.TShort, signed: []string{"-32768", "-1", "0", "1", "32767"}, unsigned: []string{"0", "1", "32767", "32768", "65535"}, reps: []string{"-32768"}},
		{t: bp.TInt24, signed: []string{"-8388608", "-1", "0", "1", "8388607"}, unsigned: []string{"0", "1", "8388607", "8388608", "16777215"}, reps: []string{"8388607"}},
		{t: bp.TLong, signed: []string{"-2147483648", "-1", "0", "1", "2147483647"}, unsigned: []string{"0", "1", "2147483647", "2147483648", "4294967295"}, reps: []string{"-2147483648"}},
		{t: bp.TLonglong, signed: []string{"-9223372036854775808", "-1", "0", "1", "9223372036854775807"}, unsigned: []string{"0", "1", "9223372036854775807", "9223372036854775808", "18446744073709551615"}, reps: []string{"9223372036854775807"}},
		{t: bp.TYear, signed: []string{"0000", "1901", "2021", "2155"}, unsigned: []string{"0000", "1901", "2021", "2155"}, reps: []string{"2021"}},
		{t: bp.TFloat, signed: []string{"0", "-0", "1.5", "-1.5", "0.1", "3.40282e38", "-3.40282e38", "1e-45", "1.17549e-38", "123456", "1.23457e6", "16777216"}, reps: []string{"1.5"}},
		{t: bp.TDouble, signed: []string{"0", "-0", "1.5", "-1.5", "0.1", "1.7976931348623157e308", "-1.7976931348623157e308", "5e-324", "2.2250738585072014e-308", "1e15", "9007199254740993", "0.30000000000000004"}, reps: []string{"0.1"}},
		{t: bp.TNewDecimal, signed: []string{"0", "0.00", "-0.10", "1.50", "-1", "123.456", "0.000000000000000000000000000001",
			"99999999999999999999999999999999999999999999999999999999999999999",
			"-99999999999999999999999999999999999.999999999999999999999999999999"}, reps: []string{"-0.10"}},
		{t: bp.TDecimal, signed: []string{"1.50", "0"}},
		{t: bp.TDate, signed: []string{"0000-00-00", "1000-01-01", "9999-12-31", "2021-00-00", "2021-01-00", "2021-00-15", "0000-01-01", "0001-01-01", "2020-02-29", "2021-02-30", "2021-03-04"}, reps: []string{"2021-03-04"}},
		{t: bp.TDatetime, signed: dt, reps: []string{"2021-03-04 05:06:07.000001"}},
		{t: bp.TTimestamp, signed: dt, reps: []string{"2021-03-04 05:06:07"}},
		{t: bp.TTime, signed: []string{"-838:59:59", "838:59:59", "838:59:59.000001", "-838:59:59.000000", "24:00:00", "00:00:00", "00:00:00.000",
			"-00:00:01", "00:00:00.000001", "23:59:59.999", "100:00:00", "-00:00:00.500000", "01:02:03", "-25:00:00.000001"}, reps: []string{"-25:00:00.000001", "01:02:03"}},
		{t: bp.TBit, signed: []string{"", "\x00", "\x01", "\xff\xff", "\x00\x00\x00\x00\x00\x00\x00\x01"}, reps: []string{"\x01"}},
		{t: bp.TJSON, signed: []string{"{}", "[1,2]", "null", "{\"a\":\"\\u00e9 '\\\"\"}", pat(300)}, reps: []string{"[1,2]"}},
		{t: bp.TEnum, signed: []string{"", "a", "value", "\x01"}, reps: []string{"a"}},
		{t: bp.TSet, signed: []string{"", "a", "a,b"}, reps: []string{"a,b"}},
		{t: bp.TGeometry, signed: []string{"\x00\x00\x00\x00\x01\x01\x00\x00\x00" + pat(16)}},
	}
	for _, t := range []byte{bp.TVarchar, bp.TVarString, bp.TString, bp.TTinyBlob, bp.TMediumBlob, bp.TLongBlob, bp.TBlob} {
		s := typeSpec{t: t, signed: stringVals}
		switch t {
		case bp.TVarString:
			s.signed = append(append([]string(nil), stringVals...), pat(65535), pat(65536))
			s.reps = []string{"a'b\"c\\d", pat(251)}
		case bp.TBlob:
			s.signed = append(append([]string(nil), stringVals...), pat(65536), pat(1<<24))
			s.reps = []string{"\x00\xff'\""}
		case bp.TString:
			s.reps = []string{""}
		}
		ts = append(ts, s)
	}
	return ts
}

var flagSets = []uint16{0, fUnsigned, fBinary, fNotNull, fUnsigned | fNotNull, fBinary | fNotNull, fUnsigned | fZerofill}

func isNumeric(t byte) bool {
	switch t {
	case bp.TTiny, bp.TShort, bp.TInt24, bp.TLong, bp.TLonglong, bp.TYear, bp.TFloat, bp.TDouble, bp.TNewDecimal, bp.TDecimal:
		return true
	}
	return false
}

func valuesFor(s typeSpec, flags uint16) []string {
	if flags&fUnsigned == 0 {
		return s.signed
	}
	if s.unsigned != nil {
		return s.unsigned
	}
	if !isNumeric(s.t) {
		return s.signed
	}
	var out []string
	for _, v := range s.signed {
		if !strings.HasPrefix(v, "-") {
			out = append(out, v)
		}
	}
	return out
}

// colSpec is a column of a multi-row result set: its non-NULL cell in row k is vals[k%len(vals)].
type colSpec struct {
	t     byte
	flags uint16
	vals  []string
	cells []Col // mkCol of vals, built once
}

func (cs colSpec) cell(row int, null bool) Col {
	if null {
		return nullCol(cs.t, cs.flags)
	}
	return cs.cells[row%len(cs.cells)]
}

// setsOver returns every result set of exactly nRows rows over the field list: every cell of
// every row is independently NULL or a value (all 2^(cols*rows) NULL patterns, so every
// ordered pair / triple of rows, both orders).
func setsOver(fl []colSpec, nRows int) []Case {
	n := len(fl) * nRows
	var out []Case
	for mask := 0; mask < 1<<uint(n); mask++ {
		var rows [][]Col
		for ri := 0; ri < nRows; ri++ {
			var row []Col
			for ci, cs := range fl {
				row = append(row, cs.cell(ri, mask&(1<<uint(ri*len(fl)+ci)) != 0))
			}
			rows = append(rows, row)
		}
		out = append(out, Case{Cols: rows[0], More: rows[1:]})
	}
	return out
}

// multiRowSets: result sets of 2 and 3 rows built by ONE BuildBinaryResultSet call (state that
// the builder carries from one row to the next — NULL bitmap, row buffer — is only visible
// here).
func multiRowSets(r *ev.Run, types []typeSpec) []Case {
	var specs []colSpec
	for _, s := range types {
		if len(s.reps) == 0 {
			continue
		}
		fl := uint16(0)
		if s.unsigned != nil && !strings.HasPrefix(s.reps[0], "-") && s.t != bp.TYear {
			allPos := true
			for _, v := range s.reps {
				allPos = allPos && !strings.HasPrefix(v, "-")
			}
			if allPos {
				fl = fUnsigned
			}
		}
		cs := colSpec{t: s.t, flags: fl, vals: s.reps}
		for _, v := range s.reps {
			cs.cells = append(cs.cells, mkCol(s.t, fl, v))
		}
		specs = append(specs, cs)
	}
	r.Set("multi_row_column_specs", len(specs))
	var cases []Case
	// 1 column: every type, 2 and 3 rows, every NULL pattern
	for _, a := range specs {
		cases = append(cases, setsOver([]colSpec{a}, 2)...)
		cases = append(cases, setsOver([]colSpec{a}, 3)...)
	}
	// 2 columns: every ordered pair of types with 2 rows (16 patterns)
	for _, a := range specs {
		for _, b := range specs {
			cases = append(cases, setsOver([]colSpec{a, b}, 2)...)
		}
	}
	// 3 columns over a sublist (fixed-width, lenenc, temporal, decimal ...): 2 rows (64 patterns);
	// 3 rows (512 patterns) over a shorter sublist (thorough: over the whole sublist)
	var sub []colSpec
	for _, cs := range specs {
		switch cs.t {
		case bp.TTiny, bp.TLonglong, bp.TFloat, bp.TNewDecimal, bp.TVarString, bp.TBlob, bp.TDate, bp.TDatetime, bp.TTime, bp.TEnum:
			sub = append(sub, cs)
		}
	}
	full10 := sub
	short := sub
	if r.Quick() {
		// quick: 6 types for 3 columns x 2 rows, 3 types for 3 columns x 3 rows
		var six []colSpec
		short = nil
		for _, cs := range sub {
			switch cs.t {
			case bp.TTiny, bp.TVarString, bp.TDatetime:
				short = append(short, cs)
				six = append(six, cs)
			case bp.TNewDecimal, bp.TTime, bp.TLonglong:
				six = append(six, cs)
			}
		}
		sub = six
	}
	// 2 columns x 3 rows (64 patterns): every ordered pair of the 10-type sublist (thorough: of all types)
	pair3 := full10
	if r.Thorough() {
		pair3 = specs
	}
	for _, a := range pair3 {
		for _, b := range pair3 {
			cases = append(cases, setsOver([]colSpec{a, b}, 3)...)
		}
	}
	r.Set("multi_row_three_column_types", len(sub))
	r.Set("multi_row_three_column_types_for_three_rows", len(short))
	for _, a := range sub {
		for _, b := range sub {
			for _, c := range sub {
				cases = append(cases, setsOver([]colSpec{a, b, c}, 2)...)
			}
		}
	}
	for _, a := range short {
		for _, b := range short {
			for _, c := range short {
				cases = append(cases, setsOver([]colSpec{a, b, c}, 3)...)
			}
		}
	}
	// wide: n TINY columns, 2 rows, each row with none / all / exactly one column NULL
	// (bitmap byte borders at 6|7 and 14|15 columns), every ordered pair of such rows
	for _, n := range []int{6, 7, 8, 14, 15} {
		mk := func(row, nullAt int) []Col {
			var cols []Col
			for i := 0; i < n; i++ {
				if nullAt == -1 || nullAt == i {
					cols = append(cols, nullCol(bp.TTiny, 0))
				} else {
					cols = append(cols, mkCol(bp.TTiny, 0, strconv.Itoa((i+1+row*50)%128)))
				}
			}
			return cols
		}
		for p := -2; p < n; p++ {
			for q := -2; q < n; q++ {
				cases = append(cases, Case{Cols: mk(0, p), More: [][]Col{mk(1, q)}})
			}
		}
	}
	return cases
}

func universe(r *ev.Run) []Case {
	types := universeTypes()
	var cases []Case
	// 1 column: every type x every flag set x every value, and NULL
	for _, s := range types {
		for _, fl := range flagSets {
			for _, v := range valuesFor(s, fl) {
				if len(v) > 1<<20 && fl != 0 && r.Quick() {
					continue // the 16 MiB value: one flag set in the quick tier
				}
				cases = append(cases, Case{Cols: []Col{mkCol(s.t, fl, v)}})
			}
			if fl&fNotNull == 0 {
				cases = append(cases, Case{Cols: []Col{nullCol(s.t, fl)}})
			}
		}
	}
	cases = append(cases, Case{Cols: []Col{nullCol(bp.TNull, 0)}})
	nSingle := len(cases)
	// representatives for multi-column rows
	var reps []Col
	for _, s := range types {
		for i, v := range s.reps {
			fl := uint16(0)
			if i == 0 && s.unsigned != nil && !strings.HasPrefix(v, "-") && s.t != bp.TYear {
				fl = fUnsigned
			}
			reps = append(reps, mkCol(s.t, fl, v))
		}
	}
	reps = append(reps, nullCol(bp.TLong, 0), nullCol(bp.TVarString, 0), nullCol(bp.TDatetime, 0), nullCol(bp.TNull, 0))
	r.Set("multi_column_representatives", len(reps))
	for _, a := range reps {
		for _, b := range reps {
			cases = append(cases, Case{Cols: []Col{a, b}})
		}
	}
	// 3 columns: every ordered triple of the representatives
	for _, a := range reps {
		for _, b := range reps {
			for _, c := range reps {
				cases = append(cases, Case{Cols: []Col{a, b, c}})
			}
		}
	}
	// thorough: every single-column case next to every representative, in both orders
	if r.Thorough() {
		single := append([]Case(nil), cases[:nSingle]...)
		for _, sc := range single {
			for _, b := range reps {
				cases = append(cases, Case{Cols: []Col{sc.Cols[0], b}}, Case{Cols: []Col{b, sc.Cols[0]}})
			}
		}
	}
	cases = append(cases, multiRowSets(r, types)...)
	// wide rows: the NULL bitmap crosses its byte borders (offset 2: 6|7 and 14|15 columns)
	for _, n := range []int{5, 6, 7, 8, 13, 14, 15, 22, 23} {
		for nullAt := -2; nullAt < n; nullAt++ { // -2: none NULL, -1: all NULL
			var cols []Col
			for i := 0; i < n; i++ {
				if nullAt == -1 || nullAt == i {
					cols = append(cols, nullCol(bp.TTiny, 0))
				} else {
					cols = append(cols, mkCol(bp.TTiny, 0, strconv.Itoa(i+1)))
				}
			}
			cases = append(cases, Case{Cols: cols})
		}
	}
	return cases
}

func main() {
	gx.Quiet()
	debug.SetGCPercent(400) // allocation-heavy, small live heap
	r := ev.Start("C13", "exploration")
	if err := bp.SelfTest(); err != nil {
		ev.Fatalf("%v", err)
	}
	var rc Case
	if r.ReplayCase(&rc) {
		runCase(r, rc)
		r.Finish()
	}
	cases := universe(r)
	done := enum.Parallel(len(cases), r.TimeUp, func(i int) { runCase(r, cases[i]) })
	if done < len(cases) {
		r.Capped(fmt.Sprintf("%d of %d rows", done, len(cases)))
	}
	r.Set("universe", len(cases))
	r.Set("rule", "rows are enumerated, never sampled: (1 column) every wire type {TINY,SHORT,INT24,LONG,LONGLONG,YEAR,FLOAT,DOUBLE,NEWDECIMAL,DECIMAL,DATE,DATETIME,TIMESTAMP,TIME,BIT,JSON,ENUM,SET,GEOMETRY,VARCHAR,VAR_STRING,STRING,TINY/MEDIUM/LONG_BLOB,BLOB} x flag set {0,UNSIGNED,BINARY,NOT_NULL,UNSIGNED|NOT_NULL,BINARY|NOT_NULL,UNSIGNED|ZEROFILL} x every value of the type's boundary universe (width extremes per signedness, +-0, float/double extremes and denormals, 65-digit decimals, strings of 0/1/250/251/300/65535/65536/2^24 bytes with 00/ff/quote bytes, zero and partial-zero dates, 0/3/6 fractional digits, TIME +-838:59:59, >24h, negative sub-second) and NULL; (2 columns) every ordered pair of the representatives (one or two values per type + NULLs); (3 columns) every ordered triple of the representatives; (thorough only) every single-column case next to every representative in both orders; (wide) 5..23 TINY columns with none/all/each single column NULL so that the NULL bitmap crosses its byte borders; (result sets of 2 and 3 rows, ONE BuildBinaryResultSet call each, every row decoded and compared with its own text row) every NULL/value pattern of all cells — hence every ordered pair and triple of rows, both orders — over: each single representative column (2 and 3 rows), every ordered pair of representative columns with 2 rows, every ordered pair of a 10-type sublist (thorough: all types) with 3 rows, every ordered triple of a 6-type (thorough: 10-type) sublist with 2 rows and of a 3-type (thorough: 10-type) sublist with 3 rows, and 6/7/8/14/15 TINY columns with every ordered pair of rows having none/all/one column NULL; a non-NULL cell in row k takes the type's k-th representative value. A case is non-trivial when Gaea produced a binary row (no error) holding at least one non-NULL value; distinct_nontrivial counts distinct such rows, distinct_outcomes the observed (type, flags, NULL, outcome) combinations of the single-column rows")
	for _, i := range []int{0, len(cases) / 5, len(cases) / 2, len(cases) - 1} {
		r.Sample(cases[i])
	}
	r.Assume("the text row is what a MySQL backend sends for the column type (decimal digits for integers, %g-style floats, fixed-point decimals, ISO dates with 0-6 fractional digits); values that a server never prints for a type are outside the universe")
	r.Assume("verif/ref/binproto (written from the protocol description, self-tested on the documentation's example rows at start-up) is the meaning of a binary row")
	r.Assume("a panic inside ParseText/BuildBinaryResultSet counts as 'the proxy reports an error' (Session.Run recovers it and closes the connection); it is counted in coverage.outcome_panic_*")
	r.Finish()
}
