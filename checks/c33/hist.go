package main

// Part "hist": operation HISTORIES over the store instead of single save/load round trips.
//
// A history is a sequence of control-plane operations applied to ONE in-memory coordinator,
// starting from one of several initial states; the same Go objects travel through the
// history the way they do in cc (an object returned by a load is later verified, encrypted and
// saved again), so state carried by the objects themselves (is_encrypt, trimmed fields, filled
// defaults) is part of what is explored.
//
//	S0  save a fresh configuration (next version, is_encrypt unset)         Verify->Encrypt->Update
//	S1  save a fresh configuration submitted with is_encrypt:true and plaintext credentials
//	L   load: held = Store.LoadNamespace(key, name)                          (cc QueryNamespace / existNamespace)
//	R   re-save the held (loaded) object unchanged                           Verify->Encrypt->Update
//	M   change credentials of the held object, then save it
//	J   the held object goes to a client as JSON and comes back changed (cc query -> modify API), then save
//	B   cc's failing ModifyNamespace: exist = LoadNamespace; save a fresh configuration; then the
//	    REAL service.rollbackNamespace(exist, new) (re-save of the loaded object, or delete)
//	D   Store.DelNamespace
//
// Oracle after EVERY step: (a) the stored bytes written by the control plane never contain a
// plaintext credential (all credentials of this part contain the token "PLAIN"); (b)
// LoadNamespace / LoadNamespaces / LoadOriginNamespaces+DecryptNamespaces return exactly the
// last saved configuration (or nothing after a delete / rolled-back creation); at the end of
// short histories also the proxy's local copy (SyncNamespaces -> LoadDecryptNamespaces).

import (
	"bytes"
	"encoding/json"
	"fmt"
	"path/filepath"
	"strconv"
	"strings"

	"github.com/XiaoMi/Gaea/cc/service"
	"github.com/XiaoMi/Gaea/models"
	etcdclient "github.com/XiaoMi/Gaea/models/etcd"

	"verif/engine/enum"
	"verif/engine/ev"
	"verif/ref/fakeetcd"
)

var histEvents = []string{"S0", "S1", "L", "R", "M", "J", "B", "D"}
var histInits = []string{"empty", "saved", "saved_loaded", "legacy_plain", "legacy_plain_loaded"}

const histName = "ns"

func tok(kind string, n int) string { return fmt.Sprintf("PLAIN-%s-%d", kind, n) }

func histNS(v int, flag bool) *models.Namespace {
	ns := buildNS(histName, 0, []string{tok("user", v), tok("pass", v), tok("backend", v), tok("bpass", v)}, false)
	ns.MaxClientConnections = 1000 + v
	ns.IsEncrypt = flag
	return ns
}

func cloneNS(ns *models.Namespace) *models.Namespace {
	b, err := json.Marshal(ns)
	if err != nil {
		ev.Fatalf("clone: %v", err)
	}
	out := &models.Namespace{}
	if err := json.Unmarshal(b, out); err != nil {
		ev.Fatalf("clone: %v", err)
	}
	return out
}

// normalised: what a later load must return for an object handed to the save pipeline (the
// documented normalisation of Verify; credentials of this part carry no blanks).
func normalised(ns *models.Namespace) *models.Namespace {
	c := cloneNS(ns)
	for _, u := range c.Users {
		u.UserName = strings.TrimSpace(u.UserName)
		u.Password = strings.TrimSpace(u.Password)
		if u.Namespace == "" {
			u.Namespace = c.Name
		}
		u.Namespace = strings.TrimSpace(u.Namespace)
	}
	if c.AllowedSessionVariables == nil {
		c.AllowedSessionVariables = map[string]string{}
	}
	c.IsEncrypt = true
	return c
}

type hist struct {
	x       *ctx
	c       Case
	key     string
	mem     *fakeetcd.Mem
	store   *models.Store
	held    *models.Namespace
	exp     *models.Namespace // last saved configuration as a load must return it; nil = none
	written bool              // the stored blob was written by the control plane in this history
	ver     int
	mod     int
	step    int
	ev      string
	bad     bool
}

func (h *hist) viol(kind string, kv []string, format string, a ...interface{}) {
	h.bad = true
	f := map[string]string{"kind": kind, "last_op": h.ev, "init": h.c.Init, "keylen": strconv.Itoa(len(h.key))}
	for i := 0; i+1 < len(kv); i += 2 {
		f[kv[i]] = kv[i+1]
	}
	h.x.viol(h.c, f, "history %s/%v step %d (%s): %s", h.c.Init, h.c.Hist, h.step, h.ev, fmt.Sprintf(format, a...))
}

// save runs the control-plane pipeline on obj (which is mutated, as in cc).
func (h *hist) save(obj *models.Namespace) bool {
	want := normalised(obj)
	err, p := catchErr(func() error {
		if e := obj.Verify(); e != nil {
			return fmt.Errorf("verify: %v", e)
		}
		if e := obj.Encrypt(h.key); e != nil {
			return fmt.Errorf("encrypt: %v", e)
		}
		return h.store.UpdateNamespace(obj)
	})
	if p != nil {
		h.viol("panic", []string{"stage", "save"}, "save panicked: %v", p)
		return false
	}
	if err != nil {
		h.viol("save_error", []string{"err", errClass(err)}, "a configuration that was loaded from / built for the store is refused: %v", err)
		return false
	}
	h.exp, h.written = want, true
	return true
}

func (h *hist) load() (*models.Namespace, error, bool) {
	var g *models.Namespace
	err, p := catchErr(func() (e error) { g, e = h.store.LoadNamespace(h.key, histName); return })
	if p != nil {
		h.viol("panic", []string{"stage", "load"}, "LoadNamespace panicked: %v", p)
		return nil, nil, false
	}
	return g, err, true
}

// apply executes one event; false = the event is not enabled here (history is not counted).
func (h *hist) apply(e string) bool {
	switch e {
	case "S0", "S1":
		h.ver++
		h.save(histNS(h.ver, e == "S1"))
	case "L":
		g, err, ok := h.load()
		if ok {
			if err != nil {
				g = nil
			}
			h.held = g
		}
	case "R", "M", "J":
		if h.held == nil {
			return false
		}
		obj := h.held
		h.held = nil // the object is consumed (encrypted in place) by the save
		if e == "J" {
			obj = cloneNS(obj)
		}
		if e != "R" {
			h.mod++
			obj.Users[0].Password = tok("modpass", h.mod)
			obj.Slices[0].Password = tok("modbpass", h.mod)
			if e == "J" {
				obj.Users[0].UserName = tok("moduser", h.mod)
			}
			obj.MaxClientConnections += 100
		}
		h.save(obj)
	case "B":
		exist, err, ok := h.load()
		if !ok {
			return true
		}
		if err != nil {
			if !etcdclient.IsErrNoNode(err) {
				return true // ModifyNamespace gives up before writing; check() reports the broken store
			}
			exist = nil
		}
		prev := h.exp
		h.ver++
		fresh := histNS(h.ver, false)
		if !h.save(fresh) {
			return true
		}
		cfg := &models.CCConfig{EncryptKey: h.key}
		rerr, p := catchErr(func() error { return service.VerifRollbackNamespace(exist, fresh, cfg, h.store) })
		if p != nil {
			h.viol("panic", []string{"stage", "rollback"}, "rollbackNamespace panicked: %v", p)
			return true
		}
		if rerr != nil {
			h.viol("rollback_error", []string{"err", errClass(rerr)}, "rollbackNamespace of the previously loaded namespace failed: %v", rerr)
			return true
		}
		h.exp = prev
		if prev != nil && !prev.IsEncrypt {
			// a legacy plaintext entry comes back encrypted (rollback always encrypts)
			h.exp = normalised(prev)
		}
	case "D":
		if err := h.store.DelNamespace(histName); err != nil {
			h.viol("delete_error", nil, "DelNamespace: %v", err)
		}
		h.exp = nil
	default:
		ev.Fatalf("unknown history event %q", e)
	}
	return true
}

// check is the oracle, evaluated after every step.
func (h *hist) check() {
	r := h.x.r
	skey := fakeetcd.Norm(h.store.NamespacePath(histName))
	blob, ok := h.mem.Get(skey)
	if h.exp == nil {
		if ok {
			h.viol("stale_entry", nil, "the namespace should be gone (deleted / creation rolled back) but the store still holds it")
		}
		return
	}
	if !ok {
		h.viol("not_stored", nil, "the last save reported success but the store holds nothing")
		return
	}
	if h.written && bytes.Contains(blob, []byte("PLAIN")) {
		i := bytes.Index(blob, []byte("PLAIN"))
		j := i + 24
		if j > len(blob) {
			j = len(blob)
		}
		var flag struct {
			E bool `json:"is_encrypt"`
		}
		json.Unmarshal(blob, &flag)
		h.viol("plaintext_stored", []string{"stored_is_encrypt", strconv.FormatBool(flag.E)},
			"the control plane stored a plaintext credential (%q..., is_encrypt=%v)", blob[i:j], flag.E)
	}
	g, err, okc := h.load()
	if !okc {
		return
	}
	if err != nil {
		h.viol("load_error", []string{"via", "LoadNamespace", "err", errClass(err)}, "the last saved configuration cannot be loaded: %v", err)
	} else if d := diffNS(g, h.exp); d != "" {
		h.viol("unequal", []string{"via", "LoadNamespace", "field", stripIdx(d)}, "load differs from the last saved configuration at %s", d)
	} else {
		r.Add("hist_loads_equal", 1)
	}
	var all map[string]*models.Namespace
	err, p := catchErr(func() (e error) { all, e = h.store.LoadNamespaces(h.key); return })
	if p != nil {
		h.viol("panic", []string{"stage", "loadall"}, "LoadNamespaces panicked: %v", p)
	} else if err != nil {
		h.viol("load_error", []string{"via", "LoadNamespaces", "err", errClass(err)}, "proxy start-up load fails: %v", err)
	} else if d := diffNS(all[skey], h.exp); d != "" {
		h.viol("unequal", []string{"via", "LoadNamespaces", "field", stripIdx(d)}, "LoadNamespaces differs from the last saved configuration at %s", d)
	}
	var org map[string]*models.Namespace
	err, p = catchErr(func() (e error) {
		if org, e = h.store.LoadOriginNamespaces(); e != nil {
			return
		}
		org, e = models.DecryptNamespaces(org, h.key)
		return
	})
	if p != nil {
		h.viol("panic", []string{"stage", "loadorigin"}, "LoadOriginNamespaces/DecryptNamespaces panicked: %v", p)
	} else if err != nil {
		h.viol("load_error", []string{"via", "DecryptNamespaces", "err", errClass(err)}, "LoadOriginNamespaces+DecryptNamespaces fails: %v", err)
	} else if d := diffNS(org[skey], h.exp); d != "" {
		h.viol("unequal", []string{"via", "DecryptNamespaces", "field", stripIdx(d)}, "DecryptNamespaces differs from the last saved configuration at %s", d)
	}
}

func (h *hist) localCheck() {
	x := h.x
	dir := <-x.dirs
	defer func() { x.dirs <- dir }()
	lc, err := models.NewLocalClient(filepath.Join(dir, "copy"), h.mem.Prefix)
	if err != nil {
		ev.Fatalf("NewLocalClient: %v", err)
	}
	var loc map[string]*models.Namespace
	err, p := catchErr(func() (e error) {
		if _, e = serverSync(h.mem, lc, h.key); e != nil {
			return
		}
		loc, e = serverLoadLocal(lc, h.key)
		return
	})
	if p != nil {
		h.viol("panic", []string{"stage", "local"}, "SyncNamespaces/LoadDecryptNamespaces panicked: %v", p)
		return
	}
	if err != nil {
		h.viol("load_error", []string{"via", "local_copy", "err", errClass(err)}, "the proxy's local copy cannot be written/loaded: %v", err)
		return
	}
	var g *models.Namespace
	for _, n := range loc {
		if n.Name == histName {
			g = n
		}
	}
	if h.exp == nil {
		if g != nil {
			h.viol("stale_entry", []string{"via", "local_copy"}, "the local copy holds a namespace that is gone from the coordinator")
		}
		return
	}
	if d := diffNS(g, h.exp); d != "" {
		h.viol("unequal", []string{"via", "local_copy", "field", stripIdx(d)}, "the local copy differs from the last saved configuration at %s", d)
	} else {
		x.r.Add("hist_local_equal", 1)
	}
}

func (x *ctx) runHist(c Case) {
	h := &hist{x: x, c: c, key: uq(c.KeyQ), mem: fakeetcd.New(coordPrefix)}
	h.store = models.NewStore(h.mem)
	h.mem.Put(h.store.NamespacePath("other"), otherBlob(h.key))
	h.ev = "init"
	switch c.Init {
	case "empty":
	case "saved", "saved_loaded":
		h.apply("S0")
		if c.Init == "saved_loaded" {
			h.apply("L")
		}
	case "legacy_plain", "legacy_plain_loaded":
		// data written before encryption existed: is_encrypt false, plaintext credentials
		legacy := histNS(0, false)
		if err := legacy.Verify(); err != nil {
			ev.Fatalf("legacy: %v", err)
		}
		h.mem.Put(h.store.NamespacePath(histName), legacy.Encode())
		h.exp = cloneNS(legacy)
		if c.Init == "legacy_plain_loaded" {
			h.apply("L")
		}
	default:
		ev.Fatalf("unknown init %q", c.Init)
	}
	h.check()
	for i, e := range c.Hist {
		h.step, h.ev = i+1, e
		if !h.apply(e) {
			ev.Fatalf("history %v: event %s not enabled (generator and harness disagree)", c.Hist, e)
		}
		h.check()
		if h.bad {
			return // first broken step only: later steps run on a broken store
		}
	}
	if c.Local {
		h.localCheck()
	}
	x.r.Add("hist_steps", int64(len(c.Hist)))
	x.r.Distinct("nontrivial", "hist:"+c.Init+":"+strings.Join(c.Hist, ","))
	if b, ok := h.mem.Get(h.store.NamespacePath(histName)); ok {
		x.r.Distinct("hist_final_blobs", blobKey(b))
	}
}

// genHist: every enabled history up to the depth bound from every initial state.
func genHist(r *ev.Run, emit func(Case)) {
	depth := r.Pick(4, 6)
	keys := validKeys[:1]
	if r.Thorough() {
		keys = validKeys
	}
	for _, key := range keys {
		for _, init := range histInits {
			heldInit := strings.HasSuffix(init, "_loaded")
			enum.Seqs(len(histEvents), 1, depth, func(seq []int) {
				held := heldInit
				evs := make([]string, len(seq))
				for i, s := range seq {
					e := histEvents[s]
					evs[i] = e
					switch e {
					case "L":
						held = true // may be nil at run time (nothing stored): then R/M/J are disabled, see below
					case "R", "M", "J":
						if !held {
							return
						}
						held = false
					}
				}
				if !histEnabled(init, evs) {
					return
				}
				emit(Case{Part: "hist", Init: init, Hist: evs, KeyQ: q(key), Local: len(evs) <= 3})
			})
		}
	}
}

// histEnabled replays the abstract "is something stored / held" state: R/M/J need a held
// object, and a load only yields one when the store holds the namespace.
func histEnabled(init string, evs []string) bool {
	stored := init != "empty"
	held := strings.HasSuffix(init, "_loaded")
	for _, e := range evs {
		switch e {
		case "S0", "S1":
			stored = true
		case "L":
			held = stored
		case "R", "M", "J":
			if !held {
				return false
			}
			held, stored = false, true
		case "D":
			stored = false
		case "B": // rolled back to what was there
		}
	}
	return true
}
