// C33: stored configurations round-trip exactly and stay inside the storage area.
//
// Engine: enum (bounded-exhaustive inputs against the real code). Four parts:
//
//	cred   Verify -> Encrypt -> Encode -> Store.UpdateNamespace -> LoadNamespace / LoadNamespaces /
//	       LoadOriginNamespaces+DecryptNamespaces over an in-memory models.Client (ref/fakeetcd),
//	       plus the proxy's local copy (server.SyncNamespaces -> LocalClient -> LoadDecryptNamespaces)
//	       for credentials over a boundary-rich byte-string alphabet and every valid key length;
//	       wrong / invalid keys must fail or yield data, never panic.
//	dec    crypto.DecryptECB and Namespace.Decrypt on arbitrary ciphertexts (every length 0..48,
//	       every final padding byte 0..255, malformed base64) and keys: never panic.
//	name   the same pipeline for adversarial namespace names (coordinator side).
//	local  models.LocalClient in a sandbox directory with sentinel files around the storage
//	       directory: raw Client API, Store API and server.SyncNamespaces driven with adversarial
//	       names and prefixes; every helper path and every touched file must lie under the
//	       storage directory, sentinels are never read back or modified.
package main

import (
	"bytes"
	"crypto/aes"
	"crypto/sha1"
	"encoding/base64"
	"encoding/hex"
	"fmt"
	"os"
	"path/filepath"
	"reflect"
	"runtime"
	"runtime/debug"
	"sort"
	"strconv"
	"strings"
	"sync"
	"time"

	"github.com/XiaoMi/Gaea/models"
	"github.com/XiaoMi/Gaea/proxy/server"
	"github.com/XiaoMi/Gaea/util/crypto"

	"verif/engine/enum"
	"verif/engine/ev"
	"verif/engine/gx"
	"verif/ref/fakeetcd"
)

// Case is one replayable input. Strings that may hold arbitrary bytes are Go-quoted.
type Case struct {
	Part   string   `json:"part"`
	Shape  int      `json:"shape,omitempty"`
	KeyQ   string   `json:"key_q,omitempty"`
	Fields []string `json:"fields_q,omitempty"`
	Wrong  bool     `json:"wrong_keys,omitempty"`
	Local  bool     `json:"local_copy,omitempty"`
	CtHex  string   `json:"ct_hex,omitempty"`
	Mode   string   `json:"mode,omitempty"`
	Entry  string   `json:"entry,omitempty"`
	Prefix string   `json:"prefix,omitempty"`
	NameQ  string   `json:"name_q,omitempty"`
	UserNS bool     `json:"user_ns_explicit,omitempty"`
	Init   string   `json:"init,omitempty"`
	Hist   []string `json:"history,omitempty"`
}

func serverSync(remote models.Client, local *models.LocalClient, key string) (map[string]*models.Namespace, error) {
	return server.SyncNamespaces(remote, local, key)
}

func serverLoadLocal(local *models.LocalClient, key string) (map[string]*models.Namespace, error) {
	return server.LoadDecryptNamespaces(local, key)
}

func q(s string) string { return strconv.Quote(s) }
func uq(s string) string {
	if s == "" {
		return ""
	}
	v, err := strconv.Unquote(s)
	if err != nil {
		ev.Fatalf("bad quoted string %s: %v", s, err)
	}
	return v
}

// ---------------------------------------------------------------- alphabets

var validKeys = []string{
	"1234abcd5678efg*",                 // 16, the key of Gaea's sample configuration
	"\x00\xff\x10 k\n\x7f\x80abcdefgh", // 16, arbitrary bytes
	"0123456789abcdefghijklmn",         // 24
	"0123456789abcdef0123456789ABCDEF", // 32
}
var invalidKeys = []string{"", "123456789012345", "12345678901234567", "0123456789abcdef0123456789ABCDEFG"}

func credAlphabet() []string {
	var s []string
	for l := 0; l <= 33; l++ { // every length around the AES block size
		s = append(s, strings.Repeat("a", l))
	}
	s = append(s,
		" ", "  ", " a", "a ", " a b ", "a b", "\ta\n", "\r\n", " x ", " x", "x　",
		"\x00", "a\x00b", "\x00\x00\x00\x00\x00\x00\x00\x00\x00\x00\x00\x00\x00\x00\x00\x00",
		"\xff", "\xff\xfe\xfd", "a\xffb", "\xa0x\xa0", "\xc2", "\xe2\x80",
		"päß", "日本語", "пароль", "😀", strings.Repeat("é", 8), "aaaaaaaaaaaaaaa日", // multi-byte across the block edge
		"\x01", "a\x01", "\x02\x02", "aaaaaaaaaaaaaaa\x01", "\x10", strings.Repeat("\x10", 16), strings.Repeat("\x10", 15),
		"aaaaaaaaaaaaaaaa\x10", "\x0f\x0f", "\x11", strings.Repeat("\x11", 17), "\x20", strings.Repeat(" ", 16),
		"<>&\"'\\", "  ", "{\"a\":1}", "=", "QUJD", "AAAA", "%00", "a|b", "a\nb",
	)
	seen := map[string]bool{}
	var out []string
	for _, v := range s {
		if !seen[v] {
			seen[v] = true
			out = append(out, v)
		}
	}
	return out
}

var defaults = [][]string{
	{"root", "rootpw", "backend", "backendpw"},
	{"root", "rootpw", "reader", "readerpw", "backend", "backendpw", "backend2", "backend2pw"},
}

// buildNS builds a submitted configuration. Every call returns a fresh, unshared value.
func buildNS(name string, shape int, f []string, userNS bool) *models.Namespace {
	uns := ""
	if userNS {
		uns = name
	}
	ns := &models.Namespace{
		Name:              name,
		Online:            true,
		AllowedDBS:        map[string]bool{"db1": true, "db_<&>": false},
		DefaultPhyDBS:     map[string]string{"db1": "db1_phy", "db_<&>": "p "},
		SlowSQLTime:       "1000",
		BlackSQL:          []string{"", "select '<a&b>' from t where x = \"\\\""},
		AllowedIP:         []string{"127.0.0.1", " 10.0.0.0/8 "},
		DefaultSlice:      "slice-0",
		MaxSqlExecuteTime: 5, MaxClientConnections: 100, SecondsBehindMaster: 1 << 40,
		ClientQPSLimit: 7, FuseEnabled: "ON", FuseWindowSize: 10, FallbackToMasterOnSlaveFail: "off",
		GlobalSequences: []*models.GlobalSequence{{DB: "db1", Table: "t", Type: "mycat", SliceName: "slice-0", PKName: "id", MaxLimit: 1 << 50}},
	}
	mkSlice := func(n string, u, p string) *models.Slice {
		return &models.Slice{Name: n, UserName: u, Password: p, Master: "127.0.0.1:3306",
			Slaves: []string{"127.0.0.1:3307"}, StatisticSlaves: []string{}, Capacity: 4, MaxCapacity: 8,
			IdleTimeout: 60, InitConnect: "set names utf8mb4", HealthCheckSql: "select 1"}
	}
	if shape == 0 {
		ns.Users = []*models.User{{UserName: f[0], Password: f[1], Namespace: uns, RWFlag: 2, RWSplit: 1}}
		ns.Slices = []*models.Slice{mkSlice("slice-0", f[2], f[3])}
	} else {
		ns.Users = []*models.User{
			{UserName: f[0], Password: f[1], Namespace: uns, RWFlag: 2, RWSplit: 1},
			{UserName: f[2], Password: f[3], Namespace: uns, RWFlag: 1, RWSplit: 0, OtherProperty: 1}}
		ns.Slices = []*models.Slice{mkSlice("slice-0", f[4], f[5]), mkSlice("slice-1", f[6], f[7])}
		ns.ShardRules = []*models.Shard{{DB: "db1", Table: "tbl", Type: "hash", Key: "id", Locations: []int{1, 1}, Slices: []string{"slice-0", "slice-1"}}}
		ns.AllowedSessionVariables = map[string]string{"sql_mode": "string"}
	}
	return ns
}

// expected is the submitted configuration after the documented normalisation of Verify:
// surrounding white space of user name / password / user namespace is trimmed, an empty user
// namespace is filled with the namespace name, a nil allowed_session_variables becomes {},
// and the stored form is flagged is_encrypt. Nothing else may differ.
//
// eff is the name under which the control plane went on after Verify (namespace.Name): the
// submitted name, or the submitted name without surrounding white space (the same documented
// trimming; effectiveName refuses anything else).
func expected(name, eff string, shape int, f []string, userNS bool) *models.Namespace {
	ns := buildNS(name, shape, f, userNS)
	ns.Name = eff
	for _, u := range ns.Users {
		u.UserName = strings.TrimSpace(u.UserName)
		u.Password = strings.TrimSpace(u.Password)
		if u.Namespace == "" {
			u.Namespace = name
		}
		u.Namespace = strings.TrimSpace(u.Namespace)
	}
	if ns.AllowedSessionVariables == nil {
		ns.AllowedSessionVariables = map[string]string{}
	}
	ns.IsEncrypt = true
	return ns
}

// firstDiff names the first field in which two values differ ("" if equal).
func firstDiff(a, b reflect.Value, path string) string {
	if a.Kind() != b.Kind() {
		return path
	}
	switch a.Kind() {
	case reflect.Ptr, reflect.Interface:
		if a.IsNil() || b.IsNil() {
			if a.IsNil() != b.IsNil() {
				return path
			}
			return ""
		}
		return firstDiff(a.Elem(), b.Elem(), path)
	case reflect.Struct:
		for i := 0; i < a.NumField(); i++ {
			if d := firstDiff(a.Field(i), b.Field(i), path+"."+a.Type().Field(i).Name); d != "" {
				return d
			}
		}
		return ""
	case reflect.Slice:
		if a.IsNil() != b.IsNil() || a.Len() != b.Len() {
			return path
		}
		for i := 0; i < a.Len(); i++ {
			if d := firstDiff(a.Index(i), b.Index(i), fmt.Sprintf("%s[%d]", path, i)); d != "" {
				return d
			}
		}
		return ""
	case reflect.Map:
		if !reflect.DeepEqual(a.Interface(), b.Interface()) {
			return path
		}
		return ""
	default:
		if !reflect.DeepEqual(a.Interface(), b.Interface()) {
			return path
		}
		return ""
	}
}

func effectiveName(submitted string, verified *models.Namespace) (string, bool) {
	e := verified.Name
	return e, e == submitted || e == strings.TrimSpace(submitted)
}

func diffNS(got, exp *models.Namespace) string {
	if got == nil {
		return "nil"
	}
	if reflect.DeepEqual(got, exp) {
		return ""
	}
	d := firstDiff(reflect.ValueOf(got), reflect.ValueOf(exp), "ns")
	if d == "" {
		d = "deep"
	}
	return d
}

// stripIdx turns "ns.Users[1].Password" into "ns.Users[].Password" (signature feature).
func stripIdx(s string) string {
	var b strings.Builder
	in := false
	for _, c := range s {
		if c == '[' {
			in = true
			b.WriteString("[]")
			continue
		}
		if c == ']' {
			in = false
			continue
		}
		if !in {
			b.WriteRune(c)
		}
	}
	return b.String()
}

func errClass(err error) string {
	if err == nil {
		return "nil"
	}
	s := err.Error()
	for _, k := range []string{"namespace name mismatch", "not full blocks", "invalid padding", "invalid key size", "invalid path",
		"invalid characters", "path too long", "path cannot be empty", "invalid argument", "file name too long", "not a directory",
		"is a directory", "Not a file", "Not a directory", "Root is read only", "must specify namespace name", "missing user", "missing password",
		"user duped", "invalid character", "unexpected end of JSON", "not exists"} {
		if strings.Contains(s, k) {
			return strings.ReplaceAll(strings.ToLower(k), " ", "_")
		}
	}
	return "other"
}

// ---------------------------------------------------------------- name classes

const forbiddenChars = "<>\"|?*"

// nameClass describes a namespace name relative to a (deep, virtual) namespace directory using
// only lexical path cleaning; it is independent of the configured prefix.
func nameClass(name string) string {
	const base = "/v1/v2/v3/v4/v5/v6/v7/v8/namespace"
	switch {
	case name == "":
		return "empty"
	case strings.ContainsRune(name, 0):
		return "nul"
	}
	c := filepath.Join(base, name)
	if c == base {
		return "self"
	}
	if !strings.HasPrefix(c, base+"/") {
		return "dotdot_escape"
	}
	rest := c[len(base)+1:]
	switch {
	case strings.ContainsAny(name, forbiddenChars):
		return "forbidden_char"
	case tooLong(name):
		return "long"
	case strings.Contains(rest, "/"):
		return "nested"
	case name != strings.TrimSpace(name):
		return "blank_edge"
	case rest != name:
		return "alias"
	}
	return "plain"
}

// tooLong: a path component that cannot carry the ".json" suffix within NAME_MAX (255), or a
// name beyond the LocalClient's own 1024-byte limit.
func tooLong(name string) bool {
	if len(name) > 1000 {
		return true
	}
	for _, c := range strings.Split(name, "/") {
		if len(c) > 250 {
			return true
		}
	}
	return false
}

// rawOnlyNames are not valid UTF-8: they cannot travel inside a JSON document (encoding/json
// replaces the bytes), so they are driven against the path API only.
var rawOnlyNames = []string{"\xff", "a\xc0\xafb"}

func nameAlphabet() []string {
	n := []string{"ns", "a/b", "..", "../x", "a/../../x", "/etc/x", "/../x", "a//b", ".", "", "a\x00b",
		strings.Repeat("a", 1025), strings.Repeat("a", 1024), strings.Repeat("a", 255), strings.Repeat("a", 256), strings.Repeat("a", 250), strings.Repeat("a", 251),
		strings.Repeat("a/", 400) + "a",
		"a<b", "a>b", "a|b", "a?b", "a*b", "a\"b",
		"../..", "../../..", "../../../..", "../../../x", "../../../../x", "../../../../../x", "a/../../../x",
		"../sentinel", "../../sentinel", "../../store", "../../../store", "../../../../store", "../namespace/y", "../proxy/proxy-1.2.3.4:13306",
		"./a", "a/.", "a/..", "a/", "/a", "//a", "a/../b", "..a", "a..", "...", "..\\x", "a\\..\\..\\x",
		" ns", "ns ", " ", "a b", "\tns", "ns\n",
		"x.json", ".json", ".hidden", "-", "~", "$HOME", "%2e%2e", "%2e%2e/%2e%2e/x", "日本", "a∕b", "a．．",
		"ns:1", "a;b", "a'b", "a&b", "COM1", "nul",
	}
	return n
}

var prefixes = []string{"/gaea", "", "etc/file", "/", "/gaea/sub", "./conf"}

// ---------------------------------------------------------------- run context

type ctx struct {
	r    *ev.Run
	dirs chan string
}

func (x *ctx) viol(c Case, feats map[string]string, format string, a ...interface{}) {
	feats["part"] = c.Part
	if os.Getenv("VERIF_DEBUG") != "" {
		ks := make([]string, 0, len(feats))
		for k := range feats {
			ks = append(ks, k)
		}
		sort.Strings(ks)
		sig := ""
		for _, k := range ks {
			sig += k + "=" + feats[k] + " "
		}
		dbgMu.Lock()
		dbg[sig]++
		if dbgEx[sig] == "" {
			dbgEx[sig] = fmt.Sprintf(format, a...)
		}
		dbgMu.Unlock()
	}
	x.r.Violation(ev.Witness{Summary: fmt.Sprintf(format, a...), Features: feats, Case: c})
}

var (
	dbgMu sync.Mutex
	dbg   = map[string]int{}
	dbgEx = map[string]string{}
)

func dumpDebug() {
	ks := make([]string, 0, len(dbg))
	for k := range dbg {
		ks = append(ks, k)
	}
	sort.Strings(ks)
	for _, k := range ks {
		fmt.Printf("DEBUG %5d %s\n        e.g. %s\n", dbg[k], k, dbgEx[k])
	}
}

func catchErr(f func() error) (err error, panicked interface{}) {
	panicked = ev.Catch(func() { err = f() })
	return
}

func blobKey(b []byte) string {
	h := sha1.Sum(b)
	return hex.EncodeToString(h[:])
}

// ---------------------------------------------------------------- part cred / name (coordinator side)

const coordPrefix = "/gaea"

// pipeline runs the control-plane save and every proxy-side load on an in-memory coordinator.
// It returns false when the configuration was (legitimately) refused before being stored.
func (x *ctx) pipeline(c Case, name string, fields []string, key string, keyValid bool, nc string) bool {
	r := x.r
	base := map[string]string{"nameclass": nc, "keylen": strconv.Itoa(len(key))}
	mk := func(kind string, kv ...string) map[string]string {
		m := map[string]string{"kind": kind}
		for k, v := range base {
			m[k] = v
		}
		for i := 0; i+1 < len(kv); i += 2 {
			m[kv[i]] = kv[i+1]
		}
		return m
	}
	sub := buildNS(name, c.Shape, fields, c.UserNS)
	err, p := catchErr(sub.Verify)
	if p != nil {
		x.viol(c, mk("panic", "stage", "verify"), "Verify panicked: %v", p)
		return false
	}
	if err != nil {
		r.Add("rejected_by_verify", 1)
		return false
	}
	submitted := name
	name, okName := effectiveName(submitted, sub)
	if !okName {
		x.viol(c, mk("name_changed"), "Verify changed the namespace name %s into %s", q(submitted), q(name))
		return false
	}
	err, p = catchErr(func() error { return sub.Encrypt(key) })
	if p != nil {
		x.viol(c, mk("panic", "stage", "encrypt"), "Encrypt panicked: %v", p)
		return false
	}
	if err != nil {
		if keyValid {
			x.viol(c, mk("encrypt_error_valid_key"), "Encrypt failed with a valid key: %v", err)
		} else {
			r.Add("rejected_invalid_key", 1)
			r.Distinct("nontrivial", "enc-err:"+strconv.Itoa(len(key)))
		}
		return false
	}
	mem := fakeetcd.New(coordPrefix)
	store := models.NewStore(mem)
	// another, ordinary namespace already lives in the coordinator
	if c.Part == "name" {
		mem.Put(store.NamespacePath("other"), otherBlob(key))
	}
	err, p = catchErr(func() error { return store.UpdateNamespace(sub) })
	if p != nil {
		x.viol(c, mk("panic", "stage", "update"), "UpdateNamespace panicked: %v", p)
		return false
	}
	if err != nil {
		// the coordinator refused the key (directory / root): nothing was saved
		r.Add("rejected_by_coordinator", 1)
		r.Distinct("coord_reject", errClass(err))
		return false
	}
	skey := fakeetcd.Norm(store.NamespacePath(name))
	blob, ok := mem.Get(skey)
	if !ok {
		x.viol(c, mk("not_stored"), "UpdateNamespace reported success but key %q is absent", skey)
		return false
	}
	exp := expected(submitted, name, c.Shape, fields, c.UserNS)

	// (1) the prepare path of a proxy: Store.LoadNamespace(key, name)
	var got *models.Namespace
	err, p = catchErr(func() (e error) { got, e = store.LoadNamespace(key, name); return })
	switch {
	case p != nil:
		x.viol(c, mk("panic", "stage", "load"), "LoadNamespace panicked: %v", p)
	case err != nil:
		x.viol(c, mk("load_error", "source", "coordinator", "via", "LoadNamespace", "err", errClass(err)),
			"saved namespace %s cannot be loaded back: %v", q(name), err)
	default:
		if d := diffNS(got, exp); d != "" {
			x.viol(c, mk("unequal", "source", "coordinator", "via", "LoadNamespace", "field", stripIdx(d)),
				"LoadNamespace differs from the submitted configuration at %s", d)
		} else {
			r.Add("roundtrips_equal", 1)
			r.Distinct("nontrivial", "rt:"+blobKey(blob))
		}
	}
	// (2) the start-up path: Store.LoadNamespaces(key) lists <root>/namespace
	var all map[string]*models.Namespace
	err, p = catchErr(func() (e error) { all, e = store.LoadNamespaces(key); return })
	switch {
	case p != nil:
		x.viol(c, mk("panic", "stage", "loadall"), "LoadNamespaces panicked: %v", p)
	case err != nil:
		x.viol(c, mk("load_error", "source", "coordinator", "via", "LoadNamespaces", "err", errClass(err)),
			"after saving %s the proxy start-up load fails for every namespace: %v", q(name), err)
	default:
		if g, ok := all[skey]; !ok {
			x.viol(c, mk("not_listed", "source", "coordinator", "via", "LoadNamespaces"),
				"saved namespace %s (key %s) is not below %s: proxies never load it at start-up", q(name), skey, store.NamespaceBase())
		} else if d := diffNS(g, exp); d != "" {
			x.viol(c, mk("unequal", "source", "coordinator", "via", "LoadNamespaces", "field", stripIdx(d)),
				"LoadNamespaces differs from the submitted configuration at %s", d)
		}
	}
	// (3) the SyncNamespaces path: LoadOriginNamespaces + DecryptNamespaces (same decoding and
	// decryption code as (2); run for the vectors with <=1 deviation and for every name)
	var org map[string]*models.Namespace
	if !c.Wrong {
		return true
	}
	err, p = catchErr(func() (e error) {
		org, e = store.LoadOriginNamespaces()
		if e != nil {
			return
		}
		org, e = models.DecryptNamespaces(org, key)
		return
	})
	switch {
	case p != nil:
		x.viol(c, mk("panic", "stage", "loadorigin"), "LoadOriginNamespaces/DecryptNamespaces panicked: %v", p)
	case err != nil:
		x.viol(c, mk("load_error", "source", "coordinator", "via", "DecryptNamespaces", "err", errClass(err)),
			"after saving %s LoadOriginNamespaces+DecryptNamespaces fails: %v", q(name), err)
	default:
		if g, ok := org[skey]; ok {
			if d := diffNS(g, exp); d != "" {
				x.viol(c, mk("unequal", "source", "coordinator", "via", "DecryptNamespaces", "field", stripIdx(d)),
					"DecryptNamespaces differs from the submitted configuration at %s", d)
			}
		}
	}
	// (4) wrong keys: error or data, never a crash
	if c.Wrong {
		for _, wk := range wrongKeys(key) {
			var g *models.Namespace
			err, p = catchErr(func() (e error) { g, e = store.LoadNamespace(wk, name); return })
			if p != nil {
				x.viol(c, mk("panic", "stage", "load_wrong_key", "wrongkeylen", strconv.Itoa(len(wk))), "LoadNamespace with a wrong key panicked: %v", p)
				continue
			}
			r.Add("wrong_key_loads", 1)
			if err != nil {
				r.Distinct("nontrivial", "wk-err:"+errClass(err))
			} else if g != nil {
				r.Distinct("wrong_key_data", blobKey([]byte(g.Users[0].UserName+"|"+g.Users[0].Password)))
			}
		}
	}
	// (5) the proxy's local copy
	if c.Local {
		x.localCopy(c, mem, name, exp, key, nc)
	}
	return true
}

var (
	otherMu    sync.Mutex
	otherBlobs = map[string][]byte{}
)

// otherBlob is the stored form of an ordinary namespace "other" (computed once per key).
func otherBlob(key string) []byte {
	otherMu.Lock()
	defer otherMu.Unlock()
	if b, ok := otherBlobs[key]; ok {
		return b
	}
	other := buildNS("other", 0, []string{"o-user", "o-pw", "o-backend", "o-bpw"}, false)
	if e := other.Verify(); e != nil {
		ev.Fatalf("base namespace does not verify: %v", e)
	}
	if e := other.Encrypt(key); e != nil {
		ev.Fatalf("base namespace does not encrypt: %v", e)
	}
	otherBlobs[key] = other.Encode()
	return otherBlobs[key]
}

func wrongKeys(key string) []string {
	out := []string{}
	for _, k := range validKeys {
		if k != key {
			out = append(out, k)
		}
	}
	b := []byte(key)
	b[len(b)-1] ^= 1
	out = append(out, string(b))
	return append(out, invalidKeys...)
}

// localCopy runs server.SyncNamespaces(remote, local) and then loads from the local copy alone.
func (x *ctx) localCopy(c Case, remote *fakeetcd.Mem, name string, exp *models.Namespace, key, nc string) {
	dir := <-x.dirs
	defer func() { x.dirs <- dir }()
	storage := filepath.Join(dir, "copy")
	lc, err := models.NewLocalClient(storage, remote.Prefix)
	if err != nil {
		ev.Fatalf("NewLocalClient(%s): %v", storage, err)
	}
	feats := func(kind string, kv ...string) map[string]string {
		m := map[string]string{"kind": kind, "nameclass": nc, "keylen": strconv.Itoa(len(key)), "source": "local", "entry": "sync"}
		for i := 0; i+1 < len(kv); i += 2 {
			m[kv[i]] = kv[i+1]
		}
		return m
	}
	var res map[string]*models.Namespace
	err, p := catchErr(func() (e error) { res, e = server.SyncNamespaces(remote, lc, key); return })
	if p != nil {
		x.viol(c, feats("panic", "stage", "sync"), "SyncNamespaces panicked: %v", p)
		return
	}
	if err != nil {
		x.viol(c, feats("load_error", "via", "SyncNamespaces", "err", errClass(err)), "SyncNamespaces failed: %v", err)
		return
	}
	_ = res
	var loc map[string]*models.Namespace
	err, p = catchErr(func() (e error) { loc, e = server.LoadDecryptNamespaces(lc, key); return })
	if p != nil {
		x.viol(c, feats("panic", "stage", "load_local"), "LoadDecryptNamespaces(local) panicked: %v", p)
		return
	}
	if err != nil {
		x.viol(c, feats("load_error", "via", "LoadDecryptNamespaces", "err", errClass(err)), "loading the local copy failed: %v", err)
		return
	}
	found := false
	for _, g := range loc {
		if g.Name == exp.Name {
			found = true
			if d := diffNS(g, exp); d != "" {
				x.viol(c, feats("unequal", "via", "LoadDecryptNamespaces", "field", stripIdx(d)), "local copy differs from the submitted configuration at %s", d)
			} else {
				x.r.Add("local_roundtrips_equal", 1)
			}
		}
	}
	if !found {
		x.viol(c, feats("not_loaded_from_local", "via", "LoadDecryptNamespaces"), "namespace %s is missing from the local copy", q(name))
	}
}

func (x *ctx) runCred(c Case) {
	fields := make([]string, len(c.Fields))
	for i, f := range c.Fields {
		fields[i] = uq(f)
	}
	key := uq(c.KeyQ)
	valid := len(key) == 16 || len(key) == 24 || len(key) == 32
	x.pipeline(c, "ns", fields, key, valid, "plain")
}

func (x *ctx) runName(c Case) {
	name := uq(c.NameQ)
	x.pipeline(c, name, defaults[0], validKeys[0], true, nameClass(name))
}

// ---------------------------------------------------------------- part dec

func (x *ctx) runDec(c Case) {
	key := uq(c.KeyQ)
	feats := map[string]string{"mode": c.Mode, "keylen": strconv.Itoa(len(key))}
	switch c.Mode {
	case "ecb":
		ct, err := hex.DecodeString(c.CtHex)
		if err != nil {
			ev.Fatalf("bad ct hex")
		}
		var out []byte
		err, p := catchErr(func() (e error) { out, e = crypto.DecryptECB(key, append([]byte(nil), ct...)); return })
		if p != nil {
			feats["kind"] = "panic"
			feats["ctlen_mod16"] = strconv.Itoa(len(ct) % 16)
			x.viol(c, feats, "DecryptECB panicked on a %d-byte input: %v", len(ct), p)
			return
		}
		if err != nil {
			x.r.Distinct("nontrivial", "dec-err:"+errClass(err)+":"+strconv.Itoa(len(key)))
		} else {
			x.r.Distinct("nontrivial", fmt.Sprintf("dec-ok:%d->%d", len(ct), len(out)))
		}
	case "nsdecrypt":
		// Namespace.Decrypt over a stored form whose credential strings are arbitrary text
		val := uq(c.NameQ)
		for field := 0; field < 4; field++ {
			f := []string{"cm9vdA==", "cm9vdA==", "cm9vdA==", "cm9vdA=="}
			f[field] = val
			ns := buildNS("ns", 0, f, false)
			ns.IsEncrypt = true
			err, p := catchErr(func() error { return ns.Decrypt(key) })
			if p != nil {
				feats["kind"] = "panic"
				feats["field"] = strconv.Itoa(field)
				x.viol(c, feats, "Namespace.Decrypt panicked on %s: %v", q(val), p)
				return
			}
			if err != nil {
				x.r.Distinct("nontrivial", "nsdec-err:"+errClass(err))
			} else {
				x.r.Distinct("nontrivial", "nsdec-ok:"+blobKey([]byte(ns.Users[0].UserName+ns.Users[0].Password+ns.Slices[0].UserName+ns.Slices[0].Password)))
			}
		}
	}
}

// rawECB encrypts whole blocks without padding (standard library only).
func rawECB(key string, pt []byte) []byte {
	b, err := aes.NewCipher([]byte(key))
	if err != nil {
		ev.Fatalf("aes: %v", err)
	}
	out := make([]byte, len(pt))
	for i := 0; i+16 <= len(pt); i += 16 {
		b.Encrypt(out[i:i+16], pt[i:i+16])
	}
	return out
}

func decCases() []Case {
	var cs []Case
	keys := append(append([]string{}, validKeys...), invalidKeys...)
	for _, k := range keys {
		for l := 0; l <= 48; l++ { // arbitrary ciphertext of every length
			ct := make([]byte, l)
			for i := range ct {
				ct[i] = byte(37*i + 11*l + 5)
			}
			cs = append(cs, Case{Part: "dec", Mode: "ecb", KeyQ: q(k), CtHex: hex.EncodeToString(ct)})
			cs = append(cs, Case{Part: "dec", Mode: "ecb", KeyQ: q(k), CtHex: hex.EncodeToString(bytes.Repeat([]byte{0}, l))})
		}
	}
	for _, k := range validKeys {
		for blocks := 1; blocks <= 3; blocks++ { // every value of the final padding byte
			for pad := 0; pad <= 255; pad++ {
				pt := bytes.Repeat([]byte{'A'}, blocks*16)
				pt[len(pt)-1] = byte(pad)
				cs = append(cs, Case{Part: "dec", Mode: "ecb", KeyQ: q(k), CtHex: hex.EncodeToString(rawECB(k, pt))})
			}
		}
	}
	bad := []string{"", "!", "!!!!", "QUJD", "QUJDRA==", "cm9vdA==", "AAAAAAAAAAAAAAAAAAAAAA==", "AAAAAAAAAAAAAAAAAAAAAA", "AAAAAAAAAAAAAAAAAAAAAA==\n",
		"AAAAAAAAAAAAAAAAAAAAAAAAAAAAAAAAAAAAAAAAAAA=", "====", "A", "AB", "ABC", " ", "\x00", "\xff\xff\xff\xff", "日本語", strings.Repeat("A", 64), strings.Repeat("A", 63),
		base64.StdEncoding.EncodeToString(rawECB(validKeys[0], bytes.Repeat([]byte{0}, 16))),
		base64.StdEncoding.EncodeToString(rawECB(validKeys[0], bytes.Repeat([]byte{17}, 16))),
		base64.StdEncoding.EncodeToString(rawECB(validKeys[0], bytes.Repeat([]byte{255}, 32))),
		base64.URLEncoding.EncodeToString(rawECB(validKeys[0], bytes.Repeat([]byte{16}, 16)))}
	for _, k := range keys {
		for _, b := range bad {
			cs = append(cs, Case{Part: "dec", Mode: "nsdecrypt", KeyQ: q(k), NameQ: q(b)})
		}
	}
	return cs
}

// ---------------------------------------------------------------- part local

const marker = "SENTINEL-DO-NOT-TOUCH:"

type snapEnt struct {
	mode os.FileMode
	sum  string
}

// snapshot records every file and directory under root except the subtree at skip.
func snapshot(root, skip string) map[string]snapEnt {
	m := map[string]snapEnt{}
	filepath.Walk(root, func(p string, info os.FileInfo, err error) error {
		if err != nil {
			return nil
		}
		if p == skip {
			return filepath.SkipDir
		}
		rel, _ := filepath.Rel(root, p)
		e := snapEnt{mode: info.Mode()}
		if info.Mode().IsRegular() {
			b, _ := os.ReadFile(p)
			e.sum = blobKey(b)
		}
		m[rel] = e
		return nil
	})
	return m
}

func snapDiff(a, b map[string]snapEnt) []string {
	var out []string
	for k, v := range a {
		w, ok := b[k]
		if !ok {
			out = append(out, "deleted:"+k)
		} else if v != w {
			out = append(out, "modified:"+k)
		}
	}
	for k := range b {
		if _, ok := a[k]; !ok {
			out = append(out, "created:"+k)
		}
	}
	sort.Strings(out)
	return out
}

// locate classifies an absolute path relative to the storage directory.
func locate(storage, caseDir, p string, fileSuffix string) (class string, inCase bool) {
	p = filepath.Clean(p)
	inCase = strings.HasPrefix(p, caseDir+"/")
	switch {
	case p == storage || strings.HasPrefix(p, storage+"/"):
		return "inside", true
	case p == storage+fileSuffix:
		return "storage_dir_plus_suffix", inCase
	case inCase:
		rel, _ := filepath.Rel(storage, p)
		return fmt.Sprintf("up_%d_levels", strings.Count(rel, "../")), true
	}
	return "outside_sandbox", false
}

func layout(caseDir string) (storage string) {
	os.RemoveAll(caseDir)
	storage = filepath.Join(caseDir, "l1", "l2", "store")
	files := []string{
		"l1/l2/store.json", "l1/l2/x.json", "l1/l2/x", "l1/l2/sentinel.json", "l1/l2/namespace.json", "l1/l2/gaea.json",
		"l1/l2/namespace/x.json", "l1/l2/namespace/ns.json", "l1/l2/gaea/namespace/x.json", "l1/l2/gaea/namespace/ns.json",
		"l1/x.json", "l1/store.json", "l1/sentinel.json", "l1/namespace/x.json", "x.json", "store.json", "sentinel.json", "etc/x.json",
	}
	for _, f := range files {
		p := filepath.Join(caseDir, f)
		if err := os.MkdirAll(filepath.Dir(p), 0o755); err != nil {
			ev.Fatalf("sandbox: %v", err)
		}
		if err := os.WriteFile(p, []byte(marker+f), 0o644); err != nil {
			ev.Fatalf("sandbox: %v", err)
		}
	}
	os.WriteFile(filepath.Join(caseDir, "layout-ok"), []byte(marker+"layout-ok"), 0o644)
	if n := len(snapshot(caseDir, storage)); n != layoutEntries {
		ev.Fatalf("sandbox layout has %d entries, expected %d", n, layoutEntries)
	}
	return storage
}

// layoutEntries: files and directories of the sentinel layout (including the root and layout-ok).
const layoutEntries = 27

func (x *ctx) runLocal(c Case) {
	r := x.r
	name := uq(c.NameQ)
	nc := nameClass(name)
	dir := <-x.dirs
	defer func() { x.dirs <- dir }()
	// the sentinel layout of a worker directory is built once and rebuilt only after a case
	// that changed it; the storage directory itself is emptied before every case
	caseDir := filepath.Join(dir, "c")
	storage := filepath.Join(caseDir, "l1", "l2", "store")
	if _, err := os.Stat(filepath.Join(caseDir, "layout-ok")); err != nil {
		layout(caseDir)
	}
	os.RemoveAll(storage)
	lc, err := models.NewLocalClient(storage, c.Prefix)
	if err != nil {
		ev.Fatalf("NewLocalClient: %v", err)
	}
	before := snapshot(caseDir, storage)
	if len(before) != layoutEntries {
		ev.Fatalf("sandbox layout damaged before the case: %d entries", len(before))
	}
	key := validKeys[0]
	feats := func(kind string, kv ...string) map[string]string {
		m := map[string]string{"kind": kind, "entry": c.Entry, "prefix": c.Prefix, "nameclass": nc, "source": "local"}
		for i := 0; i+1 < len(kv); i += 2 {
			m[kv[i]] = kv[i+1]
		}
		return m
	}
	// helperOK: both path helpers on p; false when executing file operations on p could
	// leave the sandbox (then they are not executed at all).
	helperOK := func(p string) bool {
		safe := true
		for _, h := range []string{"FullNamespacePath", "FullDirPath"} {
			var res string
			err, pn := catchErr(func() (e error) {
				if h == "FullNamespacePath" {
					res, e = lc.FullNamespacePath(p)
				} else {
					res, e = lc.FullDirPath(p)
				}
				return
			})
			if pn != nil {
				x.viol(c, feats("panic", "stage", h), "%s(%s) panicked: %v", h, q(p), pn)
				safe = false
				continue
			}
			r.Add("helper_calls", 1)
			if err != nil {
				r.Distinct("helper_reject", errClass(err))
				continue
			}
			suffix := ""
			if h == "FullNamespacePath" {
				suffix = lc.FileSuffix
			}
			cls, inCase := locate(storage, caseDir, res, lc.FileSuffix)
			if h == "FullNamespacePath" && filepath.Clean(res) == storage {
				cls = "storage_dir_itself"
			}
			_ = suffix
			if cls != "inside" {
				x.viol(c, feats("path_outside_storage", "escape", cls, "helper", h),
					"%s(%s) = %s is outside the storage directory %s", h, q(p), res, storage)
				if !inCase {
					safe = false
				}
			} else {
				rel, _ := filepath.Rel(storage, res)
				r.Distinct("nontrivial", "path:"+h+":"+c.Prefix+":"+rel)
			}
		}
		return safe
	}
	readCheck := func(what string, b []byte) {
		if bytes.Contains(b, []byte(marker)) {
			i := bytes.Index(b, []byte(marker))
			which := string(b[i+len(marker):])
			if j := strings.IndexAny(which, "\"\n"); j >= 0 {
				which = which[:j]
			}
			cls, _ := locate(storage, caseDir, filepath.Join(caseDir, which), lc.FileSuffix)
			x.viol(c, feats("sentinel_read", "escape", cls, "op", what), "%s returned the content of the sentinel file %s outside the storage directory", what, which)
		}
	}
	pan := func(stage string, f func() error) (error, bool) {
		err, pn := catchErr(f)
		if pn != nil {
			x.viol(c, feats("panic", "stage", stage), "%s panicked: %v", stage, pn)
			return nil, true
		}
		r.Add("local_ops", 1)
		return err, false
	}

	switch c.Entry {
	case "raw":
		p := name
		if helperOK(p) {
			d1, d2 := []byte("DATA-ONE "+q(p)), []byte("DATA-TWO")
			var b []byte
			if _, pn := pan("Read", func() (e error) { b, e = lc.Read(p); return }); !pn {
				readCheck("Read", b)
			}
			var lv0 map[string]string
			pan("ListWithValues", func() (e error) { lv0, e = lc.ListWithValues(p); return })
			for _, v := range lv0 {
				readCheck("ListWithValues", []byte(v))
			}
			for i, d := range [][]byte{d1, d2} {
				op := []string{"Create", "Update"}[i]
				werr, pn := pan(op, func() error {
					if i == 0 {
						return lc.Create(p, d)
					}
					return lc.Update(p, d)
				})
				if pn {
					continue
				}
				rerr, pn := pan("Read", func() (e error) { b, e = lc.Read(p); return })
				if pn {
					continue
				}
				readCheck("Read", b)
				if werr == nil {
					if rerr != nil || !bytes.Equal(b, d) {
						x.viol(c, feats("local_readback_mismatch", "op", op), "%s(%s) succeeded but Read returns %q, %v", op, q(p), b, rerr)
					} else {
						r.Distinct("nontrivial", "rw:"+q(filepath.Clean(p)))
					}
				} else {
					r.Distinct("local_reject", errClass(werr))
				}
			}
			var ls []string
			pan("List", func() (e error) { ls, e = lc.List(p); return })
			var lv map[string]string
			pan("ListWithValues", func() (e error) { lv, e = lc.ListWithValues(p); return })
			for _, v := range lv {
				readCheck("ListWithValues", []byte(v))
			}
			_ = ls
			pan("Delete", func() error { return lc.Delete(p) })
			pan("Clean", func() error { return lc.Clean(p) })
		}
	case "store":
		st := models.NewStore(lc)
		ok := helperOK(st.NamespacePath(name))
		ok = helperOK(st.NamespaceBase()) && ok
		if ok {
			sub := buildNS(name, 0, defaults[0], c.UserNS)
			verr, pn := pan("Verify", sub.Verify)
			stored := false
			eff, okName := effectiveName(name, sub)
			if !pn && verr == nil && !okName {
				x.viol(c, feats("name_changed"), "Verify changed the namespace name %s into %s", q(name), q(eff))
			} else if !pn && verr == nil && !helperOK(st.NamespacePath(eff)) {
				// not executed: the helper path leaves the sandbox (already reported)
			} else if !pn && verr == nil {
				if e := sub.Encrypt(key); e != nil {
					ev.Fatalf("encrypt: %v", e)
				}
				uerr, pn := pan("UpdateNamespace", func() error { return st.UpdateNamespace(sub) })
				if !pn && uerr == nil {
					stored = true
				} else if uerr != nil {
					r.Distinct("local_reject", errClass(uerr))
				}
			}
			// LoadNamespace / DelNamespace take a bare name (admin API: deleteNamespaceLocal)
			var got *models.Namespace
			lerr, pn := pan("LoadNamespace", func() (e error) { got, e = st.LoadNamespace(key, eff); return })
			if stored && !pn {
				exp := expected(name, eff, 0, defaults[0], c.UserNS)
				if lerr != nil {
					x.viol(c, feats("load_error", "via", "LoadNamespace", "err", errClass(lerr)), "namespace %s written to the local copy cannot be loaded back: %v", q(name), lerr)
				} else if d := diffNS(got, exp); d != "" {
					x.viol(c, feats("unequal", "via", "LoadNamespace", "field", stripIdx(d)), "local copy differs at %s", d)
				} else {
					r.Distinct("nontrivial", "localrt:"+c.Prefix+":"+q(name))
				}
				var all map[string]*models.Namespace
				aerr, pn := pan("LoadNamespaces", func() (e error) { all, e = st.LoadNamespaces(key); return })
				if !pn {
					if aerr != nil {
						x.viol(c, feats("load_error", "via", "LoadNamespaces", "err", errClass(aerr)), "local copy holding %s fails to load: %v", q(name), aerr)
					} else {
						found := false
						for _, g := range all {
							if g.Name == exp.Name && diffNS(g, exp) == "" {
								found = true
							}
						}
						if !found {
							x.viol(c, feats("not_loaded_from_local", "via", "LoadNamespaces"), "namespace %s was written to the local copy but loading the copy does not return it", q(name))
						}
					}
				}
			}
			var names []string
			pan("ListNamespaceName", func() (e error) { names, e = st.ListNamespaceName(); return })
			_ = names
			pan("DelNamespace", func() error { return st.DelNamespace(name) })
		}
	case "sync":
		remote := fakeetcd.New(c.Prefix)
		rst := models.NewStore(remote)
		lst := models.NewStore(lc)
		sub := buildNS(name, 0, defaults[0], c.UserNS)
		if verr, pn := pan("Verify", sub.Verify); pn || verr != nil {
			r.Add("rejected_by_verify", 1)
			break
		}
		submitted := name
		name, okName := effectiveName(submitted, sub)
		if !okName {
			x.viol(c, feats("name_changed"), "Verify changed the namespace name %s into %s", q(submitted), q(name))
			break
		}
		if e := sub.Encrypt(key); e != nil {
			ev.Fatalf("encrypt: %v", e)
		}
		// the coordinator holds the configuration under the key cc would use when that key is
		// below <root>/namespace, otherwise under <root>/namespace/k0 (written by other means):
		// the proxy derives the local file name from the "name" inside the stored JSON either way.
		rkey := fakeetcd.Norm(rst.NamespacePath(name))
		if !strings.HasPrefix(rkey, fakeetcd.Norm(rst.NamespaceBase())+"/") {
			rkey = fakeetcd.Norm(rst.NamespaceBase()) + "/k0"
		}
		remote.Put(rkey, sub.Encode())
		ok := helperOK(lst.NamespacePath(sub.Name))
		ok = helperOK(lst.NamespaceBase()) && ok
		if ok {
			exp := expected(submitted, name, 0, defaults[0], c.UserNS)
			var res map[string]*models.Namespace
			serr, pn := pan("SyncNamespaces", func() (e error) { res, e = server.SyncNamespaces(remote, lc, key); return })
			if pn {
				break
			}
			if serr != nil {
				// the coordinator copy itself is unusable (e.g. Verify is not idempotent on it);
				// that is reported by part "name"; nothing was handed to the proxy here.
				r.Distinct("sync_reject", errClass(serr))
				break
			}
			if g := res[rkey]; g == nil || diffNS(g, exp) != "" {
				x.viol(c, feats("unequal", "via", "SyncNamespaces", "field", stripIdx(diffNS(g, exp))), "SyncNamespaces result differs from the stored configuration")
			}
			var loc map[string]*models.Namespace
			lerr, pn := pan("LoadDecryptNamespaces", func() (e error) { loc, e = server.LoadDecryptNamespaces(lc, key); return })
			if pn {
				break
			}
			if lerr != nil {
				x.viol(c, feats("load_error", "via", "LoadDecryptNamespaces", "err", errClass(lerr)), "local copy written by SyncNamespaces fails to load: %v", lerr)
				break
			}
			found := false
			for _, g := range loc {
				if g.Name == exp.Name && diffNS(g, exp) == "" {
					found = true
				}
			}
			if found {
				r.Distinct("nontrivial", "syncrt:"+c.Prefix+":"+q(name))
			} else {
				x.viol(c, feats("not_loaded_from_local", "via", "LoadDecryptNamespaces"),
					"namespace %s is served from the coordinator but is missing when the proxy starts from its local copy", q(name))
			}
		}
	}
	after := snapshot(caseDir, storage)
	if len(snapDiff(before, after)) > 0 {
		os.Remove(filepath.Join(caseDir, "layout-ok")) // rebuild for the next case
		defer os.RemoveAll(caseDir)
	}
	for _, d := range snapDiff(before, after) {
		i := strings.IndexByte(d, ':')
		cls, _ := locate(storage, caseDir, filepath.Join(caseDir, d[i+1:]), lc.FileSuffix)
		x.viol(c, feats("outside_"+d[:i], "escape", cls), "local persistence %s %s outside the storage directory (name %s, prefix %q, entry %s)", d[:i], d[i+1:], q(name), c.Prefix, c.Entry)
	}
	r.Add("fs_snapshots_compared", 1)
}

// ---------------------------------------------------------------- main

func (x *ctx) run(c Case) {
	switch c.Part {
	case "cred":
		x.runCred(c)
	case "name":
		x.runName(c)
	case "dec":
		x.runDec(c)
	case "local":
		x.runLocal(c)
	case "hist":
		x.runHist(c)
	default:
		ev.Fatalf("unknown part %q", c.Part)
	}
	x.r.Add("evaluations", 1)
}

// coreString: the sub-alphabet used for 2-deviation vectors in the quick tier: every special
// string and the plain strings of length 0, 1, 15, 16, 17, 32.
func coreString(s string) bool {
	if s != strings.Repeat("a", len(s)) {
		return true
	}
	switch len(s) {
	case 0, 1, 15, 16, 17, 32:
		return true
	}
	return false
}

func genCred(r *ev.Run, emit func(Case)) {
	alpha := credAlphabet()
	gen := func(shape, k int, keys []string, local bool) {
		def := defaults[shape]
		dims := make([]int, len(def))
		for i := range dims {
			dims[i] = len(alpha) + 1
		}
		enum.Deviations(dims, k, func(idx []int) {
			f := make([]string, len(def))
			nd, core := 0, true
			for i, v := range idx {
				if v == 0 {
					f[i] = q(def[i])
				} else {
					f[i] = q(alpha[v-1])
					nd++
					core = core && coreString(alpha[v-1])
				}
			}
			if nd >= 2 && r.Quick() && !core {
				return // quick tier: vectors with 2 deviations over the core sub-alphabet only
			}
			for ki, key := range keys {
				if nd >= 2 && ki > 0 && (r.Quick() || nd >= 3) {
					break // 2 deviations in the quick tier / 3 deviations: under the first key only
				}
				emit(Case{Part: "cred", Shape: shape, KeyQ: q(key), Fields: f, Wrong: nd <= 1, Local: local && nd <= 1})
			}
		})
	}
	gen(0, 1, invalidKeys, false)
	gen(1, r.Pick(1, 2), validKeys, true)
	gen(0, r.Pick(2, 3), validKeys, true)
}

func genName(emit func(Case)) {
	for _, n := range nameAlphabet() {
		for _, uns := range []bool{false, true} {
			emit(Case{Part: "name", NameQ: q(n), UserNS: uns, Wrong: true})
		}
	}
}

func genLocal(emit func(Case)) {
	for _, n := range nameAlphabet() {
		emit(Case{Part: "local", Entry: "raw", Prefix: "/gaea", NameQ: q(n)})
		for _, p := range prefixes {
			emit(Case{Part: "local", Entry: "store", Prefix: p, NameQ: q(n)})
			emit(Case{Part: "local", Entry: "sync", Prefix: p, NameQ: q(n)})
		}
	}
	// raw paths: invalid UTF-8, and paths that look like what a Store would pass
	for _, p := range append(append([]string{}, rawOnlyNames...), []string{"/gaea/namespace/ns", "/gaea/namespace/../../x", "/gaea/namespace/../../../x", "/", "//", "/.", "/..", "/../..", "gaea/../..", "gaea/..", "/gaea/.."}...) {
		emit(Case{Part: "local", Entry: "raw", Prefix: "/gaea", NameQ: q(p)})
	}
}

func genDec(emit func(Case)) {
	for _, c := range decCases() {
		emit(c)
	}
}

// stream runs every generated case on all cores; false when the time budget ended it early.
func (x *ctx) stream(part string, gen func(emit func(Case))) bool {
	ch := make(chan Case, 4096)
	var wg sync.WaitGroup
	for w := 0; w < runtime.GOMAXPROCS(0); w++ {
		wg.Add(1)
		go func() {
			defer wg.Done()
			for c := range ch {
				x.run(c)
			}
		}()
	}
	n, stopped := 0, false
	gen(func(c Case) {
		if stopped {
			return
		}
		if n%512 == 0 && x.r.TimeUp() {
			stopped = true
			return
		}
		if n == 0 || n == 37 {
			x.r.Sample(c)
		}
		n++
		ch <- c
	})
	close(ch)
	wg.Wait()
	x.r.Set("universe_"+part, n)
	return !stopped
}

func main() {
	gx.Quiet()
	debug.SetGCPercent(400)
	r := ev.Start("C33", "exploration")
	build := os.Getenv("VERIF_BUILD_DIR")
	if build == "" {
		build = "/verif/.build/c33"
	}
	sandbox := filepath.Join(build, "sandbox")
	if real, err := filepath.EvalSymlinks(build); err != nil || real != build {
		ev.Fatalf("build directory %s must exist and be free of symlinks (%v)", build, err)
	}
	os.RemoveAll(sandbox)
	x := &ctx{r: r, dirs: make(chan string, 64)}
	for i := 0; i < 64; i++ {
		d := filepath.Join(sandbox, fmt.Sprintf("w%02d", i))
		if err := os.MkdirAll(d, 0o755); err != nil {
			ev.Fatalf("sandbox: %v", err)
		}
		x.dirs <- d
	}
	finish := func() {
		dumpDebug()
		os.RemoveAll(sandbox)
		r.Finish()
	}
	var rc Case
	if r.ReplayCase(&rc) {
		x.run(rc)
		finish()
	}

	r.Set("rule", "enum: cred = all vectors of credential fields (user name, password, slice user, slice password; 1 user+1 slice and 2 users+2 slices) that differ from a valid default in <=k positions over a boundary-rich byte-string alphabet (every length 0..33, blanks, NUL, 0xff, UTF-8, padding look-alikes) x every valid AES key length, plus invalid key lengths; dec = every ciphertext length 0..48, every final padding byte 0..255 on 1..3 valid blocks, malformed base64, valid and invalid keys; hist = every enabled operation history of depth <=d over {save fresh cfg (is_encrypt unset / set), load, re-save the loaded object, modify the loaded object and save, JSON round trip of the loaded object then save, cc rollback path (real rollbackNamespace), delete} from 5 initial states (empty, saved, saved+loaded, legacy plaintext entry, legacy+loaded), oracle after every step; name/local = adversarial namespace names x prefixes x entry points (raw Client API, Store API, SyncNamespaces) in a sandbox with sentinel files. distinct_nontrivial counts distinct stored ciphertext blobs that were reloaded equal, distinct decrypt outcomes (error class / output length), distinct in-storage paths returned by the helpers and distinct names that completed a local write/read round trip and distinct (initial state, history) pairs that completed with the oracle holding after every step")
	r.Assume("the in-memory coordinator ref/fakeetcd reproduces the etcd v2 semantics that models/etcd relies on (file/dir keys, recursive ListWithValues, Read of missing key = nil)")
	r.Assume("documented normalisation = strings.TrimSpace of user name/password/user namespace, default user namespace, nil allowed_session_variables -> {}, is_encrypt = true")
	r.Assume("reads of sentinel files are detected through returned data (a unique marker), writes/deletes through a before/after snapshot of the sandbox tree; file operations whose helper path would leave the sandbox are reported from the helper result and not executed")
	r.Assume("LocalClient.UpdateWithTTL is not driven (free-running timer goroutine); it uses the same path helper as Update")
	r.Set("bounds", fmt.Sprintf("cred deviations: 1 user+1 slice <=%d, 2 users+2 slices <=%d, over %d strings x %d valid keys (quick: 2-deviation vectors over the core sub-alphabet under the first key; thorough: 3-deviation vectors under the first key) (+%d invalid); %d names x %d prefixes x 3 entry points; ciphertext lengths 0..48, padding bytes 0..255 on 1..3 blocks; operation histories of depth <=%d over 8 operations from 5 initial states",
		r.Pick(2, 3), r.Pick(1, 2), len(credAlphabet()), len(validKeys), len(invalidKeys), len(nameAlphabet()), len(prefixes), r.Pick(4, 6)))

	parts := []struct {
		name string
		gen  func(emit func(Case))
	}{{"local", genLocal}, {"name", genName}, {"dec", genDec},
		{"hist", func(e func(Case)) { genHist(r, e) }}, {"cred", func(e func(Case)) { genCred(r, e) }}}
	for _, p := range parts {
		t0 := time.Now()
		defer func(n string) {}(p.name)
		ok := x.stream(p.name, p.gen)
		if os.Getenv("VERIF_DEBUG") != "" {
			fmt.Printf("DEBUG part %s took %.1fs\n", p.name, time.Since(t0).Seconds())
		}
		if !ok {
			r.Capped(fmt.Sprintf("time budget ended inside part %s (cases are generated fewest-deviations first); earlier parts complete", p.name))
			break
		}
	}
	if r.DistinctN("nontrivial") < 50 {
		ev.Fatalf("vacuous run: only %d distinct non-trivial outcomes", r.DistinctN("nontrivial"))
	}
	finish()
}
