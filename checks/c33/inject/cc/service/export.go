//go:build verif

package service

import "github.com/XiaoMi/Gaea/models"

// VerifRollbackNamespace exposes the unexported rollback of ModifyNamespace (re-save of the
// previously loaded namespace / delete of a new one) to the C33 history harness.
func VerifRollbackNamespace(exist, newNs *models.Namespace, cfg *models.CCConfig, store *models.Store) error {
	return rollbackNamespace(exist, newNs, cfg, store)
}
