// C23: keep-session clients stay pinned to their backend connections.
//
// Engine: xstate (BFS over histories of client commands, namespace reloads between commands
// and failing pings), every history replayed on fresh real Manager / Namespace / Session
// objects (real Session.Run, real Manager.ReloadNamespacePrepare) on the session rig
// /verif/ref/sessrig with keep-session enabled.
//
// Events: R0 W0 RS WS W1 (statements on slice 0 / both / slice 1), BEGIN COMMIT ROLLBACK
// AC0 AC1, PING, PINGF0 / PINGF1 (COM_PING whose backend ping fails on the pinned connection
// of slice 0 / 1), RELOAD (namespace configuration change while the client is idle: change
// index +1, new pools), DISC (client disconnects), QUIT (COM_QUIT).
// Every command except DISC/QUIT also exists in "reload commits DURING this command" variants:
// "OP~w" (the prepared reload is committed while the proxy writes the answer, i.e. after the
// command ran, before Session.Run's post-command checks and next loop iteration) and
// "OP~s<k>#<n>" (committed inside the n-th backend call - get / use_db / execute / begin /
// commit / rollback / set autocommit / ping - on the pinned pool group of slice k, n = 0..2).
// A position that the command does not reach degenerates to "OP, RELOAD" (merged by the key).
//
// Oracle: see type monitor.
package main

import (
	"fmt"
	"os"
	"sort"
	"strings"
	"sync"
	"time"

	"github.com/XiaoMi/Gaea/mysql"

	"verif/engine/ev"
	"verif/engine/gx"
	"verif/engine/xstate"
	"verif/ref/sessrig"
)

var sqlOf = map[string]string{
	"BEGIN":    "begin",
	"COMMIT":   "commit",
	"ROLLBACK": "rollback",
	"AC0":      "set autocommit=0",
	"AC1":      "set autocommit=1",
	"R0":       "select * from t1 where id=1",
	"W0":       "update t1 set a=1 where id=1",
	"RS":       "select * from tbl_ks",
	"WS":       "update tbl_ks set a=1",
	"W1":       "update tbl_ks set a=1 where id=1",
}

var alphabetRW = []string{"R0", "W0", "RS", "WS", "W1", "BEGIN", "COMMIT", "ROLLBACK", "AC0", "AC1", "PING", "PINGF0", "PINGF1", "RELOAD", "DISC", "QUIT"}
var alphabetRO = []string{"R0", "RS", "BEGIN", "COMMIT", "ROLLBACK", "AC0", "AC1", "PING", "PINGF0", "PINGF1", "RELOAD", "DISC", "QUIT"}

// midOps are the commands that have "reload commits during the command" variants.
var midOps = map[string]bool{"R0": true, "W0": true, "RS": true, "WS": true, "W1": true, "BEGIN": true, "COMMIT": true, "ROLLBACK": true,
	"AC0": true, "AC1": true, "PING": true}

var midPoints = []string{"w", "s0#0", "s0#1", "s0#2", "s1#0", "s1#1", "s1#2"}

func withMid(alpha []string) []string {
	out := append([]string(nil), alpha...)
	for _, op := range alpha {
		if midOps[op] {
			for _, p := range midPoints {
				out = append(out, op+"~"+p)
			}
		}
	}
	return out
}

type config struct {
	User string `json:"user"`
}

func (c config) String() string { return "user=" + c.User }

type kase struct {
	Cfg  config   `json:"cfg"`
	Hist []string `json:"hist"`
}

// monitor: the client's view.
//
//   - transaction state with MySQL's rules (as in C18): open() <=> BEGIN block or autocommit=0
//   - pins: slice -> lease. The first backend connection the session takes for a slice is its
//     pin; until the pin is dropped every backend call for that slice must be on that lease
//     and the lease must not be given back.
//   - a pin may be dropped only (a) at client disconnect / COM_QUIT / when the proxy ends the
//     session, (b) by the first command after a namespace reload seen OUTSIDE a transaction:
//     all old pins are closed and recycled (exactly once, before anything else runs on them)
//     and the command re-pins on the new namespace's pools; (c) a reload seen INSIDE a
//     transaction makes that command fail with an error and ends the session (pins released).
//   - whenever the session ends every pin has been closed and recycled exactly once and
//     nothing is left checked out.
//
// A failing ping is handled by the proxy by ending the session (ErrBadConn closes the client
// connection without an answer); the monitor accepts that as (a).
type monitor struct {
	ac, explicit bool
	after        string // "AC1_in_explicit_tx", see C18
	pins         map[string]int
	reloadSeen   bool // a reload happened since the last command
	reloads      int  // number of reloads since the last command
	gen          int  // generation of the pools the session must use now
	leases       *sessrig.Leases
}

func (m *monitor) open() bool { return m.explicit || !m.ac }

type stepTrace struct {
	Ev   string   `json:"event"`
	Resp string   `json:"resp"`
	Led  []string `json:"ledger,omitempty"`
}

type outcome struct {
	res   xstate.Result
	trace []stepTrace
	facts []string
}

func phase(m *monitor) string {
	if m.open() {
		return "in_tx"
	}
	return "outside_tx"
}

func replay(cfg config, hist []string, wantTrace bool) outcome {
	w, err := sessrig.New(sessrig.Config{KeepSession: true})
	if err != nil {
		ev.Fatalf("sessrig.New: %v", err)
	}
	defer w.Close()
	a := w.NewSession("A", cfg.User)
	m := &monitor{ac: true, pins: map[string]int{}, leases: sessrig.NewLeases()}
	var out outcome
	sinceReload := -1 // number of commands executed since the last reload (-1: none yet)
	for i, op := range hist {
		if op == "RELOAD" {
			if err := w.Reload(); err != nil {
				ev.Fatalf("reload: %v", err)
			}
			m.reloadSeen = true
			m.reloads++
			if wantTrace {
				out.trace = append(out.trace, stepTrace{Ev: op, Resp: fmt.Sprintf("change index now %d", w.ChangeIndex())})
			}
			continue
		}
		// "reload commits during this command" variant
		mid := ""
		if k := strings.Index(op, "~"); k >= 0 {
			op, mid = op[:k], op[k+1:]
		}
		var hooks []sessrig.Fault
		if mid != "" {
			if err := w.PrepareReload(); err != nil {
				ev.Fatalf("prepare reload: %v", err)
			}
			if mid == "w" {
				a.CommitOnWrite()
			} else {
				sl := "slice-" + mid[1:2]
				n := int(mid[3] - '0')
				for _, role := range []string{"master", "slave"} {
					hooks = append(hooks, sessrig.Fault{Pool: sl + "/" + role, Nth: n, Kind: "commit_reload"})
				}
			}
		}
		var resp sessrig.Resp
		faulted := false
		switch op {
		case "PING":
			resp = a.Ping(hooks...)
		case "PINGF0":
			resp = a.Ping(sessrig.Fault{Pool: "slice-0/master", Nth: 0, Kind: "err"}, sessrig.Fault{Pool: "slice-0/slave", Nth: 0, Kind: "err"})
			faulted = len(resp.Fired) > 0
		case "PINGF1":
			resp = a.Ping(sessrig.Fault{Pool: "slice-1/master", Nth: 0, Kind: "err"}, sessrig.Fault{Pool: "slice-1/slave", Nth: 0, Kind: "err"})
			faulted = len(resp.Fired) > 0
		case "DISC":
			resp = a.Disconnect()
		case "QUIT":
			resp = a.Quit()
		default:
			resp = a.Do(mysql.ComQuery, []byte(sqlOf[op]), hooks...)
		}
		// did the reload commit while the command was running? If the hook point was not
		// reached the reload commits now, between this command and the next one.
		committedDuring := mid != "" && !w.ReloadPending()
		if mid != "" && !committedDuring {
			w.CommitReload()
		}
		led := w.Ledger()
		step := w.Step()
		var entries []sessrig.Entry
		for _, e := range led {
			if e.Step == step {
				entries = append(entries, e)
			}
		}
		if wantTrace {
			out.trace = append(out.trace, stepTrace{Ev: hist[i], Resp: fmt.Sprintf("%s %d %s ended=%v reload_committed_during=%v", resp.Kind, resp.ErrCode, resp.ErrMsg, resp.Ended, committedDuring), Led: sessrig.Describe(entries)})
		}
		when := "steady"
		if m.reloadSeen {
			when = "first_command_after_reload"
		} else if sinceReload == 0 {
			when = "second_command_after_reload"
		}
		mk := func(kind, format string, args ...interface{}) outcome {
			out.res.Violation = fmt.Sprintf("step %d %s: %s (%s, %s): ", i, op, kind, phase(m), when) + fmt.Sprintf(format, args...)
			out.res.Features = map[string]string{"kind": kind, "event": op, "phase": phase(m), "when": when, "after": m.after,
				"ping_failed": fmt.Sprint(faulted), "user": cfg.User, "reload_during_command": fmt.Sprint(committedDuring)}
			return out
		}
		ended := resp.Ended || a.Ended
		// per connection, deterministic order
		by := map[int][]sessrig.Entry{}
		var ids []int
		for _, e := range entries {
			if e.Conn == 0 {
				continue
			}
			if _, ok := by[e.Conn]; !ok {
				ids = append(ids, e.Conn)
			}
			by[e.Conn] = append(by[e.Conn], e)
		}
		sort.Slice(ids, func(x, y int) bool {
			p, q := by[ids[x]][0].Pool, by[ids[y]][0].Pool
			if p != q {
				return p < q
			}
			return ids[x] < ids[y]
		})
		isPin := func(l int) (string, bool) {
			for s, p := range m.pins {
				if p == l {
					return s, true
				}
			}
			return "", false
		}
		// what this command is allowed / required to do with the existing pins
		dropAll := false    // old pins must be closed+recycled in this step
		mustEnd := false    // the session must end in this step
		mustErr := false    // the client must get an error
		noBackend := false  // no backend call besides close/recycle may happen
		switch {
		case op == "DISC" || op == "QUIT":
			dropAll, mustEnd = true, true
		case m.reloadSeen && m.open():
			dropAll, mustEnd, mustErr, noBackend = true, true, true, true
		case m.reloadSeen:
			dropAll = true
		}
		wasOpen := m.open()
		if op == "AC1" && m.ac && m.explicit {
			m.after = "AC1_in_explicit_tx"
		}
		closedL := map[int]int{}
		droppedEarly := 0
		recycled := map[int]int{}
		oldPins := map[string]int{}
		for s, l := range m.pins {
			oldPins[s] = l
		}
		if dropAll {
			m.pins = map[string]int{}
			m.gen += m.reloads
		}
		for _, id := range ids {
			for _, e := range by[id] {
				if e.Actor != "A" {
					continue
				}
				_, wasOld := func() (string, bool) {
					for s, l := range oldPins {
						if l == e.Lease {
							return s, true
						}
					}
					return "", false
				}()
				switch e.Op {
				case "close":
					closedL[e.Lease]++
				case "recycle":
					recycled[e.Lease]++
					if dropAll && wasOld {
						continue
					}
					if ended {
						continue // released because the proxy ended the session: checked below
					}
					if sl, ok := isPin(e.Lease); ok && committedDuring && !wasOpen && closedL[e.Lease] >= 1 {
						// the configuration changed while this command ran and the client is outside a
						// transaction: dropping the pins (closed, then given back) right away is what
						// the property asks for
						delete(m.pins, sl)
						droppedEarly++
						continue
					}
					if _, ok := isPin(e.Lease); ok {
						return mk("pin_released", "the pinned connection for %s (%s) was given back to the pool although the client is still connected", e.Slice, e.Pool)
					}
				case "pool_rollback", "pool_autocommit":
				default:
					if dropAll && wasOld && e.Op == "rollback" {
						continue // rolling back what is being dropped is part of dropping it
					}
					if noBackend {
						return mk("backend_call_after_reload_in_tx", "a backend call (%s) was made although the namespace changed while the client is inside a transaction", e.Op)
					}
					if dropAll && wasOld {
						return mk("dropped_pin_used", "%s ran on a pinned connection that this command has to drop (%s)", e.Op, e.Pool)
					}
					if e.Op == "get" {
						if e.Res != "ok" {
							continue
						}
						if want := fmt.Sprintf("g%d/", m.gen); !strings.HasPrefix(e.Pool, want) {
							return mk("stale_pool", "connection taken from %s but the current namespace generation is %d", e.Pool, m.gen)
						}
						if l, ok := m.pins[e.Slice]; ok && l != e.Lease {
							return mk("second_connection_for_slice", "a second connection was taken for %s (%s) while one is pinned", e.Slice, e.Pool)
						}
						m.pins[e.Slice] = e.Lease
						continue
					}
					if l, ok := m.pins[e.Slice]; !ok || l != e.Lease {
						return mk("second_connection_for_slice", "%s for %s ran on a connection that is not the session's pin for that slice (%s)", e.Op, e.Slice, e.Pool)
					}
				}
			}
		}
		if br := m.leases.Feed(led); len(br) > 0 {
			return mk(br[0].Kind, "%s", br[0])
		}
		if dropAll {
			sl := make([]string, 0, len(oldPins))
			for s := range oldPins {
				sl = append(sl, s)
			}
			sort.Strings(sl)
			for _, s := range sl {
				l := oldPins[s]
				if recycled[l] != 1 {
					return mk("old_pin_not_released", "the connection pinned for %s was given back %d times (want exactly once)", s, recycled[l])
				}
				if closedL[l] < 1 {
					return mk("old_pin_not_closed", "the connection pinned for %s was given back to the pool without being closed (its session state would leak to the next user)", s)
				}
			}
		}
		if mustErr && resp.Kind != "err" {
			return mk("no_error_for_tx_after_reload", "the client is inside a transaction and the namespace changed, but the command was answered with %q", resp.Kind)
		}
		if mustEnd && !ended {
			return mk("session_not_ended", "the session should have been ended by this command")
		}
		if ended {
			// every pin (old or new) released exactly once, nothing left
			for _, c := range w.Outstanding() {
				if c.Holder == "A" {
					return mk("held_at_session_end", "a connection of %s is still checked out after the session ended", c.Pool)
				}
			}
			for _, l := range m.pins {
				if recycled[l] != 1 {
					return mk("pin_not_released_at_end", "a pinned connection was given back %d times at session end", recycled[l])
				}
			}
			if !mustEnd && !faulted && resp.Kind != "err" {
				return mk("unexpected_session_end", "the proxy ended the session without a reason the property allows")
			}
			m.pins = map[string]int{}
		} else if resp.Kind == "err" || resp.Kind == "none" {
			return mk("unexpected_error", "client got %s %d %s", resp.Kind, resp.ErrCode, resp.ErrMsg)
		}
		// facts for non-vacuity
		if dropAll && m.reloadSeen && len(oldPins) > 0 {
			if wasOpen {
				out.facts = append(out.facts, "reload_in_tx_disconnects")
			} else {
				out.facts = append(out.facts, "reload_outside_tx_drops_pins")
			}
		}
		if len(oldPins) == 2 && !dropAll {
			out.facts = append(out.facts, "two_pins_reused")
		}
		if committedDuring {
			switch {
			case droppedEarly > 0:
				out.facts = append(out.facts, "reload_during_command_drops_pins_at_once")
			case wasOpen && len(oldPins) > 0:
				out.facts = append(out.facts, "reload_during_command_in_tx")
			case len(m.pins) > 0:
				out.facts = append(out.facts, "reload_during_command_pins_survive_until_next_command")
			}
		}
		// advance the client's view
		if m.reloadSeen {
			sinceReload = 0
		} else if sinceReload >= 0 {
			sinceReload++
		}
		m.reloadSeen = false
		m.reloads = 0
		if mid != "" {
			// whether it landed during the command or right after it: the NEXT command is the
			// first one after the configuration change
			m.reloadSeen = true
			m.reloads = 1
		}
		switch op {
		case "BEGIN":
			m.explicit = true
		case "COMMIT", "ROLLBACK":
			m.explicit = false
			m.after = ""
		case "AC0":
			m.ac = false
		case "AC1":
			if !m.ac {
				m.explicit = false
				m.after = ""
			}
			m.ac = true
		}
		if !m.open() {
			m.after = ""
		}
		if i == len(hist)-1 {
			out.res.Outcome = fmt.Sprintf("%s=%s ended=%v pins=%d %s during=%v", op, resp.Kind, ended, len(m.pins), when, committedDuring)
		}
		if ended {
			out.res.Stop = true
			if i < len(hist)-1 {
				ev.Fatalf("history continues after the session ended: %v", hist)
			}
		}
	}
	out.res.Key = canon(w, a, m, sinceReload)
	return out
}

// canon: merging argument. The future of the session depends on its status bits, the slices
// present in ksConns with the backend flags / pool generation of those connections, whether
// a reload is pending (change index of the served namespace vs. the one the session last
// saw) and whether the session has ended. The monitor's memory (client view of the
// transaction, pins renamed by slice, reload pending, whether the next command is the first
// or second after a reload - only used to label violations) is included because later
// verdicts depend on it. Pool idle queues: the fake hands out idle or new connections which
// behave alike (no faults other than the ping faults, which hit pinned connections), so only
// their count is kept, and only for the pools of the namespace generation in use (older
// pools are unreachable).
func canon(w *sessrig.World, a *sessrig.Sess, m *monitor, sinceReload int) string {
	st := a.State()
	var sb strings.Builder
	sr := sinceReload
	if sr > 1 {
		sr = 1
	}
	fmt.Fprintf(&sb, "ended=%v ac=%v it=%v|mon ac=%v ex=%v after=%s reload=%v since=%d|idx old=%v now=%v|", a.Ended, st.AutoCommit, st.InTrans, m.ac, m.explicit, m.after, m.reloadSeen, sr,
		st.NsIndexNow > st.NsIndexOld, st.NsIndexNow > st.NsIndexCtx)
	// only "current or stale" matters for a connection's pool generation and for the change
	// index (the code compares with >), not by how many reloads it is behind
	desc := func(ci sessrig.ConnInfo) string {
		return fmt.Sprintf("%s/%s stale=%v cl=%v ac=%v tx=%v out=%v", ci.Slice, ci.Role, ci.Gen < m.gen, ci.Closed, ci.AutoCom, ci.InTx, ci.Out)
	}
	referenced := map[int]bool{}
	sb.WriteString("ks:")
	for _, r := range st.KsConns {
		ci, _ := w.InfoOf(r.Conn)
		referenced[ci.Lease] = true
		pinned := m.pins[r.Slice] == ci.Lease
		fmt.Fprintf(&sb, "%s=(%s pin=%v);", r.Slice, desc(ci), pinned)
	}
	sb.WriteString("|pins:")
	ps := make([]string, 0, len(m.pins))
	for s := range m.pins {
		ps = append(ps, s)
	}
	sort.Strings(ps)
	sb.WriteString(strings.Join(ps, ","))
	var others []string
	for _, ci := range w.Outstanding() {
		if !referenced[ci.Lease] {
			others = append(others, ci.Holder+":"+desc(ci))
		}
	}
	sort.Strings(others)
	fmt.Fprintf(&sb, "|out:%v|idle:", others)
	idle := map[string]int{}
	for _, ci := range w.Conns() {
		// pools of earlier generations are unreachable once their namespace was replaced
		if !ci.Out && !ci.Closed && ci.Gen == m.gen {
			idle[fmt.Sprintf("%s/%s", ci.Slice, ci.Role)]++
		}
	}
	for _, k := range sessrig.SortedKeys(idle) {
		fmt.Fprintf(&sb, "%s=%d;", k, idle[k])
	}
	return sb.String()
}

func main() {
	gx.Quiet()
	r := ev.Start("C23", "model_checking")
	var c kase
	if r.ReplayCase(&c) {
		o := replay(c.Cfg, c.Hist, true)
		for _, t := range o.trace {
			fmt.Printf("%-8s -> %-40s %v\n", t.Ev, t.Resp, t.Led)
		}
		if o.res.Violation != "" {
			r.Violation(ev.Witness{Summary: c.Cfg.String() + " " + strings.Join(c.Hist, ",") + ": " + o.res.Violation, Features: o.res.Features, Case: c})
		}
		r.Set("states", 1)
		r.Set("transitions", len(c.Hist))
		r.Set("traces_validated_against_impl", len(c.Hist))
		r.Sample(c)
		r.Finish()
	}
	depth := r.Pick(10, 12)
	cfgs := []config{{User: sessrig.UserRW}, {User: sessrig.UserRO}}
	if r.Thorough() {
		cfgs = append(cfgs, config{User: sessrig.UserRWS})
	}
	var states, transitions int64
	perCfg := map[string]interface{}{}
	facts := map[string]int{}
	classes := map[string]int{}
	classEx := map[string]string{}
	var flaky []string
	var mu sync.Mutex
	maxDepth := 0
	for _, cfg := range cfgs {
		cfg := cfg
		alpha := alphabetRW
		if cfg.User == sessrig.UserRO {
			alpha = alphabetRO
		}
		alphaMid := withMid(alpha)
		spec := xstate.Spec[string]{
			MaxDepth: depth,
			Workers:  16,
			Stop:     r.TimeUp,
			Enabled:  func(h []string) []string { return alphaMid },
			Replay: func(h []string) xstate.Result {
				o := replay(cfg, h, false)
				mu.Lock()
				for _, f := range o.facts {
					facts[f]++
				}
				mu.Unlock()
				if o.res.Key != "" {
					r.Distinct("nontrivial", cfg.String()+"|"+o.res.Key)
				}
				return o.res
			},
			OnOutcome: func(o string) {
				if o != "" {
					r.Distinct("outcomes", cfg.String()+"|"+o)
				}
			},
			OnViolation: func(h []string, res xstate.Result) {
				for i := 0; i < 4; i++ {
					again := replay(cfg, h, false)
					if again.res.Violation != res.Violation {
						// never report a verdict that does not reproduce
						mu.Lock()
						flaky = append(flaky, cfg.String()+" "+strings.Join(h, ",")+": "+res.Violation+" vs "+again.res.Violation)
						mu.Unlock()
						return
					}
				}
				sig := fmt.Sprintf("kind=%s when=%s phase=%s after=%s ping_failed=%s", res.Features["kind"], res.Features["when"], res.Features["phase"], res.Features["after"], res.Features["ping_failed"])
				mu.Lock()
				classes[sig]++
				if _, ok := classEx[sig]; !ok {
					classEx[sig] = cfg.String() + " " + strings.Join(h, ",")
				}
				mu.Unlock()
				k := kase{Cfg: cfg, Hist: append([]string(nil), h...)}
				r.Violation(ev.Witness{Summary: cfg.String() + " " + strings.Join(h, ",") + ": " + res.Violation, Features: res.Features, Case: k})
			},
		}
		t0 := time.Now()
		st := xstate.BFS(spec)
		fmt.Printf("%s: states=%d transitions=%d depth=%d frontier=%v violating=%d %.1fs\n", cfg, st.States, st.Transitions, st.MaxDepth, st.PerDepth, st.Violations, time.Since(t0).Seconds())
		states += st.States
		transitions += st.Transitions
		if st.MaxDepth > maxDepth {
			maxDepth = st.MaxDepth
		}
		perCfg[cfg.String()] = map[string]interface{}{"states": st.States, "transitions": st.Transitions, "depth": st.MaxDepth, "frontier_per_depth": st.PerDepth,
			"violating_histories": st.Violations, "state_space_closed": len(st.PerDepth) > 0 && st.PerDepth[len(st.PerDepth)-1] == 0}
		if st.Capped {
			r.Capped(fmt.Sprintf("time budget hit in configuration %s at depth %d", cfg, st.MaxDepth))
			break
		}
	}
	if len(classes) > 0 && (r.Violations() > 0 || os.Getenv("VERIF_VERBOSE") != "") {
		fmt.Println("violation classes (count, features, shortest example):")
		for _, k := range sessrig.SortedKeys(classes) {
			fmt.Printf("  %5d %s\n        e.g. %s\n", classes[k], k, classEx[k])
		}
	}
	for _, s := range []kase{
		{cfgs[0], []string{"W0", "W1", "RELOAD", "WS", "PING", "DISC"}},
		{cfgs[0], []string{"BEGIN", "WS", "RELOAD", "COMMIT"}},
		{cfgs[0], []string{"R0", "AC0", "W1", "COMMIT", "AC1", "QUIT"}},
	} {
		o := replay(s.Cfg, s.Hist, true)
		r.Sample(map[string]interface{}{"cfg": s.Cfg, "hist": s.Hist, "trace": o.trace, "violation": o.res.Violation})
	}
	r.Set("states", states)
	r.Set("transitions", transitions)
	r.Set("traces_validated_against_impl", transitions)
	r.Set("depth_bound", depth)
	r.Set("depth_reached", maxDepth)
	r.Set("per_configuration", perCfg)
	r.Set("coverage_facts", facts)
	r.Set("rule", "BFS over histories of <=depth events (statements on slice 0 / 1 / both, BEGIN/COMMIT/ROLLBACK, SET autocommit, COM_PING ok / failing on slice 0 / 1, namespace reload between commands, disconnect, COM_QUIT) for a keep-session client (read-write user, read-only user; thorough: also the rw-split user); every history replayed on fresh real objects; distinct_nontrivial = distinct canonical states")
	r.Assume("the reload is performed by the real Manager.ReloadNamespacePrepare plus the index switch of ReloadNamespaceCommit, while the client is idle between two commands (a reload racing with a running command is not explored)")
	r.Assume("fake backend as in C18/C19; the only injected fault is a failing backend ping")
	r.Set("irreproducible_verdicts", len(flaky))
	if len(flaky) > 0 && r.Violations() == 0 {
		ev.Fatalf("%d histories gave a verdict that did not reproduce in 5 runs, e.g. %s", len(flaky), flaky[0])
	}
	for _, f := range []string{"reload_in_tx_disconnects", "reload_outside_tx_drops_pins", "two_pins_reused", "reload_during_command_drops_pins_at_once",
		"reload_during_command_in_tx", "reload_during_command_pins_survive_until_next_command"} {
		if facts[f] == 0 && !r.TimeUp() && r.Violations() == 0 {
			ev.Fatalf("vacuous run: fact %q never observed", f)
		}
	}
	r.Finish()
}
