// C27: fused replicas are not restored before their cool-down.
//
// Engine: xstate over the shared health-check rig (checks/c27/rig): real Slice, real
// checkBackendSlaveStatus / checkBackendMasterStatus loops on a virtual ticker, real
// GetSlaveConn -> TryFuse for connection errors. This file only holds C27's oracle:
//
//	safety    a replica that is down and was taken down by the breaker (the breaker fired
//	          since it was last up) comes up only in a replica probe round whose probe
//	          passed and whose recovery condition holds: hard = now >= latest fuse +
//	          cool-down; gradual = the pending number of consecutive successful probes is 0
//	liveness  in a replica probe round whose probe passed, with the master up, replication
//	          healthy and the recovery condition holding, such a replica is up afterwards
//	penalty   (gradual) the strategy's level / pending-count equal the documented growth
//	          (level 3 -> +1 per fuse within 2*PingPeriod of the last recovery, pending =
//	          min(level*(level+1)/2, 120), reset of the level by a later fuse, re-arming by
//	          a failed probe while down)
package main

import (
	"fmt"

	"verif/checks/c27/rig"
	"verif/engine/gx"
)

// oracle evaluates C27 for every replica of the group independently (its own latest fuse,
// its own penalty).
func oracle(c *rig.StepCtx) (string, map[string]string) {
	if c.Died != "" {
		return "the " + c.Died + " health-check loop returned by itself", map[string]string{"kind": "health_check_loop_died"}
	}
	for i := range c.X.Rep {
		if msg, f := oracleRep(c, i); msg != "" {
			f["idx"] = fmt.Sprint(i)
			if len(c.X.Rep) > 1 {
				msg = fmt.Sprintf("replica %d: %s", i, msg)
			}
			return msg, f
		}
	}
	return "", nil
}

func oracleRep(c *rig.StepCtx, i int) (string, map[string]string) {
	x := c.X.Rep[i]
	// status / fused-down flag at the moment of the decision (after a fuse that landed inside the round)
	before, after := x.WasUp, c.After.ReplicaUp[i]
	fusedDown := x.WasFusedDown
	cameUp := !before && after
	gate := "open"
	if !x.GateOpen {
		gate = "closed"
	}
	probe := "n/a"
	if c.X.Round == "R" {
		probe = "failed"
		if x.Pass {
			probe = "passed"
		}
	}
	feat := func(kind string) map[string]string {
		return map[string]string{"kind": kind, "gate": gate, "probe": probe}
	}
	if fusedDown && cameUp {
		switch {
		case c.X.Round != "R":
			return "fused replica marked up by an event that is not a replica probe round", feat("up_without_probe_round")
		case !x.GateOpen && c.Cfg.Policy == "hard":
			return "fused replica marked up before latest fuse + cool-down", feat("up_before_cooldown")
		case !x.GateOpen:
			return fmt.Sprintf("fused replica marked up while %d consecutive successful probes are still required", x.Need), feat("up_before_penalty_served")
		case !x.Pass:
			return "fused replica marked up in a round whose probe failed", feat("up_without_passed_probe")
		}
	}
	if fusedDown && !before && c.X.Round == "R" && x.Pass && !x.SyncBad && c.Before.MasterUp && !x.ElapsedOver && x.GateOpen && !after {
		return "fused replica still down although its recovery condition holds and the probe passed", feat("not_up_although_condition_holds")
	}
	if c.Cfg.Policy == "gradual" && (c.ImplN[i] != x.N || c.ImplNeed[i] != x.Need) {
		return fmt.Sprintf("gradual penalty: level/pending are %d/%d, documented growth gives %d/%d", c.ImplN[i], c.ImplNeed[i], x.N, x.Need), feat("penalty_counter_mismatch")
	}
	return "", nil
}

func main() {
	gx.Quiet()
	const start = 1700000000
	var cfgs []rig.Cfg
	for _, wm := range [][2]int64{{3, 1}, {3, 2}} {
		for _, cd := range []int64{5, 8} {
			for _, da := range []int{6, 12} {
				cfgs = append(cfgs, rig.Cfg{Policy: "hard", DownAfter: da, LagLimit: 10, W: wm[0], M: wm[1], Cooldown: cd, Start: start})
			}
		}
		for _, da := range []int{6, 12} {
			cfgs = append(cfgs, rig.Cfg{Policy: "gradual", DownAfter: da, LagLimit: 10, W: wm[0], M: wm[1], Start: start})
		}
	}
	// two replicas in one slave group (strategies installed by the real InitFuseRecoveryPolicy):
	// per-replica recovery state must stay independent
	cfgs = append(cfgs,
		rig.Cfg{Policy: "hard", DownAfter: 12, LagLimit: 0, W: 3, M: 1, Cooldown: 5, Start: start, Replicas: 2, Depth: 5},
		rig.Cfg{Policy: "gradual", DownAfter: 12, LagLimit: 0, W: 3, M: 1, Start: start, Replicas: 2, Depth: 5})
	rig.Main(&rig.Plan{ID: "C27", Level: "model_checking", Configs: cfgs, Depth: 6, FullDepth: 2, Oracle: oracle,
		Assume: []string{"'taken down by the circuit breaker' = the breaker fired since the replica was last up; 'latest fuse' = the latest time the breaker fired"}})
}
