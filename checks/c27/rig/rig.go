// Package rig is the shared harness of C27 and C28: a real backend.Slice with one master and
// one replica on scripted fake pools, the REAL loops checkBackendMasterStatus /
// checkBackendSlaveStatus run for exactly one tick of their (vclock) ticker per "probe
// round" event, client connection errors through the real Slice.GetSlaveConn (TryFuse),
// and a logical clock.
//
// How one probe round is run (no copy of the loop body, no real sleeps): the clock is set
// to T-PingPeriod, the real loop method is started in a goroutine with a context whose
// Done() reports every evaluation of the loop's select to the harness; when the loop is
// about to wait, the harness advances the clock by PingPeriod — the loop's own ticker fires
// exactly once, at logical time T — and waits until the loop is about to wait again (the
// round is finished); then the context is cancelled and the goroutine joined.
package rig

import (
	"context"
	"errors"
	"fmt"
	"strings"
	"time"

	"github.com/XiaoMi/Gaea/backend"
	"github.com/XiaoMi/Gaea/mysql"
	"github.com/XiaoMi/Gaea/verifshim/vclock"

	"verif/engine/ev"
	fakepool "verif/ref/fakepool_backend"
)

const PingPeriod = backend.PingPeriod

type Cfg struct {
	Policy    string `json:"policy"`     // none | hard | gradual
	DownAfter int    `json:"down_after"` // seconds without a passed probe before a node is marked down
	LagLimit  int    `json:"lag_limit"`  // seconds_behind_master limit (0 = not checked)
	W         int64  `json:"w"`          // fuse window
	M         int64  `json:"m"`          // fuse minimum error count
	Cooldown  int64  `json:"cooldown"`   // hard cool-down seconds
	Start     int64  `json:"start"`
	Replicas  int    `json:"replicas,omitempty"` // replicas in the slave group (0 or 1: one; 2: two, reduced alphabet)
	Depth     int    `json:"depth,omitempty"`    // BFS depth for this configuration (0: the plan's)
}

// NRep is the number of replicas of the configuration (1 or 2).
func (c Cfg) NRep() int {
	if c.Replicas >= 2 {
		return 2
	}
	return 1
}

// Event kinds: "R" replica probe round with outcome A (N>1: N rounds, PingPeriod apart),
// "M" master probe round with outcome A, "E" a client read selects the replica through the real
// GetSlaveConn (only possible while it is up) and hits a connection error, "L" a LATE connection
// error: a session that had selected the replica earlier only now gets its connection error —
// the real getConnWithFuse(node) is called for the replica whatever its status is by now,
// "T" the clock advances by D seconds.
//
// With two replicas: "R" carries one outcome per replica (A for replica 0, B for replica 1 —
// the real loop probes every node of the group in one tick), "E" and "L" address replica I.
type Event struct {
	K string `json:"k"`
	A string `json:"a,omitempty"`
	B string `json:"b,omitempty"`
	I int    `json:"i,omitempty"`
	D int64  `json:"d,omitempty"`
	N int    `json:"n,omitempty"`
	// F (replica rounds only): a connection error of a request thread lands INSIDE this round —
	// the real getConnWithFuse(replica I) is called from inside the scripted answer of replica
	// I's probe at hook F: "getcheck" (the check connection is being obtained), "hsql" (the
	// health SQL is being executed) or "sync" (`show slave status`, i.e. after the liveness
	// and master checks of the round, before its recovery decision).
	F string `json:"f,omitempty"`
}

var Hooks = []string{"getcheck", "hsql", "sync"}

// Out is the scripted probe outcome of replica i in a replica round.
func (e Event) Out(i int) string {
	if i == 1 {
		return e.B
	}
	return e.A
}

func (e Event) String() string {
	switch e.K {
	case "T":
		return fmt.Sprintf("T+%d", e.D)
	case "E", "L":
		return fmt.Sprintf("%s%d", e.K, e.I)
	}
	a := e.A
	if e.B != "" {
		a += "/" + e.B
	}
	if e.N > 1 {
		return fmt.Sprintf("%s:%sx%d", e.K, a, e.N)
	}
	if e.F != "" {
		return fmt.Sprintf("%s:%s+fuse%d@%s", e.K, a, e.I, e.F)
	}
	return e.K + ":" + a
}

// Replica probe outcomes (what the scripted MySQL answers).
var ReplicaOutcomes = []string{"ok", "conn_fail", "hsql_fatal", "ping_fail", "sel1_fail", "soft_ok",
	"lag_below", "lag_at", "lag_above", "io_stopped", "sql_stopped", "no_priv", "empty"}
var MasterOutcomes = []string{"ok", "conn_fail"}

// Passes: does Gaea's probe (connection + health SQL, or ping + select 1) succeed?
func Passes(o string) bool {
	switch o {
	case "conn_fail", "hsql_fatal", "ping_fail", "sel1_fail":
		return false
	}
	return true
}

// SyncBad: the replica answers, and its replication lags beyond the limit or a thread is stopped.
func SyncBad(o string) bool { return o == "lag_above" || o == "io_stopped" || o == "sql_stopped" }

const healthSQL = "select /*health*/ 1 from dual"

type World struct {
	Cfg     Cfg
	Slice   *backend.Slice
	Master  *backend.NodeInfo
	Reps    []*backend.NodeInfo
	mPool   *fakepool.Pool
	rPools  []*fakepool.Pool
	Now     int64
	mOut    string   // scripted outcome of the next master probe
	rOut    []string // scripted outcome of the next probe of replica i
	failGet int      // index of the replica whose pool Get fails with a connection error (-1: none)
	// fuse inside the current replica round: hook name, replica, and whether the hook was reached
	fuseHook  string
	fuseIdx   int
	HookFired bool
	Died    string   // set when a health-check loop returned by itself
}

// hook is called from inside the scripted probe answers of replica idx: when the current round
// carries a fuse for this replica at this position, a request thread's connection error is
// delivered right here (real getConnWithFuse -> TryFuse), once.
func (w *World) hook(idx int, name string) {
	if idx < 0 || w.fuseHook != name || w.fuseIdx != idx || w.HookFired {
		return
	}
	w.HookFired = true
	w.failGet = idx
	_, _ = backend.VerifGetConnWithFuse(w.Slice, w.Reps[idx])
	w.failGet = -1
}

func (w *World) script(out *string, idx int) func(p *fakepool.Pool) (backend.PooledConnect, error) {
	return func(p *fakepool.Pool) (backend.PooledConnect, error) {
		o := *out
		w.hook(idx, "getcheck")
		if o == "conn_fail" {
			return nil, errors.New("dial tcp: connection refused")
		}
		c := p.NewConn()
		c.PingFn = func(*fakepool.Conn) error {
			if o == "ping_fail" {
				return errors.New("ping: broken pipe")
			}
			return nil
		}
		c.ExecFn = func(_ *fakepool.Conn, sql string) (*mysql.Result, error) {
			switch {
			case sql == healthSQL:
				w.hook(idx, "hsql")
				switch o {
				case "hsql_fatal":
					return nil, mysql.NewError(mysql.ErrServerShutdown, "Server shutdown in progress")
				case "ping_fail", "sel1_fail", "soft_ok":
					return nil, mysql.NewError(mysql.ErrUnknown, "health table missing")
				}
				return fakepool.EmptyResult(), nil
			case sql == "select 1":
				if o == "sel1_fail" {
					return nil, errors.New("select 1: timeout")
				}
				return fakepool.EmptyResult(), nil
			case strings.HasPrefix(sql, "show slave status"):
				w.hook(idx, "sync")
				lim := uint64(w.Cfg.LagLimit)
				switch o {
				case "lag_below":
					return fakepool.SlaveStatusResult(lim-1, "Yes", "Yes"), nil
				case "lag_at":
					return fakepool.SlaveStatusResult(lim, "Yes", "Yes"), nil
				case "lag_above":
					return fakepool.SlaveStatusResult(lim+1, "Yes", "Yes"), nil
				case "io_stopped":
					return fakepool.SlaveStatusResult(0, "No", "Yes"), nil
				case "sql_stopped":
					return fakepool.SlaveStatusResult(0, "Yes", "No"), nil
				case "no_priv":
					return nil, mysql.NewError(mysql.ErrSpecificAccessDenied, "Access denied; you need the SUPER,REPLICATION CLIENT privilege")
				case "empty":
					return fakepool.EmptyResult(), nil
				}
				return fakepool.SlaveStatusResult(0, "Yes", "Yes"), nil
			}
			return fakepool.EmptyResult(), nil
		}
		return c, nil
	}
}

// New builds a fresh world; vclock is enabled (process-global: one world at a time).
func New(c Cfg) *World {
	vclock.Enable(time.Unix(c.Start, 0))
	w := &World{Cfg: c, Now: c.Start, mOut: "ok", failGet: -1}
	clock := func() int64 { return vclock.Now().Unix() }
	w.mPool = fakepool.New("10.0.0.1:3306", "dc")
	w.mPool.Clock = clock
	w.mPool.ForceLastChecked(c.Start) // connectionPoolImpl starts with lastChecked = creation time
	w.mPool.GetCheckFn = w.script(&w.mOut, -1)
	w.Master = &backend.NodeInfo{Address: w.mPool.AddrS, Datacenter: "dc", Weight: 1, ConnPool: w.mPool, Status: backend.StatusUp}
	w.rOut = make([]string, c.NRep())
	slave := &backend.DBInfo{}
	for i := 0; i < c.NRep(); i++ {
		i := i
		w.rOut[i] = "ok"
		p := fakepool.New(fmt.Sprintf("10.0.0.%d:3306", 2+i), "dc")
		p.Clock = clock
		p.ForceLastChecked(c.Start)
		p.GetCheckFn = w.script(&w.rOut[i], i)
		p.GetFn = func(p *fakepool.Pool) (backend.PooledConnect, error) {
			if w.failGet == i {
				return nil, mysql.NewConnTypeError(p.AddrS, "failed to dial")
			}
			return p.NewConn(), nil
		}
		w.rPools = append(w.rPools, p)
		n := &backend.NodeInfo{Address: p.AddrS, Datacenter: "dc", Weight: 1, ConnPool: p, Status: backend.StatusUp}
		w.Reps = append(w.Reps, n)
		slave.Nodes = append(slave.Nodes, n)
	}
	s := &backend.Slice{Namespace: "ns", ProxyDatacenter: "dc", HealthCheckSql: healthSQL,
		FuseEnabled: "on", FuseWindowSize: c.W, FuseMinErrorCount: c.M}
	s.Master = &backend.DBInfo{Nodes: []*backend.NodeInfo{w.Master}}
	s.Slave = slave
	s.StatisticSlave = &backend.DBInfo{Nodes: []*backend.NodeInfo{}}
	for _, d := range []*backend.DBInfo{s.Master, s.Slave} {
		if err := d.InitBalancers("dc"); err != nil {
			ev.Fatalf("InitBalancers: %v", err)
		}
	}
	switch c.Policy {
	case "none":
		s.FuseEnabled = "off" // strategies are not installed (what parseSlices does)
	case "hard":
		s.FuseCooldownPeriod = c.Cooldown
	case "gradual":
		s.FuseCooldownPeriod = 0
	default:
		ev.Fatalf("unknown policy %q", c.Policy)
	}
	if c.Policy != "none" {
		// the real initialisation path of parseSlices: every node of the group gets its
		// strategies from Slice.InitFuseRecoveryPolicy -> DBInfo.InitFuseRecoveryPolicy
		if err := s.InitFuseRecoveryPolicy(s.Slave); err != nil {
			ev.Fatalf("InitFuseRecoveryPolicy: %v", err)
		}
	}
	w.Slice = s
	return w
}

func (w *World) Close() { vclock.Disable() }

// loopCtx reports every evaluation of `case <-ctx.Done()` (once per loop iteration, right
// before the loop waits) to the harness.
type loopCtx struct {
	context.Context
	done chan struct{}
	idle chan struct{}
}

func (c *loopCtx) Done() <-chan struct{} {
	c.idle <- struct{}{}
	return c.done
}
func (c *loopCtx) Err() error {
	select {
	case <-c.done:
		return context.Canceled
	default:
		return nil
	}
}

const watchdog = 30 * time.Second // engine safety net only (exit 2), never an oracle

// runLoopOnce runs one tick of a real health-check loop at the current logical time.
// It returns false when the loop function returned by itself (it refused to run, or its
// body panicked and the loop's own recover ended it).
func (w *World) runLoopOnce(name string, loop func(ctx context.Context)) bool {
	vclock.Set(time.Unix(w.Now-PingPeriod, 0))
	ctx := &loopCtx{Context: context.Background(), done: make(chan struct{}), idle: make(chan struct{}, 16)}
	exited := make(chan struct{})
	go func() {
		defer close(exited)
		loop(ctx)
	}()
	dog := time.NewTimer(watchdog)
	defer dog.Stop()
	wait := func(what string) bool {
		select {
		case <-ctx.idle:
			return true
		case <-exited:
			return false
		case <-dog.C:
			ev.Fatalf("%s loop: no progress while waiting for %s (harness/engine problem)", name, what)
		}
		return false
	}
	if !wait("the first select") {
		vclock.Set(time.Unix(w.Now, 0))
		return false
	}
	vclock.Advance(time.Duration(PingPeriod) * time.Second) // the loop's ticker fires once, now == w.Now
	ok := wait("the end of the round")
	if ok {
		close(ctx.done)
		select {
		case <-exited:
		case <-dog.C:
			ev.Fatalf("%s loop did not stop after its context was cancelled", name)
		}
	}
	vclock.Set(time.Unix(w.Now, 0))
	return ok
}

// Status: ReplicaUp[1] is true (and meaningless) in one-replica configurations.
type Status struct {
	MasterUp  bool
	ReplicaUp [2]bool
}

func (w *World) Status() Status {
	st := Status{MasterUp: w.Master.IsStatusUp(), ReplicaUp: [2]bool{true, true}}
	for i, n := range w.Reps {
		st.ReplicaUp[i] = n.IsStatusUp()
	}
	return st
}

// Apply executes one primitive event (N is expanded by the caller) on the real objects.
func (w *World) Apply(e Event) {
	switch e.K {
	case "T":
		w.Now += e.D
		vclock.Set(time.Unix(w.Now, 0))
	case "E":
		// a fresh selection through the real GetSlaveConn that ends on replica I, whose pool
		// answers with a connection error. With two replicas the round robin may hand out the
		// other (healthy) replica first: select again until replica I's pool was asked (never,
		// if it is down — GetSlaveConn skips down nodes).
		w.failGet = e.I
		for try := 0; try < 2*len(w.Reps); try++ {
			before := w.rPools[e.I].Gets
			_, _ = w.Slice.GetSlaveConn(w.Slice.Slave, backend.LocalSlaveReadClosed)
			if w.rPools[e.I].Gets > before {
				break
			}
		}
		w.failGet = -1
	case "L":
		w.failGet = e.I
		_, _ = backend.VerifGetConnWithFuse(w.Slice, w.Reps[e.I])
		w.failGet = -1
	case "M":
		w.mOut = e.A
		if !w.runLoopOnce("master", func(ctx context.Context) {
			backend.VerifRunMasterLoop(w.Slice, ctx, w.Cfg.DownAfter)
		}) {
			w.Died = "master"
		}
	case "R":
		for i := range w.rOut {
			w.rOut[i] = e.Out(i)
		}
		w.fuseHook, w.fuseIdx, w.HookFired = e.F, e.I, false
		if !w.runLoopOnce("replica", func(ctx context.Context) {
			backend.VerifRunSlaveLoop(w.Slice, ctx, w.Slice.Slave, w.Cfg.DownAfter, w.Cfg.LagLimit)
		}) {
			w.Died = "replica"
		}
		w.fuseHook = ""
	default:
		ev.Fatalf("unknown event %+v", e)
	}
}

func clamp(v, hi int64) int64 {
	if v > hi {
		return hi
	}
	return v
}

// Key renders the implementation state the future can depend on.
//
// Merging argument: a round's decisions read (a) node statuses, (b) now - lastChecked of the
// probed pool, only through `>= downAfter` (a pass resets it to 0, otherwise it only grows):
// clamped at downAfter; (c) hard policy: now >= lastFuseTime + coolingPeriod: now-lastFuse
// clamped at coolingPeriod; (d) gradual policy: errorRecoveryCount, consecutiveSuccessCheckCount
// and fuseTime - lastRecoveryTime <= 2*PingPeriod: now-lastRecovery clamped at 2*PingPeriod+1
// (lastFuseTime of the gradual strategy is written but never read); (e) the sliding window:
// rendered completely, relative to now - now%W (see C26 for the symmetry argument), where a
// window whose newest bucket is older than W seconds behaves like an empty one only after the
// next Trigger — so it is rendered as is. Fake pools carry no state besides lastChecked.
// With two replicas (b)-(e) are rendered per replica (from each node's own strategy objects,
// whatever objects those are). The balancer's round-robin counter is not part of the key:
// event E selects again until the addressed replica was picked, so its effect does not depend
// on the counter.
func (w *World) Key() string {
	var sb strings.Builder
	st := w.Status()
	da := int64(w.Cfg.DownAfter)
	fmt.Fprintf(&sb, "m%v/%d", st.MasterUp, clamp(w.Now-w.mPool.GetLastChecked(), da))
	for i, node := range w.Reps {
		fmt.Fprintf(&sb, " r%d:%v/%d", i, st.ReplicaUp[i], clamp(w.Now-w.rPools[i].GetLastChecked(), da))
		switch rs := node.RecoveryStrategy.(type) {
		case *backend.HardCoolDownStrategy:
			cp, lf := backend.VerifHardState(rs)
			fmt.Fprintf(&sb, " h%d", clamp(w.Now-lf, cp))
		case *backend.GradualRecoveryStrategy:
			n, c, lr, _ := backend.VerifGradualState(rs)
			fmt.Fprintf(&sb, " g%d/%d/%d", n, c, clamp(w.Now-lr, 2*PingPeriod+1))
		}
		sw, ok := node.FuseStrategy.(*backend.SlidingWindow)
		if !ok || sw == nil {
			continue
		}
		en, startSec, all, buckets := backend.VerifWindowState(sw)
		if !en {
			continue
		}
		base := w.Now - w.Now%w.Cfg.W
		newest := int64(-1 << 62)
		for _, b := range buckets {
			if !b.Nil && b.StartTime > newest {
				newest = b.StartTime
			}
		}
		if all == 0 || w.Now-newest >= w.Cfg.W {
			// nothing recorded, or the newest bucket (= time of the last Trigger, whose
			// startSec is that time-W+1) is at least W old: the next Trigger computes
			// delta >= W in slide and resets the window completely, whatever it holds
			sb.WriteString(" w:empty")
		} else {
			fmt.Fprintf(&sb, " w:n%d s%d a%d", w.Now-base, startSec-base, all)
			for _, b := range buckets {
				if b.Nil {
					sb.WriteString("[-]")
				} else {
					fmt.Fprintf(&sb, "[%d:%d]", b.StartTime-base, b.ErrorCount)
				}
			}
		}
	}
	if w.Died != "" {
		sb.WriteString(" died:" + w.Died)
	}
	return sb.String()
}
