package rig

import (
	"encoding/json"
	"fmt"
	"os"
	"os/exec"
	"runtime"
	"sort"
	"strconv"
	"sync"
	"time"

	"github.com/XiaoMi/Gaea/backend"

	"verif/engine/ev"
	"verif/engine/xstate"
)

// StepCtx is everything an oracle may look at for one primitive event.
type StepCtx struct {
	Cfg             Cfg
	Event           Event
	Before, After   Status
	FusedDownBefore []bool // reference, per replica: it was down and its breaker had fired since it was last up
	X               Expect
	ImplN, ImplNeed []int64 // per replica: gradual strategy counters of the implementation after the event (-1: n/a)
	Died            string
}

// Oracle returns "" or a violation message plus witness features.
type Oracle func(c *StepCtx) (string, map[string]string)

type Case struct {
	Cfg  Cfg     `json:"cfg"`
	Hist []Event `json:"hist"`
}

type stepLog struct {
	Event string `json:"event"`
	T     int64  `json:"t"`
	After Status `json:"after"`
	Rule  string `json:"rule"`
}

type result struct {
	xr      xstate.Result
	log     []stepLog
	nontriv bool
}

// expand turns macro events (N rounds) into primitive ones.
func expand(e Event) []Event {
	if e.N <= 1 {
		return []Event{e}
	}
	var out []Event
	for i := 0; i < e.N; i++ {
		if i > 0 {
			out = append(out, Event{K: "T", D: PingPeriod})
		}
		out = append(out, Event{K: e.K, A: e.A, B: e.B})
	}
	return out
}

func b2s(b bool) string {
	if b {
		return "up"
	}
	return "down"
}

// Replay runs a history on a fresh world + fresh reference and evaluates the oracle after
// every primitive event.
func Replay(c Cfg, hist []Event, oracle Oracle) result {
	w := New(c)
	defer w.Close()
	ref := NewRef(c)
	var res result
	for i, me := range hist {
		for _, e := range expand(me) {
			sc := &StepCtx{Cfg: c, Event: e, Before: w.Status()}
			for _, p := range ref.Rep {
				sc.FusedDownBefore = append(sc.FusedDownBefore, p.FusedDown)
			}
			w.Apply(e)
			sc.X = ref.Step(e, w.HookFired)
			if w.Now != ref.Now {
				ev.Fatalf("harness clock %d and reference clock %d disagree", w.Now, ref.Now)
			}
			sc.After = w.Status()
			sc.Died = w.Died
			for _, node := range w.Reps {
				n, need := int64(-1), int64(-1)
				if g, ok := node.RecoveryStrategy.(*backend.GradualRecoveryStrategy); ok {
					n, need, _, _ = backend.VerifGradualState(g)
				}
				sc.ImplN, sc.ImplNeed = append(sc.ImplN, n), append(sc.ImplNeed, need)
			}
			rule := sc.X.Rep[0].Rule
			if len(sc.X.Rep) > 1 {
				rule += " | " + sc.X.Rep[1].Rule
			}
			if e.K == "E" || e.K == "L" {
				rule = sc.X.Rep[e.I].Rule
			}
			if e.K == "M" {
				rule = sc.X.MasterRule
			}
			res.log = append(res.log, stepLog{Event: e.String(), T: w.Now, After: sc.After, Rule: rule})
			if msg, feat := oracle(sc); msg != "" {
				if feat == nil {
					feat = map[string]string{}
				}
				feat["policy"] = c.Policy
				feat["master"] = b2s(sc.Before.MasterUp)
				feat["event"] = e.K
				feat["replicas"] = fmt.Sprint(c.NRep())
				res.xr.Violation = fmt.Sprintf("step %d (%s at t=+%d): %s", i, e.String(), w.Now-c.Start, msg)
				res.xr.Features = feat
				return res
			}
			ref.Commit(sc.After)
			if i == len(hist)-1 {
				res.xr.Outcome = fmt.Sprintf("%s m:%s>%s r0:%s>%s r1:%s>%s %s", e.K, b2s(sc.Before.MasterUp), b2s(sc.After.MasterUp), b2s(sc.Before.ReplicaUp[0]), b2s(sc.After.ReplicaUp[0]), b2s(sc.Before.ReplicaUp[1]), b2s(sc.After.ReplicaUp[1]), rule)
			}
		}
	}
	res.xr.Key = w.Key() + " | " + ref.Key()
	st := w.Status()
	res.nontriv = !st.MasterUp || !st.ReplicaUp[0] || !st.ReplicaUp[1] || ref.AnyFusedOrPending()
	return res
}

// Alphabet lists the events enabled after a history of the given length.
func Alphabet(c Cfg, depth int, fullOutcomeDepth int, macro bool) []Event {
	var es []Event
	if c.NRep() == 2 {
		// two replicas in one group: reduced outcome alphabet, every event addresses a replica
		for _, a := range []string{"ok", "conn_fail"} {
			for _, b := range []string{"ok", "conn_fail"} {
				es = append(es, Event{K: "R", A: a, B: b})
			}
		}
		if macro && c.Policy == "gradual" {
			es = append(es, Event{K: "R", A: "ok", B: "ok", N: 6})
		}
		for _, o := range MasterOutcomes {
			es = append(es, Event{K: "M", A: o})
		}
		if c.Policy != "none" {
			for i := 0; i < 2; i++ {
				es = append(es, Event{K: "E", I: i}, Event{K: "L", I: i})
				// a healthy round with a connection error landing inside replica i's probe
				es = append(es, Event{K: "R", A: "ok", B: "ok", I: i, F: "getcheck"})
			}
		}
		ds := []int64{1, PingPeriod, 2*PingPeriod + 1}
		if c.Policy == "hard" {
			ds = []int64{1, PingPeriod, c.Cooldown}
		}
		seen := map[int64]bool{}
		for _, d := range ds {
			if d > 0 && !seen[d] {
				seen[d] = true
				es = append(es, Event{K: "T", D: d})
			}
		}
		return es
	}
	outs := ReplicaOutcomes
	if depth >= fullOutcomeDepth {
		outs = []string{"ok", "conn_fail", "lag_above", "lag_at", "sel1_fail"}
	}
	for _, o := range outs {
		es = append(es, Event{K: "R", A: o})
	}
	if macro && c.Policy == "gradual" {
		es = append(es, Event{K: "R", A: "ok", N: 6})
	}
	for _, o := range MasterOutcomes {
		es = append(es, Event{K: "M", A: o})
	}
	if c.Policy != "none" {
		es = append(es, Event{K: "E"}, Event{K: "L"})
		// replica rounds with a request thread's connection error landing inside the round,
		// at each probe position
		es = append(es,
			Event{K: "R", A: "ok", F: "getcheck"}, Event{K: "R", A: "conn_fail", F: "getcheck"},
			Event{K: "R", A: "ok", F: "hsql"},
			Event{K: "R", A: "ok", F: "sync"}, Event{K: "R", A: "lag_above", F: "sync"})
	}
	seen := map[int64]bool{}
	ds := []int64{1, PingPeriod, 2*PingPeriod + 1, int64(c.DownAfter) - 1, int64(c.DownAfter)}
	if c.Policy == "hard" {
		ds = append(ds, c.Cooldown-1, c.Cooldown)
	}
	for _, d := range ds {
		if d > 0 && !seen[d] {
			seen[d] = true
			es = append(es, Event{K: "T", D: d})
		}
	}
	return es
}

type Plan struct {
	ID        string
	Level     string
	Configs   []Cfg
	Depth     int // BFS depth (events)
	FullDepth int // all 13 replica outcomes are enabled below this depth, 5 representatives from there on
	Oracle    Oracle
	Assume    []string
	thorough  bool
}

type childOut struct {
	Cfg         Cfg           `json:"cfg"`
	States      int64         `json:"states"`
	Transitions int64         `json:"transitions"`
	MaxDepth    int           `json:"max_depth"`
	PerDepth    []int64       `json:"per_depth"`
	Capped      bool          `json:"capped"`
	Nontrivial  []string      `json:"nontrivial"`
	Outcomes    []string      `json:"outcomes"`
	Samples     []interface{} `json:"samples"`
	Viol        []childViol   `json:"viol"`
	Error       string        `json:"error"`
}

type childViol struct {
	Summary  string            `json:"summary"`
	Features map[string]string `json:"features"`
	Case     Case              `json:"case"`
	Count    int64             `json:"count"`
}

func sigOf(f map[string]string) string {
	ks := make([]string, 0, len(f))
	for k := range f {
		ks = append(ks, k)
	}
	sort.Strings(ks)
	s := ""
	for _, k := range ks {
		s += k + "=" + f[k] + ";"
	}
	return s
}

func exploreOne(p *Plan, c Cfg, deadline time.Time) *childOut {
	out := &childOut{Cfg: c}
	nontriv := map[string]bool{}
	outcomes := map[string]bool{}
	viol := map[string]*childViol{}
	sampleKinds := map[string]bool{}
	depth := p.Depth
	if c.Depth > 0 {
		depth = c.Depth
		if p.thorough {
			depth += 2
		}
	}
	spec := xstate.Spec[Event]{
		MaxDepth: depth, Workers: 1,
		Stop:    func() bool { return time.Now().After(deadline) },
		Enabled: func(h []Event) []Event { return Alphabet(c, len(h), p.FullDepth, true) },
		Replay: func(h []Event) xstate.Result {
			res := Replay(c, h, p.Oracle)
			if res.xr.Violation == "" && len(h) > 0 {
				if res.nontriv {
					nontriv[res.xr.Key] = true
				}
				// sample: histories whose last event changed a status
				last := res.log[len(res.log)-1]
				prev := Status{MasterUp: true, ReplicaUp: [2]bool{true, true}}
				if len(res.log) > 1 {
					prev = res.log[len(res.log)-2].After
				}
				if last.After != prev && len(h) >= 3 && !sampleKinds[last.Rule] && len(out.Samples) < 3 {
					sampleKinds[last.Rule] = true
					out.Samples = append(out.Samples, map[string]interface{}{"cfg": c, "steps": res.log})
				}
			}
			return res.xr
		},
		OnOutcome: func(o string) {
			if o != "" {
				outcomes[o] = true
			}
		},
		OnViolation: func(h []Event, r xstate.Result) {
			sig := sigOf(r.Features)
			v := viol[sig]
			if v == nil {
				for i := 0; i < 5; i++ { // re-run before believing it
					if r2 := Replay(c, h, p.Oracle); r2.xr.Violation != r.Violation {
						out.Error = fmt.Sprintf("violation did not reproduce: cfg=%+v hist=%v", c, h)
						return
					}
				}
				v = &childViol{Summary: fmt.Sprintf("cfg=%+v hist=%v: %s", c, h, r.Violation), Features: r.Features, Case: Case{Cfg: c, Hist: append([]Event{}, h...)}}
				viol[sig] = v
			}
			v.Count++
		},
	}
	st := xstate.BFS(spec)
	out.States, out.Transitions, out.MaxDepth, out.PerDepth, out.Capped = st.States, st.Transitions, st.MaxDepth, st.PerDepth, st.Capped
	for k := range nontriv {
		out.Nontrivial = append(out.Nontrivial, k)
	}
	for k := range outcomes {
		out.Outcomes = append(out.Outcomes, k)
	}
	for _, v := range viol {
		out.Viol = append(out.Viol, *v)
	}
	sort.Slice(out.Viol, func(i, j int) bool { return out.Viol[i].Summary < out.Viol[j].Summary })
	return out
}

// Main is the whole life of C27 / C28: replay mode, child mode (one configuration per
// process, because vclock is process-global), parent mode (spawn, merge, evidence).
func Main(p *Plan) {
	r := ev.Start(p.ID, p.Level)
	p.Depth, p.thorough = pick(r, p.Depth), r.Thorough()
	var rc Case
	if r.ReplayCase(&rc) {
		res := Replay(rc.Cfg, rc.Hist, p.Oracle)
		fmt.Printf("replay cfg=%+v\n", rc.Cfg)
		for _, l := range res.log {
			fmt.Printf("  t=+%-4d %-22s master=%-4s replica0=%-4s replica1=%-4s  %s\n", l.T-rc.Cfg.Start, l.Event, b2s(l.After.MasterUp), b2s(l.After.ReplicaUp[0]), b2s(l.After.ReplicaUp[1]), l.Rule)
		}
		fmt.Printf("violation=%q features=%v\n", res.xr.Violation, res.xr.Features)
		if res.xr.Violation != "" {
			r.Violation(ev.Witness{Summary: res.xr.Violation, Features: res.xr.Features, Case: rc})
		}
		r.Finish()
	}
	if ch := os.Getenv("RIG_CHILD"); ch != "" {
		i, _ := strconv.Atoi(ch)
		dl, _ := strconv.ParseInt(os.Getenv("RIG_DEADLINE"), 10, 64)
		o := exploreOne(p, p.Configs[i], time.Unix(0, dl))
		b, _ := json.Marshal(o)
		if err := os.WriteFile(os.Getenv("RIG_OUT"), b, 0o644); err != nil {
			ev.Fatalf("%v", err)
		}
		os.Exit(0)
	}
	budget := 40 * time.Second
	if r.Thorough() {
		budget = 12 * time.Minute
	}
	deadline := time.Now().Add(budget)
	self := os.Getenv("VERIF_CHECK_BIN")
	if self == "" {
		self, _ = os.Executable()
	}
	tmp, err := os.MkdirTemp(os.Getenv("VERIF_BUILD_DIR"), "rig")
	if err != nil {
		ev.Fatalf("%v", err)
	}
	defer os.RemoveAll(tmp)
	outs := make([]*childOut, len(p.Configs))
	sem := make(chan struct{}, runtime.NumCPU())
	var wg sync.WaitGroup
	for i := range p.Configs {
		wg.Add(1)
		go func(i int) {
			defer wg.Done()
			sem <- struct{}{}
			defer func() { <-sem }()
			of := fmt.Sprintf("%s/%d.json", tmp, i)
			cmd := exec.Command(self, r.Tier)
			cmd.Env = append(os.Environ(), "RIG_CHILD="+strconv.Itoa(i), "RIG_OUT="+of, "RIG_DEADLINE="+strconv.FormatInt(deadline.UnixNano(), 10), "GOMAXPROCS=4")
			cmd.Stderr = os.Stderr
			runErr := cmd.Run()
			o := &childOut{}
			b, rerr := os.ReadFile(of)
			if rerr != nil || json.Unmarshal(b, o) != nil {
				o.Error = fmt.Sprintf("worker for config %d failed: %v", i, runErr)
			}
			outs[i] = o
		}(i)
	}
	wg.Wait()
	var states, transitions int64
	maxDepth := 0
	var per []map[string]interface{}
	for _, o := range outs {
		if o.Error != "" {
			ev.Fatalf("%s", o.Error)
		}
		states += o.States
		transitions += o.Transitions
		if o.MaxDepth > maxDepth {
			maxDepth = o.MaxDepth
		}
		ck := fmt.Sprintf("%+v|", o.Cfg)
		for _, k := range o.Nontrivial {
			r.Distinct("nontrivial", ck+k)
		}
		for _, k := range o.Outcomes {
			r.Distinct("outcomes", o.Cfg.Policy+"|"+k)
		}
		for _, s := range o.Samples {
			r.Sample(s)
		}
		for _, v := range o.Viol {
			for c := int64(0); c < v.Count; c++ {
				r.Violation(ev.Witness{Summary: v.Summary, Features: v.Features, Case: v.Case})
			}
		}
		per = append(per, map[string]interface{}{"cfg": o.Cfg, "states": o.States, "transitions": o.Transitions, "depth_reached": o.MaxDepth, "frontier_per_depth": o.PerDepth, "complete": !o.Capped})
		if o.Capped {
			r.Capped(fmt.Sprintf("config %+v: time budget used up at depth %d of %d (all shallower depths complete)", o.Cfg, o.MaxDepth, p.Depth))
		}
	}
	r.Set("states", states)
	r.Set("transitions", transitions)
	r.Set("traces_validated_against_impl", transitions)
	r.Set("max_depth", maxDepth)
	r.Set("depth_bound", p.Depth)
	r.Set("configs", per)
	r.Set("explanation", fmt.Sprintf("BFS over event histories (replica probe round with 13 scripted outcomes below depth %d and 5 representative ones from there on, 6 healthy rounds in a row for the gradual policy, master probe round ok/fail, client connection error through GetSlaveConn, late connection error through getConnWithFuse on the replica whatever its status — between rounds and INSIDE a replica round at the probe positions getcheck / health SQL / show slave status —, clock advances) to depth %d per configuration (two-replica configurations: their own reduced alphabet — probe ok / connection failure per replica, fuse through selection or late error on either replica, 3 clock advances — and the depth given in the configuration); every history is replayed on a fresh real Slice whose real health-check loop runs one tick of its ticker per round; states = distinct canonical (implementation state | reference state) keys; transitions = histories replayed = traces validated; distinct_nontrivial = distinct reached states in which a node is down, the breaker has fired or a recovery penalty is pending; distinct_outcomes = distinct (event kind, status change, deciding rule) observations", p.FullDepth, p.Depth))
	for _, a := range p.Assume {
		r.Assume(a)
	}
	r.Assume("each probe round starts the real loop method, lets its own ticker (time.NewTicker rewritten to vclock) fire exactly once at the round's logical time and cancels it afterwards; the loop keeps no state across iterations, so one long-lived loop would behave the same")
	r.Assume("rounds may happen at any logical time (a superset of the 4-second grid: a stalled loop); master and replica rounds never overlap (the real loops are not synchronised with each other; their interleaving inside one round is not explored)")
	r.Assume("fake pools: probe answers are scripted per round; SetLastChecked reads the logical clock")
	r.Finish()
}

func pick(r *ev.Run, quickDepth int) int {
	if r.Thorough() {
		return quickDepth + 3
	}
	return quickDepth
}
