package rig

import (
	"fmt"
	"strings"
)

// Ref is the reference model: plain bookkeeping of what the property statements talk
// about (time of the last passed probe per node, recorded connection errors, time of the
// latest fuse, the gradual policy's penalty counters). It never looks at Gaea's state except
// for the node statuses it is told about through Commit.
type Ref struct {
	Cfg Cfg
	Now int64

	MasterUp, ReplicaUp bool
	MLastPass           int64
	RLastPass           int64

	Errs      []int64 // recorded connection errors (timestamps)
	Fused     bool    // the breaker has fired at least once
	LastFuse  int64
	FusedDown bool // the replica is down and the breaker fired since it was last up

	// gradual policy (backend/node_fuse.go, documented there): level N starts at 3; a fuse
	// within 2*PingPeriod of the last recovery raises N and sets the number of consecutive
	// successful probes to skip to min(N(N+1)/2, 120); a later fuse resets N to 3; a failed
	// probe while the replica is down re-arms the skip count for the current level.
	N            int64
	Need         int64
	LastRecovery int64
}

func NewRef(c Cfg) *Ref {
	return &Ref{Cfg: c, Now: c.Start, MasterUp: true, ReplicaUp: true, MLastPass: c.Start, RLastPass: c.Start, N: 3, LastRecovery: c.Start}
}

func penalty(n int64) int64 {
	p := n * (n + 1) / 2
	if p > 120 {
		p = 120
	}
	return p
}

// Expect is what the statements allow after one event.
type Expect struct {
	// allowed status values after the event
	MasterMayUp, MasterMayDown   bool
	ReplicaMayUp, ReplicaMayDown bool
	// why (used in messages and witness features)
	MasterRule, ReplicaRule string
	// facts about the event
	Round      string // "", "M", "R"
	Pass       bool   // the probed node passed its probe in this round
	SyncBad    bool
	GateOpen   bool // recovery policy allows Down->Up now (meaningful for replica rounds)
	Fire       bool // the breaker must fire on this client error
	ElapsedOver bool
	// gradual counters expected after the event (checked against the real strategy)
	N, Need int64
}

func same(up bool) (mayUp, mayDown bool) { return up, !up }

func (r *Ref) gateOpen() bool {
	switch r.Cfg.Policy {
	case "hard":
		return !r.Fused || r.Now >= r.LastFuse+r.Cfg.Cooldown
	case "gradual":
		return r.Need == 0
	}
	return true
}

// Step advances the reference over a primitive event and returns the expectation. The
// caller then reports the statuses the implementation really has through Commit.
func (r *Ref) Step(e Event) Expect {
	x := Expect{}
	x.MasterMayUp, x.MasterMayDown = same(r.MasterUp)
	x.ReplicaMayUp, x.ReplicaMayDown = same(r.ReplicaUp)
	x.MasterRule, x.ReplicaRule = "unchanged:no_probe_of_this_node", "unchanged:no_probe_of_this_node"
	da := int64(r.Cfg.DownAfter)
	switch e.K {
	case "T":
		r.Now += e.D
	case "E", "L":
		// E: a client read picked the replica through GetSlaveConn (only possible while it is
		// up) and its pool answered with a connection error. L: a session that picked the
		// replica earlier gets its connection error now, whatever the replica's status is.
		// Both record a connection error; the breaker fires when the window reaches M.
		if (e.K == "L" || r.ReplicaUp) && r.Cfg.Policy != "none" {
			r.Errs = append(r.Errs, r.Now)
			in := int64(0)
			for _, t := range r.Errs {
				if t > r.Now-r.Cfg.W && t <= r.Now {
					in++
				}
			}
			if r.Cfg.W > 0 && r.Cfg.M > 0 && in >= r.Cfg.M {
				x.Fire = true
				wasUp := r.ReplicaUp
				// a fuse marks the replica down; on a replica that is already down it changes no status
				x.ReplicaMayUp, x.ReplicaMayDown = false, true
				x.ReplicaRule = "down:breaker_fired"
				if !wasUp {
					x.ReplicaRule = "unchanged:breaker_fired_on_down_replica"
				}
				r.FusedDown = true
				switch r.Cfg.Policy {
				case "hard":
					// "the configured cool-down since its LATEST fuse": every fuse counts,
					// also one that hits a replica that is already down
					r.Fused, r.LastFuse = true, r.Now
				case "gradual":
					// node_fuse.go documents UpdateFuseTime / the bad-recovery bookkeeping as
					// "called when the node goes StatusUp -> StatusDown": a fuse on a replica that
					// is already down is not a new failure after a recovery and changes nothing
					r.Fused = true
					if wasUp {
						r.LastFuse = r.Now
						if r.Now-r.LastRecovery <= 2*PingPeriod {
							r.N++
							r.Need = penalty(r.N)
						} else {
							r.N = 3
						}
					}
				}
			}
		}
	case "M":
		x.Round = "M"
		x.Pass = Passes(e.A)
		if x.Pass {
			r.MLastPass = r.Now
		}
		switch {
		case r.Now-r.MLastPass >= da:
			x.ElapsedOver = true
			x.MasterMayUp, x.MasterMayDown = false, true
			x.MasterRule = "down:no_passed_probe_for_down_after"
		case x.Pass:
			x.MasterMayUp, x.MasterMayDown = true, false
			x.MasterRule = "up:probe_passed"
		default:
			x.MasterRule = "unchanged:probe_failed_within_down_after"
		}
	case "R":
		x.Round = "R"
		x.Pass = Passes(e.A)
		x.SyncBad = r.Cfg.LagLimit != 0 && SyncBad(e.A)
		if x.Pass {
			r.RLastPass = r.Now
		}
		if r.Cfg.Policy == "gradual" && !x.Pass && !r.ReplicaUp {
			r.Need = penalty(r.N) // a failed probe while down: the consecutive successes start over
		}
		x.GateOpen = r.gateOpen()
		switch {
		case r.Now-r.RLastPass >= da:
			x.ElapsedOver = true
			x.ReplicaMayUp, x.ReplicaMayDown = false, true
			x.ReplicaRule = "down:no_passed_probe_for_down_after"
		case !x.Pass:
			x.ReplicaRule = "unchanged:probe_failed_within_down_after"
		case !r.MasterUp:
			// the statement does not say what replication health means while the master is
			// down: a lagging/stopped replica may stay as it is or be marked down; a healthy
			// down replica must come up when the gate is open
			switch {
			case r.ReplicaUp && x.SyncBad:
				x.ReplicaMayUp, x.ReplicaMayDown = true, true
				x.ReplicaRule = "any:master_down_sync_bad"
			case r.ReplicaUp:
				x.ReplicaRule = "unchanged:healthy_and_up"
			case !x.GateOpen:
				x.ReplicaRule = "unchanged:recovery_gate_closed"
			case x.SyncBad:
				x.ReplicaMayUp, x.ReplicaMayDown = true, true
				x.ReplicaRule = "any:master_down_sync_bad"
			default:
				x.ReplicaMayUp, x.ReplicaMayDown = true, false
				x.ReplicaRule = "up:probe_passed_gate_open_master_down"
			}
		case x.SyncBad:
			x.ReplicaMayUp, x.ReplicaMayDown = false, true
			x.ReplicaRule = "down:lag_or_thread_stopped"
		case r.ReplicaUp:
			x.ReplicaRule = "unchanged:healthy_and_up"
		case x.GateOpen:
			x.ReplicaMayUp, x.ReplicaMayDown = true, false
			x.ReplicaRule = "up:probe_passed_gate_open"
		default:
			x.ReplicaRule = "unchanged:recovery_gate_closed"
			if r.Cfg.Policy == "gradual" {
				r.Need-- // one of the required consecutive successful probes is served
			}
		}
	}
	x.N, x.Need = r.N, r.Need
	return x
}

// Commit tells the reference which statuses the implementation has after the event.
func (r *Ref) Commit(after Status) {
	if after.ReplicaUp && !r.ReplicaUp {
		r.FusedDown = false
		r.LastRecovery = r.Now
	}
	r.MasterUp, r.ReplicaUp = after.MasterUp, after.ReplicaUp
}

// Key renders the reference state the future expectations depend on (same clamps as World.Key).
func (r *Ref) Key() string {
	var sb strings.Builder
	da := int64(r.Cfg.DownAfter)
	fmt.Fprintf(&sb, "M%v/%d R%v/%d F%v", r.MasterUp, clamp(r.Now-r.MLastPass, da), r.ReplicaUp, clamp(r.Now-r.RLastPass, da), r.FusedDown)
	switch r.Cfg.Policy {
	case "hard":
		if r.Fused {
			fmt.Fprintf(&sb, " H%d", clamp(r.Now-r.LastFuse, r.Cfg.Cooldown))
		} else {
			sb.WriteString(" H-")
		}
	case "gradual":
		fmt.Fprintf(&sb, " G%d/%d/%d", r.N, r.Need, clamp(r.Now-r.LastRecovery, 2*PingPeriod+1))
	}
	if r.Cfg.Policy != "none" {
		sb.WriteString(" E")
		for _, t := range r.Errs {
			if t > r.Now-r.Cfg.W {
				fmt.Fprintf(&sb, "%d,", r.Now-t)
			}
		}
	}
	return sb.String()
}
