package rig

import (
	"fmt"
	"strings"
)

// RepRef is the reference state of ONE replica. Every replica of a group has its own: the
// statements talk about "a replica", "its latest fuse", "its recovery condition".
type RepRef struct {
	Up       bool
	LastPass int64

	Errs      []int64 // recorded connection errors (timestamps)
	Fused     bool    // the breaker has fired at least once
	LastFuse  int64
	FusedDown bool // the replica is down and the breaker fired since it was last up

	// gradual policy (backend/node_fuse.go, documented there): level N starts at 3; a fuse
	// within 2*PingPeriod of the last recovery raises N and sets the number of consecutive
	// successful probes to skip to min(N(N+1)/2, 120); a later fuse resets N to 3; a failed
	// probe while the replica is down re-arms the skip count for the current level.
	N            int64
	Need         int64
	LastRecovery int64
}

// Ref is the reference model: plain bookkeeping of what the property statements talk
// about (time of the last passed probe per node, recorded connection errors, time of the
// latest fuse, the gradual policy's penalty counters), kept independently per replica. It
// never looks at Gaea's state except for the node statuses it is told through Commit.
type Ref struct {
	Cfg Cfg
	Now int64

	MasterUp  bool
	MLastPass int64
	Rep       []*RepRef
}

func NewRef(c Cfg) *Ref {
	r := &Ref{Cfg: c, Now: c.Start, MasterUp: true, MLastPass: c.Start}
	for i := 0; i < c.NRep(); i++ {
		r.Rep = append(r.Rep, &RepRef{Up: true, LastPass: c.Start, N: 3, LastRecovery: c.Start})
	}
	return r
}

func penalty(n int64) int64 {
	p := n * (n + 1) / 2
	if p > 120 {
		p = 120
	}
	return p
}

// RepExpect is what the statements allow for one replica after one event.
type RepExpect struct {
	MayUp, MayDown bool
	Rule           string
	Pass           bool // the replica passed its probe in this round
	SyncBad        bool
	GateOpen       bool // recovery policy allows Down->Up now (meaningful in replica rounds)
	Fire           bool // the breaker must fire on this connection error
	ElapsedOver    bool
	N, Need        int64 // gradual counters expected after the event (checked against the real strategy)
	// status / fused-down flag of the replica at the moment the event's decision is taken:
	// the values before the event, except in a replica round with a fuse landing inside it,
	// where they are the values right after that fuse
	WasUp, WasFusedDown bool
}

// Expect is what the statements allow after one event.
type Expect struct {
	MasterMayUp, MasterMayDown bool
	MasterRule                 string
	MasterPass                 bool
	Round                      string // "", "M", "R"
	Rep                        []RepExpect
}

func same(up bool) (mayUp, mayDown bool) { return up, !up }

func (r *Ref) gateOpen(p *RepRef) bool {
	switch r.Cfg.Policy {
	case "hard":
		return !p.Fused || r.Now >= p.LastFuse+r.Cfg.Cooldown
	case "gradual":
		return p.Need == 0
	}
	return true
}

// Step advances the reference over a primitive event and returns the expectation. The
// caller then reports the statuses the implementation really has through Commit.
//
// hookFired (replica rounds with e.F set): whether the probe position e.F of replica e.I was
// reached in this round, i.e. whether the in-round connection error was delivered at all
// (an observation of which probes were executed, e.g. `show slave status` is not asked while
// the master is down).
func (r *Ref) Step(e Event, hookFired bool) Expect {
	x := Expect{Rep: make([]RepExpect, len(r.Rep))}
	x.MasterMayUp, x.MasterMayDown = same(r.MasterUp)
	x.MasterRule = "unchanged:no_probe_of_this_node"
	for i, p := range r.Rep {
		x.Rep[i].MayUp, x.Rep[i].MayDown = same(p.Up)
		x.Rep[i].Rule = "unchanged:no_probe_of_this_node"
		x.Rep[i].GateOpen = r.gateOpen(p)
		x.Rep[i].WasUp, x.Rep[i].WasFusedDown = p.Up, p.FusedDown
	}
	da := int64(r.Cfg.DownAfter)
	switch e.K {
	case "T":
		r.Now += e.D
	case "E", "L":
		// E: a client read picked replica I through GetSlaveConn (only possible while it is
		// up) and its pool answered with a connection error. L: a session that picked the
		// replica earlier gets its connection error now, whatever the replica's status is.
		// Both record a connection error FOR THAT REPLICA ONLY; its breaker fires when its
		// window reaches M.
		p := r.Rep[e.I]
		if e.K == "L" || p.Up {
			r.connError(p, &x.Rep[e.I])
		}
	case "M":
		x.Round = "M"
		x.MasterPass = Passes(e.A)
		if x.MasterPass {
			r.MLastPass = r.Now
		}
		switch {
		case r.Now-r.MLastPass >= da:
			x.MasterMayUp, x.MasterMayDown = false, true
			x.MasterRule = "down:no_passed_probe_for_down_after"
		case x.MasterPass:
			x.MasterMayUp, x.MasterMayDown = true, false
			x.MasterRule = "up:probe_passed"
		default:
			x.MasterRule = "unchanged:probe_failed_within_down_after"
		}
	case "R":
		x.Round = "R"
		// A connection error that lands inside the round (at a probe position that was
		// reached): every position lies before the round reads the replica's status and
		// recovery state for its decision (the liveness / master checks before "sync" read
		// neither), so the round must decide as if the error had arrived just before it —
		// in particular a fuse that fires here restarts the cool-down / is the latest failure.
		if e.F != "" && hookFired {
			p, xr := r.Rep[e.I], &x.Rep[e.I]
			if r.connError(p, xr) {
				p.Up = false // the breaker marked it down; the rest of the round sees a down replica
			}
			xr.WasUp, xr.WasFusedDown = p.Up, p.FusedDown
		}
		// the loop probes every replica of the group in this tick, each on its own
		for i, p := range r.Rep {
			r.replicaRound(p, &x.Rep[i], e.Out(i))
		}
	}
	for i, p := range r.Rep {
		x.Rep[i].N, x.Rep[i].Need = p.N, p.Need
	}
	return x
}

// connError records one connection error for replica p at the current time and, when its
// window reaches the threshold, fires its breaker (see the comments inside). It reports
// whether the breaker fired.
func (r *Ref) connError(p *RepRef, xr *RepExpect) bool {
	if r.Cfg.Policy == "none" {
		return false
	}
	p.Errs = append(p.Errs, r.Now)
	in := int64(0)
	for _, t := range p.Errs {
		if t > r.Now-r.Cfg.W && t <= r.Now {
			in++
		}
	}
	if !(r.Cfg.W > 0 && r.Cfg.M > 0 && in >= r.Cfg.M) {
		return false
	}
	xr.Fire = true
	wasUp := p.Up
	// a fuse marks the replica down; on a replica that is already down it changes no status
	xr.MayUp, xr.MayDown = false, true
	xr.Rule = "down:breaker_fired"
	if !wasUp {
		xr.Rule = "unchanged:breaker_fired_on_down_replica"
	}
	p.FusedDown = true
	switch r.Cfg.Policy {
	case "hard":
		// "the configured cool-down since its LATEST fuse": every fuse counts, also one
		// that hits a replica that is already down
		p.Fused, p.LastFuse = true, r.Now
	case "gradual":
		// node_fuse.go documents UpdateFuseTime / the bad-recovery bookkeeping as "called
		// when the node goes StatusUp -> StatusDown": a fuse on a replica that is already
		// down is not a new failure after a recovery and changes nothing
		p.Fused = true
		if wasUp {
			p.LastFuse = r.Now
			if r.Now-p.LastRecovery <= 2*PingPeriod {
				p.N++
				p.Need = penalty(p.N)
			} else {
				p.N = 3
			}
		}
	}
	return true
}

func (r *Ref) replicaRound(p *RepRef, x *RepExpect, out string) {
	da := int64(r.Cfg.DownAfter)
	x.Pass = Passes(out)
	x.SyncBad = r.Cfg.LagLimit != 0 && SyncBad(out)
	if x.Pass {
		p.LastPass = r.Now
	}
	if r.Cfg.Policy == "gradual" && !x.Pass && !p.Up {
		p.Need = penalty(p.N) // a failed probe while down: the consecutive successes start over
	}
	x.GateOpen = r.gateOpen(p)
	switch {
	case r.Now-p.LastPass >= da:
		x.ElapsedOver = true
		x.MayUp, x.MayDown = false, true
		x.Rule = "down:no_passed_probe_for_down_after"
	case !x.Pass:
		x.Rule = "unchanged:probe_failed_within_down_after"
	case !r.MasterUp:
		// the statement does not say what replication health means while the master is
		// down: a lagging/stopped replica may stay as it is or be marked down; a healthy
		// down replica must come up when the gate is open
		switch {
		case p.Up && x.SyncBad:
			x.MayUp, x.MayDown = true, true
			x.Rule = "any:master_down_sync_bad"
		case p.Up:
			x.Rule = "unchanged:healthy_and_up"
		case !x.GateOpen:
			x.Rule = "unchanged:recovery_gate_closed"
		case x.SyncBad:
			x.MayUp, x.MayDown = true, true
			x.Rule = "any:master_down_sync_bad"
		default:
			x.MayUp, x.MayDown = true, false
			x.Rule = "up:probe_passed_gate_open_master_down"
		}
	case x.SyncBad:
		x.MayUp, x.MayDown = false, true
		x.Rule = "down:lag_or_thread_stopped"
	case p.Up:
		x.Rule = "unchanged:healthy_and_up"
	case x.GateOpen:
		x.MayUp, x.MayDown = true, false
		x.Rule = "up:probe_passed_gate_open"
	default:
		x.Rule = "unchanged:recovery_gate_closed"
		if r.Cfg.Policy == "gradual" {
			p.Need-- // one of the required consecutive successful probes is served
		}
	}
}

// Commit tells the reference which statuses the implementation has after the event.
func (r *Ref) Commit(after Status) {
	for i, p := range r.Rep {
		if after.ReplicaUp[i] && !p.Up {
			p.FusedDown = false
			p.LastRecovery = r.Now
		}
		p.Up = after.ReplicaUp[i]
	}
	r.MasterUp = after.MasterUp
}

// AnyFusedOrPending: something recovery-related has happened (used for the non-triviality count).
func (r *Ref) AnyFusedOrPending() bool {
	for _, p := range r.Rep {
		if p.Fused || p.Need > 0 {
			return true
		}
	}
	return false
}

// Key renders the reference state the future expectations depend on (same clamps as World.Key).
func (r *Ref) Key() string {
	var sb strings.Builder
	da := int64(r.Cfg.DownAfter)
	fmt.Fprintf(&sb, "M%v/%d", r.MasterUp, clamp(r.Now-r.MLastPass, da))
	for i, p := range r.Rep {
		fmt.Fprintf(&sb, " R%d:%v/%d F%v", i, p.Up, clamp(r.Now-p.LastPass, da), p.FusedDown)
		switch r.Cfg.Policy {
		case "hard":
			if p.Fused {
				fmt.Fprintf(&sb, " H%d", clamp(r.Now-p.LastFuse, r.Cfg.Cooldown))
			} else {
				sb.WriteString(" H-")
			}
		case "gradual":
			fmt.Fprintf(&sb, " G%d/%d/%d", p.N, p.Need, clamp(r.Now-p.LastRecovery, 2*PingPeriod+1))
		}
		if r.Cfg.Policy != "none" {
			sb.WriteString(" E")
			for _, t := range p.Errs {
				if t > r.Now-r.Cfg.W {
					fmt.Fprintf(&sb, "%d,", r.Now-t)
				}
			}
		}
	}
	return sb.String()
}
