//go:build verif

package util

import "time"

// Read-only views of the time wheel for the C37 harness (injected by build overlay; not
// part of Gaea). Nothing here re-implements wheel logic: the functions only render the
// fields, and put back into the pipeline exactly what they took out of it.

// VerifTask is one entry of a bucket.
type VerifTask struct {
	Key      interface{}
	Rel      int // bucket position relative to currentIndex (0 = the bucket handled by the next tick)
	Round    int
	Delay    time.Duration
	Indexed  bool // bucketIndexes[Key] names this bucket
	Callback func()
}

// VerifPipeItem is one queued pipeline item.
type VerifPipeItem struct {
	Op       string
	Key      interface{}
	Delay    time.Duration
	Callback func()
}

// VerifWheelTasks lists every task stored in the buckets.
func VerifWheelTasks(tw *TimeWheel) []VerifTask {
	var out []VerifTask
	for i := 0; i < len(tw.buckets); i++ {
		rel := (i - tw.currentIndex + len(tw.buckets)) % len(tw.buckets)
		for k, t := range tw.buckets[i] {
			idx, ok := tw.bucketIndexes[k]
			out = append(out, VerifTask{Key: k, Rel: rel, Round: t.round, Delay: t.delay, Indexed: ok && idx == i, Callback: t.callback})
		}
	}
	return out
}

// VerifIndexSize is len(bucketIndexes).
func VerifIndexSize(tw *TimeWheel) int { return len(tw.bucketIndexes) }

// VerifPipeLen / VerifPipeCap: queue length and capacity of the pipeline channel.
func VerifPipeLen(tw *TimeWheel) int { return len(tw.pipelineC) }
func VerifPipeCap(tw *TimeWheel) int { return cap(tw.pipelineC) }

// VerifPipeItems returns the queued items in order. Only call while the loop goroutine is
// parked (the harness holds it in the rewritten Sleep): the items are received and sent
// back in the same order.
func VerifPipeItems(tw *TimeWheel) []VerifPipeItem {
	n := len(tw.pipelineC)
	out := make([]VerifPipeItem, 0, n)
	for i := 0; i < n; i++ {
		it := <-tw.pipelineC
		v := VerifPipeItem{Op: it.key}
		if t, ok := it.value.(*Task); ok {
			v.Key, v.Delay, v.Callback = t.key, t.delay, t.callback
		} else {
			v.Key = it.value
		}
		out = append(out, v)
		tw.pipelineC <- it
	}
	return out
}

// VerifTick returns the configured tick and bucket count.
func VerifTick(tw *TimeWheel) (time.Duration, int) { return tw.tick, tw.bucketsNum }
