// C37: idle sessions are closed on time and active ones are not.
//
// Engine: xstate (explicit-state BFS over operation histories, every history replayed on a
// fresh REAL util.TimeWheel). The wheel's own goroutine loop (start(): Sleep(tick); drain
// the pipeline; handleTick) runs unmodified; the only rewrite is time.Sleep -> vclock.Sleep,
// whose SleepHook parks the loop goroutine until the harness releases exactly one tick. The
// harness therefore decides the order "operations ... tick ... operations ... tick" and the
// loop's drain/handleTick order, pipeline semantics, index/round arithmetic and the
// `go callback()` are all the real code.
//
// Callbacks are started by the wheel with a plain `go`; the harness waits for them by
// waiting until the number of goroutines is back to (baseline + parked loop goroutine) —
// a quiescence condition, not a sleep. This is why the search is single-threaded in-process
// (runtime.NumGoroutine is process-wide).
package main

import (
	"bufio"
	"crypto/sha256"
	"encoding/json"
	"fmt"
	"os"
	"os/exec"
	"runtime"
	"sort"
	"strconv"
	"strings"
	"sync"
	"sync/atomic"
	"time"

	"github.com/XiaoMi/Gaea/util"
	"github.com/XiaoMi/Gaea/verifshim/vclock"

	"verif/engine/ev"
	"verif/engine/gx"
	"verif/engine/xstate"
)

const (
	tickS   = 5 // seconds per tick (the value proxy/server/server.go uses)
	nBucket = 3 // wheel span = 3 ticks
	lateOff = 4 // "late" = 1 s before the next tick boundary
	nReal   = 2 // sessions s0,s1
)

// delays in seconds: 1 tick, N-1, N, N+1, 2N, 3N ticks and 1.4 ticks.
var delays = []int{5, 10, 15, 20, 30, 45, 7}

var t0 = time.Unix(1700000000, 0)

type regID struct{ s, gen int }

const (
	stNone = iota
	stReg
	stRemoved
	stClosed
)

type sess struct {
	state   int
	gen     int // generation of the latest Add (0 = never added)
	a, d    int // time of the latest Add and its delay (seconds)
	dropped bool
	anyDrop bool
	rmDrop  bool // a Remove of this session returned to its caller without having queued anything
}

type world struct {
	tw       *util.TimeWheel
	now      int
	lastTick int
	arrive   chan time.Duration
	release  chan struct{}
	base     int // goroutines when quiescent with the loop parked
	n0       int

	mu      sync.Mutex
	fired   []regID
	probing bool
	probe   regID

	ss        []sess // 0,1 real; >=2 fillers
	firedGen  map[regID]int
	hookD     time.Duration
	flooded   bool
	lastOut   string
	staleOK   int
	viol      string
	feat      map[string]string
	pipeCap   int
	anyFiring bool

	// a Remove issued while the pipeline is full: the real (blocking) Remove parks its caller
	// until the next tick drains the pipeline; it runs on its own goroutine
	blocked    int   // 0/1 Remove callers parked in the channel send
	rmDone     int32 // set by the Remove goroutine when Remove returned
	cachedPipe []util.VerifPipeItem
}

var cur *world // the world of the replay in progress (one at a time)

func hook(d time.Duration) {
	w := cur
	w.arrive <- d
	<-w.release
}

func newWorld() *world {
	w := &world{arrive: make(chan time.Duration), release: make(chan struct{}), firedGen: map[regID]int{}}
	w.ss = make([]sess, nReal)
	cur = w
	vclock.Enable(t0)
	vclock.SleepHook = hook
	w.n0 = runtime.NumGoroutine()
	tw, err := util.NewTimeWheel(tickS*time.Second, nBucket)
	if err != nil {
		ev.Fatalf("NewTimeWheel: %v", err)
	}
	w.tw = tw
	w.pipeCap = util.VerifPipeCap(tw)
	tw.Start()
	w.hookD = <-w.arrive
	w.base = w.n0 + 1
	w.quiesce(w.base)
	return w
}

func (w *world) quiesce(target int) {
	for i := 0; runtime.NumGoroutine() > target; i++ {
		runtime.Gosched()
		if i > 50_000_000 {
			ev.Fatalf("C37 harness: goroutines do not quiesce (%d > %d)", runtime.NumGoroutine(), target)
		}
	}
}

// close stops the real loop and waits until its goroutine and every callback are gone.
func (w *world) close() {
	// make room for the stop item if the pipeline is full (drain is the wheel's own, via a tick)
	for util.VerifPipeLen(w.tw) >= w.pipeCap {
		w.release <- struct{}{}
		<-w.arrive
	}
	w.tw.Stop()
	w.release <- struct{}{}
	w.quiesce(w.n0)
	vclock.SleepHook = nil
	vclock.Disable()
	cur = nil
}

func (w *world) cb(id regID) func() {
	return func() {
		if w.probing {
			w.probe = id
			return
		}
		w.mu.Lock()
		w.fired = append(w.fired, id)
		w.mu.Unlock()
	}
}

func (w *world) idOf(f func()) regID {
	w.probing = true
	w.probe = regID{-1, -1}
	f()
	w.probing = false
	return w.probe
}

type keyT struct{ s int }

func (w *world) fail(kind string, s int, format string, a ...interface{}) {
	if w.viol != "" {
		return
	}
	w.viol = fmt.Sprintf(format, a...)
	m := w.ss[s]
	f := map[string]string{"kind": kind}
	if m.d%tickS == 0 {
		f["delay_class"] = "multiple_of_tick"
	} else {
		f["delay_class"] = "not_multiple_of_tick"
	}
	switch {
	case m.d < nBucket*tickS:
		f["span_class"] = "below_span"
	case m.d == nBucket*tickS:
		f["span_class"] = "equal_span"
	default:
		f["span_class"] = "above_span"
	}
	f["pipeline_dropped"] = "no"
	if m.anyDrop {
		f["pipeline_dropped"] = "yes"
	}
	f["remove_dropped"] = "no"
	if m.rmDrop {
		f["remove_dropped"] = "yes"
	}
	f["session"] = "real"
	if s >= nReal {
		f["session"] = "filler"
	}
	w.feat = f
}

func (w *world) setTime(t int) {
	w.now = t
	vclock.Set(t0.Add(time.Duration(t) * time.Second))
}

func (w *world) add(s, d int) {
	m := &w.ss[s]
	m.gen++
	id := regID{s, m.gen}
	before := util.VerifPipeLen(w.tw)
	err := w.tw.Add(time.Duration(d)*time.Second, keyT{s}, w.cb(id))
	after := util.VerifPipeLen(w.tw)
	m.state, m.a, m.d = stReg, w.now, d
	m.dropped = after != before+1
	if m.dropped {
		m.anyDrop = true
	}
	if err != nil {
		w.fail("add_error", s, "Add(%ds) returned %v", d, err)
	}
	if s < nReal {
		w.lastOut = fmt.Sprintf("add d=%d enqueued=%v", d, !m.dropped)
	}
}

// removeParked reports whether a goroutine is parked in TimeWheel.Remove's channel send.
func removeParked() bool {
	buf := make([]byte, 1<<16)
	n := runtime.Stack(buf, true)
	for _, g := range strings.Split(string(buf[:n]), "\n\n") {
		if strings.Contains(g, "[chan send") && strings.Contains(g, "(*TimeWheel).Remove") {
			return true
		}
	}
	return false
}

// waitRemove waits until the outstanding Remove call has either returned (true) or is parked
// in its channel send (false). Both are states, not time-outs.
func (w *world) waitRemove() bool {
	for i := 0; ; i++ {
		if atomic.LoadInt32(&w.rmDone) == 1 {
			return true
		}
		if removeParked() {
			return false
		}
		runtime.Gosched()
		if i > 10_000_000 {
			ev.Fatalf("C37 harness: Remove neither returns nor parks")
		}
	}
}

func (w *world) remove(s int) bool {
	m := &w.ss[s]
	before := util.VerifPipeLen(w.tw)
	if before < w.pipeCap {
		if err := w.tw.Remove(keyT{s}); err != nil {
			w.fail("remove_error", s, "Remove returned %v", err)
		}
		if util.VerifPipeLen(w.tw) != before+1 {
			m.rmDrop = true
		}
		m.state = stRemoved
		w.lastOut = "rm"
		return true
	}
	// pipeline full: the caller of the real Remove is parked until the next tick
	if w.blocked > 0 {
		return false
	}
	w.cachedPipe = util.VerifPipeItems(w.tw)
	atomic.StoreInt32(&w.rmDone, 0)
	go func() {
		w.tw.Remove(keyT{s})
		atomic.StoreInt32(&w.rmDone, 1)
	}()
	if w.waitRemove() {
		// Remove returned (accepted, as far as its caller can tell) although nothing could be queued
		m.rmDrop = true
		w.lastOut = "rm full:returned"
	} else {
		w.blocked = 1
		w.lastOut = "rm full:parked"
	}
	m.state = stRemoved
	return true
}

func (w *world) flood() {
	w.flooded = true
	n := w.pipeCap
	base := len(w.ss)
	w.ss = append(w.ss, make([]sess, n)...)
	drops := 0
	for i := 0; i < n; i++ {
		w.add(base+i, 45)
		if w.ss[base+i].dropped {
			drops++
		}
	}
	w.lastOut = fmt.Sprintf("flood n=%d dropped=%d", n, drops)
}

func (w *world) tick() {
	w.setTime(w.lastTick + tickS)
	w.lastTick = w.now
	w.release <- struct{}{}
	w.hookD = <-w.arrive
	if w.blocked > 0 && w.waitRemove() {
		w.blocked = 0 // the drain made room: the parked Remove queued its item and returned
	}
	w.quiesce(w.base + w.blocked)
	if w.hookD != tickS*time.Second {
		w.fail("tick_period", 0, "the loop sleeps %v per tick instead of the configured %ds", w.hookD, tickS)
	}
	w.collect("tick")
	// sessions that can no longer be closed inside their window
	for s := range w.ss {
		m := &w.ss[s]
		if m.state == stReg && w.now > m.a+m.d {
			w.fail("late", s, "session s%d (activity at %ds, timeout %ds) is not closed by t=%ds: later than one tick after its deadline %ds", s, m.a, m.d, w.now, m.a+m.d)
			break
		}
	}
}

// collect evaluates the callbacks that ran since the last call.
func (w *world) collect(where string) {
	w.mu.Lock()
	f := append([]regID{}, w.fired...)
	w.fired = w.fired[:0]
	w.mu.Unlock()
	sort.Slice(f, func(i, j int) bool {
		if f[i].s != f[j].s {
			return f[i].s < f[j].s
		}
		return f[i].gen < f[j].gen
	})
	var outs []string
	for _, id := range f {
		w.anyFiring = true
		m := &w.ss[id.s]
		w.firedGen[id]++
		D := m.a + m.d
		if id.s < nReal {
			outs = append(outs, fmt.Sprintf("fire(d=%d,%+d)", m.d, w.now-D))
		}
		switch {
		case where != "tick":
			w.fail("spontaneous", id.s, "callback of s%d ran outside a tick (after %s)", id.s, where)
		case w.firedGen[id] > 1:
			w.fail("twice", id.s, "the callback registered by s%d (registration #%d) ran %d times", id.s, id.gen, w.firedGen[id])
		case m.state == stRemoved:
			w.fail("after_remove", id.s, "s%d was removed from the timer at or before t=%ds but its callback (registration #%d) ran at t=%ds", id.s, w.now, id.gen, w.now)
		case m.state == stClosed:
			w.fail("closed_again", id.s, "s%d was already closed, registration #%d closed it again at t=%ds", id.s, id.gen, w.now)
		case m.state != stReg:
			w.fail("unregistered", id.s, "callback for s%d which has no registration", id.s)
		case w.now < D:
			k := "early"
			if id.gen != m.gen {
				k = "stale_early"
			}
			w.fail(k, id.s, "s%d closed at t=%ds by registration #%d (latest #%d): %ds before its deadline %ds (activity at %ds + timeout %ds)", id.s, w.now, id.gen, m.gen, D-w.now, D, m.a, m.d)
			if w.feat["kind"] == k {
				w.feat["early_within_fraction"] = "no"
				if m.d%tickS != 0 && D-w.now <= m.d%tickS {
					w.feat["early_within_fraction"] = "yes"
				}
			}
		case w.now > D+tickS:
			w.fail("late", id.s, "s%d closed at t=%ds, more than one tick after its deadline %ds", id.s, w.now, D)
		default:
			if id.gen != m.gen {
				w.staleOK++ // an older registration fired inside the window of the latest one: observably fine
			}
		}
		m.state = stClosed
	}
	if where == "tick" {
		w.lastOut = "tick " + strings.Join(outs, " ")
	}
}

// ---------------------------------------------------------------------------------------
// canonical state
//
// Merging argument. The future of the real wheel depends only on: the tasks in the buckets
// (key, bucket position RELATIVE to currentIndex — the code uses currentIndex only through
// (currentIndex+k)%N and the wrap at N-1 —, round, delay is dead after add()), the
// bucketIndexes map (rendered as "indexed" per task + its size), and the queued pipeline
// items in order. The future of the oracle depends only on, per session: its state, the
// deadline of the latest registration relative to now, whether each stored/queued callback
// belongs to the latest registration (cur) or an older one (old), whether an Add of it was
// dropped (feature only), and the position of now inside the tick interval. Absolute time,
// absolute generation numbers and currentIndex are irrelevant. The two real sessions are
// interchangeable (the alphabet is symmetric), so the smaller of the two renderings is used.
// Filler sessions (flood) are identical among themselves and rendered as grouped counts.
func (w *world) key() string {
	tasks := util.VerifWheelTasks(w.tw)
	var pipe []util.VerifPipeItem
	if w.blocked > 0 {
		// a sender is parked on the full channel: taking an item out would let its item in and
		// reorder the queue. The content cannot have changed since the Remove was issued (every
		// Add was dropped, the loop is parked), so the copy taken just before is used.
		pipe = w.cachedPipe
	} else {
		pipe = util.VerifPipeItems(w.tw)
	}
	// fillers are collapsed to one pseudo session id (nReal) before anything is formatted
	type tk struct {
		s                 int
		rel, round, delay int
		indexed           bool
		tag               string
	}
	col := func(s int) int {
		if s >= nReal {
			return nReal
		}
		return s
	}
	tag := func(cb func()) (int, string) {
		id := w.idOf(cb)
		if id.s < 0 {
			return -1, "?"
		}
		if id.gen == w.ss[id.s].gen {
			return col(id.s), "cur"
		}
		return col(id.s), "old"
	}
	tks := map[tk]int{}
	for _, t := range tasks {
		s, tg := tag(t.Callback)
		tks[tk{s, t.Rel, t.Round, int(t.Delay / time.Second), t.Indexed, tg}]++
	}
	type pk struct {
		op    string
		s     int
		delay int
		tag   string
	}
	type run struct {
		p pk
		n int
	}
	var runs []run
	for _, p := range pipe {
		var x pk
		if p.Op == "add" {
			s, tg := tag(p.Callback)
			x = pk{"add", s, int(p.Delay / time.Second), tg}
		} else {
			k, _ := p.Key.(keyT)
			x = pk{p.Op, col(k.s), 0, ""}
		}
		if n := len(runs); n > 0 && runs[n-1].p == x {
			runs[n-1].n++
		} else {
			runs = append(runs, run{x, 1})
		}
	}
	type fmk struct {
		state, rel int
		drop       bool
	}
	fms := map[fmk]int{}
	for s := nReal; s < len(w.ss); s++ {
		m := w.ss[s]
		k := fmk{state: m.state}
		if m.state == stReg {
			k.rel, k.drop = m.a+m.d-w.now, m.anyDrop
		}
		fms[k]++
	}
	render := func(perm [nReal]int) string {
		name := func(s int) string {
			if s < 0 {
				return "?"
			}
			if s < nReal {
				return "s" + strconv.Itoa(perm[s])
			}
			return "f"
		}
		var sb strings.Builder
		fmt.Fprintf(&sb, "parkedRemove=%d|", w.blocked)
		fmt.Fprintf(&sb, "pos=%d idx=%d hook=%d|", w.now-w.lastTick, util.VerifIndexSize(w.tw), int(w.hookD/time.Second))
		// model of real sessions in renamed order
		ms := make([]string, nReal)
		for s := 0; s < nReal; s++ {
			m := w.ss[s]
			x := fmt.Sprintf("%d", m.state)
			if m.state == stReg {
				x += fmt.Sprintf(":%+d:%v", m.a+m.d-w.now, m.anyDrop)
			}
			if m.rmDrop {
				x += ":rmdrop"
			}
			ms[perm[s]] = x
		}
		sb.WriteString(strings.Join(ms, ",") + "|")
		// filler model grouped
		fm := map[string]int{}
		for k, n := range fms {
			fm[fmt.Sprintf("%d:%+d:%v", k.state, k.rel, k.drop)] = n
		}
		sb.WriteString(groupStr(fm) + "|")
		// wheel tasks
		tm := map[string]int{}
		for t, n := range tks {
			tm[fmt.Sprintf("%s@%d r%d d%d %v %s", name(t.s), t.rel, t.round, t.delay, t.indexed, t.tag)] += n
		}
		sb.WriteString(groupStr(tm) + "|")
		// pipeline in order, run-length encoded
		for _, r := range runs {
			fmt.Fprintf(&sb, "%s %s d%d %sx%d;", r.p.op, name(r.p.s), r.p.delay, r.p.tag, r.n)
		}
		return sb.String()
	}
	a := render([nReal]int{0, 1})
	b := render([nReal]int{1, 0})
	if b < a {
		return b
	}
	return a
}

func groupStr(m map[string]int) string {
	ks := make([]string, 0, len(m))
	for k, n := range m {
		ks = append(ks, fmt.Sprintf("%s*%d", k, n))
	}
	sort.Strings(ks)
	return strings.Join(ks, ";")
}

// ---------------------------------------------------------------------------------------
// events and replay

type caseT struct {
	Phase  string   `json:"phase"`
	Events []string `json:"events"`
}

func apply(w *world, e string) (ok bool) {
	f := strings.Fields(e)
	switch f[0] {
	case "add":
		s, _ := strconv.Atoi(f[1])
		d, _ := strconv.Atoi(f[2])
		w.add(s, d)
	case "rm":
		s, _ := strconv.Atoi(f[1])
		if !w.remove(s) {
			return false
		}
	case "late":
		w.setTime(w.lastTick + lateOff)
		w.lastOut = "late"
	case "tick":
		w.tick()
		return true
	case "rev": // one revolution of the wheel: nBucket consecutive ticks, oracle evaluated after each
		var outs []string
		for i := 0; i < nBucket && w.viol == ""; i++ {
			w.tick()
			outs = append(outs, w.lastOut)
		}
		w.lastOut = "rev[" + strings.Join(outs, "|") + "]"
		return true
	case "flood":
		w.flood()
	default:
		ev.Fatalf("unknown event %q", e)
	}
	// nothing may fire outside a tick
	w.quiesce(w.base + w.blocked)
	w.collect(e)
	return true
}

func replay(hist []string) xstate.Result {
	w := newWorld()
	defer w.close()
	for _, e := range hist {
		if !apply(w, e) {
			return xstate.Result{Key: "", Stop: true, Outcome: "blocked"}
		}
		if w.viol != "" {
			return xstate.Result{Violation: w.viol, Features: w.feat, Outcome: "violation:" + w.feat["kind"]}
		}
	}
	h := sha256.Sum256([]byte(w.key()))
	return xstate.Result{Key: string(h[:16]), Outcome: w.lastOut}
}

// ---------------------------------------------------------------------------------------
// worker processes: runtime.NumGoroutine (the quiescence test) is process-wide, so a
// process replays one history at a time; the BFS level is spread over child processes.

type child struct {
	cmd *exec.Cmd
	in  *bufio.Writer
	out *bufio.Reader
}

type req struct {
	hist []string
	resp chan xstate.Result
}

var (
	reqC     = make(chan req, 8192)
	children []*child
)

const batchMax = 48

// startPool starts n worker processes; each is served by a goroutine that ships the
// pending replay requests in batches (one pipe round trip per batch, not per history).
func startPool(n int) {
	self := os.Getenv("VERIF_CHECK_BIN")
	if self == "" {
		self, _ = os.Executable()
	}
	for i := 0; i < n; i++ {
		cmd := exec.Command(self)
		cmd.Env = append(os.Environ(), "C37_CHILD=1")
		cmd.Stderr = os.Stderr
		in, err1 := cmd.StdinPipe()
		out, err2 := cmd.StdoutPipe()
		if err1 != nil || err2 != nil {
			ev.Fatalf("worker pipes: %v %v", err1, err2)
		}
		if err := cmd.Start(); err != nil {
			ev.Fatalf("worker start: %v", err)
		}
		c := &child{cmd, bufio.NewWriterSize(in, 1<<16), bufio.NewReaderSize(out, 1<<16)}
		children = append(children, c)
		go serve(c)
	}
}

func serve(c *child) {
	for {
		first, ok := <-reqC
		if !ok {
			return
		}
		batch := []req{first}
	fill:
		for len(batch) < batchMax {
			select {
			case rq, ok := <-reqC:
				if !ok {
					break fill
				}
				batch = append(batch, rq)
			default:
				break fill
			}
		}
		for _, rq := range batch {
			c.in.WriteString(strings.Join(rq.hist, ",") + "\n")
		}
		if err := c.in.Flush(); err != nil {
			ev.Fatalf("worker write: %v", err)
		}
		for _, rq := range batch {
			line, err := c.out.ReadBytes('\n')
			if err != nil {
				ev.Fatalf("worker died while replaying %v: %v", rq.hist, err)
			}
			var res xstate.Result
			if err := json.Unmarshal(line, &res); err != nil {
				ev.Fatalf("worker answer: %v", err)
			}
			rq.resp <- res
		}
	}
}

func stopPool() {
	close(reqC)
	for _, c := range children {
		c.in.WriteString("quit\n")
		c.in.Flush()
	}
}

func remoteReplay(hist []string) xstate.Result {
	rq := req{hist, make(chan xstate.Result, 1)}
	reqC <- rq
	return <-rq.resp
}

func childLoop() {
	runtime.GOMAXPROCS(1)
	in := bufio.NewReaderSize(os.Stdin, 1<<16)
	out := bufio.NewWriter(os.Stdout)
	for {
		line, err := in.ReadString('\n')
		if err != nil {
			os.Exit(0)
		}
		line = strings.TrimSuffix(line, "\n")
		if line == "quit" {
			out.Flush()
			os.Exit(0)
		}
		var hist []string
		if line != "" {
			hist = strings.Split(line, ",")
		}
		res := replay(hist)
		b, _ := json.Marshal(res)
		out.Write(b)
		out.WriteByte('\n')
		if in.Buffered() == 0 {
			out.Flush()
		}
	}
}

func opsSinceTick(hist []string) (ops int, late bool, flooded bool, anyFlood bool) {
	for i := len(hist) - 1; i >= 0; i-- {
		if hist[i] == "tick" || hist[i] == "rev" {
			break
		}
		switch {
		case hist[i] == "late":
			late = true
		case hist[i] == "flood":
			flooded = true
		default:
			ops++
		}
	}
	for _, e := range hist {
		if e == "flood" {
			anyFlood = true
		}
	}
	return
}

// phase A: the alphabet of the design.
func enabledA(sessDelays [][]int, maxOps int) func(hist []string) []string {
	return func(hist []string) []string {
		ops, late, _, _ := opsSinceTick(hist)
		out := []string{"tick", "rev"}
		if !late {
			out = append(out, "late")
		}
		// symmetry breaking: s1 is only used after s0 has been (the sessions are interchangeable)
		used0 := false
		for _, e := range hist {
			if strings.HasPrefix(e, "add 0") || strings.HasPrefix(e, "rm 0") {
				used0 = true
			}
		}
		if ops < maxOps {
			for s := 0; s < len(sessDelays); s++ {
				if s == 1 && !used0 {
					break
				}
				for _, d := range sessDelays[s] {
					out = append(out, fmt.Sprintf("add %d %d", s, d))
				}
				out = append(out, fmt.Sprintf("rm %d", s))
			}
		}
		return out
	}
}

// phase B: saturation of the pipeline (one flood of cap(pipeline) Adds by other sessions).
func enabledB(hist []string) []string {
	_, late, flooded, anyFlood := opsSinceTick(hist)
	out := []string{"tick", "rev"}
	if !late {
		out = append(out, "late")
	}
	out = append(out, "add 0 5", "add 0 10")
	if !anyFlood {
		out = append(out, "flood")
	}
	// a Remove on a full pipeline parks its caller until the next tick: at most one of them
	rmSinceFlood := false
	for i := len(hist) - 1; i >= 0 && hist[i] != "tick" && hist[i] != "rev" && hist[i] != "flood"; i-- {
		if hist[i] == "rm 0" {
			rmSinceFlood = true
		}
	}
	if !flooded || !rmSinceFlood {
		out = append(out, "rm 0")
	}
	return out
}

func main() {
	gx.Quiet()
	if os.Getenv("C37_CHILD") != "" {
		childLoop()
	}
	r := ev.Start("C37", "model_checking")
	var c caseT
	if r.ReplayCase(&c) {
		res := replay(c.Events)
		fmt.Printf("replay phase=%s events=%v\n  outcome=%q violation=%q\n", c.Phase, c.Events, res.Outcome, res.Violation)
		if res.Violation != "" {
			r.Violation(ev.Witness{Summary: res.Violation + " — history: " + strings.Join(c.Events, "; "), Features: res.Features, Case: c})
		}
		r.Finish()
	}

	nw := runtime.NumCPU()
	startPool(nw)
	type phase struct {
		name    string
		depth   int
		enabled func([]string) []string
	}
	envInt := func(k string, def int) int {
		if v, err := strconv.Atoi(os.Getenv(k)); err == nil {
			return v
		}
		return def
	}
	d1, k1 := envInt("C37_D1", r.Pick(6, 10)), envInt("C37_K1", r.Pick(3, 4))
	d2, k2 := envInt("C37_D2", r.Pick(5, 6)), envInt("C37_K2", r.Pick(2, 3))
	dB := envInt("C37_DB", r.Pick(5, 7))
	// two-session phase: the quick tier uses 1 tick, N, N+1 ticks and 1.4 ticks for both
	// sessions (same list for both: the symmetry reduction needs it), thorough the full list
	delays2 := delays
	if r.Quick() {
		delays2 = []int{5, 15, 20, 7}
	}
	phases := []phase{
		{"A1-one-session", d1, enabledA([][]int{delays}, k1)},
		{"A2-two-sessions", d2, enabledA([][]int{delays2, delays2}, k2)},
		{"B-saturation", dB, enabledB},
	}
	var states, trans int64
	per := map[string]interface{}{}
	for _, ph := range phases {
		ph := ph
		nViol := 0
		phStart := time.Now()
		st := xstate.BFS(xstate.Spec[string]{
			Replay:   remoteReplay,
			Enabled:  ph.enabled,
			MaxDepth: ph.depth,
			Workers:  nw * batchMax,
			Stop:     r.TimeUp,
			OnViolation: func(hist []string, res xstate.Result) {
				nViol++
				f := map[string]string{"phase": ph.name}
				for k, v := range res.Features {
					f[k] = v
				}
				r.Violation(ev.Witness{Summary: res.Violation + " — history: " + strings.Join(hist, "; "), Features: f, Case: caseT{ph.name, hist}})
			},
			OnOutcome: func(o string) {
				r.Distinct("outcomes", ph.name+"|"+o)
				if strings.Contains(o, "fire(") {
					r.Distinct("firing_outcomes", o)
				}
			},
		})
		states += st.States
		trans += st.Transitions
		per[ph.name] = map[string]interface{}{"max_depth": ph.depth, "depth_reached": st.MaxDepth, "states": st.States,
			"transitions": st.Transitions, "violating_histories": nViol, "frontier_per_depth": st.PerDepth, "complete": !st.Capped, "wall_s": time.Since(phStart).Seconds()}
		if st.Capped {
			r.Capped(fmt.Sprintf("phase %s: time budget used up at depth %d of %d", ph.name, st.MaxDepth, ph.depth))
		}
	}
	stopPool()
	if r.DistinctN("firing_outcomes") < 4 {
		ev.Fatalf("C37 harness is vacuous: only %d distinct firing outcomes", r.DistinctN("firing_outcomes"))
	}
	r.Set("states", states)
	r.Set("transitions", trans)
	r.Set("traces_validated_against_impl", trans)
	r.Set("phases", per)
	r.Set("bounds", fmt.Sprintf("tick=%ds buckets=%d sessions=2 delays(s)=%v (two-session phase: %v) ops-per-tick-interval<=%d/%d (phase A1/A2); positions of an operation: at the boundary just after a tick, or %ds later (1s before the next tick); phase B: one flood of cap(pipeline) Adds by filler sessions", tickS, nBucket, delays, delays2, k1, k2, lateOff))
	r.Set("explanation", "states = distinct canonical (wheel contents relative to currentIndex + queued pipeline + oracle model) states; transitions = histories replayed on a fresh real TimeWheel with its real goroutine loop (every transition is executed on the implementation)")
	r.Sample(caseT{"A2-two-sessions", []string{"add 0 15", "tick", "late", "add 1 7", "tick", "tick", "tick"}})
	r.Sample(caseT{"A1-one-session", []string{"add 0 30", "tick", "add 0 5", "rm 1", "tick", "tick"}})
	r.Sample(caseT{"B-saturation", []string{"add 0 10", "tick", "flood", "add 0 10", "tick", "tick"}})
	r.Sample(caseT{"B-saturation", []string{"add 0 5", "tick", "flood", "rm 0", "tick"}})
	r.Assume("ticks are exactly one tick period apart on the logical clock (the real loop's Sleep(tick)+processing drift is not modelled)")
	r.Assume("callbacks are observed at the tick that started them (the harness waits for goroutine quiescence after every step)")
	r.Finish()
}
