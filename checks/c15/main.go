// C15: binding parameters preserves their values and cannot change the statement.
//
// Engine: enum. For every (template, session sql_mode, parameter values) case a fresh real
// session (ref/sessrig_stmt) optionally sets sql_mode, prepares the template and executes it
// with a COM_STMT_EXECUTE packet built here from the protocol specification. The statement
// text that reaches the fake backend — together with the sql_mode the proxy applied to that
// backend connection — is tokenised by the independent lexer ref/mylex under that sql_mode.
// Oracle: the token stream is the template's with every '?' replaced by exactly one literal
// that denotes the bound value (bytes for strings/blobs, number for numbers, NULL, calendar
// value for temporals) — or the execute fails.
package main

import (
	"encoding/binary"
	"fmt"
	"math"
	"math/big"
	"strconv"
	"strings"
	"sync/atomic"

	"github.com/XiaoMi/Gaea/mysql"
	"github.com/XiaoMi/Gaea/proxy/server"

	"verif/engine/enum"
	"verif/engine/ev"
	"verif/engine/gx"
	"verif/ref/mylex"
	sessrig "verif/ref/sessrig_stmt"
)

// ---------- case description (replayable) ----------

type param struct {
	T    byte   `json:"type"`     // protocol type code
	U    bool   `json:"unsigned"` // unsigned flag
	Raw  []byte `json:"raw"`      // wire encoding of the value (as in the packet)
	Null int    `json:"null"`     // 0 value, 1 NULL through the bitmap, 2 NULL through type 6
	Name string `json:"name"`     // human-readable description
}

type tcase struct {
	Tpl    int     `json:"template"`
	Mode   int     `json:"mode"`
	Params []param `json:"params"`
	// ExecModes (optional): the statement is prepared under Mode and then executed once per
	// entry, the session's sql_mode being changed to that entry first (nil = one execute
	// under Mode)
	ExecModes []int `json:"exec_modes,omitempty"`
	// Pre (optional): an execute of the same statement sent BEFORE the judged one(s), with
	// its own values — typically one the proxy refuses (a non-finite float after a good first
	// parameter). Whatever it does, the following executes must carry their own values only.
	Pre  []param `json:"pre,omitempty"`
	Text string  `json:"text,omitempty"`
}

type template struct {
	sql string
	n   int
	// intOnly marks parameter positions (LIMIT) that only take integers in MySQL
	intOnly []bool
}

var templates = []template{
	{"select * from t where a = ?", 1, []bool{false}},
	{"insert into t (a, b) values (?, ?)", 2, []bool{false, false}},
	{"select * from t where a = ? and b <> ? limit ?", 3, []bool{false, false, true}},
	{"update t set a = ?, b = ? where c = ? or d = ?", 4, []bool{false, false, false, false}},
}

// the lower-case spelling was added with the repair of the NO_BACKSLASH_ESCAPES finding: the mode
// name a client sends is case-insensitive in MySQL
var modes = []string{"", "NO_BACKSLASH_ESCAPES", "ANSI_QUOTES", "no_backslash_escapes,ansi_quotes"}

// ---------- independent decoding of a parameter: what value was bound ----------

type expect struct {
	kind string // str int f32 f64 date datetime time null
	b    []byte
	i    *big.Int
	f    float64
	// temporal components
	neg                      bool
	y, mo, d, h, mi, s, usec int
}

func lenenc(b []byte) []byte {
	n := len(b)
	switch {
	case n < 251:
		return append([]byte{byte(n)}, b...)
	case n < 1<<16:
		return append([]byte{0xfc, byte(n), byte(n >> 8)}, b...)
	default:
		return append([]byte{0xfd, byte(n), byte(n >> 8), byte(n >> 16)}, b...)
	}
}

func unlenenc(raw []byte) []byte {
	switch {
	case raw[0] < 251:
		return raw[1 : 1+int(raw[0])]
	case raw[0] == 0xfc:
		return raw[3 : 3+int(binary.LittleEndian.Uint16(raw[1:3]))]
	default:
		n := int(raw[1]) | int(raw[2])<<8 | int(raw[3])<<16
		return raw[4 : 4+n]
	}
}

func isStringType(t byte) bool {
	switch t {
	case mysql.TypeDecimal, mysql.TypeNewDecimal, mysql.TypeVarchar, mysql.TypeBit, mysql.TypeEnum, mysql.TypeSet,
		mysql.TypeTinyBlob, mysql.TypeMediumBlob, mysql.TypeLongBlob, mysql.TypeBlob, mysql.TypeVarString,
		mysql.TypeString, mysql.TypeGeometry, mysql.TypeJSON:
		return true
	}
	return false
}

// expected decodes p per the MySQL binary protocol (independently of Gaea).
func expected(p param) expect {
	if p.Null != 0 || p.T == mysql.TypeNull {
		return expect{kind: "null"}
	}
	r := p.Raw
	sgn := func(u uint64, bits uint) *big.Int {
		if p.U {
			return new(big.Int).SetUint64(u)
		}
		shift := 64 - bits
		return big.NewInt(int64(u<<shift) >> shift)
	}
	switch p.T {
	case mysql.TypeTiny:
		return expect{kind: "int", i: sgn(uint64(r[0]), 8)}
	case mysql.TypeShort, mysql.TypeYear:
		return expect{kind: "int", i: sgn(uint64(binary.LittleEndian.Uint16(r)), 16)}
	case mysql.TypeInt24, mysql.TypeLong:
		return expect{kind: "int", i: sgn(uint64(binary.LittleEndian.Uint32(r)), 32)}
	case mysql.TypeLonglong:
		return expect{kind: "int", i: sgn(binary.LittleEndian.Uint64(r), 64)}
	case mysql.TypeFloat:
		return expect{kind: "f32", f: float64(math.Float32frombits(binary.LittleEndian.Uint32(r)))}
	case mysql.TypeDouble:
		return expect{kind: "f64", f: math.Float64frombits(binary.LittleEndian.Uint64(r))}
	case mysql.TypeDate, mysql.TypeNewDate, mysql.TypeDatetime, mysql.TypeTimestamp:
		e := expect{kind: "datetime"}
		if p.T == mysql.TypeDate || p.T == mysql.TypeNewDate {
			e.kind = "date"
		}
		n := int(r[0])
		d := r[1:]
		if n >= 4 {
			e.y, e.mo, e.d = int(binary.LittleEndian.Uint16(d)), int(d[2]), int(d[3])
		}
		if n >= 7 {
			e.h, e.mi, e.s = int(d[4]), int(d[5]), int(d[6])
		}
		if n >= 11 {
			e.usec = int(binary.LittleEndian.Uint32(d[7:]))
		}
		return e
	case mysql.TypeDuration:
		e := expect{kind: "time"}
		n := int(r[0])
		d := r[1:]
		if n >= 8 {
			e.neg = d[0] == 1
			days := int(binary.LittleEndian.Uint32(d[1:]))
			e.h, e.mi, e.s = days*24+int(d[5]), int(d[6]), int(d[7])
		}
		if n >= 12 {
			e.usec = int(binary.LittleEndian.Uint32(d[8:]))
		}
		return e
	}
	if isStringType(p.T) {
		return expect{kind: "str", b: unlenenc(r)}
	}
	ev.Fatalf("harness: no decoder for type %d", p.T)
	return expect{}
}

// ---------- value universes ----------

var strAlphabet = []byte{'a', '\'', '"', '\\', 0, '\n', 0x1a, '%', 0x80, 0xff}

func strParam(t byte, b []byte) param {
	return param{T: t, Raw: lenenc(b), Name: fmt.Sprintf("type%d:%q", t, b)}
}

func allStrings(maxLen int) [][]byte {
	out := [][]byte{{}}
	for l := 1; l <= maxLen; l++ {
		dims := make([]int, l)
		for i := range dims {
			dims[i] = len(strAlphabet)
		}
		enum.Product(dims, func(idx []int) {
			b := make([]byte, l)
			for i, x := range idx {
				b[i] = strAlphabet[x]
			}
			out = append(out, b)
		})
	}
	return out
}

func le(n int, v uint64) []byte {
	b := make([]byte, 8)
	binary.LittleEndian.PutUint64(b, v)
	return b[:n]
}

func intParams() []param {
	var out []param
	add := func(t byte, n int, name string, vals ...uint64) {
		for _, v := range vals {
			for _, u := range []bool{false, true} {
				out = append(out, param{T: t, U: u, Raw: le(n, v), Name: fmt.Sprintf("%s/u=%v:%#x", name, u, v)})
			}
		}
	}
	add(mysql.TypeTiny, 1, "tiny", 0, 1, 0x7f, 0x80, 0xff)
	add(mysql.TypeShort, 2, "short", 0, 1, 0x7fff, 0x8000, 0xffff)
	add(mysql.TypeYear, 2, "year", 0, 1901, 2155)
	add(mysql.TypeInt24, 4, "int24", 0, 0x7fffff, 0xff800000, 0xffffffff)
	add(mysql.TypeLong, 4, "long", 0, 1, 0x7fffffff, 0x80000000, 0xffffffff)
	add(mysql.TypeLonglong, 8, "longlong", 0, 1, 0x7fffffffffffffff, 0x8000000000000000, 0xffffffffffffffff)
	return out
}

func floatParams(exotic bool) []param {
	var out []param
	f32 := []float32{0, float32(math.Copysign(0, -1)), 1.5, -1.5, 0.1, 1e-7, 1e21, math.MaxFloat32, math.SmallestNonzeroFloat32}
	f64 := []float64{0, math.Copysign(0, -1), 1.5, -1.5, 0.1, 1e-7, 1e21, 123456789012345680, math.MaxFloat64, math.SmallestNonzeroFloat64}
	if exotic {
		f32 = append(f32, float32(math.NaN()), float32(math.Inf(1)), float32(math.Inf(-1)))
		f64 = append(f64, math.NaN(), math.Inf(1), math.Inf(-1))
	}
	for _, f := range f32 {
		out = append(out, param{T: mysql.TypeFloat, Raw: le(4, uint64(math.Float32bits(f))), Name: fmt.Sprintf("float:%v", f)})
	}
	for _, f := range f64 {
		out = append(out, param{T: mysql.TypeDouble, Raw: le(8, math.Float64bits(f)), Name: fmt.Sprintf("double:%v", f)})
	}
	return out
}

func dt(n int, y, mo, d, h, mi, s, us int) []byte {
	b := []byte{byte(n), byte(y), byte(y >> 8), byte(mo), byte(d), byte(h), byte(mi), byte(s), byte(us), byte(us >> 8), byte(us >> 16), byte(us >> 24)}
	return b[:1+n]
}

func tm(n int, neg bool, days, h, mi, s, us int) []byte {
	sg := byte(0)
	if neg {
		sg = 1
	}
	b := []byte{byte(n), sg, byte(days), byte(days >> 8), byte(days >> 16), byte(days >> 24), byte(h), byte(mi), byte(s), byte(us), byte(us >> 8), byte(us >> 16), byte(us >> 24)}
	return b[:1+n]
}

func temporalParams() []param {
	var out []param
	for _, t := range []byte{mysql.TypeDate, mysql.TypeNewDate} {
		out = append(out,
			param{T: t, Raw: dt(0, 0, 0, 0, 0, 0, 0, 0), Name: "date/len0"},
			param{T: t, Raw: dt(4, 2015, 8, 4, 0, 0, 0, 0), Name: "date/len4"},
			param{T: t, Raw: dt(4, 1000, 1, 1, 0, 0, 0, 0), Name: "date/len4/min"},
			param{T: t, Raw: dt(4, 9999, 12, 31, 0, 0, 0, 0), Name: "date/len4/max"},
			param{T: t, Raw: dt(4, 2021, 0, 0, 0, 0, 0, 0), Name: "date/len4/zero-in-date"},
			param{T: t, Raw: dt(7, 2015, 8, 4, 0, 0, 0, 0), Name: "date/len7/midnight"},
		)
	}
	for _, t := range []byte{mysql.TypeDatetime, mysql.TypeTimestamp} {
		out = append(out,
			param{T: t, Raw: dt(0, 0, 0, 0, 0, 0, 0, 0), Name: "datetime/len0"},
			param{T: t, Raw: dt(4, 2015, 8, 4, 0, 0, 0, 0), Name: "datetime/len4"},
			param{T: t, Raw: dt(7, 2015, 8, 4, 23, 59, 58, 0), Name: "datetime/len7"},
			param{T: t, Raw: dt(7, 9999, 12, 31, 23, 59, 59, 0), Name: "datetime/len7/max"},
			param{T: t, Raw: dt(11, 2015, 8, 4, 1, 2, 3, 1), Name: "datetime/len11/1us"},
			param{T: t, Raw: dt(11, 2015, 8, 4, 1, 2, 3, 999999), Name: "datetime/len11/999999us"},
		)
	}
	out = append(out,
		param{T: mysql.TypeDuration, Raw: tm(0, false, 0, 0, 0, 0, 0), Name: "time/len0"},
		param{T: mysql.TypeDuration, Raw: tm(8, false, 0, 0, 0, 0, 0), Name: "time/len8/zero"},
		param{T: mysql.TypeDuration, Raw: tm(8, false, 0, 1, 2, 3, 0), Name: "time/len8"},
		param{T: mysql.TypeDuration, Raw: tm(8, true, 0, 1, 2, 3, 0), Name: "time/len8/neg"},
		param{T: mysql.TypeDuration, Raw: tm(8, false, 1, 0, 0, 0, 0), Name: "time/len8/24h"},
		param{T: mysql.TypeDuration, Raw: tm(8, false, 34, 22, 59, 59, 0), Name: "time/len8/max"},
		param{T: mysql.TypeDuration, Raw: tm(8, true, 34, 22, 59, 59, 0), Name: "time/len8/min"},
		param{T: mysql.TypeDuration, Raw: tm(12, false, 0, 1, 2, 3, 1), Name: "time/len12/1us"},
		param{T: mysql.TypeDuration, Raw: tm(12, true, 34, 22, 59, 58, 999999), Name: "time/len12/neg/999999us"},
	)
	return out
}

var stringTypes = []byte{mysql.TypeVarString, mysql.TypeBlob, mysql.TypeString, mysql.TypeVarchar, mysql.TypeDecimal,
	mysql.TypeNewDecimal, mysql.TypeBit, mysql.TypeEnum, mysql.TypeSet, mysql.TypeTinyBlob, mysql.TypeMediumBlob,
	mysql.TypeLongBlob, mysql.TypeGeometry, mysql.TypeJSON}

func nullParams() []param {
	return []param{
		{T: mysql.TypeVarString, Null: 1, Name: "null/bitmap"},
		{T: mysql.TypeNull, Null: 2, Name: "null/type"},
		{T: mysql.TypeLong, Null: 1, Raw: nil, Name: "null/bitmap/long"},
		{T: mysql.TypeVarString, Raw: []byte{0xfb}, Null: 3, Name: "null/lenenc-0xfb"},
	}
}

// singleValues is the full one-parameter value universe.
func singleValues(thorough bool) []param {
	var out []param
	for _, b := range allStrings(3) {
		out = append(out, strParam(mysql.TypeVarString, b), strParam(mysql.TypeBlob, b))
	}
	long := make([]byte, 300)
	for i := range long {
		long[i] = strAlphabet[i%len(strAlphabet)]
	}
	out = append(out, strParam(mysql.TypeVarString, long), strParam(mysql.TypeLongBlob, long))
	// well-formed multi-byte UTF-8 (added after seeded change c15-1 was only seen through the
	// NO_BACKSLASH_ESCAPES modes): characters whose code point has a low byte that is an
	// escapable ASCII byte (00 08 09 0a 0d 1a 22 27 5c) next to ordinary ones, so that an
	// escaper working on runes but indexing its table with byte(rune) is visible
	for _, u := range []string{"ħ", "Ŝ", "Ā", "Ĉ", "ĉ", "Ċ", "č", "Ě", "Ģ", "一", "上", "😀", "é", "中文", "aħb", "第一行, 上丧", "ħ'", "\\Ŝ"} {
		out = append(out, strParam(mysql.TypeVarString, []byte(u)), strParam(mysql.TypeBlob, []byte(u)))
	}
	// every string-like type code with the short strings
	for _, t := range stringTypes[2:] {
		for _, b := range allStrings(1) {
			out = append(out, strParam(t, b))
		}
		out = append(out, strParam(t, []byte("1.50")), strParam(t, []byte("a\\'b")))
	}
	out = append(out, intParams()...)
	out = append(out, floatParams(true)...)
	out = append(out, temporalParams()...)
	out = append(out, nullParams()...)
	return out
}

// mixValues is the reduced universe used in multi-parameter templates.
func mixValues() []param {
	var out []param
	for _, s := range []string{"", "a", "'", "\\", "\"", "\x00", "\\'", "'\\", "a' or '1'='1", "\\' or 1=1 -- ", "';drop table t;--", "\xff'"} {
		out = append(out, strParam(mysql.TypeVarString, []byte(s)))
	}
	out = append(out,
		param{T: mysql.TypeLonglong, Raw: le(8, 0x8000000000000000), Name: "longlong/min"},
		param{T: mysql.TypeLonglong, U: true, Raw: le(8, 0xffffffffffffffff), Name: "longlong/umax"},
		param{T: mysql.TypeTiny, Raw: le(1, 0xff), Name: "tiny/-1"},
		param{T: mysql.TypeDouble, Raw: le(8, math.Float64bits(-1.5)), Name: "double/-1.5"},
		param{T: mysql.TypeDatetime, Raw: dt(11, 2015, 8, 4, 1, 2, 3, 1), Name: "datetime/len11"},
		param{T: mysql.TypeDuration, Raw: tm(8, true, 0, 1, 2, 3, 0), Name: "time/len8/neg"},
		param{T: mysql.TypeVarString, Null: 1, Name: "null/bitmap"},
		param{T: mysql.TypeNull, Null: 2, Name: "null/type"},
	)
	return out
}

func limitValues() []param {
	return []param{
		{T: mysql.TypeLonglong, Raw: le(8, 0), Name: "limit/0"},
		{T: mysql.TypeLong, Raw: le(4, 10), Name: "limit/10"},
		{T: mysql.TypeLonglong, U: true, Raw: le(8, 0xffffffffffffffff), Name: "limit/umax"},
	}
}

// ---------- packet ----------

func executePacket(id uint32, ps []param) []byte {
	n := len(ps)
	pkt := []byte{byte(id), byte(id >> 8), byte(id >> 16), byte(id >> 24), 0, 1, 0, 0, 0}
	bitmap := make([]byte, (n+7)/8)
	for i, p := range ps {
		if p.Null == 1 {
			bitmap[i/8] |= 1 << (uint(i) % 8)
		}
	}
	pkt = append(pkt, bitmap...)
	pkt = append(pkt, 1)
	for _, p := range ps {
		fl := byte(0)
		if p.U {
			fl = 0x80
		}
		pkt = append(pkt, p.T, fl)
	}
	for _, p := range ps {
		if p.Null == 1 || p.Null == 2 {
			continue
		}
		pkt = append(pkt, p.Raw...)
	}
	return pkt
}

// ---------- oracle ----------

func parseTemporal(s string) (neg bool, y, mo, d, h, mi, sec, us int, hasDate, hasTime, ok bool) {
	rest := s
	if strings.Count(rest, "-") >= 2 && !strings.HasPrefix(rest, "-") {
		dp := rest
		if i := strings.IndexByte(rest, ' '); i >= 0 {
			dp, rest = rest[:i], rest[i+1:]
		} else {
			rest = ""
		}
		parts := strings.Split(dp, "-")
		if len(parts) != 3 {
			return
		}
		var e1, e2, e3 error
		y, e1 = strconv.Atoi(parts[0])
		mo, e2 = strconv.Atoi(parts[1])
		d, e3 = strconv.Atoi(parts[2])
		if e1 != nil || e2 != nil || e3 != nil {
			return
		}
		hasDate = true
	}
	if rest != "" {
		if strings.HasPrefix(rest, "-") {
			neg = true
			rest = rest[1:]
		}
		frac := ""
		if i := strings.IndexByte(rest, '.'); i >= 0 {
			rest, frac = rest[:i], rest[i+1:]
		}
		parts := strings.Split(rest, ":")
		if len(parts) != 3 {
			return
		}
		var e1, e2, e3 error
		h, e1 = strconv.Atoi(parts[0])
		mi, e2 = strconv.Atoi(parts[1])
		sec, e3 = strconv.Atoi(parts[2])
		if e1 != nil || e2 != nil || e3 != nil {
			return
		}
		if frac != "" {
			if len(frac) > 6 {
				return
			}
			f, err := strconv.Atoi(frac + strings.Repeat("0", 6-len(frac)))
			if err != nil {
				return
			}
			us = f
		}
		hasTime = true
	}
	ok = hasDate || hasTime
	return
}

// matchLiteral consumes the literal for one parameter from toks; returns the number of
// tokens consumed, or a reason why the literal does not denote e.
func matchLiteral(toks []mylex.Token, e expect) (int, string) {
	if len(toks) == 0 {
		return 0, "statement ends where the parameter's literal should be"
	}
	t := toks[0]
	switch e.kind {
	case "null":
		if t.Kind == mylex.Word && strings.EqualFold(t.Text, "NULL") {
			return 1, ""
		}
		return 0, fmt.Sprintf("expected NULL, found %s %q", t.Kind, t.Text)
	case "str":
		if t.Kind != mylex.String {
			return 0, fmt.Sprintf("expected a string literal, found %s %q", t.Kind, t.Text)
		}
		if t.Val != string(e.b) {
			return 0, fmt.Sprintf("string literal %s denotes %q, bound value is %q", t.Text, t.Val, e.b)
		}
		return 1, ""
	case "int", "f32", "f64":
		n := 0
		neg := false
		if t.Kind == mylex.Op && t.Text == "-" {
			neg = true
			n = 1
			if len(toks) < 2 {
				return 0, "lone minus sign"
			}
			t = toks[1]
		}
		if t.Kind != mylex.Number {
			return 0, fmt.Sprintf("expected a numeric literal, found %s %q", t.Kind, t.Text)
		}
		if e.kind == "int" {
			v, ok := new(big.Int).SetString(t.Text, 10)
			if !ok {
				return 0, fmt.Sprintf("numeric literal %q is not an integer", t.Text)
			}
			if neg {
				v.Neg(v)
			}
			if v.Cmp(e.i) != 0 {
				return 0, fmt.Sprintf("integer literal denotes %s, bound value is %s", v, e.i)
			}
			return n + 1, ""
		}
		bits := 64
		if e.kind == "f32" {
			bits = 32
		}
		v, err := strconv.ParseFloat(t.Text, bits)
		if err != nil {
			return 0, fmt.Sprintf("numeric literal %q: %v", t.Text, err)
		}
		if neg {
			v = -v
		}
		if v != e.f {
			return 0, fmt.Sprintf("float literal denotes %v, bound value is %v", v, e.f)
		}
		return n + 1, ""
	case "date", "datetime", "time":
		if t.Kind != mylex.String {
			return 0, fmt.Sprintf("expected a quoted temporal literal, found %s %q", t.Kind, t.Text)
		}
		neg, y, mo, d, h, mi, s, us, hasDate, hasTime, ok := parseTemporal(t.Val)
		if !ok {
			return 0, fmt.Sprintf("temporal literal %q is not of the form [Y-M-D][ ][-]h:m:s[.f]", t.Val)
		}
		if e.kind == "time" {
			if hasDate {
				return 0, fmt.Sprintf("TIME value %s%d:%02d:%02d.%06d bound, literal %q is a date", sign(e.neg), e.h, e.mi, e.s, e.usec, t.Val)
			}
		} else if !hasDate {
			return 0, fmt.Sprintf("date value bound, literal %q has no date part", t.Val)
		}
		_ = hasTime
		if neg != e.neg || y != e.y || mo != e.mo || d != e.d || h != e.h || mi != e.mi || s != e.s || us != e.usec {
			return 0, fmt.Sprintf("temporal literal %q differs from the bound value %s%04d-%02d-%02d %d:%02d:%02d.%06d", t.Val, sign(e.neg), e.y, e.mo, e.d, e.h, e.mi, e.s, e.usec)
		}
		return 1, ""
	}
	return 0, "harness: unknown kind"
}

func sign(neg bool) string {
	if neg {
		return "-"
	}
	return ""
}

// valueClass describes a string value for signatures.
func valueClass(b []byte) string {
	var c []string
	if strings.ContainsRune(string(b), '\\') {
		c = append(c, "backslash")
	}
	if strings.ContainsRune(string(b), '\'') {
		c = append(c, "quote")
	}
	if len(c) == 0 {
		return "plain"
	}
	return strings.Join(c, "+")
}

func typeClass(p param) string {
	switch {
	case p.Null != 0 || p.T == mysql.TypeNull:
		return "null"
	case isStringType(p.T):
		return "string"
	case p.T == mysql.TypeFloat || p.T == mysql.TypeDouble:
		return "float"
	case p.T == mysql.TypeDuration:
		return "time"
	case p.T == mysql.TypeDate || p.T == mysql.TypeNewDate:
		return "date"
	case p.T == mysql.TypeDatetime || p.T == mysql.TypeTimestamp:
		return "datetime"
	}
	return "int"
}

var nEval, nExecuted, nRefused, nHistories, nAfterRefused int64

// historyClass names the shape of a case's sql_mode history (feature + coverage).
func historyClass(c tcase) string {
	if c.ExecModes == nil {
		return "single"
	}
	cl := "same_mode"
	if c.ExecModes[0] != c.Mode {
		cl = "changed_after_prepare"
	}
	for i := 1; i < len(c.ExecModes); i++ {
		if c.ExecModes[i] != c.ExecModes[i-1] {
			if cl == "same_mode" {
				cl = "changed_between_executes"
			} else {
				cl = "changed_after_prepare_and_between_executes"
			}
			break
		}
	}
	return cl
}

// runCase: SET sql_mode (c.Mode) ; PREPARE ; then one execute per entry of c.ExecModes (nil =
// one execute under c.Mode), each preceded by SET sql_mode if the mode differs from the one
// in force. Every execute is judged under the mode in force when it is executed.
func runCase(r *ev.Run, c tcase) {
	atomic.AddInt64(&nEval, 1)
	tpl := templates[c.Tpl]
	rig := sessrig.Acquire()
	defer sessrig.Release(rig)
	s := rig.NewSession(false)
	setMode := func(m int) {
		if err := s.Query("set sql_mode='" + modes[m] + "'"); err != nil {
			ev.Fatalf("harness: set sql_mode failed: %v", err)
		}
	}
	if modes[c.Mode] != "" {
		setMode(c.Mode)
	}
	resp := s.Cmd(mysql.ComStmtPrepare, []byte(tpl.sql))
	id, count, _, ok := server.VerifStmtOf(resp)
	if !ok || count != tpl.n {
		ev.Fatalf("harness: prepare %q: ok=%v count=%d", tpl.sql, ok, count)
	}
	execModes := c.ExecModes
	if execModes == nil {
		execModes = []int{c.Mode}
	} else {
		atomic.AddInt64(&nHistories, 1)
	}
	hist := historyClass(c)
	cur := c.Mode
	if c.Pre != nil {
		pc := c
		pc.Params = c.Pre
		ok, refused := runExecute(r, pc, rig, s, id, -1, cur, "pre_execute")
		if !ok && !refused {
			return // the pre-execute itself violated the property (reported)
		}
		if refused {
			atomic.AddInt64(&nAfterRefused, 1)
			hist = "after_refused_execute"
		} else {
			hist = "after_successful_execute"
		}
	}
	for step, em := range execModes {
		if em != cur {
			setMode(em)
			cur = em
		}
		if ok, _ := runExecute(r, c, rig, s, id, step, em, hist); !ok {
			return
		}
	}
	if c.ExecModes != nil {
		r.Distinct("mode_histories", fmt.Sprintf("%d>%v", c.Mode, c.ExecModes))
	}
}

// runExecute performs execute number step (0-based) of the case under sql_mode index em and
// judges the statement that reaches the backend; false = stop this history.
func runExecute(r *ev.Run, c tcase, rig *sessrig.Rig, s *sessrig.Session, id uint32, step, em int, hist string) (ok bool, refused bool) {
	tpl := templates[c.Tpl]
	mode := modes[em]
	before := len(rig.Backend.Log())
	var resp2 server.Response
	if p := ev.Catch(func() { resp2 = s.Cmd(mysql.ComStmtExecute, executePacket(id, c.Params)) }); p != nil {
		// the session would be closed by Session.Run's recover: "the execute fails"
		atomic.AddInt64(&nRefused, 1)
		r.Distinct("refused", fmt.Sprint(p))
		return false, true
	}
	log := rig.Backend.Log()[before:]
	if err := sessrig.RespErr(resp2); err != nil {
		if len(log) != 0 {
			r.Violation(ev.Witness{Summary: fmt.Sprintf("execute failed (%v) but the backend was sent %q", err, log[0].SQL),
				Features: map[string]string{"kind": "failed_but_executed", "mode": mode, "history": hist}, Case: c})
			return false, false
		}
		atomic.AddInt64(&nRefused, 1)
		r.Distinct("refused", err.Error())
		return false, true
	}
	atomic.AddInt64(&nExecuted, 1)
	if len(log) != 1 {
		r.Violation(ev.Witness{Summary: fmt.Sprintf("execute of %q reached the backend %d times", tpl.sql, len(log)),
			Features: map[string]string{"kind": "backend_count", "mode": mode, "history": hist}, Case: c})
		return false, false
	}
	got := log[0].SQL
	// the sql_mode the backend parses under is the one the proxy put on the connection for
	// THIS execute; it must be the mode the session has in force now
	applied := mylex.ParseMode(log[0].SQLMode)
	if want := mylex.ParseMode(mode); applied != want {
		r.Violation(ev.Witness{Summary: fmt.Sprintf("session sql_mode %q but backend connection was given %q", mode, log[0].SQLMode),
			Features: map[string]string{"kind": "sql_mode_not_applied", "mode": mode, "history": hist}, Case: c})
		return false, false
	}
	tt := mylex.Lex(tpl.sql, applied, false)
	gt := mylex.Lex(got, applied, false)
	fail := func(i int, kind, why string) {
		feat := map[string]string{"kind": kind, "mode": mode, "ptype": "none", "value": "none", "detail": "none", "history": hist}
		if i >= 0 {
			p := c.Params[i]
			feat["ptype"] = typeClass(p)
			feat["detail"] = p.Name
			if typeClass(p) == "string" {
				feat["value"] = valueClass(unlenenc(p.Raw))
				feat["detail"] = "string"
			}
		}
		c.Text = got
		where := ""
		if c.ExecModes != nil {
			where = fmt.Sprintf(" [prepared under %q, execute %d of modes %v]", modes[c.Mode], step+1, modeNames(c.ExecModes))
		}
		r.Violation(ev.Witness{Summary: fmt.Sprintf("mode=%q%s %q bound to %v reaches the backend as %q: %s",
			mode, where, tpl.sql, names(c.Params), got, why), Features: feat, Case: c})
	}
	gi := 0
	pi := 0
	for _, t := range tt {
		if t.Kind == mylex.Param {
			e := expected(c.Params[pi])
			n, why := matchLiteral(gt[gi:], e)
			if why != "" {
				kind := "value_differs"
				if gi < len(gt) && gt[gi].Kind == mylex.Error {
					kind = "structure_changed"
				}
				fail(pi, kind, fmt.Sprintf("parameter %d: %s", pi, why))
				return false, false
			}
			gi += n
			pi++
			continue
		}
		if gi >= len(gt) || gt[gi].Kind != t.Kind || gt[gi].Text != t.Text {
			found := "end of statement"
			if gi < len(gt) {
				found = fmt.Sprintf("%s %q", gt[gi].Kind, gt[gi].Text)
			}
			// attribute to the parameter before this token
			fail(pi-1, "structure_changed", fmt.Sprintf("after parameter %d the template continues with %q, the executed statement with %s", pi-1, t.Text, found))
			return false, false
		}
		gi++
	}
	if gi != len(gt) {
		fail(pi-1, "structure_changed", fmt.Sprintf("%d extra token(s) after the end of the template, first %s %q", len(gt)-gi, gt[gi].Kind, gt[gi].Text))
		return false, false
	}
	// non-trivial: a bound value that needs quoting/escaping or a sign/exponent survived
	for _, p := range c.Params {
		if typeClass(p) == "string" && valueClass(unlenenc(p.Raw)) != "plain" {
			r.Distinct("nontrivial", fmt.Sprintf("%d/%d/%v/%d/%s", c.Tpl, c.Mode, c.ExecModes, step, names(c.Params)))
			break
		}
	}
	return true, false
}

func modeNames(ms []int) []string {
	var n []string
	for _, m := range ms {
		n = append(n, modes[m])
	}
	return n
}

func names(ps []param) string {
	var n []string
	for _, p := range ps {
		n = append(n, p.Name)
	}
	return "[" + strings.Join(n, ", ") + "]"
}

func main() {
	gx.Quiet()
	r := ev.Start("C15", "exploration")
	if err := sessrig.Init(16); err != nil {
		ev.Fatalf("sessrig: %v", err)
	}
	var rc tcase
	if r.ReplayCase(&rc) {
		runCase(r, rc)
		r.Finish()
	}

	var cases []tcase
	single := singleValues(r.Thorough())
	for m := range modes {
		for _, p := range single {
			cases = append(cases, tcase{Tpl: 0, Mode: m, Params: []param{p}})
		}
	}
	mix := mixValues()
	lim := limitValues()
	for m := range modes {
		// 2 parameters: full product of the mix universe
		for _, a := range mix {
			for _, b := range mix {
				cases = append(cases, tcase{Tpl: 1, Mode: m, Params: []param{a, b}})
			}
		}
		// 3 parameters (the last is LIMIT): product mix x mix x limit values
		for _, a := range mix {
			for _, b := range mix {
				for _, l := range lim {
					cases = append(cases, tcase{Tpl: 2, Mode: m, Params: []param{a, b, l}})
				}
			}
		}
		// 4 parameters: all vectors differing from the default ("a") in at most k positions
		k := r.Pick(2, 4)
		dims := []int{len(mix), len(mix), len(mix), len(mix)}
		def := strParam(mysql.TypeVarString, []byte("a"))
		enum.Deviations(dims, k, func(idx []int) {
			ps := make([]param, 4)
			for i, x := range idx {
				if x == 0 {
					ps[i] = def
				} else {
					ps[i] = mix[x]
				}
			}
			cases = append(cases, tcase{Tpl: 3, Mode: m, Params: ps})
		})
	}
	// sql_mode histories (added after seeded change c15-3 was missed): prepare under one mode,
	// change the session's sql_mode, execute; change again, execute again. Every prepare mode x
	// every sequence of 1..2 execute modes; one-parameter template with every mixed value,
	// two-parameter template with every pair of the escape-relevant strings.
	nBefore := len(cases)
	var esc []param
	for _, p := range mix {
		if typeClass(p) == "string" && valueClass(unlenenc(p.Raw)) != "plain" {
			esc = append(esc, p)
		}
	}
	for pm := range modes {
		var seqs [][]int
		for e1 := range modes {
			seqs = append(seqs, []int{e1})
			for e2 := range modes {
				seqs = append(seqs, []int{e1, e2})
			}
		}
		for _, sq := range seqs {
			for _, a := range mix {
				cases = append(cases, tcase{Tpl: 0, Mode: pm, Params: []param{a}, ExecModes: sq})
			}
			for _, a := range esc {
				for _, b := range esc {
					cases = append(cases, tcase{Tpl: 1, Mode: pm, Params: []param{a, b}, ExecModes: sq})
				}
			}
		}
	}
	r.Set("mode_history_cases", len(cases)-nBefore)
	// executes after a REFUSED execute of the same statement (added after seeded change c15-4):
	// the first parameter of the refused packet is a good string, the second a non-finite
	// float, so one slot has been bound when the proxy gives up; the next execute must carry
	// its own two values. Every mode x 4 refused packets x every pair of mixed values.
	nBeforePre := len(cases)
	nonFinite := []param{
		{T: mysql.TypeDouble, Raw: le(8, math.Float64bits(math.NaN())), Name: "double:NaN"},
		{T: mysql.TypeFloat, Raw: le(4, uint64(math.Float32bits(float32(math.Inf(1))))), Name: "float:+Inf"},
	}
	for m := range modes {
		for _, first := range []param{strParam(mysql.TypeVarString, []byte("STALE")), strParam(mysql.TypeBlob, []byte("ST'LE"))} {
			for _, bad := range nonFinite {
				for _, a := range mix {
					for _, b := range mix {
						cases = append(cases, tcase{Tpl: 1, Mode: m, Params: []param{a, b}, Pre: []param{first, bad}})
					}
				}
			}
		}
	}
	r.Set("after_refused_execute_cases", len(cases)-nBeforePre)
	r.Set("universe", len(cases))
	r.Set("bound", fmt.Sprintf("%d single-parameter values (all strings over a 10-byte alphabet up to length 3 as VAR_STRING and BLOB, lengths 0 and 300, every string-like type code, integer extremes of every width/signedness, floats incl. NaN/Inf, DATE/DATETIME/TIMESTAMP/TIME of every legal length, NULL three ways) x %d sql_modes; %d mixed values in 2-, 3- (x %d LIMIT values) and 4-parameter templates (4 parameters: <=%d deviations from the default); sql_mode histories: %d prepare modes x every sequence of 1..2 execute modes (SET sql_mode between PREPARE and EXECUTE and between two EXECUTEs), 1-parameter template x %d mixed values and 2-parameter template x %d^2 escape-relevant strings (%d history cases)",
		len(single), len(modes), len(mix), len(lim), r.Pick(2, 4), len(modes), len(mix), len(esc), len(cases)-nBefore))
	done := enum.Parallel(len(cases), r.TimeUp, func(i int) {
		runCase(r, cases[i])
		if i%(len(cases)/7+1) == 5 {
			r.Sample(cases[i])
		}
	})
	if done < len(cases) {
		r.Capped(fmt.Sprintf("%d of %d cases in index order", done, len(cases)))
	}
	r.Set("evaluations", nEval)
	r.Set("executed", nExecuted)
	r.Set("refused", nRefused)
	r.Set("histories_run", nHistories)
	r.Set("executes_after_a_refused_execute", nAfterRefused)
	if nExecuted == 0 {
		ev.Fatalf("vacuous run: nothing executed")
	}
	r.Set("rule", "case = (template with 1-4 placeholders, session sql_mode, one value per placeholder) or a history (sql_mode at PREPARE, then 1-2 EXECUTEs each under a possibly different sql_mode set in between); executed through prepare + COM_STMT_EXECUTE on a real session; every execute is judged on the text the fake backend receives, lexed by ref/mylex under the sql_mode the proxy applied. distinct_nontrivial = distinct passing cases in which at least one bound string contains a quote or a backslash (the literal had to be escaped and still denotes the value)")
	r.Assume("ref/mylex implements MySQL's string-literal rules (backslash escapes unless NO_BACKSLASH_ESCAPES, doubled quotes, ANSI_QUOTES); connection charset without 0x5c/0x27 trail bytes")
	r.Assume("the backend parses under the sql_mode the proxy hands to PooledConnect.SetSessionVariables (checked to equal the session's sql_mode)")
	r.Assume("float parameters: the literal must round-trip at the parameter's own precision (float32 / float64); DECIMAL and other length-encoded types are text on the wire and must arrive as a string literal with the same bytes")
	r.Finish()
}
