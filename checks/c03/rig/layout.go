package rig

import (
	"fmt"
	"time"

	"github.com/XiaoMi/Gaea/models"
)

// Layout is one member of the layout universe L of DESIGN.md §4: a rule type, whether the
// statement targets the rule's own table or a linked child of it, and slices x tables per
// slice (for calendar rules: periods per slice).
type Layout struct {
	Rule   string `json:"rule"` // hash mod range date_year date_month date_day mycat_* global
	Linked bool   `json:"linked"`
	// OwnKey (with Linked): the child table is t3, whose sharding column (uid) is named
	// differently from the parent's (id / ct); t3 also has a column with the parent's name.
	OwnKey bool `json:"own_key,omitempty"`
	Slices int  `json:"slices"`
	Per    int  `json:"per"`
}

func (l Layout) String() string {
	s := l.Rule
	if l.Linked {
		s = "linked->" + s
	}
	if l.OwnKey {
		s = "linked(uid)->" + l.Rule
	}
	return fmt.Sprintf("%s/%dx%d", s, l.Slices, l.Per)
}

// RuleTypes is every sharding rule type of the layout universe (without linked / global).
var RuleTypes = []string{models.ShardHash, models.ShardMod, models.ShardRange,
	models.ShardYear, models.ShardMonth, models.ShardDay,
	models.ShardMycatMod, models.ShardMycatLong, models.ShardMycatString,
	models.ShardMycatMURMUR, models.ShardMycatPaddingMod}

// Loc is one physical table.
type Loc struct {
	Index int    // table index in the rule
	Slice string // slice it lives on
	DB    string // physical database
	Table string // physical table name
}

func (l Loc) String() string { return l.Slice + "/" + l.DB + "." + l.Table }

// Period is one configured calendar period of a date rule.
type Period struct {
	Num        int // table index: 2014 / 201411 / 20140227
	Start, End time.Time
}

// Built is a layout with its router and the reference placement table.
type Built struct {
	Layout Layout
	Env    *Env
	Table  string // logical table the statements of this layout target: t, t2 or g
	KeyCol string // sharding column of that table ("" for the global table)
	// ParentKeyCol (OwnKey layouts): the name of the parent's sharding column, which the
	// child table has as an ordinary column
	ParentKeyCol string
	Locs         []Loc    // physical tables of Table, by position
	Calendar     string   // "", "year", "month", "day"
	Periods      []Period // configured periods (calendar rules), in order
	Gap          *Period  // an unconfigured period between two slices (calendar, >=2 slices)
	RowLimit     int      // range rule
}

// N is the number of physical tables.
func (b *Built) N() int { return len(b.Locs) }

// LocOf returns the physical table of a table index.
func (b *Built) LocOf(index int) (Loc, bool) {
	for _, l := range b.Locs {
		if l.Index == index {
			return l, true
		}
	}
	return Loc{}, false
}

func isMycat(t string) bool {
	switch t {
	case models.ShardMycatMod, models.ShardMycatLong, models.ShardMycatString,
		models.ShardMycatMURMUR, models.ShardMycatPaddingMod:
		return true
	}
	return false
}

func calendarOf(t string) string {
	switch t {
	case models.ShardYear:
		return "year"
	case models.ShardMonth:
		return "month"
	case models.ShardDay:
		return "day"
	}
	return ""
}

// CalendarOrRange reports whether the rule type routes by ranges (range, date_*).
func CalendarOrRange(t string) bool { return t == models.ShardRange || calendarOf(t) != "" }

// Supported reports whether Gaea's configuration check admits the layout at all.
func (l Layout) Supported() bool {
	if l.Rule == models.ShardMycatPaddingMod && l.Slices*l.Per < 2 {
		return false // "invalid padding mod number"
	}
	if l.Rule == models.ShardGlobal && l.Linked {
		return false
	}
	if l.OwnKey && !l.Linked {
		return false
	}
	return true
}

func dbList(prefix string, n int) []string {
	if n >= 2 {
		return []string{fmt.Sprintf("%s[0-%d]", prefix, n-1)}
	}
	return []string{prefix + "0"}
}

func nextPeriod(cal string, t time.Time) time.Time {
	switch cal {
	case "year":
		return t.AddDate(1, 0, 0)
	case "month":
		return t.AddDate(0, 1, 0)
	}
	return t.AddDate(0, 0, 1)
}

func periodNum(cal string, t time.Time) int {
	switch cal {
	case "year":
		return t.Year()
	case "month":
		return t.Year()*100 + int(t.Month())
	}
	return t.Year()*10000 + int(t.Month())*100 + t.Day()
}

func periodCfg(cal string, t time.Time) string {
	switch cal {
	case "year":
		return t.Format("2006")
	case "month":
		return t.Format("200601")
	}
	return t.Format("20060102")
}

// Build creates the namespace of a layout: sharded table t (key id, or ct for calendar
// rules), linked child t2 with the same key column, global table g on every slice.
func Build(l Layout) (*Built, error) {
	b := &Built{Layout: l}
	n := l.Slices * l.Per
	var slices []string
	var locations []int
	for i := 0; i < l.Slices; i++ {
		slices = append(slices, SliceName(i))
		locations = append(locations, l.Per)
	}
	rule := l.Rule
	if rule == models.ShardGlobal {
		rule = models.ShardHash
	}
	b.Calendar = calendarOf(rule)
	key := "id"
	if b.Calendar != "" {
		key = "ct"
	}
	t := &models.Shard{DB: DB, Table: "t", Type: rule, Key: key, Slices: slices}
	type place struct {
		index, slice int
	}
	var places []place
	switch {
	case b.Calendar != "":
		// periods run over a year / month boundary; one unconfigured period between slices
		var cur time.Time
		switch b.Calendar {
		case "year":
			cur = time.Date(2014, 1, 1, 0, 0, 0, 0, time.UTC)
		case "month":
			cur = time.Date(2014, 11, 1, 0, 0, 0, 0, time.UTC)
		default:
			cur = time.Date(2014, 2, 27, 0, 0, 0, 0, time.UTC)
		}
		for s := 0; s < l.Slices; s++ {
			first := cur
			last := cur
			for j := 0; j < l.Per; j++ {
				nx := nextPeriod(b.Calendar, cur)
				b.Periods = append(b.Periods, Period{Num: periodNum(b.Calendar, cur), Start: cur, End: nx})
				places = append(places, place{periodNum(b.Calendar, cur), s})
				last = cur
				cur = nx
			}
			if l.Per == 1 {
				t.DateRange = append(t.DateRange, periodCfg(b.Calendar, first))
			} else {
				t.DateRange = append(t.DateRange, periodCfg(b.Calendar, first)+"-"+periodCfg(b.Calendar, last))
			}
			if s < l.Slices-1 {
				nx := nextPeriod(b.Calendar, cur)
				if b.Gap == nil {
					b.Gap = &Period{Num: periodNum(b.Calendar, cur), Start: cur, End: nx}
				}
				cur = nx
			}
		}
	default:
		t.Locations = locations
		for i := 0; i < n; i++ {
			places = append(places, place{i, i / l.Per})
		}
	}
	switch rule {
	case models.ShardRange:
		b.RowLimit = 100
		t.TableRowLimit = b.RowLimit
	case models.ShardMycatLong, models.ShardMycatString:
		if 1024%n == 0 {
			t.PartitionCount = fmt.Sprint(n)
			t.PartitionLength = fmt.Sprint(1024 / n)
		} else {
			a := 1024 / n
			t.PartitionCount = fmt.Sprintf("%d,1", n-1)
			t.PartitionLength = fmt.Sprintf("%d,%d", a, 1024-(n-1)*a)
		}
		if rule == models.ShardMycatString {
			t.HashSlice = "0:3"
		}
	case models.ShardMycatMURMUR:
		t.Seed = "0"
		t.VirtualBucketTimes = "160"
	case models.ShardMycatPaddingMod:
		t.PadFrom, t.PadLength, t.ModBegin, t.ModEnd = "0", "4", "2", "4"
	}
	if isMycat(rule) {
		t.Databases = dbList("db_p", n)
	}
	t2 := &models.Shard{DB: DB, Table: "t2", Type: models.ShardLinked, Key: key, ParentTable: "t"}
	t3 := &models.Shard{DB: DB, Table: "t3", Type: models.ShardLinked, Key: "uid", ParentTable: "t"}
	g := &models.Shard{DB: DB, Table: "g", Type: models.ShardGlobal, Slices: slices, Locations: locations}
	if l.Per > 1 {
		g.Databases = dbList("db_g", n)
	}
	env, err := NewEnv(Namespace(l.Slices, []*models.Shard{t, t2, t3, g}, nil))
	if err != nil {
		return nil, fmt.Errorf("%v: %v", l, err)
	}
	b.Env = env
	switch {
	case l.Rule == models.ShardGlobal:
		b.Table = "g"
		for i := 0; i < n; i++ {
			db := DB
			if l.Per > 1 {
				db = fmt.Sprintf("db_g%d", i)
			}
			b.Locs = append(b.Locs, Loc{Index: i, Slice: SliceName(i / l.Per), DB: db, Table: "g"})
		}
		return b, nil
	case l.Linked && l.OwnKey:
		b.Table = "t3"
		b.ParentKeyCol = key
		key = "uid"
	case l.Linked:
		b.Table = "t2"
	default:
		b.Table = "t"
	}
	b.KeyCol = key
	for _, p := range places {
		loc := Loc{Index: p.index, Slice: SliceName(p.slice)}
		if isMycat(rule) {
			loc.DB = fmt.Sprintf("db_p%d", p.index)
			loc.Table = b.Table
		} else {
			loc.DB = DB
			loc.Table = fmt.Sprintf("%s_%04d", b.Table, p.index)
		}
		b.Locs = append(b.Locs, loc)
	}
	return b, nil
}
