// Package rig is the small plan rig of C03/C04: models.Namespace -> router.NewRouter ->
// parser.ParseOneStmt -> plan.BuildPlan -> Plan.ExecuteIn(recording executor), plus helpers
// that parse every generated statement back with Gaea's own parser.
//
// Nothing here re-implements routing: the rig only builds configurations, runs the real
// planner and reads what the planner hands to the executor.
package rig

import (
	"encoding/json"
	"fmt"
	"os"
	"sort"
	"strings"
	"sync"
	"sync/atomic"
	"time"

	"github.com/XiaoMi/Gaea/models"
	"github.com/XiaoMi/Gaea/mysql"
	"github.com/XiaoMi/Gaea/parser"
	"github.com/XiaoMi/Gaea/parser/ast"
	"github.com/XiaoMi/Gaea/parser/format"
	"github.com/XiaoMi/Gaea/proxy/plan"
	"github.com/XiaoMi/Gaea/proxy/router"
	"github.com/XiaoMi/Gaea/proxy/sequence"
	"github.com/XiaoMi/Gaea/proxy/server"
	"github.com/XiaoMi/Gaea/util"
)

func init() {
	// the date rules convert integer keys with time.Unix(...) in the local zone
	os.Setenv("TZ", "UTC")
	time.Local = time.UTC
}

// DB is the logical database used by every rig namespace.
const DB = "db"

// SliceName returns the name of slice i.
func SliceName(i int) string { return fmt.Sprintf("slice-%d", i) }

// Namespace builds a namespace with nSlices slices (slice-0, slice-1, ...) and the given
// shard rules.
func Namespace(nSlices int, rules []*models.Shard, seqs []*models.GlobalSequence) *models.Namespace {
	var names []string
	for i := 0; i < nSlices; i++ {
		names = append(names, SliceName(i))
	}
	return NamespaceNamed(names, rules, seqs)
}

// NamespaceNamed builds a namespace whose slices carry the given names, in that order; the
// first one is the default slice.
func NamespaceNamed(names []string, rules []*models.Shard, seqs []*models.GlobalSequence) *models.Namespace {
	ns := &models.Namespace{
		Name:            "ns",
		Online:          true,
		AllowedDBS:      map[string]bool{DB: true},
		DefaultPhyDBS:   map[string]string{DB: DB},
		DefaultSlice:    names[0],
		ShardRules:      rules,
		GlobalSequences: seqs,
		Users: []*models.User{{UserName: "u", Password: "p", Namespace: "ns",
			RWFlag: 2, RWSplit: 1}},
	}
	for i, n := range names {
		ns.Slices = append(ns.Slices, &models.Slice{Name: n, UserName: "root",
			Password: "root", Master: fmt.Sprintf("127.0.0.1:%d", 3306+i), Capacity: 8,
			MaxCapacity: 16, IdleTimeout: 3600})
	}
	return ns
}

// counterSeq is the stub global sequence: 1, 2, 3, ... (fresh per planned statement).
type counterSeq struct {
	v  int64
	pk string
}

func (s *counterSeq) GetPKName() string { return s.pk }
func (s *counterSeq) NextSeq() (int64, error) {
	return atomic.AddInt64(&s.v, 1), nil
}

// Env is one configured router.
type Env struct {
	NS     *models.Namespace
	Router *router.Router
}

// parsers are pooled (sync.Pool keeps them per P, i.e. per worker): a fresh parser.New()
// re-grows its symbol stack on every statement, which dominated the run time, and the
// history families build thousands of Envs. Every parse still returns a fresh AST.
var parserPool = sync.Pool{New: func() interface{} { return parser.New() }}

// Parse parses one statement the way the session does.
func (e *Env) Parse(sql string) (ast.StmtNode, error) {
	ps := parserPool.Get().(*parser.Parser)
	defer parserPool.Put(ps)
	return ps.ParseOneStmt(sql, "", "")
}

// NewEnv verifies the namespace the way the proxy does and builds its router. The
// namespace goes through a JSON round trip first, as it does when it is loaded.
func NewEnv(ns *models.Namespace) (*Env, error) {
	b, err := json.Marshal(ns)
	if err != nil {
		return nil, err
	}
	ns2 := &models.Namespace{}
	if err := json.Unmarshal(b, ns2); err != nil {
		return nil, err
	}
	if err := ns2.Verify(); err != nil {
		return nil, fmt.Errorf("namespace.Verify: %v", err)
	}
	rt, err := router.NewRouter(ns2)
	if err != nil {
		return nil, fmt.Errorf("NewRouter: %v", err)
	}
	return &Env{NS: ns2, Router: rt}, nil
}

// Rule returns the router's rule of db.table.
func (e *Env) Rule(table string) router.Rule {
	r, ok := e.Router.GetShardRule(DB, table)
	if !ok {
		return nil
	}
	return r
}

// Outcome is what the planner did with one statement.
type Outcome struct {
	ParseErr string // the statement did not parse (harness problem for our grammars)
	Err      string // BuildPlan / ExecuteIn error ("" = accepted)
	Panicked bool   // the error is a panic (the proxy recovers it in handleQuery)
	Kind     string // plan type
	// Sent is everything handed to the executor, in a deterministic order.
	Sent []Sent
}

// Rejected reports whether the statement was refused.
func (o *Outcome) Rejected() bool { return o.Err != "" }

// Sent is one statement given to the executor for (Slice, DB).
type Sent struct {
	Slice, DB, SQL string
}

type recorder struct {
	sent []Sent
}

// emptyErr is what the real SessionExecutor.ExecuteSQLs answers to an empty map (probed
// once on the real code; nil if it accepts an empty map).
var (
	emptyOnce sync.Once
	emptyErr  error
)

// EmptySQLsError returns the real executor's answer to a plan that generated nothing.
func EmptySQLsError() error {
	emptyOnce.Do(func() { emptyErr = server.VerifExecuteEmptySQLs() })
	return emptyErr
}

func (r *recorder) ExecuteSQL(ctx *util.RequestContext, slice, db, sql string) (*mysql.Result, error) {
	r.sent = append(r.sent, Sent{slice, db, sql})
	return &mysql.Result{}, nil
}

func (r *recorder) ExecuteSQLs(ctx *util.RequestContext, m map[string]map[string][]string) ([]*mysql.Result, error) {
	if len(m) == 0 {
		if err := EmptySQLsError(); err != nil {
			return nil, err
		}
	}
	r.sent = append(r.sent, Flatten(m)...)
	var rs []*mysql.Result
	for range r.sent {
		rs = append(rs, &mysql.Result{})
	}
	return rs, nil
}
func (r *recorder) SetLastInsertID(uint64)  {}
func (r *recorder) GetLastInsertID() uint64 { return 0 }
func (r *recorder) HandleSet(*util.RequestContext, string, *ast.SetStmt) (*mysql.Result, error) {
	return &mysql.Result{}, nil
}

// Flatten lists a slice/db/sql map in sorted order.
func Flatten(m map[string]map[string][]string) []Sent {
	var out []Sent
	var slices []string
	for s := range m {
		slices = append(slices, s)
	}
	sort.Strings(slices)
	for _, s := range slices {
		var dbs []string
		for d := range m[s] {
			dbs = append(dbs, d)
		}
		sort.Strings(dbs)
		for _, d := range dbs {
			for _, q := range m[s][d] {
				out = append(out, Sent{s, d, q})
			}
		}
	}
	return out
}

// SeqSpec configures a stub global sequence on table/column for one planned statement.
type SeqSpec struct{ Table, PK string }

// Plan parses sql the way the session does, builds the plan with session database
// sessionDB and returns what the plan sends to the backends. Write plans are observed
// through Plan.ExecuteIn with a recording executor (the map the real executor would
// receive); SELECT plans through SelectPlan.GetSQLs and UNION plans through the GetSQLs of
// their sub-plans (ExecuteIn would go on to merge result sets).
func (e *Env) Plan(sessionDB, sql string, seqs ...SeqSpec) (out Outcome) {
	stmt, err := e.Parse(sql)
	if err != nil {
		out.ParseErr = err.Error()
		out.Err = "parse: " + err.Error()
		return
	}
	sm := sequence.NewSequenceManager()
	for _, s := range seqs {
		sm.SetSequence(DB, s.Table, &counterSeq{pk: s.PK})
	}
	defer func() {
		if r := recover(); r != nil {
			out.Err = fmt.Sprintf("panic: %v", r)
			out.Panicked = true
			out.Sent = nil
		}
	}()
	p, err := plan.BuildPlan(stmt, e.NS.DefaultPhyDBS, sessionDB, sql, e.Router, sm, nil)
	if err != nil {
		out.Err = err.Error()
		return
	}
	out.Kind = strings.TrimPrefix(fmt.Sprintf("%T", p), "*plan.")
	if sp, ok := p.(*plan.SelectPlan); ok {
		out.Sent = Flatten(sp.GetSQLs())
		return
	}
	if up, ok := p.(*plan.UnionPlan); ok {
		for _, sub := range plan.VerifUnionSubPlans(up) {
			sp, ok := sub.(*plan.SelectPlan)
			if !ok {
				out.Err = fmt.Sprintf("union sub-plan %T is not observable", sub)
				out.Sent = nil
				return
			}
			out.Sent = append(out.Sent, Flatten(sp.GetSQLs())...)
		}
		return
	}
	rec := &recorder{}
	ctx := util.NewRequestContext()
	ctx.SetDefaultSlice(e.NS.DefaultSlice)
	if _, err := p.ExecuteIn(ctx, rec); err != nil {
		out.Err = "ExecuteIn: " + err.Error()
		return
	}
	out.Sent = rec.sent
	return
}

// ---------------------------------------------------------------- parse back

// Restore prints a node with the parser's default flags.
func Restore(n ast.Node) string {
	var sb strings.Builder
	if err := n.Restore(format.NewRestoreCtx(format.DefaultRestoreFlags, &sb)); err != nil {
		return "!restore:" + err.Error()
	}
	return sb.String()
}

// Insert is an INSERT/REPLACE statement read back from SQL text.
type Insert struct {
	Schema, Table string
	Replace       bool
	SetForm       bool
	Cols          []string   // lower case
	Rows          [][]string // restored value expressions, one list per row
	OnDup         string
}

// ParseInsert parses an INSERT/REPLACE statement with Gaea's parser.
func (e *Env) ParseInsert(sql string) (*Insert, error) {
	stmt, err := e.Parse(sql)
	if err != nil {
		return nil, err
	}
	is, ok := stmt.(*ast.InsertStmt)
	if !ok {
		return nil, fmt.Errorf("not an insert: %T", stmt)
	}
	ts, ok := is.Table.TableRefs.Left.(*ast.TableSource)
	if !ok || is.Table.TableRefs.Right != nil {
		return nil, fmt.Errorf("unexpected table refs")
	}
	tn, ok := ts.Source.(*ast.TableName)
	if !ok {
		return nil, fmt.Errorf("unexpected table source %T", ts.Source)
	}
	in := &Insert{Schema: tn.Schema.O, Table: tn.Name.O, Replace: is.IsReplace}
	if len(is.Setlist) > 0 {
		in.SetForm = true
		var row []string
		for _, a := range is.Setlist {
			in.Cols = append(in.Cols, a.Column.Name.L)
			row = append(row, Restore(a.Expr))
		}
		in.Rows = [][]string{row}
	} else {
		for _, c := range is.Columns {
			in.Cols = append(in.Cols, c.Name.L)
		}
		for _, l := range is.Lists {
			var row []string
			for _, x := range l {
				row = append(row, Restore(x))
			}
			in.Rows = append(in.Rows, row)
		}
	}
	var od []string
	for _, a := range is.OnDuplicate {
		od = append(od, a.Column.Name.L+"="+Restore(a.Expr))
	}
	in.OnDup = strings.Join(od, ",")
	return in, nil
}

// RowMap returns row i as column -> restored expression (error if the row's length
// differs from the column list).
func (in *Insert) RowMap(i int) (map[string]string, error) {
	if len(in.Rows[i]) != len(in.Cols) {
		return nil, fmt.Errorf("row %d has %d values for %d columns", i, len(in.Rows[i]), len(in.Cols))
	}
	m := map[string]string{}
	for j, c := range in.Cols {
		if _, dup := m[c]; dup {
			return nil, fmt.Errorf("column %s twice", c)
		}
		m[c] = in.Rows[i][j]
	}
	return m, nil
}

// CanonRow prints a row map in column order, leaving out the named columns.
func CanonRow(m map[string]string, skip ...string) string {
	var ks []string
outer:
	for k := range m {
		for _, s := range skip {
			if s == k {
				continue outer
			}
		}
		ks = append(ks, k)
	}
	sort.Strings(ks)
	var sb strings.Builder
	for _, k := range ks {
		sb.WriteString(k + "=" + m[k] + ";")
	}
	return sb.String()
}

// Names collects every table name and every column name of a statement.
type Names struct {
	Tables  []*ast.TableName
	Columns []*ast.ColumnName
}

func (v *Names) Enter(n ast.Node) (ast.Node, bool) {
	switch x := n.(type) {
	case *ast.TableName:
		v.Tables = append(v.Tables, x)
	case *ast.ColumnName:
		v.Columns = append(v.Columns, x)
	}
	return n, false
}
func (v *Names) Leave(n ast.Node) (ast.Node, bool) { return n, true }

// ParseNames parses sql and returns its statement node and all names in it.
func (e *Env) ParseNames(sql string) (ast.StmtNode, *Names, error) {
	stmt, err := e.Parse(sql)
	if err != nil {
		return nil, nil, err
	}
	v := &Names{}
	stmt.Accept(v)
	return stmt, v, nil
}
