package main

// History family (added after seeded change c03-3): every case of the main families is
// planned on a router that has only ever seen statements of the same kind, and nothing
// compared a plan with the plan of the same statement on a pristine router. Here a
// statement S is planned after a prefix H of 1-2 OTHER statements on the SAME
// router/namespace instance and must (a) satisfy the usual oracle and (b) get exactly the
// plan it gets on a fresh instance.

import (
	"fmt"
	"strconv"
	"strings"

	"github.com/XiaoMi/Gaea/models"

	"verif/checks/c03/rig"
	"verif/engine/ev"
)

// hstmt is a statement of the history family.
type hstmt struct {
	Name string // template name
	SQL  string
	C    *Case  // an INSERT of the main universe (usual oracle: evaluate)
	Look *class // a point lookup (usual oracle: lookupOne)
}

// sig is what the differential oracle compares: rejected or the exact list of
// (slice, db, sql) handed to the executor.
func sig(o rig.Outcome) string {
	if o.Rejected() {
		return "REJECTED"
	}
	var sb strings.Builder
	for _, s := range o.Sent {
		sb.WriteString(s.Slice + "/" + s.DB + ": " + s.SQL + "\n")
	}
	return sb.String()
}

// historyStatements builds the prefix pool P and the subject list S of a layout.
func historyStatements(b *rig.Built) (pool, subjects []hstmt, cls map[string]class) {
	cs := classesOf(b)
	cls = map[string]class{}
	for _, c := range cs {
		cls[c.Name] = c
	}
	T, key := b.Table, b.KeyCol
	other := "t2"
	if b.Layout.Linked {
		other = "t"
	}
	// bounds lo <= hi for BETWEEN forms, in the rule's own literal spelling
	lo, hi := cls["lit"].SQL, cls["boundary"].SQL
	if b.Calendar != "" {
		lo, hi = cls["boundary_hi"].SQL, cls["boundary"].SQL
		if len(b.Periods) == 1 {
			lo, hi = hi, lo
		}
	}
	// wide bounds: first and last table / period, so that tables lie strictly between
	wlo, whi := cls["lit"].SQL, cls["boundary_hi"].SQL
	if b.Calendar != "" {
		wlo, whi = cls["boundary_hi"].SQL, cls["quoted"].SQL
	}
	insCase := func(name, form string, replace bool, classes ...string) hstmt {
		c := &Case{Layout: b.Layout, Form: form, Replace: replace, Classes: classes, Seq: "none"}
		c.SQL = buildSQL(b, c, cls)
		return hstmt{Name: name, SQL: c.SQL, C: c}
	}
	raw := func(name, format string, a ...interface{}) hstmt {
		return hstmt{Name: name, SQL: fmt.Sprintf(format, a...)}
	}
	L, Q, B, BH := cls["lit"].SQL, cls["quoted"].SQL, cls["boundary"].SQL, cls["boundary_hi"].SQL
	// the row order of ins_values_rows puts a high table first (the first routed index is
	// not the rule's first sub-table)
	pool = []hstmt{
		insCase("ins_values_lit", "values", false, "lit"),
		insCase("ins_values_rows", "values", false, "boundary_hi", "quoted", "lit"),
		insCase("ins_set_quoted", "set", false, "quoted"),
		raw("ins_other_table", "INSERT INTO %s (%s, k, v) VALUES (%s, 1, 'o'), (%s, 2, 'p')", other, key, BH, L),
		raw("ins_global", "INSERT INTO g (id, k, v) VALUES (1, 1, 'g')"),
		raw("upd_global", "UPDATE g SET v = 'x' WHERE id = 1"),
		raw("sel_not_between", "SELECT * FROM %s WHERE %s NOT BETWEEN %s AND %s", T, key, lo, hi),
		raw("sel_not_between_wide", "SELECT * FROM %s WHERE %s NOT BETWEEN %s AND %s", T, key, wlo, whi),
		raw("sel_between", "SELECT * FROM %s WHERE %s BETWEEN %s AND %s", T, key, lo, hi),
		raw("sel_in", "SELECT * FROM %s WHERE %s IN (%s, %s, %s)", T, key, BH, Q, L),
		raw("sel_not_in", "SELECT * FROM %s WHERE %s NOT IN (%s)", T, key, L),
		raw("sel_range", "SELECT * FROM %s WHERE %s > %s AND %s <= %s", T, key, lo, key, BH),
		raw("sel_or", "SELECT * FROM %s WHERE %s = %s OR %s = %s", T, key, BH, key, L),
		raw("sel_all", "SELECT * FROM %s", T),
		raw("upd_key", "UPDATE %s SET v = 'x' WHERE %s = %s", T, key, BH),
		raw("del_in", "DELETE FROM %s WHERE %s IN (%s, %s)", T, key, L, B),
		raw("sel_join", "SELECT * FROM t JOIN t2 ON t.%s = t2.%s WHERE t.%s = %s", key, key, key, Q),
		raw("del_not_between_wide", "DELETE FROM %s WHERE %s NOT BETWEEN %s AND %s", other, key, wlo, whi),
	}
	// subjects: one representative per template x key class
	for _, c := range cs {
		subjects = append(subjects, insCase("S:ins_values:"+c.Name, "values", false, c.Name))
	}
	for _, c := range cs {
		subjects = append(subjects, insCase("S:ins_set:"+c.Name, "set", false, c.Name))
	}
	subjects = append(subjects,
		insCase("S:ins_values:lit,quoted", "values", false, "lit", "quoted"),
		insCase("S:ins_values:lit,boundary_hi,quoted", "values", false, "lit", "boundary_hi", "quoted"),
		insCase("S:replace:boundary", "values", true, "boundary"))
	for i := range cs {
		c := cs[i]
		if _, ok := route(b, c.Val); c.Kind == kLit && ok {
			subjects = append(subjects, hstmt{Name: "S:lookup:" + c.Name,
				SQL: fmt.Sprintf("SELECT * FROM %s WHERE %s = %s", T, key, c.SQL), Look: &c})
		}
	}
	for _, h := range pool {
		if h.C == nil {
			subjects = append(subjects, hstmt{Name: "S:" + h.Name, SQL: h.SQL})
		}
	}
	return
}

// planSubject plans one subject on b; v is the usual-oracle violation, if any.
func planSubject(b *rig.Built, cls map[string]class, s hstmt) (out rig.Outcome, v *viol) {
	switch {
	case s.C != nil:
		c := *s.C
		res := evaluate(b, cls, &c)
		return res.out, res.v
	case s.Look != nil:
		o, _, _, lv, _ := lookupOne(b, *s.Look)
		return o, lv
	}
	return b.Env.Plan(rig.DB, s.SQL), nil
}

// replayHistory plans the given statements on a fresh router and then the subject;
// it returns the subject's outcome.
func replayHistory(l rig.Layout, cls map[string]class, hist []string, s hstmt) (rig.Outcome, *viol) {
	b, err := rig.Build(l)
	if err != nil {
		ev.Fatalf("layout: %v", err)
	}
	for _, h := range hist {
		b.Env.Plan(rig.DB, h)
	}
	return planSubject(b, cls, s)
}

// historyFamily runs the family on one layout.
func historyFamily(r *ev.Run, l rig.Layout, maxLen int) {
	b0, err := rig.Build(l)
	if err != nil {
		ev.Fatalf("layout: %v", err)
	}
	pool, subjects, cls := historyStatements(b0)
	// baseline: every subject on its own pristine instance
	base := make([]string, len(subjects))
	for i, s := range subjects {
		o, _ := replayHistory(l, cls, nil, s)
		base[i] = sig(o)
	}
	var prefixes [][]int
	for i := range pool {
		prefixes = append(prefixes, []int{i})
	}
	if maxLen >= 2 {
		for i := range pool {
			for j := range pool {
				if i != j {
					prefixes = append(prefixes, []int{i, j})
				}
			}
		}
	}
	var evals, compared int64
	for pi, pf := range prefixes {
		b, err := rig.Build(l)
		if err != nil {
			ev.Fatalf("layout: %v", err)
		}
		var hist, hnames []string
		for _, i := range pf {
			b.Env.Plan(rig.DB, pool[i].SQL)
			hist = append(hist, pool[i].SQL)
			hnames = append(hnames, pool[i].Name)
			evals++
		}
		// the subjects follow one another on the same instance (each one's history is
		// H plus the subjects before it); the starting point rotates with the prefix so
		// that every subject is also planned directly after some prefixes
		for k := range subjects {
			si := (k + pi) % len(subjects)
			s := subjects[si]
			out, v := planSubject(b, cls, s)
			evals++
			got := sig(out)
			if v != nil {
				c := Case{Layout: l, Form: "history", SQL: s.SQL, History: append([]string(nil), hist...)}
				if s.C != nil {
					c = *s.C
					c.History = append([]string(nil), hist...)
				}
				v.feat["history"] = strings.Join(hnames, "+")
				r.Violation(ev.Witness{Summary: "after " + strings.Join(hist, " ; ") + " on the same router: " + v.summary, Features: v.feat, Case: c})
				tally(v)
			}
			if got != base[si] {
				reportHistoryDependence(r, l, cls, hist, s, base[si], got)
			} else {
				compared++
				if !out.Rejected() && len(out.Sent) > 0 {
					r.Distinct("nontrivial", "history:"+l.String()+"|"+strings.Join(hnames, "+")+"|"+s.Name)
				}
			}
			hist = append(hist, s.SQL)
		}
		if r.TimeUp() {
			break
		}
	}
	r.Add("evaluations", evals)
	r.Add("history_plans", evals)
	r.Add("history_prefixes", int64(len(prefixes)))
	r.Add("history_plans_equal_to_fresh", compared)
}

// reportHistoryDependence minimises the history (greedy deletion, each trial on a fresh
// router) and reports the differential violation.
func reportHistoryDependence(r *ev.Run, l rig.Layout, cls map[string]class, hist []string, s hstmt, want, got string) {
	cur := append([]string(nil), hist...)
	if n := r.Count("history_minimised"); n >= 40 {
		// enough minimal witnesses: report the rest as they are (under a mutant there are
		// thousands, and every minimisation step rebuilds a router)
		feat := map[string]string{"form": "history", "effect": "history_dependent", "rule": l.Rule,
			"linked": strconv.FormatBool(l.Linked), "valueclass": "-", "seq": "none",
			"culprit": "unminimised", "victim": strings.TrimPrefix(s.Name, "S:")}
		c := Case{Layout: l, Form: "history", SQL: s.SQL, History: cur}
		if s.C != nil {
			c = *s.C
			c.History = cur
		}
		v := &viol{summary: fmt.Sprintf("%v: after %d statements on the same router, %q is planned as {%s} but on a fresh router as {%s}",
			l, len(cur), s.SQL, oneLine(got), oneLine(want)), feat: feat}
		r.Violation(ev.Witness{Summary: v.summary, Features: feat, Case: c})
		tally(v)
		return
	}
	r.Add("history_minimised", 1)
	differs := func(h []string) (bool, string) {
		o, _ := replayHistory(l, cls, h, s)
		g := sig(o)
		return g != want, g
	}
	if d, _ := differs(cur); !d {
		ev.Fatalf("history violation does not reproduce on a fresh router: %v then %s", hist, s.SQL)
	}
	for i := 0; i < len(cur); {
		trial := append(append([]string(nil), cur[:i]...), cur[i+1:]...)
		if d, _ := differs(trial); d {
			cur = trial
		} else {
			i++
		}
	}
	_, g := differs(cur)
	var culprits []string
	for _, h := range cur {
		culprits = append(culprits, templateOf(h))
	}
	feat := map[string]string{"form": "history", "effect": "history_dependent", "rule": l.Rule,
		"linked": strconv.FormatBool(l.Linked), "valueclass": "-", "seq": "none",
		"culprit": strings.Join(culprits, "+"), "victim": strings.TrimPrefix(s.Name, "S:")}
	c := Case{Layout: l, Form: "history", SQL: s.SQL, History: cur}
	if s.C != nil {
		c = *s.C
		c.History = cur
	}
	v := &viol{summary: fmt.Sprintf("%v: after [%s] on the same router, %q is planned as {%s} but on a fresh router as {%s}",
		l, strings.Join(cur, " ; "), s.SQL, oneLine(g), oneLine(want)), feat: feat}
	r.Violation(ev.Witness{Summary: v.summary, Features: feat, Case: c})
	tally(v)
}

func oneLine(s string) string { return strings.ReplaceAll(strings.TrimSpace(s), "\n", " | ") }

// templateOf names the statement kind of a history statement (for the culprit feature).
func templateOf(sql string) string {
	u := strings.ToUpper(sql)
	switch {
	case strings.HasPrefix(u, "INSERT") && strings.Contains(u, " SET "):
		return "insert_set"
	case strings.HasPrefix(u, "INSERT"), strings.HasPrefix(u, "REPLACE"):
		return "insert_values"
	case strings.Contains(u, "NOT BETWEEN"):
		return "not_between"
	case strings.Contains(u, " BETWEEN "):
		return "between"
	case strings.Contains(u, "NOT IN"):
		return "not_in"
	case strings.Contains(u, " IN ("):
		return "in"
	case strings.HasPrefix(u, "UPDATE"):
		return "update"
	case strings.HasPrefix(u, "DELETE"):
		return "delete"
	}
	return "select"
}

// historyLayouts: the layouts of the history family.
func historyLayouts(r *ev.Run) []rig.Layout {
	shapes := [][2]int{{2, 2}, {3, 1}}
	if r.Thorough() {
		shapes = [][2]int{{1, 2}, {2, 1}, {2, 2}, {3, 1}, {1, 4}, {4, 1}}
	}
	var ls []rig.Layout
	for _, linked := range []bool{false, true} {
		for _, rt := range rig.RuleTypes {
			for _, sh := range shapes {
				if r.Quick() && sh != [2]int{2, 2} && (linked || rig.CalendarOrRange(rt) == false) {
					continue // quick: 3x1 only for the range-like rules (range, date_*), own table
				}
				l := rig.Layout{Rule: rt, Linked: linked, Slices: sh[0], Per: sh[1]}
				if l.Supported() && l.Rule != models.ShardGlobal {
					ls = append(ls, l)
				}
			}
		}
	}
	return ls
}
