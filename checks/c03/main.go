// C03: every row of an accepted INSERT / REPLACE into a sharded table is written exactly
// once, into the physical table a point query on its sharding value is routed to; an insert
// into a global table reaches every copy; a statement with an unroutable sharding value is
// rejected as a whole.
//
// Engine: enum (bounded-exhaustive). Every statement of the universe is planned by the real
// plan.BuildPlan on a real router.Router; what the plan hands to the executor is parsed back
// with Gaea's parser and compared, as a multiset of (physical table, row), with the placement
// that Rule.FindTableIndex gives for every row of the original statement.
package main

import (
	"fmt"
	"os"
	"runtime/debug"
	"sort"
	"strconv"
	"strings"
	"sync"

	"github.com/XiaoMi/Gaea/models"

	"verif/checks/c03/rig"
	"verif/engine/enum"
	"verif/engine/ev"
	"verif/engine/gx"
)

// ------------------------------------------------------------------ universe

const (
	kLit  = iota // literal the proxy evaluates
	kExpr        // expression the proxy does not evaluate (-5, 2+1, abs(3), nextval())
	kNull        // NULL
)

// class is one sharding-value class.
type class struct {
	Name string
	SQL  string
	Kind int
	Val  interface{} // kLit: the Go value of the literal (what util.GetValueExprResult yields)
	Eval interface{} // kExpr: the value MySQL would compute (nil: none, e.g. nextval())
}

func date(t interface{ Format(string) string }) string { return t.Format("2006-01-02") }

// classesOf lists the sharding-value classes of a layout, simplest first. Index 0 is
// always a plain routable literal.
func classesOf(b *rig.Built) []class {
	exprs := []class{
		{Name: "unary_minus", SQL: "-5", Kind: kExpr, Eval: int64(-5)},
		{Name: "arith", SQL: "2+1", Kind: kExpr, Eval: int64(3)},
		{Name: "func", SQL: "abs(3)", Kind: kExpr, Eval: int64(3)},
		{Name: "null", SQL: "NULL", Kind: kNull},
		{Name: "nextval", SQL: "nextval()", Kind: kExpr},
	}
	if b.Layout.Rule == models.ShardGlobal {
		return append([]class{{Name: "lit", SQL: "1", Kind: kLit, Val: int64(1)}}, exprs[:4]...)
	}
	var cs []class
	lit := func(name, sql string, v interface{}) {
		cs = append(cs, class{Name: name, SQL: sql, Kind: kLit, Val: v})
	}
	if b.Calendar != "" {
		p0 := b.Periods[0]
		pl := b.Periods[len(b.Periods)-1]
		p1 := b.Periods[0]
		if len(b.Periods) > 1 {
			p1 = b.Periods[1]
		}
		ts := p0.Start.Unix() + 12*3600
		lit("lit", fmt.Sprint(ts), int64(ts))
		dt := pl.Start.Format("2006-01-02") + " 10:00:00"
		lit("quoted", "'"+dt+"'", dt)
		lit("boundary", "'"+date(p1.Start)+"'", date(p1.Start))
		hi := p0.End.Add(-1e9).Format("2006-01-02 15:04:05")
		lit("boundary_hi", "'"+hi+"'", hi)
		cs = append(cs, exprs...)
		after := date(pl.End)
		lit("out_of_range", "'"+after+"'", after)
		before := date(p0.Start.AddDate(0, 0, -1))
		lit("out_of_range_lo", "'"+before+"'", before)
		if b.Gap != nil {
			lit("out_of_range_gap", "'"+date(b.Gap.Start)+"'", date(b.Gap.Start))
		}
		lit("out_of_range_ts", "86400", int64(86400))
		lit("non_numeric", "'abc'", "abc")
		lit("non_numeric10", "'abcdefghij'", "abcdefghij")
		return cs
	}
	n := b.N()
	lit("lit", "1", int64(1))
	lit("quoted", "'2'", "2")
	lit("zero", "0", int64(0))
	if b.RowLimit > 0 {
		lit("boundary", fmt.Sprint(b.RowLimit), int64(b.RowLimit))
		lit("boundary_hi", fmt.Sprint(b.RowLimit*n-1), int64(b.RowLimit*n-1))
	} else {
		lit("boundary", fmt.Sprint(n), int64(n))
		lit("boundary_hi", "1023", int64(1023))
	}
	lit("quoted_neg", "'-5'", "-5")
	cs = append(cs, exprs...)
	if b.RowLimit > 0 {
		lit("out_of_range", fmt.Sprint(b.RowLimit*n), int64(b.RowLimit*n))
	} else {
		lit("out_of_range", "9223372036854775808", uint64(1)<<63)
	}
	lit("non_numeric", "'abc'", "abc")
	return cs
}

var seqModes = []string{"none", "sid_omit", "sid_null", "sid_nextval", "onkey", "onkey_omit"}

var perms [][]int

func init() {
	enum.Perms(3, func(p []int) { perms = append(perms, append([]int(nil), p...)) })
}

// Case is one statement of the universe (replayable).
type Case struct {
	Layout  rig.Layout `json:"layout"`
	Form    string     `json:"form"` // values | set
	Replace bool       `json:"replace"`
	Classes []string   `json:"classes"` // sharding-value class per row
	Perm    int        `json:"perm"`    // column order
	Seq     string     `json:"seq"`
	OnDup   bool       `json:"ondup"`
	Qual    bool       `json:"qual"` // db.t instead of t
	// PCol (own-key linked child only): the statement also sets the column that is named
	// like the PARENT's sharding column, to a value that lives in another sub-table
	PCol bool   `json:"pcol,omitempty"`
	SQL  string `json:"sql,omitempty"`
	// History: statements planned before this one on the SAME router (history family)
	History []string `json:"history,omitempty"`
}

func (c *Case) seqSpec(b *rig.Built) []rig.SeqSpec {
	switch c.Seq {
	case "none":
		return nil
	case "onkey", "onkey_omit":
		return []rig.SeqSpec{{Table: b.Table, PK: keyColOf(b)}}
	}
	return []rig.SeqSpec{{Table: b.Table, PK: "sid"}}
}

func keyColOf(b *rig.Built) string {
	if b.KeyCol == "" {
		return "id" // global table: first column
	}
	return b.KeyCol
}

// buildSQL renders the statement of a case.
func buildSQL(b *rig.Built, c *Case, cls map[string]class) string {
	key := keyColOf(b)
	base := []string{key, "k", "v"}
	var cols []string
	for _, i := range perms[c.Perm] {
		if c.Seq == "onkey_omit" && base[i] == key {
			continue
		}
		cols = append(cols, base[i])
	}
	switch c.Seq {
	case "sid_null", "sid_nextval":
		cols = append(cols, "sid")
	}
	if c.PCol && b.ParentKeyCol != "" {
		cols = append([]string{b.ParentKeyCol}, cols...)
	}
	val := func(row int, col string) string {
		switch col {
		case b.ParentKeyCol:
			return parentColValue(b, cls, c.Classes[row])
		case key:
			return cls[c.Classes[row]].SQL
		case "k":
			return strconv.Itoa(10 + row)
		case "v":
			return fmt.Sprintf("'r%d'", row)
		case "sid":
			if c.Seq == "sid_null" {
				return "NULL"
			}
			return "nextval()"
		}
		return "?"
	}
	var sb strings.Builder
	if c.Replace {
		sb.WriteString("REPLACE INTO ")
	} else {
		sb.WriteString("INSERT INTO ")
	}
	if c.Qual {
		sb.WriteString(rig.DB + ".")
	}
	sb.WriteString(b.Table)
	if c.Form == "set" {
		sb.WriteString(" SET ")
		for j, col := range cols {
			if j > 0 {
				sb.WriteString(", ")
			}
			sb.WriteString(col + " = " + val(0, col))
		}
	} else {
		sb.WriteString(" (" + strings.Join(cols, ", ") + ") VALUES ")
		for r := range c.Classes {
			if r > 0 {
				sb.WriteString(", ")
			}
			sb.WriteString("(")
			for j, col := range cols {
				if j > 0 {
					sb.WriteString(", ")
				}
				sb.WriteString(val(r, col))
			}
			sb.WriteString(")")
		}
	}
	if c.OnDup {
		sb.WriteString(" ON DUPLICATE KEY UPDATE v = 'dup'")
	}
	return sb.String()
}

// parentColValue picks, for a row whose own sharding value has class keyClass, the value
// of the column named like the parent's key: a routable literal that lives in ANOTHER
// sub-table than the row (if the layout has one).
func parentColValue(b *rig.Built, cls map[string]class, keyClass string) string {
	own, ownOK := rig.Loc{}, false
	if cl := cls[keyClass]; cl.Kind == kLit {
		own, ownOK = route(b, cl.Val)
	}
	for _, n := range []string{"boundary_hi", "quoted", "boundary", "lit"} {
		if l, ok := route(b, cls[n].Val); ok && (!ownOK || l != own) {
			return cls[n].SQL
		}
	}
	return cls["lit"].SQL
}

// ------------------------------------------------------------------ oracle

// route asks the rule where a key value lives: (location, true) if Rule.FindTableIndex
// succeeds with a configured table index; a panic or an error means "cannot be routed".
func route(b *rig.Built, v interface{}) (loc rig.Loc, ok bool) {
	defer func() {
		if recover() != nil {
			ok = false
		}
	}()
	idx, err := b.Env.Rule(b.Table).FindTableIndex(v)
	if err != nil {
		return rig.Loc{}, false
	}
	return b.LocOf(idx)
}

type viol struct {
	summary string
	feat    map[string]string
}

type result struct {
	v        *viol
	rejected bool
	key      string      // non-trivial outcome key ("" = trivial)
	out      rig.Outcome // what the planner did (for the history family)
}

type written struct {
	loc string
	row map[string]string
}

func isInt(s string) bool {
	_, err := strconv.ParseInt(s, 10, 64)
	return err == nil
}

// evaluate plans one case and applies the oracle.
func evaluate(b *rig.Built, cls map[string]class, c *Case) (res result) {
	c.SQL = buildSQL(b, c, cls)
	orig, err := b.Env.ParseInsert(c.SQL)
	if err != nil {
		ev.Fatalf("statement of the universe does not parse: %s: %v", c.SQL, err)
	}
	out := b.Env.Plan(rig.DB, c.SQL, c.seqSpec(b)...)
	if out.ParseErr != "" {
		ev.Fatalf("statement of the universe does not parse: %s: %v", c.SQL, out.ParseErr)
	}
	defer func() { res.out = out }()
	key := keyColOf(b)
	global := b.Layout.Rule == models.ShardGlobal
	feat := map[string]string{"form": c.Form, "rule": b.Layout.Rule, "seq": c.Seq,
		"stmt": map[bool]string{false: "insert", true: "replace"}[c.Replace],
		"rows": strconv.Itoa(len(c.Classes)), "linked": strconv.FormatBool(b.Layout.Linked),
		"own_key": strconv.FormatBool(b.Layout.OwnKey), "pcol": strconv.FormatBool(c.PCol),
		"valueclass": "-", "effect": "-"}
	fail := func(effect, class, msg string) result {
		feat["effect"] = effect
		feat["valueclass"] = class
		return result{v: &viol{summary: fmt.Sprintf("%v %s: %s [%s]", b.Layout, c.SQL, msg, describe(out)), feat: feat}}
	}
	if out.Rejected() {
		// a rejection is always allowed; it is a non-trivial outcome when the oracle
		// demanded it (some row's sharding value cannot be routed)
		demanded := false
		for _, n := range c.Classes {
			cl := cls[n]
			if cl.Kind != kLit {
				demanded = true
			} else if _, ok := route(b, cl.Val); !ok && !global {
				demanded = true
			}
		}
		if !demanded || c.Seq == "onkey_omit" {
			if !demanded {
				tally(&viol{summary: c.SQL + " => " + out.Err, feat: map[string]string{"form": c.Form, "valueclass": strings.Join(c.Classes, ","), "effect": "(no violation) routable but rejected", "seq": c.Seq}})
			}
			return result{rejected: true}
		}
		return result{rejected: true, key: "rejected:" + strings.Join(c.Classes, ",")}
	}
	if out.Kind != "InsertPlan" {
		return fail("not_insert_plan", "-", "planned as "+out.Kind)
	}

	// everything that was written: (physical table, row)
	var ws []written
	for _, s := range out.Sent {
		in, err := b.Env.ParseInsert(s.SQL)
		if err != nil {
			return fail("malformed", "-", "generated statement does not parse: "+s.SQL)
		}
		if in.Replace != orig.Replace || in.OnDup != orig.OnDup {
			return fail("stmt_changed", "-", "REPLACE / ON DUPLICATE KEY UPDATE not preserved: "+s.SQL)
		}
		db := s.DB
		if in.Schema != "" {
			db = in.Schema
		}
		loc := s.Slice + "/" + db + "." + in.Table
		for i := range in.Rows {
			m, err := in.RowMap(i)
			if err != nil {
				return fail("malformed", "-", err.Error()+": "+s.SQL)
			}
			ws = append(ws, written{loc, m})
		}
	}

	// rows of the original statement; the columns a sequence fills are compared apart
	var skip []string
	if strings.HasPrefix(c.Seq, "sid") {
		skip = append(skip, "sid")
	}
	type orow struct {
		canon     string
		class     class
		generated bool // sharding value comes from the sequence
	}
	var rows []orow
	for i := range orig.Rows {
		m, err := orig.RowMap(i)
		if err != nil {
			ev.Fatalf("bad original row: %v", err)
		}
		cl := cls[c.Classes[i]]
		r := orow{class: cl}
		switch {
		case c.Seq == "onkey_omit":
			r.generated = true
		case c.Seq == "onkey" && cl.Name == "nextval":
			r.generated = true
		case c.Seq == "onkey" && cl.Kind == kNull && c.Form == "values":
			r.generated = true
		}
		if r.generated {
			r.canon = rig.CanonRow(m, append(skip, key)...)
		} else {
			r.canon = rig.CanonRow(m, skip...)
		}
		rows = append(rows, r)
	}
	// find the written copies of an original row
	find := func(r orow) []written {
		var hit []written
		for _, w := range ws {
			sk := skip
			if r.generated {
				sk = append(append([]string{}, skip...), key)
			}
			if rig.CanonRow(w.row, sk...) == r.canon {
				hit = append(hit, w)
			}
		}
		return hit
	}
	effectOf := func(hits []written, want string) string {
		switch {
		case len(hits) == 0:
			return "row_dropped"
		case len(hits) > 1:
			locs := map[string]bool{}
			for _, h := range hits {
				locs[h.loc] = true
			}
			if len(locs) > 1 {
				return "broadcast"
			}
			return "duplicated"
		case want != "" && hits[0].loc != want:
			return "wrong_table"
		}
		return ""
	}

	if global {
		// every copy receives every row exactly once
		for _, r := range rows {
			hits := find(r)
			got := map[string]int{}
			for _, h := range hits {
				got[h.loc]++
			}
			for _, l := range b.Locs {
				if got[l.String()] != 1 {
					return fail("global_copy_count", r.class.Name,
						fmt.Sprintf("copy %v received row {%s} %d times", l, r.canon, got[l.String()]))
				}
			}
			if len(got) != len(b.Locs) {
				return fail("global_extra_copy", r.class.Name, "row written outside the configured copies")
			}
		}
		if len(ws) != len(rows)*len(b.Locs) {
			return fail("extra_row", "-", "more rows written than the statement has")
		}
		return result{key: fmt.Sprintf("global:%d rows x %d copies", len(rows), len(b.Locs))}
	}

	// 1. a row whose sharding value cannot be routed => the statement had to be rejected
	var want []string
	for _, r := range rows {
		var loc rig.Loc
		ok := false
		switch {
		case r.generated:
			hits := find(r)
			if len(hits) != 1 {
				return fail(strOr(effectOf(hits, ""), "row_dropped"), "generated", "row with a sequence-generated sharding value")
			}
			g := hits[0].row[key]
			if !isInt(g) {
				return fail("generated_not_literal", "generated", "sequence value missing: "+g)
			}
			gv, _ := strconv.ParseInt(g, 10, 64)
			loc, ok = route(b, gv)
		case r.class.Kind == kLit:
			loc, ok = route(b, r.class.Val)
		case r.class.Kind == kExpr && r.class.Eval != nil:
			// the proxy does not evaluate it: rejecting is right; so would be evaluating it
			loc, ok = route(b, r.class.Eval)
		}
		if !ok || r.class.Kind == kExpr || (r.class.Kind == kNull && !r.generated) {
			hits := find(r)
			if ok && len(hits) == 1 && hits[0].loc == loc.String() {
				want = append(want, loc.String()) // evaluated expression, placed correctly
				continue
			}
			eff := strOr(effectOf(hits, ""), "written_unrouted")
			if ok && len(hits) == 1 {
				eff = "wrong_table" // its value has a table, and that is not where it went
			}
			return fail("accepted:"+eff, r.class.Name,
				fmt.Sprintf("sharding value %s cannot be routed but the statement was accepted", r.class.SQL))
		}
		want = append(want, loc.String())
	}
	// 2. every row exactly once, in its table
	for i, r := range rows {
		hits := find(r)
		if e := effectOf(hits, want[i]); e != "" {
			return fail(e, r.class.Name, fmt.Sprintf("row {%s} belongs to %s", r.canon, want[i]))
		}
	}
	if len(ws) != len(rows) {
		return fail("extra_row", "-", "more rows written than the statement has")
	}
	sort.Strings(want)
	return result{key: "placed:" + strings.Join(want, ",")}
}

func strOr(a, b string) string {
	if a != "" {
		return a
	}
	return b
}

func describe(o rig.Outcome) string {
	if o.Rejected() {
		return "rejected: " + o.Err
	}
	var parts []string
	for _, s := range o.Sent {
		parts = append(parts, s.Slice+"/"+s.DB+": "+s.SQL)
	}
	if len(parts) == 0 {
		return "accepted, nothing sent"
	}
	return "sent " + strings.Join(parts, " | ")
}

// lookupOne plans the point SELECT on a literal class and says whether it reaches the
// table a row with that sharding value is placed in. skip: the class is not a routable
// literal. v: the violation (nil if the lookup finds the table or is rejected).
func lookupOne(b *rig.Built, cl class) (out rig.Outcome, sql string, single bool, v *viol, skip bool) {
	if b.KeyCol == "" || cl.Kind != kLit {
		return out, "", false, nil, true
	}
	want, ok := route(b, cl.Val)
	if !ok {
		return out, "", false, nil, true
	}
	sql = fmt.Sprintf("SELECT * FROM %s WHERE %s = %s", b.Table, b.KeyCol, cl.SQL)
	out = b.Env.Plan(rig.DB, sql)
	if out.ParseErr != "" {
		ev.Fatalf("lookup does not parse: %s", sql)
	}
	if out.Rejected() {
		return out, sql, false, nil, false
	}
	found := false
	var locs []string
	for _, s := range out.Sent {
		_, names, err := b.Env.ParseNames(s.SQL)
		if err != nil || len(names.Tables) != 1 {
			ev.Fatalf("cannot read back lookup %q", s.SQL)
		}
		db := s.DB
		if names.Tables[0].Schema.O != "" {
			db = names.Tables[0].Schema.O
		}
		l := s.Slice + "/" + db + "." + names.Tables[0].Name.O
		locs = append(locs, l)
		if l == want.String() {
			found = true
		}
	}
	if !found {
		v = &viol{summary: fmt.Sprintf("%v: a row with %s = %s is inserted into %v but %q is routed to %v", b.Layout, b.KeyCol, cl.SQL, want, sql, locs),
			feat: map[string]string{"form": "lookup", "rule": b.Layout.Rule, "valueclass": cl.Name,
				"effect": "lookup_miss", "linked": strconv.FormatBool(b.Layout.Linked)}}
	}
	return out, sql, len(locs) == 1 && found, v, false
}

// lookupCheck: a single-row insert of every routable literal class and the point SELECT
// on the same value must meet in the same physical table.
func lookupCheck(r *ev.Run, b *rig.Built, cs []class) {
	for _, cl := range cs {
		out, sql, single, v, skip := lookupOne(b, cl)
		if skip {
			continue
		}
		r.Add("evaluations", 1)
		r.Add("lookups", 1)
		if out.Rejected() {
			r.Add("lookups_rejected", 1)
			continue
		}
		if single {
			r.Distinct("nontrivial", "lookup:"+b.Layout.String()+":"+cl.Name)
		}
		if v != nil {
			r.Violation(ev.Witness{Summary: v.summary, Features: v.feat,
				Case: Case{Layout: b.Layout, Form: "lookup", Classes: []string{cl.Name}, Seq: "none", SQL: sql}})
		}
	}
}

// ------------------------------------------------------------------ enumeration

var (
	tallyMu sync.Mutex
	tallies = map[string]int{}
	tallyEx = map[string]string{}
)

// tally groups violations by (form, valueclass, effect, seq) for C03_DEBUG=1.
func tally(v *viol) {
	if os.Getenv("C03_DEBUG") == "" {
		return
	}
	k := fmt.Sprintf("form=%s valueclass=%s effect=%s seq=%s", v.feat["form"], v.feat["valueclass"], v.feat["effect"], v.feat["seq"])
	tallyMu.Lock()
	tallies[k]++
	if _, ok := tallyEx[k]; !ok {
		tallyEx[k] = v.summary
	}
	tallyMu.Unlock()
}

func printTallies() {
	var ks []string
	for k := range tallies {
		ks = append(ks, k)
	}
	sort.Strings(ks)
	for _, k := range ks {
		fmt.Printf("TALLY %6d %s\n      e.g. %s\n", tallies[k], k, tallyEx[k])
	}
}

func layouts(r *ev.Run) []rig.Layout {
	var shapes [][2]int
	if r.Quick() {
		shapes = [][2]int{{1, 1}, {1, 2}, {2, 1}, {2, 2}, {3, 1}, {1, 4}, {4, 1}}
	} else {
		for s := 1; s <= 4; s++ {
			for p := 1; p <= 4; p++ {
				shapes = append(shapes, [2]int{s, p})
			}
		}
	}
	var ls []rig.Layout
	for _, linked := range []bool{false, true} {
		for _, rt := range rig.RuleTypes {
			for _, sh := range shapes {
				if linked && r.Quick() && sh != [2]int{2, 2} && sh != [2]int{3, 1} && sh != [2]int{1, 2} {
					continue // quick tier: linked children on three shapes only
				}
				ls = append(ls, rig.Layout{Rule: rt, Linked: linked, Slices: sh[0], Per: sh[1]})
			}
		}
	}
	// linked children whose sharding column is named differently from the parent's
	for _, rt := range rig.RuleTypes {
		for _, sh := range shapes {
			if r.Quick() && sh != [2]int{2, 2} && sh != [2]int{3, 1} {
				continue
			}
			ls = append(ls, rig.Layout{Rule: rt, Linked: true, OwnKey: true, Slices: sh[0], Per: sh[1]})
		}
	}
	for _, sh := range shapes {
		ls = append(ls, rig.Layout{Rule: models.ShardGlobal, Slices: sh[0], Per: sh[1]})
	}
	var ok []rig.Layout
	for _, l := range ls {
		if l.Supported() {
			ok = append(ok, l)
		}
	}
	return ok
}

// options: replace, perm, seq, ondup, qual, pcol — all vectors with at most k deviations from
// (INSERT, natural column order, no sequence, no ON DUPLICATE, unqualified).
func options(k int) [][]int {
	var out [][]int
	enum.Deviations([]int{2, len(perms), len(seqModes), 2, 2, 2}, k, func(idx []int) {
		if idx[0] == 1 && idx[3] == 1 {
			return // REPLACE ... ON DUPLICATE KEY UPDATE is not SQL
		}
		out = append(out, append([]int(nil), idx...))
	})
	return out
}

// family is one slice of the statement universe of a layout.
type family struct {
	form    string
	rows    int     // exact number of rows
	needLit bool    // only vectors with at least one plain-literal row (class 0)
	opts    [][]int // option vectors
}

func runLayout(r *ev.Run, l rig.Layout, fams []family) {
	b, err := rig.Build(l)
	if err != nil {
		ev.Fatalf("layout: %v", err)
	}
	cs := classesOf(b)
	cls := map[string]class{}
	for _, c := range cs {
		cls[c.Name] = c
	}
	// non-vacuity: count the literal classes the rule can place (by construction lit,
	// quoted, boundary and boundary_hi are; main() fails the run if none is anywhere)
	if b.KeyCol != "" {
		for _, c := range cs {
			if c.Kind == kLit {
				if _, ok := route(b, c.Val); ok {
					r.Add("routable_literal_classes", 1)
				} else {
					r.Add("unroutable_literal_classes", 1)
				}
			}
		}
	}
	lookupCheck(r, b, cs)
	var evals, accepted, rejected, rejectedRoutable int64
	run := func(c Case) {
		res := evaluate(b, cls, &c)
		evals++
		switch {
		case res.v != nil:
			r.Violation(ev.Witness{Summary: res.v.summary, Features: res.v.feat, Case: c})
			tally(res.v)
		case res.rejected:
			rejected++
			if res.key == "" {
				rejectedRoutable++
			}
		default:
			accepted++
		}
		if res.v == nil && res.key != "" && c.Perm == 0 && c.Seq == "none" && !c.OnDup && !c.Qual && !c.Replace {
			r.Distinct("nontrivial", l.String()+"|"+c.Form+"|"+fmt.Sprint(c.PCol)+"|"+strings.Join(c.Classes, ",")+"|"+res.key)
		}
		if cj := strings.Join(c.Classes, ","); c.Perm == 0 && c.Seq == "none" && !c.Qual && !c.Replace && (cj == "lit,quoted" || cj == "boundary,null" || cj == "lit,boundary_hi,quoted" || (c.Form == "set" && cj == "quoted")) {
			r.Sample(map[string]interface{}{"layout": l.String(), "sql": c.SQL, "outcome": strOr(res.key, "violation")})
		}
	}
	for _, f := range fams {
		opts := f.opts
		if l.OwnKey && len(opts) > 1 {
			// own-key child: REPLACE together with the parent-named column as well
			extra := []int{1, 0, 0, 0, 0, 1}
			have := false
			for _, o := range opts {
				if fmt.Sprint(o) == fmt.Sprint(extra) {
					have = true
				}
			}
			if !have {
				opts = append(append([][]int(nil), opts...), extra)
			}
		}
		for _, o := range opts {
			base := Case{Layout: l, Form: f.form, Replace: o[0] == 1, Perm: o[1], Seq: seqModes[o[2]], OnDup: o[3] == 1, Qual: o[4] == 1, PCol: o[5] == 1}
			if base.PCol && !l.OwnKey {
				continue // only the own-key child table has a parent-named column
			}
			enum.Seqs(len(cs), f.rows, f.rows, func(seq []int) {
				lits := 0
				for _, x := range seq {
					if x == 0 {
						lits++
					}
				}
				if f.needLit && lits == 0 {
					return
				}
				if base.Seq == "onkey_omit" && lits != len(seq) {
					return // the key column is absent: classes do not matter
				}
				c := base
				for _, x := range seq {
					c.Classes = append(c.Classes, cs[x].Name)
				}
				run(c)
			})
			if r.TimeUp() {
				break
			}
		}
	}
	r.Add("evaluations", evals)
	r.Add("accepted", accepted)
	r.Add("rejected", rejected)
	r.Add("rejected_although_routable", rejectedRoutable)
}

// replayHistoryCase re-runs a witness of the history family: the history on a fresh
// router, then the subject, with both oracles.
func replayHistoryCase(r *ev.Run, rc Case, cls map[string]class) {
	s := hstmt{Name: "S:replay", SQL: rc.SQL}
	if rc.Form != "history" {
		c := rc
		c.History = nil
		s.C = &c
	}
	fresh, _ := replayHistory(rc.Layout, cls, nil, s)
	after, v := replayHistory(rc.Layout, cls, rc.History, s)
	fmt.Println("replay: history", rc.History)
	fmt.Println("  subject:", s.SQL)
	fmt.Println("  fresh router:  ", describe(fresh))
	fmt.Println("  after history: ", describe(after))
	r.Add("evaluations", 2)
	if v != nil {
		r.Violation(ev.Witness{Summary: v.summary, Features: v.feat, Case: rc})
	}
	if sig(fresh) != sig(after) {
		reportHistoryDependence(r, rc.Layout, cls, rc.History, s, sig(fresh), sig(after))
	}
}

func main() {
	gx.Quiet()
	r := ev.Start("C03", "exploration")
	var rc Case
	if r.ReplayCase(&rc) {
		b, err := rig.Build(rc.Layout)
		if err != nil {
			ev.Fatalf("layout: %v", err)
		}
		cs := classesOf(b)
		if rc.Form == "lookup" {
			var one []class
			for _, c := range cs {
				if c.Name == rc.Classes[0] {
					one = append(one, c)
				}
			}
			lookupCheck(r, b, one)
			r.Finish()
		}
		cls := map[string]class{}
		for _, c := range cs {
			cls[c.Name] = c
		}
		if len(rc.History) > 0 || rc.Form == "history" {
			replayHistoryCase(r, rc, cls)
			r.Finish()
		}
		res := evaluate(b, cls, &rc)
		fmt.Println("replay:", rc.SQL)
		fmt.Println("  ", describe(b.Env.Plan(rig.DB, rc.SQL, rc.seqSpec(b)...)))
		if res.v != nil {
			r.Violation(ev.Witness{Summary: res.v.summary, Features: res.v.feat, Case: rc})
		}
		r.Add("evaluations", 1)
		r.Finish()
	}

	debug.SetGCPercent(400)
	ls := layouts(r)
	o0 := options(0)
	o1 := options(1)
	o2 := options(2)
	var fams []family
	var bound string
	if r.Quick() {
		fams = []family{{"values", 1, false, o1}, {"values", 2, false, o1}, {"set", 1, false, o1}, {"values", 3, true, o0}}
		bound = fmt.Sprintf("VALUES with 1-2 rows and SET: all sharding-value class vectors x %d option vectors (<=1 deviation in replace/column order (6)/sequence mode (6)/on-duplicate/db-qualified/parent-named column set (own-key children; there also with REPLACE)); VALUES with 3 rows: all class vectors with at least one plain literal row, default options", len(o1))
	} else {
		fams = []family{{"values", 1, false, o2}, {"values", 2, false, o2}, {"set", 1, false, o2}, {"values", 3, false, o1}}
		bound = fmt.Sprintf("VALUES with 1-2 rows and SET: all sharding-value class vectors x %d option vectors (<=2 deviations in replace/column order (6)/sequence mode (6)/on-duplicate/db-qualified); VALUES with 3 rows: all class vectors x %d option vectors (<=1 deviation)", len(o2), len(o1))
	}
	var mu sync.Mutex
	done := 0
	n := enum.Parallel(len(ls), r.TimeUp, func(i int) {
		runLayout(r, ls[i], fams)
		mu.Lock()
		done++
		mu.Unlock()
	})
	if n < len(ls) || r.TimeUp() {
		r.Capped(fmt.Sprintf("%d of %d layouts completed", done, len(ls)))
	}
	hls := historyLayouts(r)
	hdone := 0
	hn := enum.Parallel(len(hls), r.TimeUp, func(i int) {
		historyFamily(r, hls[i], 2)
		mu.Lock()
		hdone++
		mu.Unlock()
	})
	if hn < len(hls) || r.TimeUp() {
		r.Capped(fmt.Sprintf("history family: %d of %d layouts completed", hdone, len(hls)))
	}
	r.Set("history_layouts", len(hls))
	r.Set("history_bound", fmt.Sprintf("%d layouts (11 rule types, own table and linked child; shapes %s): a subject S (INSERT VALUES and INSERT SET with every sharding-value class, 2- and 3-row VALUES, REPLACE, the point lookup of every routable literal class, full scan, NOT BETWEEN, BETWEEN, IN, NOT IN, range, OR, UPDATE, DELETE, join, global-table INSERT/UPDATE) is planned after every prefix of 1-2 distinct statements of an 18-statement pool (INSERT VALUES 1 and 3 rows, INSERT SET, INSERT into the parent/child table, global INSERT/UPDATE, NOT BETWEEN with adjacent and with far-apart bounds, BETWEEN, IN, NOT IN, range, OR, full scan, UPDATE, DELETE, join) on the SAME router; the subjects follow one another on that router, rotated per prefix", len(hls), map[bool]string{true: "2x2, plus 3x1 for range/date rules (linked: 2x2)", false: "1x2 2x1 2x2 3x1 1x4 4x1"}[r.Quick()]))
	r.Set("layouts", len(ls))
	r.Set("bound", fmt.Sprintf("%d layouts (11 rule types x {own table, linked child with the parent key name, linked child with its own key name} + global; slices x tables-per-slice shapes: %s); per layout: %s; plus one point SELECT per routable literal class", len(ls), map[bool]string{true: "1x1 1x2 2x1 2x2 3x1 1x4 4x1 (linked children: 1x2 2x2 3x1; own-key children: 2x2 3x1)", false: "all of 1-4 x 1-4"}[r.Quick()], bound))
	r.Set("rule", "every statement of the bounded universe is enumerated (no sampling). distinct_nontrivial counts distinct (layout, form, value-class vector, outcome) with default options where the outcome is either a verified placement of every row in its physical table or a rejection that the oracle demanded (a row with an unroutable sharding value), plus distinct (layout, class) point lookups that were pruned to exactly the table of the inserted row, plus distinct (layout, prefix, subject) of the history family where the subject was accepted after the prefix and its plan was identical to its plan on a fresh router")
	r.Assume("Rule.FindTableIndex is the reference for where a sharding value lives (its agreement with Mycat / the rule definitions is the subject of C07-C09)")
	r.Assume("a panic inside BuildPlan is recovered by handleQuery and therefore counts as a rejection")
	r.Assume("time zone UTC for integer keys of calendar rules")
	printTallies()
	if r.Count("routable_literal_classes") < int64(4*len(ls))/2 {
		ev.Fatalf("vacuous run: only %d routable literal classes over %d layouts", r.Count("routable_literal_classes"), len(ls))
	}
	if r.Count("accepted") == 0 || r.Count("rejected") == 0 {
		ev.Fatalf("vacuous run: accepted=%d rejected=%d", r.Count("accepted"), r.Count("rejected"))
	}
	r.Finish()
}
