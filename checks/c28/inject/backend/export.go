//go:build verif

package backend

import "context"

// Accessors for the C27/C28 health-check rig (injected by build overlay; not part of Gaea).
// The loops themselves are the real, unexported methods; nothing of their logic is copied.

func VerifRunMasterLoop(s *Slice, ctx context.Context, downAfterNoAlive int) {
	s.checkBackendMasterStatus(ctx, downAfterNoAlive)
}

func VerifRunSlaveLoop(s *Slice, ctx context.Context, slave *DBInfo, downAfterNoAlive int, secondsBehindMaster int) {
	s.checkBackendSlaveStatus(ctx, slave, downAfterNoAlive, secondsBehindMaster)
}

// VerifGetConnWithFuse is the fuse entry point of a session whose replica was already selected
// (getNodeFromBalancer returned it earlier): pool Get + TryFuse for that node, whatever its
// status is by now.
func VerifGetConnWithFuse(s *Slice, node *NodeInfo) (PooledConnect, error) {
	return s.getConnWithFuse(node)
}

// VerifGradualState: read-only view for the canonical state key / counter comparison.
func VerifGradualState(g *GradualRecoveryStrategy) (errorRecoveryCount, consecutiveSuccessCheckCount, lastRecoveryTime, lastFuseTime int64) {
	return g.errorRecoveryCount.Get(), g.consecutiveSuccessCheckCount.Get(), g.lastRecoveryTime.Get(), g.lastFuseTime.Get()
}

func VerifHardState(h *HardCoolDownStrategy) (coolingPeriod, lastFuseTime int64) {
	return h.coolingPeriod, h.lastFuseTime.Get()
}

type VerifBucket struct {
	Nil        bool
	StartTime  int64
	ErrorCount int64
}

func VerifWindowState(sw *SlidingWindow) (enabled bool, startSec int64, all int64, buckets []VerifBucket) {
	sw.mu.Lock()
	defer sw.mu.Unlock()
	for _, b := range sw.buckets {
		if b == nil {
			buckets = append(buckets, VerifBucket{Nil: true})
		} else {
			buckets = append(buckets, VerifBucket{StartTime: b.StartTime, ErrorCount: b.ErrorCount})
		}
	}
	return sw.enabled, sw.startSec, sw.allErrorCount, buckets
}
