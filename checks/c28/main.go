// C28: health checks mark nodes down and up according to the probe history.
//
// Engine: xstate over the shared health-check rig (checks/c27/rig): real Slice, real
// checkBackendMasterStatus / checkBackendSlaveStatus loops on a virtual ticker, scripted
// probe answers, logical clock. This file only holds C28's oracle — the allowed / required
// status after every event, computed by the reference model (rig.Ref.Step):
//
//	master round   no passed probe for >= down_after  => down
//	               else probe passed                   => up
//	               else                                => unchanged
//	replica round  no passed probe for >= down_after  => down
//	               else probe failed                   => unchanged
//	               else master up, lag > limit or a replication thread stopped => down
//	               else (healthy) up stays up; down comes up iff the recovery policy's gate
//	               is open (none: always; hard: latest fuse + cool-down reached; gradual:
//	               no consecutive successful probes pending), otherwise stays down
//	               master down: replication health cannot be judged — a lagging replica may
//	               keep its status or go down; a healthy down replica comes up iff gate open
//	any other event (clock advance, probe of the other node) => unchanged; a client
//	connection error changes the replica only by a fuse (C26)
package main

import (
	"fmt"

	"verif/checks/c27/rig"
	"verif/engine/gx"
)

func tr(before, after bool) string {
	s := map[bool]string{true: "up", false: "down"}
	return s[before] + ">" + s[after]
}

func oracle(c *rig.StepCtx) (string, map[string]string) {
	if c.Died != "" {
		return "the " + c.Died + " health-check loop returned by itself", map[string]string{"kind": "health_check_loop_died"}
	}
	probe := "n/a"
	if c.X.Round != "" {
		probe = "failed"
		if c.X.Pass {
			probe = "passed"
		}
	}
	gate := "n/a"
	if c.X.Round == "R" {
		gate = "open"
		if !c.X.GateOpen {
			gate = "closed"
		}
	}
	if (c.After.MasterUp && !c.X.MasterMayUp) || (!c.After.MasterUp && !c.X.MasterMayDown) {
		return fmt.Sprintf("master is %s after the event; expected by rule %q", tr(c.Before.MasterUp, c.After.MasterUp), c.X.MasterRule),
			map[string]string{"node": "master", "kind": "status_not_allowed", "rule": c.X.MasterRule, "transition": tr(c.Before.MasterUp, c.After.MasterUp), "probe": probe, "gate": gate}
	}
	if (c.After.ReplicaUp && !c.X.ReplicaMayUp) || (!c.After.ReplicaUp && !c.X.ReplicaMayDown) {
		return fmt.Sprintf("replica is %s after the event; expected by rule %q", tr(c.Before.ReplicaUp, c.After.ReplicaUp), c.X.ReplicaRule),
			map[string]string{"node": "replica", "kind": "status_not_allowed", "rule": c.X.ReplicaRule, "transition": tr(c.Before.ReplicaUp, c.After.ReplicaUp), "probe": probe, "gate": gate}
	}
	return "", nil
}

func main() {
	gx.Quiet()
	const start = 1700000000
	var cfgs []rig.Cfg
	for _, da := range []int{6, 12} {
		cfgs = append(cfgs, rig.Cfg{Policy: "none", DownAfter: da, LagLimit: 10, W: 3, M: 1, Start: start})
		cfgs = append(cfgs, rig.Cfg{Policy: "none", DownAfter: da, LagLimit: 0, W: 3, M: 1, Start: start})
		for _, m := range []int64{1, 2} {
			cfgs = append(cfgs, rig.Cfg{Policy: "hard", DownAfter: da, LagLimit: 10, W: 3, M: m, Cooldown: 5, Start: start})
			cfgs = append(cfgs, rig.Cfg{Policy: "gradual", DownAfter: da, LagLimit: 10, W: 3, M: m, Start: start})
		}
	}
	rig.Main(&rig.Plan{ID: "C28", Level: "model_checking", Configs: cfgs, Depth: 6, FullDepth: 2, Oracle: oracle,
		Assume: []string{"'passed a health probe' = Gaea's checkInstanceStatus succeeds: a check connection is obtained and the health SQL succeeds, or it fails with a non-fatal error and ping + `select 1` succeed"}})
}
