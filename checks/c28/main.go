// C28: health checks mark nodes down and up according to the probe history.
//
// Engine: xstate over the shared health-check rig (checks/c27/rig): real Slice, real
// checkBackendMasterStatus / checkBackendSlaveStatus loops on a virtual ticker, scripted
// probe answers, logical clock. This file only holds C28's oracle — the allowed / required
// status after every event, computed by the reference model (rig.Ref.Step):
//
//	master round   no passed probe for >= down_after  => down
//	               else probe passed                   => up
//	               else                                => unchanged
//	replica round  no passed probe for >= down_after  => down
//	               else probe failed                   => unchanged
//	               else master up, lag > limit or a replication thread stopped => down
//	               else (healthy) up stays up; down comes up iff the recovery policy's gate
//	               is open (none: always; hard: latest fuse + cool-down reached; gradual:
//	               no consecutive successful probes pending), otherwise stays down
//	               master down: replication health cannot be judged — a lagging replica may
//	               keep its status or go down; a healthy down replica comes up iff gate open
//	any other event (clock advance, probe of the other node) => unchanged; a client
//	connection error changes the replica only by a fuse (C26)
package main

import (
	"fmt"

	"verif/checks/c27/rig"
	"verif/engine/gx"
)

func tr(before, after bool) string {
	s := map[bool]string{true: "up", false: "down"}
	return s[before] + ">" + s[after]
}

func oracle(c *rig.StepCtx) (string, map[string]string) {
	if c.Died != "" {
		return "the " + c.Died + " health-check loop returned by itself", map[string]string{"kind": "health_check_loop_died"}
	}
	if (c.After.MasterUp && !c.X.MasterMayUp) || (!c.After.MasterUp && !c.X.MasterMayDown) {
		probe := "n/a"
		if c.X.Round == "M" {
			probe = "failed"
			if c.X.MasterPass {
				probe = "passed"
			}
		}
		return fmt.Sprintf("master is %s after the event; expected by rule %q", tr(c.Before.MasterUp, c.After.MasterUp), c.X.MasterRule),
			map[string]string{"node": "master", "kind": "status_not_allowed", "rule": c.X.MasterRule, "transition": tr(c.Before.MasterUp, c.After.MasterUp), "probe": probe, "gate": "n/a"}
	}
	// every replica of the group on its own
	for i, x := range c.X.Rep {
		before, after := x.WasUp, c.After.ReplicaUp[i] // before = at the decision (after a fuse that landed inside the round)
		if (after && !x.MayUp) || (!after && !x.MayDown) {
			probe, gate := "n/a", "n/a"
			if c.X.Round == "R" {
				probe, gate = "failed", "open"
				if x.Pass {
					probe = "passed"
				}
				if !x.GateOpen {
					gate = "closed"
				}
			}
			who := "replica"
			if len(c.X.Rep) > 1 {
				who = fmt.Sprintf("replica %d", i)
			}
			return fmt.Sprintf("%s is %s after the event; expected by rule %q", who, tr(before, after), x.Rule),
				map[string]string{"node": "replica", "idx": fmt.Sprint(i), "kind": "status_not_allowed", "rule": x.Rule, "transition": tr(before, after), "probe": probe, "gate": gate}
		}
	}
	return "", nil
}

func main() {
	gx.Quiet()
	const start = 1700000000
	var cfgs []rig.Cfg
	for _, da := range []int{6, 12} {
		cfgs = append(cfgs, rig.Cfg{Policy: "none", DownAfter: da, LagLimit: 10, W: 3, M: 1, Start: start})
		cfgs = append(cfgs, rig.Cfg{Policy: "none", DownAfter: da, LagLimit: 0, W: 3, M: 1, Start: start})
		for _, m := range []int64{1, 2} {
			cfgs = append(cfgs, rig.Cfg{Policy: "hard", DownAfter: da, LagLimit: 10, W: 3, M: m, Cooldown: 5, Start: start})
			cfgs = append(cfgs, rig.Cfg{Policy: "gradual", DownAfter: da, LagLimit: 10, W: 3, M: m, Start: start})
		}
	}
	// two replicas in one slave group: every replica's status follows its own probe history,
	// its own fuses and its own recovery gate
	cfgs = append(cfgs,
		rig.Cfg{Policy: "hard", DownAfter: 12, LagLimit: 0, W: 3, M: 1, Cooldown: 5, Start: start, Replicas: 2, Depth: 5},
		rig.Cfg{Policy: "gradual", DownAfter: 12, LagLimit: 0, W: 3, M: 1, Start: start, Replicas: 2, Depth: 5},
		rig.Cfg{Policy: "none", DownAfter: 6, LagLimit: 0, W: 3, M: 1, Start: start, Replicas: 2, Depth: 5})
	rig.Main(&rig.Plan{ID: "C28", Level: "model_checking", Configs: cfgs, Depth: 6, FullDepth: 2, Oracle: oracle,
		Assume: []string{"'passed a health probe' = Gaea's checkInstanceStatus succeeds: a check connection is obtained and the health SQL succeeds, or it fails with a non-fatal error and ping + `select 1` succeed"}})
}
