// C30: password checks accept exactly the proofs MySQL would accept.
//
// Engine: enum. The real Session.handleHandshakeResponse (user check, auth-method
// selection, Manager.CheckHashPassword / CheckPassword / CheckSha2Password with their
// per-user multi-password loops, namespace binding) is driven with every combination of
//
//	salt x user configuration (1-3 passwords of user "u" in different namespaces, each stored
//	in clear or as '*'+HEX(SHA1(SHA1(pw))), every registration order) x auth-plugin field x
//	auth response (correct native / caching_sha2 scramble of every configured password, all
//	single-bit flips, truncated, extended, empty, wrong salt, other user's / unconfigured
//	password, the stored hash string used as a password, raw hash bytes)
//
// and compared with an independent implementation of both scrambles.
package main

import (
	"bytes"
	"crypto/sha1"
	"crypto/sha256"
	"encoding/hex"
	"fmt"
	"net"
	"os"
	"sort"
	"strconv"
	"strings"
	"sync"
	"time"

	"github.com/XiaoMi/Gaea/models"
	"github.com/XiaoMi/Gaea/mysql"
	"github.com/XiaoMi/Gaea/proxy/server"

	"verif/engine/enum"
	"verif/engine/ev"
	"verif/engine/gx"
)

// ---------------------------------------------------------------- reference (protocol definition)

// mysql_native_password: SHA1(pw) XOR SHA1(salt || SHA1(SHA1(pw))); empty password -> empty.
func refNative(salt []byte, pw string) []byte {
	if pw == "" {
		return []byte{}
	}
	s1 := sha1.Sum([]byte(pw))
	s2 := sha1.Sum(s1[:])
	x := sha1.Sum(append(append([]byte{}, salt...), s2[:]...))
	out := make([]byte, 20)
	for i := range out {
		out[i] = s1[i] ^ x[i]
	}
	return out
}

// caching_sha2_password fast path: SHA256(pw) XOR SHA256(SHA256(SHA256(pw)) || salt).
func refSha2(salt []byte, pw string) []byte {
	if pw == "" {
		return []byte{}
	}
	m1 := sha256.Sum256([]byte(pw))
	m1h := sha256.Sum256(m1[:])
	m2 := sha256.Sum256(append(append([]byte{}, m1h[:]...), salt...))
	out := make([]byte, 32)
	for i := range out {
		out[i] = m1[i] ^ m2[i]
	}
	return out
}

func refStored(pw, form string) string {
	switch form {
	case "clear":
		return pw
	case "hash", "hashlower":
		s1 := sha1.Sum([]byte(pw))
		s2 := sha1.Sum(s1[:])
		h := hex.EncodeToString(s2[:])
		if form == "hash" {
			h = strings.ToUpper(h)
		}
		return "*" + h
	}
	ev.Fatalf("bad form %s", form)
	return ""
}

func isHashed(form string) bool { return form != "clear" }

// ---------------------------------------------------------------- case

type cred struct {
	NS   string `json:"ns"`
	Pw   string `json:"pw"`
	Form string `json:"form"`
}

type kase struct {
	Salt     string `json:"salt_hex"`
	Creds    []cred `json:"creds_of_u_in_registration_order"`
	Plugin   string `json:"auth_plugin_field"`
	User     string `json:"user"`
	RespKind string `json:"resp_kind"`
	Resp     string `json:"resp_hex"`
}

const otherUser, otherPw, otherNS = "v", "other-pw", "nsV"

type fakeAddr struct{}

func (fakeAddr) Network() string { return "tcp" }
func (fakeAddr) String() string  { return "10.0.0.1:40000" }

type fakeConn struct{}

func (fakeConn) Read(b []byte) (int, error)         { return 0, fmt.Errorf("closed") }
func (fakeConn) Write(b []byte) (int, error)        { return len(b), nil }
func (fakeConn) Close() error                       { return nil }
func (fakeConn) LocalAddr() net.Addr                { return fakeAddr{} }
func (fakeConn) RemoteAddr() net.Addr               { return fakeAddr{} }
func (fakeConn) SetDeadline(t time.Time) error      { return nil }
func (fakeConn) SetReadDeadline(t time.Time) error  { return nil }
func (fakeConn) SetWriteDeadline(t time.Time) error { return nil }

func nsCfg(name, user, stored string) *models.Namespace {
	return &models.Namespace{Name: name, Users: []*models.User{{UserName: user, Password: stored, Namespace: name, RWFlag: 2}}}
}

func buildManager(creds []cred) *server.Manager {
	order := []*models.Namespace{nsCfg(otherNS, otherUser, otherPw)}
	for _, c := range creds {
		order = append(order, nsCfg(c.NS, "u", refStored(c.Pw, c.Form)))
	}
	return server.VerifManagerWithUsers(order)
}

type outcome struct {
	accept bool
	ns     string
	panic  bool
	err    string
}

func observe(m *server.Manager, sess **server.Session, k kase, salt, resp []byte) outcome {
	if *sess == nil {
		*sess = server.VerifHandshakeSession(m, fakeConn{})
	}
	info := server.HandshakeResponseInfo{
		CollationID:  33,
		User:         k.User,
		AuthResponse: append([]byte{}, resp...), // the real reader hands over a private copy as well
		Salt:         append([]byte{}, salt...),
		Database:     "",
		AuthPlugin:   k.Plugin,
	}
	var o outcome
	var err error
	if p := ev.Catch(func() { err = server.VerifHandleHandshakeResponse(*sess, info) }); p != nil {
		// Server.onConn recovers, logs and closes the connection: a rejection.
		o.panic = true
		o.err = fmt.Sprint(p)
		*sess = nil
		return o
	}
	if err != nil {
		o.err = err.Error()
		return o
	}
	o.accept = true
	o.ns = server.VerifSessionNamespace(*sess)
	if en := server.VerifExecutorNamespace(*sess); en != o.ns {
		o.ns = o.ns + "|executor:" + en
	}
	if eu := server.VerifExecutorUser(*sess); eu != k.User {
		o.ns = o.ns + "|user:" + eu
	}
	*sess = nil // a session that authenticated is not reused
	return o
}

// want: 1 accept (ns), 0 reject, 2 not defined by the statement
func reference(k kase, salt, resp []byte) (want int, ns string, matchIdx int, via string) {
	matchIdx = -1
	if k.User != "u" {
		// user v has one clear password in nsV; any other user is unknown
		if k.User == otherUser {
			nat := bytes.Equal(resp, refNative(salt, otherPw))
			sh := bytes.Equal(resp, refSha2(salt, otherPw))
			switch {
			case nat && k.Plugin != mysql.CachingSHA2Password:
				return 1, otherNS, -1, "native"
			case sh && k.Plugin != mysql.MysqlNativePassword:
				return 1, otherNS, -1, "sha2"
			case nat || sh:
				return 2, "", -1, "cross"
			}
		}
		return 0, "", -1, ""
	}
	natIdx, shaIdx := -1, -1
	for i, c := range k.Creds {
		if natIdx < 0 && bytes.Equal(resp, refNative(salt, c.Pw)) {
			natIdx = i
		}
		if shaIdx < 0 && bytes.Equal(resp, refSha2(salt, c.Pw)) {
			shaIdx = i
		}
	}
	switch k.Plugin {
	case "":
		if natIdx >= 0 {
			return 1, k.Creds[natIdx].NS, natIdx, "native"
		}
		if shaIdx >= 0 {
			if isHashed(k.Creds[shaIdx].Form) {
				return 2, "", shaIdx, "sha2_vs_sha1_hash"
			}
			return 1, k.Creds[shaIdx].NS, shaIdx, "sha2"
		}
	case mysql.MysqlNativePassword:
		if natIdx >= 0 {
			return 1, k.Creds[natIdx].NS, natIdx, "native"
		}
		if shaIdx >= 0 {
			return 2, "", shaIdx, "cross"
		}
	case mysql.CachingSHA2Password:
		if shaIdx >= 0 {
			if isHashed(k.Creds[shaIdx].Form) {
				return 2, "", shaIdx, "sha2_vs_sha1_hash"
			}
			return 1, k.Creds[shaIdx].NS, shaIdx, "sha2"
		}
		if natIdx >= 0 {
			return 2, "", natIdx, "cross"
		}
	}
	return 0, "", -1, ""
}

func forms(creds []cred) string {
	f := make([]string, len(creds))
	for i, c := range creds {
		f[i] = c.Form
		if f[i] == "hashlower" {
			f[i] = "hash"
		}
	}
	return strings.Join(f, ",")
}

func judge(r *ev.Run, m *server.Manager, sess **server.Session, k kase) {
	salt, _ := hex.DecodeString(k.Salt)
	resp, _ := hex.DecodeString(k.Resp)
	want, wantNS, idx, via := reference(k, salt, resp)
	got := observe(m, sess, k, salt, resp)
	if got.panic {
		r.Add("panics_recovered_as_reject", 1)
	}
	if want == 2 {
		r.Add("not_defined_by_statement", 1)
		return
	}
	kind := ""
	switch {
	case want == 1 && !got.accept:
		kind = "reject_correct"
	case want == 0 && got.accept:
		kind = "accept_wrong"
	case want == 1 && got.accept && got.ns != wantNS:
		kind = "wrong_namespace"
	}
	if got.accept {
		r.Distinct("nontrivial", "acc|"+forms(k.Creds)+"|"+k.Plugin+"|"+k.RespKind+"|"+strconv.Itoa(idx)+"|"+k.Salt[:4])
		r.Distinct("accepted_namespaces", got.ns)
	} else if strings.Contains(k.RespKind, "flip") || strings.Contains(k.RespKind, "trunc") || strings.Contains(k.RespKind, "ext") {
		r.Distinct("nontrivial", "rej|"+forms(k.Creds)+"|"+k.Plugin+"|"+k.RespKind+"|"+k.Salt[:4])
	}
	if kind == "" {
		return
	}
	hashedBefore, matchForm := 0, ""
	if idx >= 0 {
		matchForm = k.Creds[idx].Form
		if matchForm == "hashlower" {
			matchForm = "hash"
		}
		for i, c := range k.Creds {
			if isHashed(c.Form) && (i < idx || !isHashed(k.Creds[idx].Form)) && i != idx {
				hashedBefore++
			}
		}
	}
	nHashed := 0
	for _, c := range k.Creds {
		if isHashed(c.Form) {
			nHashed++
		}
	}
	plug := k.Plugin
	if plug == "" {
		plug = "none"
	}
	if os.Getenv("C30_DUMP") != "" {
		dumpMu.Lock()
		dump[fmt.Sprintf("%s plugin=%s resp=%s forms=%s match_form=%s hashed_before=%d user=%s", kind, plug, k.RespKind, forms(k.Creds), matchForm, hashedBefore, k.User)]++
		dumpMu.Unlock()
	}
	r.Violation(ev.Witness{
		Summary: fmt.Sprintf("user %q, passwords of u %s (forms %s), plugin field %q, response %s: Gaea accept=%v ns=%q panic=%v; reference: %s ns=%q (%s)",
			k.User, credList(k.Creds), forms(k.Creds), k.Plugin, k.RespKind, got.accept, got.ns, got.panic,
			[...]string{"reject", "accept"}[want], wantNS, via),
		Features: map[string]string{"kind": kind, "plugin": plug, "resp": k.RespKind, "forms": forms(k.Creds),
			"match_form": matchForm, "hashed_checked_before_match": strconv.Itoa(hashedBefore),
			"npw": strconv.Itoa(len(k.Creds)), "nhashed": strconv.Itoa(nHashed), "user": k.User},
		Case: k,
	})
}

var (
	dumpMu sync.Mutex
	dump   = map[string]int{}
)

func credList(cs []cred) string {
	var sb strings.Builder
	for i, c := range cs {
		if i > 0 {
			sb.WriteString(", ")
		}
		fmt.Fprintf(&sb, "%s:%q/%s", c.NS, c.Pw, c.Form)
	}
	return "[" + sb.String() + "]"
}

// ---------------------------------------------------------------- universe

func salts() [][]byte {
	var out [][]byte
	out = append(out, bytes.Repeat([]byte{0x00}, 20), bytes.Repeat([]byte{0xff}, 20))
	seq := make([]byte, 20)
	for i := range seq {
		seq[i] = byte(i + 1)
	}
	out = append(out, seq)
	// three fixed pseudo-random salts (SHA1 of fixed strings)
	for _, s := range []string{"salt-1", "salt-2", "salt-3"} {
		h := sha1.Sum([]byte(s))
		out = append(out, h[:])
	}
	return out
}

var passwords = []string{"a", "p:q", "pässwörd", "密码", strings.Repeat("x", 64)}
var nsNames = []string{"nsA", "nsB", "nsC"}

func configs() [][]cred {
	var out [][]cred
	for _, p := range passwords {
		for _, f := range []string{"clear", "hash", "hashlower"} {
			out = append(out, []cred{{nsNames[0], p, f}})
		}
	}
	two := []string{"clear", "hash"}
	for i, p1 := range passwords {
		for j, p2 := range passwords {
			if i == j {
				continue
			}
			for _, f1 := range two {
				for _, f2 := range two {
					out = append(out, []cred{{nsNames[0], p1, f1}, {nsNames[1], p2, f2}})
				}
			}
		}
	}
	// the empty password (MySQL: account without password; stored as the empty string, never as
	// a hash): alone, and first / second / third beside other passwords of the same user
	out = append(out, []cred{{nsNames[0], "", "clear"}})
	for _, p := range passwords {
		for _, f := range two {
			out = append(out, []cred{{nsNames[0], "", "clear"}, {nsNames[1], p, f}})
			out = append(out, []cred{{nsNames[0], p, f}, {nsNames[1], "", "clear"}})
		}
	}
	for _, f1 := range two {
		for _, f3 := range two {
			out = append(out, []cred{{nsNames[0], "a", f1}, {nsNames[1], "", "clear"}, {nsNames[2], "p:q", f3}})
			out = append(out, []cred{{nsNames[2], "p:q", f3}, {nsNames[0], "a", f1}, {nsNames[1], "", "clear"}})
		}
	}
	three := []string{"a", "p:q", "密码"}
	for _, order := range [][]int{{0, 1, 2}, {2, 1, 0}} {
		for _, f1 := range two {
			for _, f2 := range two {
				for _, f3 := range two {
					fs := []string{f1, f2, f3}
					var c []cred
					for k, idx := range order {
						c = append(c, cred{nsNames[idx], three[idx], fs[k]})
					}
					out = append(out, c)
				}
			}
		}
	}
	return out
}

type resp struct {
	kind string
	b    []byte
}

func flip(b []byte, bit int) []byte {
	o := append([]byte{}, b...)
	o[bit/8] ^= 1 << uint(bit%8)
	return o
}

func responses(salt []byte, creds []cred, allFlips bool) []resp {
	var out []resp
	add := func(kind string, b []byte) { out = append(out, resp{kind, b}) }
	wrongSalt := append([]byte{}, salt...)
	wrongSalt[19] ^= 1
	for _, c := range creds {
		if c.Pw == "" {
			// MySQL: an account without password is proven by the EMPTY auth response (both
			// plugins); the scramble formulas applied to "" are ordinary wrong responses
			add("empty_password_correct_empty_response", []byte{})
			s1 := sha1.Sum(nil)
			s2 := sha1.Sum(s1[:])
			x := sha1.Sum(append(append([]byte{}, salt...), s2[:]...))
			f20 := make([]byte, 20)
			for i := range f20 {
				f20[i] = s1[i] ^ x[i]
			}
			add("native_formula_applied_to_empty_password", f20)
			m1 := sha256.Sum256(nil)
			m1h := sha256.Sum256(m1[:])
			m2 := sha256.Sum256(append(append([]byte{}, m1h[:]...), salt...))
			f32 := make([]byte, 32)
			for i := range f32 {
				f32[i] = m1[i] ^ m2[i]
			}
			add("sha2_formula_applied_to_empty_password", f32)
			add("one_zero_byte", []byte{0})
			continue
		}
		nat, sh := refNative(salt, c.Pw), refSha2(salt, c.Pw)
		add("native_correct", nat)
		add("sha2_correct", sh)
		bits := func(n int) []int {
			if allFlips {
				o := make([]int, n)
				for i := range o {
					o[i] = i
				}
				return o
			}
			return []int{0, 7, 8, n/2 + 3, n - 8, n - 1}
		}
		for _, bit := range bits(160) {
			add("native_bitflip", flip(nat, bit))
		}
		for _, bit := range bits(256) {
			add("sha2_bitflip", flip(sh, bit))
		}
		add("native_trunc", nat[:19])
		add("native_ext", append(append([]byte{}, nat...), 0))
		add("sha2_trunc", sh[:31])
		add("sha2_ext", append(append([]byte{}, sh...), 0))
		add("native_wrong_salt", refNative(wrongSalt, c.Pw))
		add("sha2_wrong_salt", refSha2(wrongSalt, c.Pw))
		s1 := sha1.Sum([]byte(c.Pw))
		s2 := sha1.Sum(s1[:])
		add("raw_sha1", s1[:])
		add("raw_sha1sha1", s2[:])
		if isHashed(c.Form) {
			st := refStored(c.Pw, c.Form)
			add("native_of_stored_hash_string", refNative(salt, st))
			add("sha2_of_stored_hash_string", refSha2(salt, st))
			add("native_of_stored_hex_without_star", refNative(salt, st[1:]))
		}
	}
	add("empty", []byte{})
	add("zero20", make([]byte, 20))
	add("zero32", make([]byte, 32))
	add("native_unconfigured_pw", refNative(salt, "zz"))
	add("sha2_unconfigured_pw", refSha2(salt, "zz"))
	add("native_other_users_pw", refNative(salt, otherPw))
	add("sha2_other_users_pw", refSha2(salt, otherPw))
	return out
}

var plugins = []string{"", mysql.MysqlNativePassword, mysql.CachingSHA2Password}

func main() {
	gx.Quiet()
	r := ev.Start("C30", "exploration")
	var k kase
	if r.ReplayCase(&k) {
		m := buildManager(k.Creds)
		var sess *server.Session
		judge(r, m, &sess, k)
		r.Set("evaluations", 1)
		r.Finish()
	}
	ss := salts()
	cfgs := configs()
	type job struct {
		si, ci int
	}
	var jobs []job
	for ci := range cfgs {
		for si := range ss {
			jobs = append(jobs, job{si, ci})
		}
	}
	done := enum.Parallel(len(jobs), r.TimeUp, func(i int) {
		j := jobs[i]
		salt, creds := ss[j.si], cfgs[j.ci]
		m := buildManager(creds)
		var sess *server.Session
		allFlips := r.Thorough() || j.si == 0 || j.si == 3
		n := int64(0)
		for _, rp := range responses(salt, creds, allFlips) {
			for _, pl := range plugins {
				kk := kase{Salt: hex.EncodeToString(salt), Creds: creds, Plugin: pl, User: "u", RespKind: rp.kind, Resp: hex.EncodeToString(rp.b)}
				judge(r, m, &sess, kk)
				n++
				if i%83 == 1 && pl == plugins[(i/83)%3] && (rp.kind == "native_correct" || rp.kind == "sha2_bitflip" && n%5 == 0) {
					sl, _ := hex.DecodeString(kk.Salt)
					w, wns, _, via := reference(kk, sl, rp.b)
					r.Sample(map[string]interface{}{"case": kk, "reference": [...]string{"reject", "accept", "not defined"}[w], "reference_ns": wns, "via": via})
				}
				if rp.kind == "native_correct" || rp.kind == "sha2_correct" || rp.kind == "empty_password_correct_empty_response" || rp.kind == "native_other_users_pw" || rp.kind == "sha2_other_users_pw" {
					// the same proof presented under another user name
					for _, u := range []string{otherUser, "w"} {
						kk.User = u
						judge(r, m, &sess, kk)
						n++
					}
				}
			}
		}
		r.Add("evaluations", n)
		r.Add("salt_x_config", 1)
	})
	if done < len(jobs) {
		r.Capped(fmt.Sprintf("%d of %d (salt, configuration) pairs", done, len(jobs)))
	}
	if os.Getenv("C30_DUMP") != "" {
		keys := []string{}
		for k := range dump {
			keys = append(keys, k)
		}
		sort.Strings(keys)
		for _, k := range keys {
			fmt.Fprintf(os.Stderr, "%6d  %s\n", dump[k], k)
		}
	}
	r.Set("salts", len(ss))
	r.Set("user_configurations", len(cfgs))
	r.Set("universe_salt_x_config", len(jobs))
	r.Set("rule", "6 salts (0x00.., 0xff.., 01..14, three SHA1-derived) x 140 configurations of user u (1 password x {clear, *HEX, *hex}; the EMPTY password (clear) alone, first / second beside each other password x {clear,hash}, and inside 3-password lists; every ordered pair of 5 passwords {a, p:q, pässwörd, 密码, 64 x} x {clear,hash}^2; 3 passwords in 2 orders x {clear,hash}^3; each password in its own namespace, registration order = list order) x 3 auth-plugin fields x responses {native/sha2 scramble of each configured password, single-bit flips (all 160/256 for two salts, 6 positions for the others; all in thorough), truncated/extended by one byte, wrong salt, raw SHA1 / SHA1(SHA1), scramble of the stored hash string, empty, zeros, unconfigured and other user's password}; correct proofs are also presented under user v and unknown user w. distinct_nontrivial = distinct (stored forms, plugin, response kind, index of matching password, salt) with an accepted handshake, plus distinct rejected near-miss classes.")
	r.Assume("SHA-1 / SHA-256 of the Go standard library are correct")
	r.Assume("a caching_sha2 proof for a password stored as SHA1 hash cannot be verified by anybody; a proof of the method other than the negotiated plugin is not defined by the statement: both are skipped (counted as not_defined_by_statement)")
	r.Assume("a panic inside handleHandshakeResponse is recovered by Server.onConn and the connection is closed: counted as a rejection")
	r.Assume("the empty password is configured in clear form only (MySQL stores no hash for an account without password); the control plane (models.User.verify) refuses it, a file-configured proxy loads it; reference = MySQL's rule: it is proven by the empty auth response and by nothing else")
	r.Finish()
}
