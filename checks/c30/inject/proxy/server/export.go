//go:build verif

package server

import (
	"net"

	"github.com/XiaoMi/Gaea/models"
	"github.com/XiaoMi/Gaea/mysql"
)

// Accessors for the C30 harness (injected by build overlay; not part of Gaea).

// VerifManagerWithUsers builds a Manager (no namespaces, no statistics) whose current
// UserManager is filled by the real RebuildNamespaceUsers, namespace by namespace in the
// given order (CreateUserManager ranges over a Go map, i.e. in an unspecified order; the
// harness chooses the order explicitly).
func VerifManagerWithUsers(order []*models.Namespace) *Manager {
	m := NewManager()
	current, _, _ := m.switchIndex.Get()
	m.namespaces[current] = NewNamespaceManager()
	um := NewUserManager()
	for _, ns := range order {
		um.RebuildNamespaceUsers(ns)
	}
	m.users[current] = um
	return m
}

// VerifHandshakeSession builds the part of newSession that handleHandshakeResponse uses.
func VerifHandshakeSession(m *Manager, c net.Conn) *Session {
	cc := new(Session)
	cc.c = NewClientConn(mysql.NewConn(c), m)
	cc.manager = m
	cc.executor = newSessionExecutor(m)
	cc.executor.session = cc
	cc.closed.Store(false)
	return cc
}

func VerifHandleHandshakeResponse(cc *Session, info HandshakeResponseInfo) error {
	return cc.handleHandshakeResponse(info)
}

func VerifSessionNamespace(cc *Session) string  { return cc.namespace }
func VerifExecutorNamespace(cc *Session) string { return cc.executor.namespace }
func VerifExecutorUser(cc *Session) string      { return cc.executor.user }
