package main

// In-flight handshakes (added after seeded change c29-4): a reload / delete that lands DURING a
// handshake. For every probed pair a real Session.Handshake is started on a net.Pipe: the proxy
// sends the greeting and blocks in readHandshakeResponse; the client reads the greeting and
// writes the FIRST byte of its response (net.Pipe is synchronous: the write returns once the
// proxy is inside the read); then the event under test is applied to the Manager; then the client
// writes the rest. The decision must follow the configuration in force when the proxy evaluates
// the complete response, i.e. the reference AFTER the event.

import (
	"io"
	"net"
	"time"

	"github.com/XiaoMi/Gaea/mysql"
	"github.com/XiaoMi/Gaea/proxy/server"

	"verif/engine/ev"
)

type inflightOne struct {
	c      cred
	client net.Conn
	rest   []byte
	done   chan authResult
}

type inflight struct{ hs []*inflightOne }

func nativeProof(salt []byte, pw string) []byte {
	if pw == "" {
		return []byte{}
	}
	// same formula as refNative, for the session's own salt
	return mysqlNative(salt, pw)
}

// startInflight opens one handshake per pair and returns when every proxy side is blocked in the
// read of the client's response.
func startInflight(m *server.Manager, pairs []cred) *inflight {
	f := &inflight{}
	for _, c := range pairs {
		proxySide, clientSide := net.Pipe()
		dl := time.Now().Add(60 * time.Second)
		proxySide.SetDeadline(dl)
		clientSide.SetDeadline(dl)
		sess, salt := server.VerifPipeSession(m, proxySide)
		h := &inflightOne{c: c, client: clientSide, done: make(chan authResult, 1)}
		go func() {
			var err error
			if p := ev.Catch(func() { err = server.VerifHandshake(sess) }); p != nil || err != nil {
				proxySide.Close()
				h.done <- authResult{}
				return
			}
			ns := server.VerifSessionNamespace(sess)
			proxySide.Close()
			h.done <- authResult{ok: true, ns: ns}
		}()
		// client: greeting
		header := make([]byte, 4)
		if _, err := io.ReadFull(clientSide, header); err != nil {
			ev.Fatalf("in-flight handshake: read greeting header: %v", err)
		}
		greeting := make([]byte, int(header[0])|int(header[1])<<8|int(header[2])<<16)
		if _, err := io.ReadFull(clientSide, greeting); err != nil {
			ev.Fatalf("in-flight handshake: read greeting: %v", err)
		}
		capability := uint32(mysql.ClientProtocol41 | mysql.ClientSecureConnection | mysql.ClientLongPassword)
		payload := []byte{byte(capability), byte(capability >> 8), byte(capability >> 16), byte(capability >> 24), 0, 0, 0, 1, 33}
		payload = append(payload, make([]byte, 23)...)
		payload = append(payload, c.User...)
		payload = append(payload, 0)
		auth := nativeProof(salt, c.Pw)
		payload = append(payload, byte(len(auth)))
		payload = append(payload, auth...)
		packet := append([]byte{byte(len(payload)), byte(len(payload) >> 8), byte(len(payload) >> 16), 1}, payload...)
		// returns only when the proxy has consumed the byte, i.e. sits in the read of the response
		if _, err := clientSide.Write(packet[:1]); err != nil {
			ev.Fatalf("in-flight handshake: write first byte: %v", err)
		}
		h.rest = packet[1:]
		f.hs = append(f.hs, h)
	}
	return f
}

// finish sends the rest of every response and returns the proxy's decisions.
func (f *inflight) finish() map[cred]authResult {
	out := map[cred]authResult{}
	for _, h := range f.hs {
		if _, err := h.client.Write(h.rest); err != nil {
			ev.Fatalf("in-flight handshake: write response: %v", err)
		}
		go io.Copy(io.Discard, h.client) // OK packet / EOF
		select {
		case r := <-h.done:
			out[h.c] = r
		case <-time.After(60 * time.Second):
			ev.Fatalf("in-flight handshake did not finish")
		}
		h.client.Close()
	}
	return out
}
