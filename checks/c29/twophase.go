package main

// Two-phase search of C29 (added after seeded change c29-3): the reload protocol is split into
// its real steps on the real Manager, so that operations on DIFFERENT namespaces interleave
// between a prepare and its commit:
//
//	prep(ns, users)  Manager.ReloadNamespacePrepare          (always succeeds here)
//	commit(ns)       Manager.ReloadNamespaceCommit           (accepted or refused by Gaea)
//	del(ns)          Manager.DeleteNamespace
//
// starting from a Manager created (real CreateNamespaceManager / CreateUserManager) with one of a
// few initial configurations. Reference: committed[ns] = configuration of the last ACCEPTED
// commit of ns (or the initial one), removed by del(ns); lastPrepared[ns] = configuration of the
// last prepare of ns. Whether a commit is accepted is Gaea's decision and is not judged: when it
// is accepted the namespace's last prepared configuration becomes the committed one, when it is
// refused nothing changes. After every step exactly the credentials of the committed
// configurations authenticate (real Session.handleHandshakeResponse + IsAllowConnect), each into
// its namespace; nothing of a deleted namespace, nothing merely prepared.

import (
	"fmt"
	"sort"
	"strconv"
	"strings"
	"time"

	"github.com/XiaoMi/Gaea/models"
	"github.com/XiaoMi/Gaea/proxy/server"

	"verif/engine/ev"
	"verif/engine/xstate"
)

// capNotes collects the cap messages of all searches (ev.Run.Capped keeps only the last text).
var capNotes []string

type tpRef struct {
	committed    map[string][]cred
	lastPrepared map[string][]cred
	pendingName  string // last prepare since which no commit was accepted and no delete took effect
}

func newTpRef(init map[string][]cred) *tpRef {
	r := &tpRef{committed: map[string][]cred{}, lastPrepared: map[string][]cred{}}
	for k, v := range init {
		r.committed[k] = v
	}
	return r
}

func (t *tpRef) owner(c cred) string {
	for _, ns := range nsNames {
		for _, x := range t.committed[ns] {
			if x == c {
				return ns
			}
		}
	}
	return ""
}

func (t *tpRef) String() string {
	f := func(m map[string][]cred) string {
		var p []string
		for _, ns := range nsNames {
			if l, ok := m[ns]; ok {
				var q []string
				for _, c := range l {
					q = append(q, fmt.Sprintf("%q/%q", c.User, c.Pw))
				}
				p = append(p, ns+"{"+strings.Join(q, ",")+"}")
			}
		}
		return strings.Join(p, " ")
	}
	return "committed " + f(t.committed) + " | prepared " + f(t.lastPrepared) + " | pending " + t.pendingName
}

var (
	tpNS    = []string{"A", "B"}
	tpLists = [][]cred{{{"u", "p"}}, {{"u", "q"}}, {{"v", "p"}}, {{"v", "q"}}}
	tpPairs = []cred{{"u", "p"}, {"u", "q"}, {"v", "p"}, {"v", "q"}, {"u", ""}, {"w", "p"}}
	tpInits = []map[string][]cred{
		{},
		{"A": {{"u", "p"}}},
		{"A": {{"u", "p"}}, "B": {{"u", "q"}}},
		{"A": {{"u", "p"}}, "B": {{"v", "p"}}},
	}
)

type tpKase struct {
	Mode    string            `json:"mode"` // "two_phase"
	Init    map[string][]cred `json:"initial_configuration"`
	History []event           `json:"history"`
}

func tpConfig(ns string, users []cred) *models.Namespace {
	return nsConfig(event{NS: ns, Users: users}, true)
}

type tpStep struct {
	accepted bool
	panicked string
}

// tpReplay builds a fresh Manager with init, applies hist (reference and implementation side by
// side), and evaluates the oracle after the steps selected by everyStep / the last one.
func tpReplay(init map[string][]cred, hist []event, everyStep bool) (key string, v *verdict, outcome string) {
	cfgs := map[string]*models.Namespace{}
	for ns, l := range init {
		cfgs[ns] = tpConfig(ns, l)
	}
	m, err := server.VerifNewManager(cfgs)
	if err != nil {
		ev.Fatalf("VerifNewManager: %v", err)
	}
	ref := newTpRef(init)
	for i, e := range hist {
		var st tpStep
		judged := everyStep || i == len(hist)-1
		var fl *inflight
		if judged {
			// handshakes that are in flight while the event lands (see inflight.go)
			fl = startInflight(m, tpPairs)
		}
		switch e.Op {
		case "prep":
			if p := ev.Catch(func() { err = m.ReloadNamespacePrepare(tpConfig(e.NS, e.Users)) }); p != nil || err != nil {
				ev.Fatalf("ReloadNamespacePrepare(%v): %v %v", e, p, err)
			}
			ref.lastPrepared[e.NS] = e.Users
			ref.pendingName = e.NS
			outcome = "prep"
		case "commit":
			if p := ev.Catch(func() { err = m.ReloadNamespaceCommit(e.NS) }); p != nil {
				st.panicked = fmt.Sprint(p)
			}
			st.accepted = err == nil && st.panicked == ""
			if st.accepted {
				if l, ok := ref.lastPrepared[e.NS]; ok {
					ref.committed[e.NS] = l
					delete(ref.lastPrepared, e.NS)
				}
				ref.pendingName = ""
				outcome = "commit_accepted"
				if e.NS != hist[lastPrepIndex(hist[:i])].NS {
					outcome = "commit_accepted_other_than_last_prepared"
				}
			} else {
				outcome = "commit_refused"
			}
		case "del":
			_, existed := ref.committed[e.NS]
			if p := ev.Catch(func() { err = m.DeleteNamespace(e.NS) }); p != nil || err != nil {
				ev.Fatalf("DeleteNamespace(%v): %v %v", e, p, err)
			}
			delete(ref.committed, e.NS)
			outcome = "del_absent"
			if existed {
				ref.pendingName = ""
				outcome = "del"
			}
		}
		if st.panicked != "" {
			return "", &verdict{msg: fmt.Sprintf("[two_phase] initial %v, after %v: ReloadNamespaceCommit panics: %s", init, hist[:i+1], st.panicked),
				features: map[string]string{"kind": "commit_panics", "rig": "two_phase", "op": e.Op, "cleared_colon": "", "victim_is_split_prefix_of_cleared": "", "depth": strconv.Itoa(i + 1)}}, outcome
		}
		if !judged {
			continue
		}
		during := fl.finish()
		for pi := 0; pi < 2*len(tpPairs); pi++ {
			c := tpPairs[pi%len(tpPairs)]
			want := ref.owner(c)
			probe := "after"
			var got authResult
			if pi < len(tpPairs) {
				probe = "during_handshake"
				got = during[c]
			} else {
				got = authMGR(m, c)
			}
			kind := ""
			switch {
			case want != "" && !got.ok:
				kind = "committed_credential_rejected"
			case want == "" && got.ok:
				kind = "uncommitted_or_deleted_credential_authenticates"
			case want != "" && got.ns != want:
				kind = "wrong_namespace"
			}
			if kind == "" {
				continue
			}
			ops := make([]string, 0, i+1)
			for _, h := range hist[:i+1] {
				ops = append(ops, h.Op)
			}
			return "", &verdict{
				msg: fmt.Sprintf("[two_phase, probe %s] initial %v, after %v (last step: %s) the pair %q/%q: Gaea ok=%v ns=%q, reference ns=%q; reference %s",
					probe, init, hist[:i+1], outcome, c.User, c.Pw, got.ok, got.ns, want, ref),
				features: map[string]string{"kind": kind, "rig": "two_phase", "probe": probe, "op": e.Op, "last_outcome": outcome, "ops": strings.Join(ops, ","),
					"cleared_colon": "", "victim_is_split_prefix_of_cleared": "", "depth": strconv.Itoa(i + 1)},
			}, outcome
		}
	}
	// Canonical state. Merging argument: the Manager's answers and its future reactions depend on
	// the live generation (user table, namespace names), the standby generation (what a commit
	// would activate), the pending flag, and - through the name check in ReloadNamespaceCommit -
	// the namespace prepared last, which the reference carries as pendingName together with the
	// configurations that an accepted commit would install (lastPrepared) and the committed ones.
	live, standby, liveNS, standbyNS, prepared := server.VerifGenerations(m)
	sb := "-"
	if standby != nil {
		sb = canon(standby)
	}
	return fmt.Sprintf("L[%s|%v] S[%s|%v] P%v || %s", canon(live), liveNS, sb, standbyNS, prepared, ref), nil, outcome
}

func lastPrepIndex(h []event) int {
	for i := len(h) - 1; i >= 0; i-- {
		if h[i].Op == "prep" {
			return i
		}
	}
	return 0
}

func tpEnabled(init map[string][]cred) func(hist []event) []event {
	return func(hist []event) []event {
		// reference bookkeeping needs Gaea's accept/refuse answers, which Enabled does not have;
		// uniqueness is therefore checked against everything that may be committed or prepared:
		// the initial lists and every list prepared so far for ANOTHER namespace
		used := map[cred]map[string]bool{}
		mark := func(ns string, l []cred) {
			for _, c := range l {
				if used[c] == nil {
					used[c] = map[string]bool{}
				}
				used[c][ns] = true
			}
		}
		for ns, l := range init {
			mark(ns, l)
		}
		for _, e := range hist {
			if e.Op == "prep" {
				mark(e.NS, e.Users)
			}
		}
		var out []event
		for _, ns := range tpNS {
			for _, l := range tpLists {
				free := true
				for _, c := range l {
					for o := range used[c] {
						if o != ns {
							free = false
						}
					}
				}
				if free {
					out = append(out, event{Op: "prep", NS: ns, Users: l})
				}
			}
			out = append(out, event{Op: "commit", NS: ns}, event{Op: "del", NS: ns})
		}
		return out
	}
}

func initName(init map[string][]cred) string {
	var p []string
	for ns, l := range init {
		p = append(p, fmt.Sprintf("%s:%s/%s", ns, l[0].User, l[0].Pw))
	}
	sort.Strings(p)
	if len(p) == 0 {
		return "empty"
	}
	return strings.Join(p, ",")
}

// twoPhaseSearch runs ONE BFS whose first event chooses the initial configuration (init(k)), so
// that the search proceeds level by level over all initial configurations and a time cap
// leaves the same depth complete for each of them. Returns states and transitions.
func twoPhaseSearch(r *ev.Run, budget time.Duration) (states, transitions int64, info map[string]interface{}) {
	start := time.Now()
	depth := r.Pick(4, 5)
	initOf := func(e event) map[string][]cred {
		k, _ := strconv.Atoi(e.NS)
		return tpInits[k]
	}
	spec := xstate.Spec[event]{
		MaxDepth: depth + 1,
		Workers:  16,
		Stop:     func() bool { return r.TimeUp() || time.Since(start) > budget },
		Enabled: func(hist []event) []event {
			if len(hist) == 0 {
				var out []event
				for k := range tpInits {
					out = append(out, event{Op: "init", NS: strconv.Itoa(k)})
				}
				return out
			}
			return tpEnabled(initOf(hist[0]))(hist[1:])
		},
		Replay: func(hist []event) xstate.Result {
			if len(hist) == 0 {
				return xstate.Result{Key: "root"}
			}
			init := initOf(hist[0])
			key, v, outcome := tpReplay(init, hist[1:], false)
			if v != nil {
				return xstate.Result{Violation: v.msg, Features: v.features}
			}
			if len(hist) == 1 {
				outcome = "init"
			}
			return xstate.Result{Key: "I" + hist[0].NS + " " + key, Outcome: "two_phase/" + outcome}
		},
		OnViolation: func(hist []event, res xstate.Result) {
			r.Violation(ev.Witness{Summary: res.Violation, Features: res.Features, Case: tpKase{Mode: "two_phase", Init: initOf(hist[0]), History: hist[1:]}})
		},
		OnOutcome: func(o string) { r.Distinct("outcomes", o) },
	}
	st := xstate.BFS(spec)
	if st.Capped {
		capNotes = append(capNotes, fmt.Sprintf("two-phase search stopped by its time share at depth %d after the initial configuration (all shallower levels complete for every initial configuration)", st.MaxDepth-1))
		r.Capped(strings.Join(capNotes, "; "))
	}
	var names []string
	for _, init := range tpInits {
		names = append(names, initName(init))
	}
	info = map[string]interface{}{"states": st.States, "transitions": st.Transitions, "depth_reached_after_init": st.MaxDepth - 1,
		"max_depth_bound_after_init": depth, "frontier_per_depth": st.PerDepth, "initial_configurations": names, "events_alphabet": 12}
	return st.States, st.Transitions, info
}
