// C29: credentials authenticate into exactly their own namespace, across reloads.
//
// Engine: xstate (BFS over histories, replayed on fresh real objects).
//
//	events   set(ns, user list)  = create or reload of namespace ns with that user list
//	         abn(ns, user list)  = abandoned set: the reload is prepared (standby generation =
//	                               clone of the user table + rebuild of ns) but never committed;
//	                               the live generation keeps serving, the reference is unchanged
//	         del(ns)             = delete namespace ns
//	rig UM   real CreateUserManager (first event) and, for every later event, exactly what
//	         Manager.ReloadNamespacePrepare / DeleteNamespace do with the user table:
//	         CloneUserManager + RebuildNamespaceUsers / ClearNamespaceUsers
//	rig MGR  (histories up to a small depth, and every violating history) the real Manager:
//	         ReloadNamespacePrepare + ReloadNamespaceCommit / DeleteNamespace on namespaces
//	         without backends, authentication through the real
//	         Session.handleHandshakeResponse + Session.IsAllowConnect
//	oracle   reference set of (namespace, user, password); after every step, for every pair
//	         of the universe (and some probes outside it): authenticates <=> pair in the
//	         reference, and the namespace bound is the reference's.
package main

import (
	"crypto/sha1"
	"fmt"
	"net"
	"os"
	"runtime/pprof"
	"sort"
	"strconv"
	"strings"
	"time"

	"github.com/XiaoMi/Gaea/models"
	"github.com/XiaoMi/Gaea/proxy/server"

	"verif/engine/ev"
	"verif/engine/gx"
	"verif/engine/xstate"
)

type cred struct {
	User string `json:"user"`
	Pw   string `json:"pw"`
}

type event struct {
	Op    string `json:"op"` // set | del | abn (abandoned set: prepared, never committed); two-phase search: prep | commit | del
	NS    string `json:"ns"`
	Users []cred `json:"users,omitempty"`
}

func (e event) String() string {
	if e.Op == "del" {
		return "del(" + e.NS + ")"
	}
	if e.Op == "commit" {
		return "commit(" + e.NS + ")"
	}
	var p []string
	for _, c := range e.Users {
		p = append(p, fmt.Sprintf("%q/%q", c.User, c.Pw))
	}
	if e.Op == "abn" {
		return "abandoned_set(" + e.NS + ": " + strings.Join(p, ", ") + ")"
	}
	if e.Op == "prep" {
		return "prepare(" + e.NS + ": " + strings.Join(p, ", ") + ")"
	}
	return "set(" + e.NS + ": " + strings.Join(p, ", ") + ")"
}

var (
	nsNames   = []string{"A", "B", "C"}
	userNames = []string{"u", "v", "u:"}
	passwords = []string{"p", "q", "p:q", ":", "p:"}
	// pairs outside the configurable universe that must never authenticate
	probes = []cred{{"u", ""}, {"u:p", "q"}, {"u", ":p"}, {"", "p"}, {"u:", ""}, {"u::", "p"}, {"w", "p"}}
	salt   = []byte("01234567890123456789")
)

func refNative(pw string) []byte { return mysqlNative(salt, pw) }

// mysql_native_password: SHA1(pw) XOR SHA1(salt || SHA1(SHA1(pw))); empty password -> empty.
func mysqlNative(salt []byte, pw string) []byte {
	if pw == "" {
		return []byte{}
	}
	s1 := sha1.Sum([]byte(pw))
	s2 := sha1.Sum(s1[:])
	x := sha1.Sum(append(append([]byte{}, salt...), s2[:]...))
	out := make([]byte, 20)
	for i := range out {
		out[i] = s1[i] ^ x[i]
	}
	return out
}

var proofs = map[string][]byte{}

// ---------------------------------------------------------------- reference

type refState map[string][]cred // namespace -> user list

func applyRef(hist []event) refState {
	st := refState{}
	for _, e := range hist {
		switch e.Op {
		case "set":
			st[e.NS] = e.Users
		case "del":
			delete(st, e.NS)
		case "abn":
			// prepared but never committed: the configuration that is live does not change
		}
	}
	return st
}

func (st refState) owner(c cred) string {
	for _, ns := range nsNames {
		for _, x := range st[ns] {
			if x == c {
				return ns
			}
		}
	}
	return ""
}

func (st refState) String() string {
	var p []string
	for _, ns := range nsNames {
		if l, ok := st[ns]; ok {
			var q []string
			for _, c := range l {
				q = append(q, fmt.Sprintf("%q/%q", c.User, c.Pw))
			}
			p = append(p, ns+"{"+strings.Join(q, ",")+"}")
		}
	}
	return strings.Join(p, " ")
}

// ---------------------------------------------------------------- rigs

func nsConfig(e event, withSlice bool) *models.Namespace {
	cfg := &models.Namespace{Name: e.NS}
	for _, c := range e.Users {
		cfg.Users = append(cfg.Users, &models.User{UserName: c.User, Password: c.Pw, Namespace: e.NS, RWFlag: 2})
	}
	if withSlice {
		cfg.Slices = []*models.Slice{{Name: "s0"}} // no master, no slaves: nothing is dialled
		cfg.DefaultSlice = "s0"
	}
	return cfg
}

type authResult struct {
	ok    bool
	ns    string
	stale bool // password check passed but no namespace is bound to the pair
}

func authUM(um *server.UserManager, c cred) authResult {
	if !um.CheckUser(c.User) {
		return authResult{}
	}
	succ, stored := um.CheckPassword(c.User, salt, append([]byte{}, proofs[c.Pw]...))
	if !succ {
		return authResult{}
	}
	ns := um.GetNamespaceByUser(c.User, stored)
	if ns == "" {
		// handleHandshakeResponse would bind namespace "", getNamespace() is nil and
		// IsAllowConnect refuses the client: not an authentication
		return authResult{stale: true}
	}
	return authResult{ok: true, ns: ns}
}

type fakeAddr struct{}

func (fakeAddr) Network() string { return "tcp" }
func (fakeAddr) String() string  { return "10.0.0.1:40000" }

type fakeConn struct{}

func (fakeConn) Read(b []byte) (int, error)         { return 0, fmt.Errorf("closed") }
func (fakeConn) Write(b []byte) (int, error)        { return len(b), nil }
func (fakeConn) Close() error                       { return nil }
func (fakeConn) LocalAddr() net.Addr                { return fakeAddr{} }
func (fakeConn) RemoteAddr() net.Addr               { return fakeAddr{} }
func (fakeConn) SetDeadline(t time.Time) error      { return nil }
func (fakeConn) SetReadDeadline(t time.Time) error  { return nil }
func (fakeConn) SetWriteDeadline(t time.Time) error { return nil }

func authMGR(m *server.Manager, c cred) authResult {
	sess := server.VerifHandshakeSession(m, fakeConn{})
	info := server.HandshakeResponseInfo{CollationID: 33, User: c.User, AuthResponse: append([]byte{}, proofs[c.Pw]...), Salt: salt}
	var err error
	if p := ev.Catch(func() { err = server.VerifHandleHandshakeResponse(sess, info) }); p != nil || err != nil {
		return authResult{}
	}
	allowed := false
	if p := ev.Catch(func() { allowed = sess.IsAllowConnect() }); p != nil || !allowed {
		return authResult{stale: true}
	}
	return authResult{ok: true, ns: server.VerifSessionNamespace(sess)}
}

func stepUM(um *server.UserManager, i int, e event) *server.UserManager {
	if i == 0 {
		cfgs := map[string]*models.Namespace{}
		if e.Op == "set" {
			cfgs[e.NS] = nsConfig(e, false)
		}
		um, err := server.CreateUserManager(cfgs)
		if err != nil {
			ev.Fatalf("CreateUserManager: %v", err)
		}
		if e.Op == "del" {
			um = server.CloneUserManager(um)
			um.ClearNamespaceUsers(e.NS)
		}
		if e.Op == "abn" {
			standby := server.CloneUserManager(um)
			standby.RebuildNamespaceUsers(nsConfig(e, false))
		}
		return um
	}
	n := server.CloneUserManager(um)
	switch e.Op {
	case "set":
		n.RebuildNamespaceUsers(nsConfig(e, false))
	case "del":
		n.ClearNamespaceUsers(e.NS)
	case "abn":
		// what ReloadNamespacePrepare does to the user table, without the commit: the standby
		// generation is built and dropped, the generation that was live keeps serving
		n.RebuildNamespaceUsers(nsConfig(e, false))
		return um
	}
	return n
}

func stepMGR(m *server.Manager, i int, e event) *server.Manager {
	if i == 0 {
		cfgs := map[string]*models.Namespace{}
		if e.Op == "set" {
			cfgs[e.NS] = nsConfig(e, true)
		}
		m, err := server.VerifNewManager(cfgs)
		if err != nil {
			ev.Fatalf("VerifNewManager: %v", err)
		}
		if e.Op == "del" {
			if err := m.DeleteNamespace(e.NS); err != nil {
				ev.Fatalf("DeleteNamespace: %v", err)
			}
		}
		if e.Op == "abn" {
			if err := m.ReloadNamespacePrepare(nsConfig(e, true)); err != nil {
				ev.Fatalf("ReloadNamespacePrepare(%v): %v", e, err)
			}
		}
		return m
	}
	switch e.Op {
	case "set":
		if err := m.ReloadNamespacePrepare(nsConfig(e, true)); err != nil {
			ev.Fatalf("ReloadNamespacePrepare(%v): %v", e, err)
		}
		if err := m.ReloadNamespaceCommit(e.NS); err != nil {
			ev.Fatalf("ReloadNamespaceCommit(%v): %v", e, err)
		}
	case "abn":
		// prepare only; the next prepare overwrites the standby generation
		if err := m.ReloadNamespacePrepare(nsConfig(e, true)); err != nil {
			ev.Fatalf("ReloadNamespacePrepare(%v): %v", e, err)
		}
	case "del":
		if err := m.DeleteNamespace(e.NS); err != nil {
			ev.Fatalf("DeleteNamespace: %v", err)
		}
	}
	return m
}

func canon(um *server.UserManager) string {
	users, nss := server.VerifUserManagerState(um)
	var p []string
	for k, v := range users {
		var set []string // sorted by the accessor; multiplicity dropped (see merging argument)
		for i, x := range v {
			if i == 0 || x != v[i-1] {
				set = append(set, x)
			}
		}
		p = append(p, fmt.Sprintf("U%q=%q", k, set))
	}
	for k, v := range nss {
		p = append(p, fmt.Sprintf("N%q=%s", k, v))
	}
	sort.Strings(p)
	return strings.Join(p, ";")
}

// ---------------------------------------------------------------- oracle

type verdict struct {
	msg      string
	features map[string]string
}

func allPairs() []cred {
	var out []cred
	for _, u := range userNames {
		for _, p := range passwords {
			out = append(out, cred{u, p})
		}
	}
	return append(out, probes...)
}

func colonClass(l []cred) string {
	u, p := false, false
	for _, c := range l {
		if strings.Contains(c.User, ":") {
			u = true
		}
		if strings.Contains(c.Pw, ":") {
			p = true
		}
	}
	switch {
	case u && p:
		return "both"
	case u:
		return "user"
	case p:
		return "password"
	}
	return "none"
}

// check compares auth with the reference after the last event of hist.
func check(rig string, auth func(cred) authResult, hist []event, stale *int) *verdict {
	st := applyRef(hist)
	last := hist[len(hist)-1]
	before := applyRef(hist[:len(hist)-1])[last.NS] // what the last event cleared
	for _, c := range allPairs() {
		want := st.owner(c)
		got := auth(c)
		if got.stale {
			*stale++
		}
		kind := ""
		switch {
		case want != "" && !got.ok:
			kind = "lost_other_namespace"
			if want == last.NS {
				kind = "lost_own_namespace"
			}
		case want == "" && got.ok:
			kind = "phantom_credential"
		case want != "" && got.ns != want:
			kind = "wrong_namespace"
		}
		if kind == "" {
			continue
		}
		// diagnosis (features only): would splitting a cleared key on ':' name the victim?
		splitHit := "no"
		for _, b := range before {
			parts := strings.Split(b.User+":"+b.Pw, ":")
			if len(parts) >= 2 && parts[0] == c.User && parts[1] == c.Pw && b != c {
				splitHit = "yes"
			}
		}
		return &verdict{
			msg: fmt.Sprintf("[%s] after %v the pair %q/%q: Gaea ok=%v ns=%q, reference ns=%q; reference state %s",
				rig, hist, c.User, c.Pw, got.ok, got.ns, want, st),
			features: map[string]string{"kind": kind, "rig": rig, "op": last.Op, "cleared_colon": colonClass(before),
				"victim_is_split_prefix_of_cleared": splitHit, "depth": strconv.Itoa(len(hist))},
		}
	}
	return nil
}

// ---------------------------------------------------------------- search

func userLists(thorough bool) [][]cred {
	var out [][]cred
	for _, u := range userNames {
		for _, p := range passwords {
			out = append(out, []cred{{u, p}})
		}
	}
	if thorough {
		small := []string{"p", "p:q", ":"}
		for i := 0; i < len(userNames); i++ {
			for j := i + 1; j < len(userNames); j++ {
				for _, p1 := range small {
					for _, p2 := range small {
						out = append(out, []cred{{userNames[i], p1}, {userNames[j], p2}})
					}
				}
			}
		}
	}
	return out
}

// abnAllowed: user lists used by abandoned sets. Quick: names {u, v} x passwords {p, q, p:q}
// (a user name shared between namespaces, a second one, a password with ':'); thorough: all.
func abnAllowed(l []cred, thorough bool) bool {
	if thorough {
		return true
	}
	for _, c := range l {
		if c.User == "u:" || c.Pw == ":" || c.Pw == "p:" {
			return false
		}
	}
	return true
}

func enabled(lists [][]cred, thorough bool) func(hist []event) []event {
	return func(hist []event) []event {
		st := applyRef(hist)
		var out []event
		for _, ns := range nsNames {
			for _, l := range lists {
				free := true
				for _, c := range l {
					if o := st.owner(c); o != "" && o != ns {
						free = false // the control plane refuses the same user+password in two namespaces
					}
				}
				if free {
					out = append(out, event{Op: "set", NS: ns, Users: l})
					if abnAllowed(l, thorough) {
						out = append(out, event{Op: "abn", NS: ns, Users: l})
					}
				}
			}
			if _, ok := st[ns]; ok {
				out = append(out, event{Op: "del", NS: ns})
			}
		}
		return out
	}
}

type kase struct {
	History []event `json:"history"`
	// two-phase search only
	Mode string            `json:"mode,omitempty"`
	Init map[string][]cred `json:"initial_configuration,omitempty"`
}

// replayBoth replays hist on fresh objects. everyStep: evaluate the oracle after every event
// (witness replay); otherwise only after the last one — BFS extends only histories whose
// every prefix was itself replayed as a history and passed the oracle.
func replayBoth(hist []event, withMGR bool, everyStep bool, stale *int) (key string, v *verdict) {
	var um *server.UserManager
	var m *server.Manager
	for i, e := range hist {
		um = stepUM(um, i, e)
		if withMGR {
			m = stepMGR(m, i, e)
		}
		if !everyStep && i < len(hist)-1 {
			continue
		}
		if v := check("usermanager", func(c cred) authResult { return authUM(um, c) }, hist[:i+1], stale); v != nil {
			return "", v
		}
		if withMGR {
			if v := check("manager", func(c cred) authResult { return authMGR(m, c) }, hist[:i+1], stale); v != nil {
				return "", v
			}
			if a, b := canon(um), canon(server.VerifCurrentUsers(m)); a != b {
				return "", &verdict{msg: fmt.Sprintf("after %v the Manager's user table differs from clone+rebuild: %s vs %s", hist[:i+1], b, a),
					features: map[string]string{"kind": "manager_diverges", "rig": "manager", "op": e.Op, "cleared_colon": "", "victim_is_split_prefix_of_cleared": "", "depth": strconv.Itoa(i + 1)}}
			}
		}
	}
	if um == nil {
		return "empty", nil
	}
	// Canonical state. Merging argument: every UserManager function reads and writes only
	// the maps users / userNamespaces; ClearNamespaceUsers filters by value, addNamespaceUsers
	// appends, CheckPassword answers with the first equal string, so neither map iteration order
	// nor the order inside a password list nor the multiplicity of a password (Clear removes
	// every equal string, CheckPassword stops at the first) can influence a later answer: the
	// sorted rendering of both maps, password lists as sets, determines all future behaviour. The reference state is
	// part of the key because the set of enabled events depends on it.
	return canon(um) + " || " + applyRef(hist).String(), nil
}

func main() {
	gx.Quiet()
	if pf := os.Getenv("C29_PROF"); pf != "" {
		f, _ := os.Create(pf)
		pprof.StartCPUProfile(f)
		defer pprof.StopCPUProfile()
	}
	r := ev.Start("C29", "model_checking")
	for _, p := range passwords {
		proofs[p] = refNative(p)
	}
	for _, c := range probes {
		proofs[c.Pw] = refNative(c.Pw)
	}
	var k kase
	if r.ReplayCase(&k) {
		stale := 0
		if k.Mode == "two_phase" {
			if _, v, _ := tpReplay(k.Init, k.History, true); v != nil {
				r.Violation(ev.Witness{Summary: v.msg, Features: v.features, Case: k})
			}
		} else if _, v := replayBoth(k.History, true, true, &stale); v != nil {
			r.Violation(ev.Witness{Summary: v.msg, Features: v.features, Case: k})
		}
		r.Set("states", 1)
		r.Set("transitions", len(k.History))
		r.Set("traces_validated_against_impl", len(k.History))
		r.Sample(k)
		r.Finish()
	}

	// searches: quick = one-user lists to depth 4; thorough = one-user lists to depth 5 and
	// one-/two-user lists to depth 3 (two separate BFS runs, counts added)
	type search struct {
		name  string
		lists [][]cred
		depth int
	}
	searches := []search{{"one_user_lists", userLists(false), r.Pick(4, 5)}}
	if r.Thorough() {
		searches = append(searches, search{"one_and_two_user_lists", userLists(true), 3})
	}
	mgrDepth := 2
	staleTotal := make(chan int, 1024)
	staleSum := 0
	doneStale := make(chan bool)
	go func() {
		for n := range staleTotal {
			staleSum += n
		}
		doneStale <- true
	}()
	var states, transitions int64
	perSearch := map[string]interface{}{}
	// two-phase search on the real Manager first (small, and the one that sees the protocol)
	tpStates, tpTransitions, tpInfo := twoPhaseSearch(r, time.Duration(r.Pick(15, 240))*time.Second)
	states += tpStates
	transitions += tpTransitions
	perSearch["manager_two_phase"] = tpInfo
	searchStart := time.Now()
	for _, sr := range searches {
		lists, maxDepth := sr.lists, sr.depth
		spec := xstate.Spec[event]{
			MaxDepth: maxDepth,
			Workers:  16,
			// stop after 20 s (quick) / 8 min (thorough) of search so that the run stays inside its
			// tier budget on a loaded machine; it is then reported as capped (levels below complete)
			Stop: func() bool {
				return r.TimeUp() || time.Since(searchStart) > time.Duration(r.Pick(20, 480))*time.Second
			},
			Enabled: enabled(lists, r.Thorough()),
			Replay: func(hist []event) xstate.Result {
				if len(hist) == 0 {
					return xstate.Result{Key: "empty"}
				}
				stale := 0
				withMGR := len(hist) <= mgrDepth
				key, v := replayBoth(hist, withMGR, false, &stale)
				staleTotal <- stale
				if withMGR {
					r.Add("manager_rig_histories", 1)
				}
				if v != nil {
					// confirm a UserManager-level violation on the real Manager + Session path
					if !withMGR && len(hist) <= 3 {
						if _, v2 := replayBoth(hist, true, false, &stale); v2 == nil {
							ev.Fatalf("violation on the UserManager rig does not reproduce through Manager/Session: %s", v.msg)
						}
						r.Add("violations_confirmed_through_manager", 1)
					}
					return xstate.Result{Violation: v.msg, Features: v.features}
				}
				last := hist[len(hist)-1]
				return xstate.Result{Key: key, Outcome: last.Op + "/" + strconv.Itoa(len(applyRef(hist)))}
			},
			OnViolation: func(hist []event, res xstate.Result) {
				r.Violation(ev.Witness{Summary: res.Violation, Features: res.Features, Case: kase{History: hist}})
			},
			OnOutcome: func(o string) { r.Distinct("outcomes", o) },
		}
		st := xstate.BFS(spec)
		if st.Capped {
			capNotes = append(capNotes, fmt.Sprintf("search %s stopped by the time budget at depth %d (all shallower levels complete)", sr.name, st.MaxDepth))
			r.Capped(strings.Join(capNotes, "; "))
		}
		states += st.States
		transitions += st.Transitions
		perSearch[sr.name] = map[string]interface{}{"states": st.States, "transitions": st.Transitions, "depth_reached": st.MaxDepth,
			"max_depth_bound": maxDepth, "frontier_per_depth": st.PerDepth, "events_alphabet": len(enabled(lists, r.Thorough())(nil)) + 3, "user_lists": len(lists)}
	}
	close(staleTotal)
	<-doneStale
	r.Set("states", states)
	r.Set("transitions", transitions)
	r.Set("traces_validated_against_impl", transitions)
	r.Set("searches", perSearch)
	r.Set("stale_password_entries_seen", staleSum)
	r.Sample(kase{History: []event{{Op: "set", NS: "A", Users: []cred{{"u", "p"}}}, {Op: "set", NS: "B", Users: []cred{{"u", "p:q"}}}, {Op: "del", NS: "B"}}})
	r.Sample(kase{History: []event{{Op: "set", NS: "A", Users: []cred{{"u:", ":"}}}, {Op: "set", NS: "A", Users: []cred{{"v", "q"}}}}})
	r.Sample(kase{History: []event{{Op: "set", NS: "A", Users: []cred{{"u", "p"}}}, {Op: "set", NS: "B", Users: []cred{{"u", "q"}}}, {Op: "abn", NS: "B", Users: []cred{{"u", "p:q"}}}, {Op: "set", NS: "A", Users: []cred{{"u", "p"}}}}})
	r.Set("rule", "Search 1 (manager_two_phase): BFS over histories of prep(ns, users) / commit(ns) / del(ns), ns in {A,B}, users {u,v} x passwords {p,q}, on the real Manager (ReloadNamespacePrepare, ReloadNamespaceCommit - accepted or refused by Gaea -, DeleteNamespace) from 4 initial configurations, depth 4 (thorough 5), so that operations on different namespaces interleave between a prepare and its commit; reference: committed configuration = last accepted commit / initial, removed by del; credentials checked after every transition both by handshakes in flight while the event lands (real Session.Handshake over net.Pipe, event applied after the client wrote the first byte of its response; decision must follow the configuration after the event) and after the fact through Session.handleHandshakeResponse + IsAllowConnect. Searches 2..: BFS over histories of set(ns, user list) [prepare+commit] / abn(ns, user list) [abandoned set: the standby generation is built by clone+rebuild / ReloadNamespacePrepare and never committed; the reference does not change and credentials are checked on the generation that is live] / del(ns), ns in {A,B,C}, user lists of one user to depth 4 (thorough: depth 5, plus a second search with one- and two-user lists to depth 3) over names {u, v, 'u:'} x passwords {p, q, 'p:q', ':', 'p:'}; an event is enabled only if no other namespace holds the same user+password; states are deduplicated on the canonical content of UserManager.users / userNamespaces plus the reference state; every transition is executed on fresh real objects and followed by the oracle over all 15 pairs + 7 probe pairs.")
	r.Assume("a pair whose password check passes but for which GetNamespaceByUser returns \"\" does not authenticate: handleHandshakeResponse binds namespace \"\" and IsAllowConnect refuses the connection (counted as stale_password_entries_seen)")
	pprof.StopCPUProfile()
	r.Assume("the control plane keeps user+password unique across namespaces and user names unique inside a namespace (cc checkForDuplicateUsernameAndPassword, models verifyUsers)")
	r.Assume("the Manager/Session rig (namespaces without backends, statistics stub) is run for every history up to depth 2 and for every violating history up to depth 3 (the minimal witnesses); deeper histories use the UserManager calls that Manager.ReloadNamespacePrepare / DeleteNamespace make")
	r.Finish()
}
