//go:build verif

package server

import (
	"net"
	"sort"

	"github.com/XiaoMi/Gaea/models"
	"github.com/XiaoMi/Gaea/mysql"
)

// Accessors for the C29 harness (injected by build overlay; not part of Gaea).

// VerifUserManagerState returns a canonical rendering of the two maps of a UserManager:
// users (password lists sorted) and userNamespaces.
func VerifUserManagerState(u *UserManager) (users map[string][]string, namespaces map[string]string) {
	users = make(map[string][]string, len(u.users))
	for k, v := range u.users {
		c := append([]string(nil), v...)
		sort.Strings(c)
		users[k] = c
	}
	namespaces = make(map[string]string, len(u.userNamespaces))
	for k, v := range u.userNamespaces {
		namespaces[k] = v
	}
	return
}

// VerifNewManager does what CreateManager does without the statistics back end and the
// metrics task: real CreateNamespaceManager and CreateUserManager on the given configs.
func VerifNewManager(configs map[string]*models.Namespace) (*Manager, error) {
	m := NewManager()
	m.statistics = &StatisticManager{SQLResponsePercentile: make(map[string]*SQLResponse)}
	current, _, _ := m.switchIndex.Get()
	m.namespaces[current] = CreateNamespaceManager("dc0", configs)
	m.namespaces[current].serverIDC = "dc0"
	user, err := CreateUserManager(configs)
	if err != nil {
		return nil, err
	}
	m.users[current] = user
	return m, nil
}

// VerifCurrentUsers returns the UserManager the Manager currently answers from.
func VerifCurrentUsers(m *Manager) *UserManager {
	current, _, _ := m.switchIndex.Get()
	return m.users[current]
}

// VerifHandshakeSession builds the part of newSession that handleHandshakeResponse and
// IsAllowConnect use.
func VerifHandshakeSession(m *Manager, c net.Conn) *Session {
	cc := new(Session)
	cc.c = NewClientConn(mysql.NewConn(c), m)
	cc.manager = m
	cc.executor = newSessionExecutor(m)
	cc.executor.session = cc
	cc.closed.Store(false)
	return cc
}

func VerifHandleHandshakeResponse(cc *Session, info HandshakeResponseInfo) error {
	return cc.handleHandshakeResponse(info)
}

func VerifSessionNamespace(cc *Session) string { return cc.namespace }

// VerifGenerations describes both generations of a Manager for the canonical state of the
// two-phase search: the user tables and namespace names of the live and of the standby
// generation, and whether a prepare is pending.
func VerifGenerations(m *Manager) (live, standby *UserManager, liveNS, standbyNS []string, prepared bool) {
	current, other, _ := m.switchIndex.Get()
	live, standby = m.users[current], m.users[other]
	names := func(nm *NamespaceManager) []string {
		if nm == nil {
			return nil
		}
		var out []string
		for k := range nm.namespaces {
			out = append(out, k)
		}
		sort.Strings(out)
		return out
	}
	return live, standby, names(m.namespaces[current]), names(m.namespaces[other]), m.reloadPrepared.Get()
}

// VerifPipeSession builds a Session the way newSession does (minus the *net.TCPConn specifics)
// on connection c, attached to a minimal Server (version string and proxy config only), so that
// the real Session.Handshake can be run on it. It returns the salt of the greeting as well.
func VerifPipeSession(m *Manager, c net.Conn) (*Session, []byte) {
	srv := &Server{manager: m, ServerVersion: "5.7.25-gaea", ServerConfig: &models.Proxy{}}
	cc := VerifHandshakeSession(m, c)
	cc.proxy = srv
	cc.c.proxy = srv
	cc.executor.clientAddr = c.RemoteAddr().String()
	return cc, append([]byte(nil), cc.c.salt...)
}

// VerifHandshake runs the real Session.Handshake (greeting, blocking read of the response,
// handleHandshakeResponse, IsAllowConnect, connection limit, OK packet).
func VerifHandshake(cc *Session) error {
	_, err := cc.Handshake()
	return err
}
