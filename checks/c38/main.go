// C38: malformed client input never crashes the proxy.
//
// Engine: enum. A real Gaea server (server.Server + Manager) runs in a CHILD PROCESS of this
// binary in front of a fakemysql backend. Every case opens a client connection, brings it
// to the seed's starting point (greeting read / authenticated / statement prepared / statement
// closed), sends one well-formed seed message to which a mutation from a finite, completely
// enumerated set has been applied, followed by a COM_PING, and observes: the child is alive,
// the mutated client gets some packet or its connection is closed within a generous horizon,
// and a healthy session opened before still answers `select 1`.
package main

import (
	"encoding/binary"
	"encoding/hex"
	"fmt"
	"io"
	"net"
	"net/http"
	"net/http/httptest"
	"os"
	"path/filepath"
	"runtime"
	"runtime/debug"
	"sort"
	"strings"
	"sync"
	"sync/atomic"
	"time"
	"unicode/utf8"

	"github.com/XiaoMi/Gaea/models"
	"github.com/XiaoMi/Gaea/proxy/server"

	"verif/engine/ev"
	"verif/engine/gx"
	"verif/ref/e2erig"
	"verif/ref/fakemysql"
)

const horizon = 10 * time.Second

var replaceBytes = []byte{0x00, 0x01, 0x7f, 0x80, 0xfb, 0xfc, 0xfd, 0xfe, 0xff}

// Mut is one mutation of a seed message.
//
//	trunc   payload cut to P bytes (header length follows the payload)
//	byte    payload[P] = V
//	lenenc  the 1-byte length prefix at P replaced by the V (0xfc/0xfd/0xfe) form with all-ones length
//	hdrlen  header length field = V (payload unchanged)
//	seq     header sequence id = V
//	stmtid  statement id (payload[1:5]) = V
//	ptype   (seed exec1 only) parameter type code P, flag V, value cut to W bytes
//	cmds    (seed cmd_seq only) the texts L, each sent as COM_QUERY after the answer to the previous one
//	sql     (seed sql_text only) COM_QUERY with the text T (a broken statement of the text family)
type Mut struct {
	K string   `json:"k"`
	P int      `json:"p"`
	V int      `json:"v"`
	W int      `json:"w,omitempty"`
	T string   `json:"t,omitempty"` // sql: the statement text
	X string   `json:"x,omitempty"` // sql: the statement text in hex (when it is not printable UTF-8)
	L []string `json:"l,omitempty"` // cmds: COM_QUERY texts sent one after the other on one connection
}

// text of a sql mutation
func (m Mut) text() string {
	if m.X != "" {
		b, _ := hex.DecodeString(m.X)
		return string(b)
	}
	return m.T
}

func sqlMut(t string) Mut {
	printable := utf8.ValidString(t)
	for i := 0; i < len(t) && printable; i++ {
		if t[i] < 0x20 || t[i] == 0x7f {
			printable = false
		}
	}
	if printable {
		return Mut{K: "sql", T: t}
	}
	return Mut{K: "sql", X: hex.EncodeToString([]byte(t))}
}

// Case = seed + up to two mutations.
type Case struct {
	Seed string `json:"seed"`
	Muts []Mut  `json:"mutations"`
}

func (c Case) String() string {
	var ms []string
	for _, m := range c.Muts {
		switch m.K {
		case "ptype":
			ms = append(ms, fmt.Sprintf("ptype(type=0x%02x,flag=0x%02x,value_bytes=%d)", m.P, m.V, m.W))
		case "cmds":
			ms = append(ms, fmt.Sprintf("%q", m.L))
		case "sql":
			ms = append(ms, fmt.Sprintf("%q", m.text()))
		case "trunc":
			ms = append(ms, fmt.Sprintf("trunc(%d)", m.P))
		case "byte":
			ms = append(ms, fmt.Sprintf("byte[%d]=0x%02x", m.P, m.V))
		case "lenenc":
			ms = append(ms, fmt.Sprintf("lenenc[%d]=0x%02x..ff", m.P, m.V))
		default:
			ms = append(ms, fmt.Sprintf("%s=%d", m.K, m.V))
		}
	}
	return c.Seed + " " + strings.Join(ms, " + ")
}

// ---- seeds -----------------------------------------------------------------------------

type seed struct {
	name   string
	phase  string // handshake | command
	setup  string // "" | prepare2 | prepare1 | prepare2+close
	build  func(salt []byte) []byte
	lenenc []int // offsets of 1-byte length prefixes (computed on a sample build)
	quick  bool  // part of the quick tier
	multi  bool  // log in to the multi-statement namespace with CLIENT_MULTI_STATEMENTS
}

const prep2SQL = "select v from tp where id=? and name=?"
const prep1SQL = "select v from tp where id=?"

func le32(v uint32) []byte { b := make([]byte, 4); binary.LittleEndian.PutUint32(b, v); return b }

func cat(bs ...[]byte) []byte {
	var out []byte
	for _, b := range bs {
		out = append(out, b...)
	}
	return out
}

const (
	capConnectAttrs = 1 << 20
	capLenencAuth   = 1 << 21
)

func hsBuild(caps uint32, db, plugin string, attrs bool) func(salt []byte) []byte {
	return func(salt []byte) []byte {
		p := e2erig.HandshakeResponse(caps, 45, e2erig.User, e2erig.NativePassword(salt, e2erig.Password), db, plugin)
		if attrs {
			kv := cat([]byte{4}, []byte("_pid"), []byte{3}, []byte("123"), []byte{12}, []byte("program_name"), []byte{5}, []byte("mysql"))
			p = cat(p, []byte{byte(len(kv))}, kv)
		}
		return p
	}
}

// execute payload for the 2-parameter statement: LONGLONG 7, VAR_STRING "abc"
func exec2(id uint32) []byte {
	return cat([]byte{0x17}, le32(id), []byte{0x00}, le32(1), []byte{0x00}, []byte{0x01},
		[]byte{0x08, 0x00, 0xfd, 0x00}, []byte{7, 0, 0, 0, 0, 0, 0, 0}, []byte{3, 'a', 'b', 'c'})
}

// plausible value encodings per parameter type (protocol documentation)
func ptypeValue(t byte) []byte {
	switch t {
	case 0x01: // TINY
		return []byte{0x7f}
	case 0x02, 0x0d: // SHORT, YEAR
		return []byte{0x34, 0x12}
	case 0x03, 0x09: // LONG, INT24
		return []byte{0x78, 0x56, 0x34, 0x12}
	case 0x08: // LONGLONG
		return []byte{1, 2, 3, 4, 5, 6, 7, 8}
	case 0x04: // FLOAT
		return []byte{0, 0, 0x80, 0x3f}
	case 0x05: // DOUBLE
		return []byte{0, 0, 0, 0, 0, 0, 0xf0, 0x3f}
	case 0x06: // NULL
		return nil
	case 0x07, 0x0c, 0x0a: // TIMESTAMP, DATETIME, DATE: length 11 form
		return []byte{11, 0xe8, 0x07, 12, 31, 23, 59, 58, 0x40, 0x42, 0x0f, 0x00}
	case 0x0b: // TIME: length 12 form
		return []byte{12, 1, 2, 0, 0, 0, 23, 59, 58, 0x40, 0x42, 0x0f, 0x00}
	}
	// string-like and unknown types: length-encoded string
	return []byte{5, 'h', 'e', 'l', 'l', 'o'}
}

func exec1(id uint32, t, flag byte, valueBytes int) []byte {
	v := ptypeValue(t)
	if valueBytes >= 0 && valueBytes < len(v) {
		v = v[:valueBytes]
	}
	return cat([]byte{0x17}, le32(id), []byte{0x00}, le32(1), []byte{0x00}, []byte{0x01}, []byte{t, flag}, v)
}

var seeds []*seed

func cmdSeed(name, setup string, quick bool, payload []byte, lenenc ...int) *seed {
	return &seed{name: name, phase: "command", setup: setup, quick: quick, lenenc: lenenc,
		build: func([]byte) []byte { return append([]byte(nil), payload...) }}
}

func initSeeds() {
	base := uint32(e2erig.DefaultCaps)
	authOff := 32 + len(e2erig.User) + 1
	seeds = []*seed{
		{name: "hs_plain", phase: "handshake", quick: true, build: hsBuild(base, "", "", false), lenenc: []int{authOff}},
		{name: "hs_db", phase: "handshake", quick: true, build: hsBuild(base|e2erig.CapConnectWithDB, e2erig.DB, "", false), lenenc: []int{authOff}},
		{name: "hs_plugin_attrs", phase: "handshake", quick: true,
			build:  hsBuild(base|e2erig.CapConnectWithDB|e2erig.CapPluginAuth|capConnectAttrs|capLenencAuth, e2erig.DB, "mysql_native_password", true),
			lenenc: []int{authOff, authOff + 21 + len(e2erig.DB) + 1 + len("mysql_native_password") + 1}},
		cmdSeed("query_local", "", false, []byte("\x03select 1")),
		cmdSeed("query_backend", "", false, []byte("\x03select v from tp where id=1")),
		cmdSeed("init_db", "", false, []byte("\x02db")),
		cmdSeed("field_list", "", true, []byte("\x04tp\x00v%")),
		cmdSeed("ping", "", false, []byte{0x0e}),
		cmdSeed("stmt_prepare", "", false, []byte("\x16"+prep2SQL)),
		cmdSeed("stmt_execute", "prepare2", true, exec2(0), 1+4+1+4+1+1+4+8),
		cmdSeed("stmt_execute_closed", "prepare2+close", true, exec2(0), 1+4+1+4+1+1+4+8),
		cmdSeed("stmt_send_long_data", "prepare2", true, cat([]byte{0x18}, le32(0), []byte{1, 0}, []byte("long data"))),
		cmdSeed("stmt_reset", "prepare2", false, cat([]byte{0x1a}, le32(0))),
		cmdSeed("stmt_close", "prepare2", false, cat([]byte{0x19}, le32(0))),
		cmdSeed("set_option", "", false, []byte{0x1b, 0, 0}),
		cmdSeed("quit", "", false, []byte{0x01}),
		cmdSeed("change_user_unsupported", "", false, cat([]byte{0x11}, []byte(e2erig.User), []byte{0, 0}, []byte(e2erig.DB), []byte{0})),
		cmdSeed("reset_connection_unsupported", "", false, []byte{0x1f}),
		// sql_text is only used with sql mutations (the broken-statement text family)
		{name: "sql_text", phase: "command", quick: true, build: func([]byte) []byte { return []byte("\x03select 1") }},
		// multi-command sequences (transactions, SETs the backend rejects, data statements)
		{name: "cmd_seq", phase: "command", quick: true, build: func([]byte) []byte { return []byte("\x03select 1") }},
		{name: "sql_bytes", phase: "command", quick: true, build: func([]byte) []byte { return []byte("\x03select 1") }},
		// the same through doMultiStmts: multi-statement namespace + CLIENT_MULTI_STATEMENTS
		{name: "multi_ctrl", phase: "command", quick: true, multi: true, build: func([]byte) []byte { return []byte("\x03select 1;select 2") }},
		{name: "multi_bytes", phase: "command", quick: true, multi: true, build: func([]byte) []byte { return []byte("\x03select 1;select 2") }},
		{name: "multi_text", phase: "command", quick: false, multi: true, build: func([]byte) []byte { return []byte("\x03select 1;select 2") }},
		// exec1 is only used with ptype mutations (the payload is built from the mutation)
		{name: "exec1", phase: "command", setup: "prepare1", quick: true, build: func([]byte) []byte { return exec1(0, 0x08, 0, -1) }},
	}
}

func seedByName(n string) *seed {
	for _, s := range seeds {
		if s.name == n {
			return s
		}
	}
	return nil
}

// ---- mutation ----------------------------------------------------------------------------

// apply returns the bytes to put on the wire for the seed message (header + payload).
func apply(s *seed, salt []byte, muts []Mut) []byte {
	payload := s.build(salt)
	hdrLen := -1
	seq := -1
	// positional mutations refer to the ORIGINAL payload: apply byte/stmtid first, then
	// lenenc (which shifts), then trunc
	order := map[string]int{"cmds": 0, "sql": 0, "ptype": 0, "byte": 1, "stmtid": 1, "lenenc": 2, "trunc": 3, "hdrlen": 4, "seq": 4}
	ms := append([]Mut(nil), muts...)
	sort.SliceStable(ms, func(i, j int) bool { return order[ms[i].K] < order[ms[j].K] })
	for _, m := range ms {
		switch m.K {
		case "ptype":
			payload = exec1(0, byte(m.P), byte(m.V), m.W)
		case "cmds":
			if len(m.L) > 0 {
				payload = append([]byte{0x03}, m.L[len(m.L)-1]...) // the last command of the sequence
			}
		case "sql":
			payload = append([]byte{0x03}, m.text()...)
		case "byte":
			if m.P < len(payload) {
				payload[m.P] = byte(m.V)
			}
		case "stmtid":
			if len(payload) >= 5 {
				binary.LittleEndian.PutUint32(payload[1:], uint32(m.V))
			}
		case "lenenc":
			if m.P < len(payload) {
				n := map[int]int{0xfc: 2, 0xfd: 3, 0xfe: 8}[m.V]
				ins := append([]byte{byte(m.V)}, bytesOf(0xff, n)...)
				payload = cat(payload[:m.P], ins, payload[m.P+1:])
			}
		case "trunc":
			if m.P < len(payload) {
				payload = payload[:m.P]
			}
		case "hdrlen":
			hdrLen = m.V
		case "seq":
			seq = m.V
		}
	}
	startSeq := 0
	if s.phase == "handshake" {
		startSeq = 1
	}
	if seq >= 0 {
		startSeq = seq
	}
	if hdrLen < 0 {
		hdrLen = len(payload)
	}
	return cat([]byte{byte(hdrLen), byte(hdrLen >> 8), byte(hdrLen >> 16), byte(startSeq)}, payload)
}

func bytesOf(b byte, n int) []byte {
	out := make([]byte, n)
	for i := range out {
		out[i] = b
	}
	return out
}

// midPacket reports whether a byte stream, read as MySQL packets, ends inside a packet (or
// after a 0xffffff-length packet that announces a continuation): the server then
// legitimately waits for more bytes.
func midPacket(b []byte) bool {
	for len(b) > 0 {
		if len(b) < 4 {
			return true
		}
		n := int(b[0]) | int(b[1])<<8 | int(b[2])<<16
		if len(b) < 4+n {
			return true
		}
		b = b[4+n:]
		if n == 0xffffff && len(b) == 0 {
			return true
		}
	}
	return false
}

// ---- universe ----------------------------------------------------------------------------

func singleMuts(s *seed) []Mut {
	switch s.name {
	case "cmd_seq", "exec1", "sql_text", "sql_bytes", "multi_ctrl", "multi_bytes", "multi_text":
		return nil
	}
	n := len(s.build(make([]byte, 20)))
	var ms []Mut
	for p := 0; p < n; p++ {
		ms = append(ms, Mut{K: "trunc", P: p})
	}
	for p := 0; p < n; p++ {
		for _, v := range replaceBytes {
			ms = append(ms, Mut{K: "byte", P: p, V: int(v)})
		}
	}
	for _, p := range s.lenenc {
		for _, v := range []int{0xfc, 0xfd, 0xfe} {
			ms = append(ms, Mut{K: "lenenc", P: p, V: v})
		}
	}
	for _, v := range uniqInts([]int{0, 1, n - 1, n + 1, 2 * n, n + 4, 0xffff, 0xffffff}) {
		if v != n && v >= 0 {
			ms = append(ms, Mut{K: "hdrlen", V: v})
		}
	}
	want := 0
	if s.phase == "handshake" {
		want = 1
	}
	for _, v := range []int{want + 1, (want + 255) % 256, 255} {
		if v != want {
			ms = append(ms, Mut{K: "seq", V: v})
		}
	}
	if strings.HasPrefix(s.setup, "prepare") && n >= 5 && s.name != "stmt_prepare" {
		for _, v := range []int{1, 2, 0x7fffffff, 0xffffffff} {
			ms = append(ms, Mut{K: "stmtid", V: v})
		}
	}
	return ms
}

func uniqInts(xs []int) []int {
	m := map[int]bool{}
	var out []int
	for _, x := range xs {
		if !m[x] {
			m[x] = true
			out = append(out, x)
		}
	}
	return out
}

var knownTypes = []int{0x00, 0x01, 0x02, 0x03, 0x04, 0x05, 0x06, 0x07, 0x08, 0x09, 0x0a, 0x0b, 0x0c, 0x0d, 0x0f, 0x10, 0xf5, 0xf6, 0xf9, 0xfa, 0xfb, 0xfc, 0xfd, 0xfe, 0xff}

func ptypeMuts(all bool) []Mut {
	var ms []Mut
	types := knownTypes
	if all {
		types = nil
		for t := 0; t < 256; t++ {
			types = append(types, t)
		}
	}
	for _, t := range types {
		for _, f := range []int{0x00, 0x80} {
			l := len(ptypeValue(byte(t)))
			for w := 0; w <= l; w++ {
				ms = append(ms, Mut{K: "ptype", P: t, V: f, W: w})
			}
		}
	}
	return ms
}

// ---- broken statement texts ---------------------------------------------------------------

var skeletons = []string{
	"select * from tp where id in ( 1 , 2 )",
	"select a , b from tp where a = 'x' and b in ( 'y' )",
	"select \"x\" , `a` from tp",
	"select /* c */ 1",
	"insert into tp ( a , b ) values ( 1 , 'x' )",
	"insert into tp values ( 1 , 2 ) , ( 3 , 4 )",
	"update tp set a = 1 where id in ( 1 )",
	"delete from tp where id in ( 1 , 2 )",
	"set @a = 1",
	"set names utf8",
	"show tables",
	"use db",
}

var unbalanced = []string{")", "(", "'", "\"", "`", "/*"}

// sqlTexts enumerates the text family completely: for every skeleton (a token list) every
// prefix, every prefix followed by one unbalanced token, the whole statement with one
// unbalanced token inserted after each token, every single-token deletion, duplication and
// swap of adjacent tokens. Duplicates are removed; order is deterministic.
func sqlTexts() []string {
	seen := map[string]bool{}
	var out []string
	add := func(toks []string) {
		t := strings.Join(toks, " ")
		if !seen[t] {
			seen[t] = true
			out = append(out, t)
		}
	}
	cp := func(t []string) []string { return append([]string(nil), t...) }
	for _, sk := range skeletons {
		toks := strings.Fields(sk)
		n := len(toks)
		for i := 0; i <= n; i++ {
			add(toks[:i])
			for _, u := range unbalanced {
				add(append(cp(toks[:i]), u))
				if i < n {
					add(append(append(cp(toks[:i]), u), toks[i:]...))
				}
			}
		}
		for i := 0; i < n; i++ {
			add(append(cp(toks[:i]), toks[i+1:]...))                    // deletion
			add(append(append(cp(toks[:i+1]), toks[i]), toks[i+1:]...)) // duplication
			if i+1 < n {
				sw := cp(toks)
				sw[i], sw[i+1] = sw[i+1], sw[i]
				add(sw) // swap
			}
		}
	}
	return out
}

var strayBytes = []byte{0x00, 0x01, 0x1f, 0x7f, 0x80, 0xc3, 0xe2, 0xff}

// byteTexts: statements of known and unknown kind (CALL, WITH, GRANT, garbage are not
// classified by parser.Preview) with one stray byte inserted at EVERY byte offset.
func byteTexts() []string {
	bases := []string{"call p()", "with x as (select 1) select 1", "grant all on *.* to u", "xyz 1", "select 1", "set @a = 1", "insert into tp values (1)", "select 'a' from tp"}
	var out []string
	for _, b := range bases {
		for pos := 0; pos <= len(b); pos++ {
			for _, c := range strayBytes {
				out = append(out, b[:pos]+string([]byte{c})+b[pos:])
			}
		}
	}
	return out
}

// cmdSeqs: every sequence of 2 and of 3 commands over a small alphabet of transaction
// control, SET statements the backend rejects when the proxy replays them (the proxy itself
// acknowledges and only remembers them), a valid user variable, a data statement.
var seqAlphabet = []string{
	"begin",
	"set autocommit=0",
	"set @v = nosuch()",
	"set sql_mode='NO_SUCH_MODE'",
	"set @w = 1",
	"select v from tp where id=1",
	"commit",
}

func cmdSeqs() [][]string {
	var out [][]string
	n := len(seqAlphabet)
	for a := 0; a < n; a++ {
		for b := 0; b < n; b++ {
			out = append(out, []string{seqAlphabet[a], seqAlphabet[b]})
		}
	}
	for a := 0; a < n; a++ {
		for b := 0; b < n; b++ {
			for c := 0; c < n; c++ {
				out = append(out, []string{seqAlphabet[a], seqAlphabet[b], seqAlphabet[c]})
			}
		}
	}
	return out
}

// ctrlTexts: multi-statement texts with one stray byte before / between / after the ';'.
func ctrlTexts() []string {
	var out []string
	for _, c := range strayBytes {
		x := string([]byte{c})
		out = append(out,
			x+"select 1;select 2", "select 1"+x+";select 2", "select 1;"+x+"select 2", "select 1;"+x+";select 2",
			"select 1; "+x+" ; select 2", "select 1;select 2"+x, "select 1;"+x, "select 1;select 2;"+x, "a;"+x+";b", x+";", ";"+x)
	}
	return out
}

func universe(thorough bool) []Case {
	var cs []Case
	for _, s := range seeds {
		if !thorough && !s.quick {
			continue
		}
		for _, m := range singleMuts(s) {
			cs = append(cs, Case{Seed: s.name, Muts: []Mut{m}})
		}
	}
	for _, m := range ptypeMuts(thorough) {
		cs = append(cs, Case{Seed: "exec1", Muts: []Mut{m}})
	}
	for _, t := range sqlTexts() {
		cs = append(cs, Case{Seed: "sql_text", Muts: []Mut{{K: "sql", T: t}}})
	}
	for _, l := range cmdSeqs() {
		cs = append(cs, Case{Seed: "cmd_seq", Muts: []Mut{{K: "cmds", L: l}}})
	}
	for _, t := range byteTexts() {
		cs = append(cs, Case{Seed: "sql_bytes", Muts: []Mut{sqlMut(t)}})
	}
	for _, t := range ctrlTexts() {
		cs = append(cs, Case{Seed: "multi_ctrl", Muts: []Mut{sqlMut(t)}})
	}
	for _, t := range byteTexts() {
		cs = append(cs, Case{Seed: "multi_bytes", Muts: []Mut{sqlMut("select 1;" + t)}})
	}
	if thorough {
		for _, t := range sqlTexts() {
			cs = append(cs, Case{Seed: "multi_text", Muts: []Mut{sqlMut("select 1;" + t)}})
		}
	}
	if thorough {
		// pairs of mutations on the execute and handshake seeds: byte x byte (p1 < p2),
		// byte x trunc, byte x lenenc
		for _, name := range []string{"stmt_execute", "hs_db"} {
			s := seedByName(name)
			ms := singleMuts(s)
			for i, a := range ms {
				if a.K != "byte" {
					continue
				}
				for _, b := range ms[i+1:] {
					switch b.K {
					case "byte":
						if b.P <= a.P {
							continue
						}
					case "trunc":
						if b.P <= a.P {
							continue // the replaced byte would be cut off
						}
					case "lenenc":
					default:
						continue
					}
					cs = append(cs, Case{Seed: name, Muts: []Mut{a, b}})
				}
			}
		}
	}
	return cs
}

// ---- running a case --------------------------------------------------------------------

type result struct {
	outcome string // what the mutated client saw
	sent    []byte
	cpu     string // hang: "burning" | "idle" (CPU use of the proxy while the client waited)
	bad     string // "" | hang | no_close_after_eof
	detail  string
}

// probe = COM_SET_OPTION(0): answered with an EOF packet, which no other command of the
// alphabet sends as its FIRST packet (COM_FIELD_LIST sends column definitions first).
var probe = []byte{3, 0, 0, 0, 0x1b, 0, 0}

func firstByteClass(p []byte) string {
	if len(p) == 0 {
		return "empty_packet"
	}

	switch p[0] {
	case 0x00:
		return "ok"
	case 0xff:
		return "err"
	case 0xfe:
		if len(p) <= 5 {
			return "eof"
		}
		return "auth_switch_or_fe"
	}
	return "data"
}

func runCase(addr string, c Case, quickHang bool) result {
	s := seedByName(c.Seed)
	var res result
	cl, err := e2erig.DialRaw(addr, horizon)
	if err != nil {
		res.outcome, res.bad, res.detail = "dial_failed", "dial", err.Error()
		return res
	}
	defer cl.Close()
	if s.phase == "command" {
		caps := uint32(e2erig.DefaultCaps | e2erig.CapConnectWithDB)
		user := e2erig.User
		if s.multi {
			caps |= e2erig.CapMultiStatements
			user = multiUser
		}
		cl.Seq = 1
		if err := cl.WritePacket(e2erig.HandshakeResponse(caps, 45, user, e2erig.NativePassword(cl.Salt, e2erig.Password), e2erig.DB, "")); err != nil {
			res.outcome, res.bad, res.detail = "setup_failed", "setup", err.Error()
			return res
		}
		if p, err := cl.ReadPacket(); err != nil || len(p) == 0 || p[0] != 0 {
			res.outcome, res.bad, res.detail = "setup_failed", "setup", fmt.Sprintf("auth: %v % x", err, p)
			return res
		}
		switch {
		case strings.HasPrefix(s.setup, "prepare"):
			sql := prep2SQL
			if strings.HasPrefix(s.setup, "prepare1") {
				sql = prep1SQL
			}
			st, perr, err := cl.Prepare(sql)
			if err != nil || perr != nil || st.ID != 0 {
				res.outcome, res.bad, res.detail = "setup_failed", "setup", fmt.Sprintf("prepare: %v %v", err, perr)
				return res
			}
			if strings.HasSuffix(s.setup, "+close") {
				cl.Command(0x19, le32(st.ID))
			}
		}
	}
	// a command sequence: every command but the last is sent here and must be answered
	// (any answer) or end in a close within the horizon; the last one goes the usual way
	for _, m := range c.Muts {
		if m.K != "cmds" {
			continue
		}
		for i := 0; i+1 < len(m.L); i++ {
			cl.Timeout = horizon
			if err := cl.Command(0x03, []byte(m.L[i])); err != nil {
				res.outcome = fmt.Sprintf("closed_at_command_%d", i+1)
				return res
			}
			if _, err := cl.ReadResult(nil); err != nil {
				if ne, ok := err.(net.Error); ok && ne.Timeout() {
					res.outcome, res.bad = fmt.Sprintf("no_answer_at_command_%d", i+1), "hang"
					res.detail = fmt.Sprintf("command %d of the sequence (%q) got no answer and no close within %v", i+1, m.L[i], horizon)
					res.sent = []byte(m.L[i])
					return res
				}
				res.outcome = fmt.Sprintf("closed_at_command_%d", i+1)
				return res
			}
		}
	}
	wire := apply(s, cl.Salt, c.Muts)
	// a probe command behind the mutated one guarantees an answer even when the mutated
	// packet is (or has become) a command without response (STMT_CLOSE, SEND_LONG_DATA).
	// The probe is COM_SET_OPTION, whose EOF answer cannot be confused with the first packet
	// of the answer to another command.
	all := wire
	if s.phase == "command" {
		all = cat(wire, probe)
	}
	// what the server sees first: the command byte of the first complete packet
	needsAnswer := false
	if s.phase == "command" && len(all) >= 5 {
		n := int(all[0]) | int(all[1])<<8 | int(all[2])<<16
		if n >= 1 && len(all) >= 4+n && all[3] == 0 {
			switch all[4] {
			case 0x01, 0x18, 0x19, 0x1b, 0x04: // QUIT, SEND_LONG_DATA, STMT_CLOSE: no response by protocol; SET_OPTION / FIELD_LIST may answer with an EOF themselves
			default:
				needsAnswer = true
			}
		}
	}
	res.sent = wire
	if err := cl.WriteRaw(all); err != nil {
		res.outcome = "closed_while_writing"
		return res
	}
	waits := midPacket(all)
	if waits {
		// the header announced more bytes than we sent: the server legitimately waits.
		// Half-close; the server must drop the connection.
		if tc, ok := cl.C.(*net.TCPConn); ok {
			tc.CloseWrite()
		}
	}
	cl.C.SetReadDeadline(time.Now().Add(horizon))
	buf := make([]byte, 4096)
	got := 0
	first := ""
	prefix := ""
	switched := false
	pinged := false
	for {
		n, err := cl.C.Read(buf)
		if n > 0 && got == 0 && n >= 5 {
			end := 4 + (int(buf[0]) | int(buf[1])<<8 | int(buf[2])<<16)
			if end > n {
				end = n
			}
			first = firstByteClass(buf[4:end])
		}
		got += n
		if err != nil {
			if err == io.EOF || strings.Contains(err.Error(), "reset") {
				if got == 0 {
					res.outcome = prefix + "closed"
				} else {
					res.outcome = prefix + first + "+closed"
				}
				if waits {
					res.outcome = "waits_for_more:" + res.outcome
				}
				return res
			}
			// timeout
			if got > 0 && !waits {
				res.outcome = prefix + first
				return res
			}
			if !waits && !pinged && s.phase == "command" && !quickHang {
				// the mutated bytes may have swallowed our PING into a command that has no
				// response (e.g. a longer header length in front of STMT_CLOSE): the server is
				// then idle, not hung. A fresh PING must be answered.
				pinged = true
				cl.WriteRaw(probe)
				cl.C.SetReadDeadline(time.Now().Add(horizon))
				prefix = "silent_then_ping>"
				continue
			}
			if waits {
				res.outcome, res.bad, res.detail = "no_close_after_client_eof", "hang", fmt.Sprintf("server kept the connection %v after the client half-closed a partial packet (got %d bytes)", horizon, got)
			} else {
				res.outcome, res.bad, res.detail = "no_answer", "hang", fmt.Sprintf("no packet and no close within %v", horizon)
			}
			return res
		}
		if got > 0 && !waits {
			if s.phase == "handshake" && first == "auth_switch_or_fe" && !switched && n >= 4 {
				// answer the AuthSwitchRequest with a correct proof so that the rest of the
				// (mutated) handshake response is processed, then read the final verdict
				switched = true
				proof := e2erig.NativePassword(cl.Salt, e2erig.Password)
				cl.WriteRaw(cat([]byte{byte(len(proof)), 0, 0, buf[3] + 1}, proof))
				got = 0
				prefix = "auth_switch>"
				continue
			}
			res.outcome = prefix + first
			if first == "eof" && needsAnswer && prefix == "" {
				res.bad, res.detail = "no_error_no_close", "the first packet the client received is the answer to the probe command: the mutated command got neither a response nor a close"
			}
			return res
		}
	}
}

// ---- child management --------------------------------------------------------------------

type world struct {
	mu    sync.Mutex
	child *e2erig.Child
	gen   int
}

// max_client_connections is far above what the harness ever opens. A small limit (so that
// leaked slots exhaust it) does not work here: Session.Run's cleanup calls TimeWheel.Remove,
// which blocks while the wheel's 4096-slot pipeline is full, and the pipeline is only
// drained every 5 s; at the harness' rate of ~1000 sessions/s the counter of the UNCHANGED
// proxy lags thousands of closed sessions behind and any small limit refuses healthy
// clients. Leaks are therefore detected on the counter itself (read in the child through
// an inject accessor): it must return to its baseline after every batch / case.
const (
	nsName     = "ns_c38"
	multiNS    = "ns_c38_multi"
	multiUser  = "verif_multi"
	maxClients = 1000000
	maxWorkers = 16
	// liveness horizon for the counter to drain (several 5 s time-wheel ticks)
	countHorizon = 40 * time.Second
)

func spec() e2erig.ChildSpec {
	ns := e2erig.Namespace(nsName, 16, "@0")
	ns.MaxClientConnections = maxClients
	// a second namespace with support_multi_query: COM_QUERY of a client that announced
	// CLIENT_MULTI_STATEMENTS goes through doMultiStmts / SplitStatementToPieces there
	nm := e2erig.Namespace(multiNS, 16, "@0")
	nm.MaxClientConnections = maxClients
	nm.SupportMultiQuery = true
	nm.Users[0].UserName = multiUser
	return e2erig.ChildSpec{Prefix: "c38", Backends: 1, Handler: "c38", Namespaces: []*models.Namespace{ns, nm}}
}

// backendHandler makes the fake backend behave like a server with a parser: only the
// statements the harness' well-formed seeds produce are executed, everything else is a
// syntax error (1064). Without it a broken text that the proxy passes through would be
// answered with OK and the proxy's error paths would never run.
func backendHandler(c *fakemysql.ConnInfo, sql string) *fakemysql.Result {
	t := strings.ToLower(strings.Join(strings.Fields(sql), " "))
	for _, sk := range skeletons {
		if t == strings.ToLower(sk) {
			return nil
		}
	}
	switch t {
	case "begin", "commit", "rollback", "start transaction":
		return nil
	}
	for _, p := range []string{"select 1", "select v from tp where id=", "show ", "kill "} {
		if strings.HasPrefix(t, p) && strings.Count(t, "(") == strings.Count(t, ")") && strings.Count(t, "'")%2 == 0 {
			return nil
		}
	}
	return &fakemysql.Result{Err: &fakemysql.SQLError{Code: 1064, State: "42000",
		Msg: "You have an error in your SQL syntax; check the manual that corresponds to your MySQL server version for the right syntax to use near '" + sql + "'"}}
}

func (w *world) start() {
	c, err := e2erig.StartChild(spec())
	if err != nil {
		ev.Fatalf("child: %v", err)
	}
	w.child = c
	w.gen++
}

// connCount reads the namespace's client-connection counter inside the child.
func (w *world) connCount() int {
	rep, err := w.child.Command("conncount " + nsName + "," + multiNS)
	if err != nil {
		for d := time.Now().Add(3 * time.Second); w.child.Alive() && time.Now().Before(d); {
			time.Sleep(2 * time.Millisecond)
		}
		if !w.child.Alive() {
			return -1
		}
		ev.Fatalf("conncount: %v", err)
	}
	n := -1
	fmt.Sscan(rep, &n)
	return n
}

// waitCount waits (liveness horizon) until the counter is back at target or below.
func (w *world) waitCount(target int) (int, bool) {
	deadline := time.Now().Add(countHorizon)
	for {
		n := w.connCount()
		if n <= target {
			return n, true
		}
		if time.Now().After(deadline) {
			return n, false
		}
		time.Sleep(3 * time.Millisecond)
	}
}

// cpuSeconds of a process (user + system) from /proc, -1 if unavailable.
func cpuSeconds(pid int) float64 {
	b, err := os.ReadFile(fmt.Sprintf("/proc/%d/stat", pid))
	if err != nil {
		return -1
	}
	t := string(b)
	if i := strings.LastIndexByte(t, ')'); i >= 0 {
		t = t[i+1:]
	}
	f := strings.Fields(t) // f[0] = state, utime = field 14 overall = f[11], stime = f[12]
	if len(f) < 13 {
		return -1
	}
	var u, sy float64
	fmt.Sscan(f[11], &u)
	fmt.Sscan(f[12], &sy)
	return (u + sy) / 100
}

func healthy(addr string) (*e2erig.Client, error) {
	return e2erig.Dial(addr, e2erig.User, e2erig.Password, e2erig.DB, 45, horizon)
}

func selectOne(cl *e2erig.Client) error {
	ri, err := cl.Query("select 1", nil)
	if err != nil {
		return err
	}
	if ri.Err != nil {
		return ri.Err
	}
	if ri.Rows != 1 || !ri.Complete {
		return fmt.Errorf("select 1 returned %d rows (complete=%v)", ri.Rows, ri.Complete)
	}
	return nil
}

func cleanScratch() {
	ms, _ := filepath.Glob(filepath.Join(c38ScratchRoot(), "c38-[0-9]*"))
	for _, m := range ms {
		os.RemoveAll(m)
	}
}

func tail(s string, n int) string {
	if len(s) > n {
		return s[len(s)-n:]
	}
	return s
}

func main() {
	gx.Quiet()
	e2erig.RegisterChildCommand("conncount", func(p *e2erig.Proxy, nss string) string {
		n := 0
		for _, ns := range strings.Split(nss, ",") {
			n += server.VerifClientConnections(p.Mgr, ns)
		}
		return fmt.Sprint(n)
	})
	// scrape = what a monitoring system does: the manager's real /metrics handler (prometheus
	// Registry.Gather over everything the statements recorded), the same through the admin
	// server's real route, and the admin API's per-namespace fingerprint dumps (deferred
	// consumers of per-statement state). A panic on one of their goroutines kills the child.
	e2erig.RegisterChildCommand("scrape", func(p *e2erig.Proxy, _ string) string {
		var out []string
		for path, h := range p.Mgr.GetStatisticManager().GetHandlers() {
			rec := httptest.NewRecorder()
			h.ServeHTTP(rec, httptest.NewRequest("GET", path, nil))
			out = append(out, fmt.Sprintf("%s=%d", path, rec.Code))
		}
		if addr := server.VerifAdminAddr(p.Srv); addr != "" {
			cl := &http.Client{Timeout: 30 * time.Second}
			for _, u := range []string{"/api/metric/metrics", "/api/proxy/stats/sessionsqlfingerprint/" + nsName, "/api/proxy/stats/backendsqlfingerprint/" + nsName,
				"/api/proxy/stats/sessionsqlfingerprint/" + multiNS, "/api/proxy/stats/backendsqlfingerprint/" + multiNS} {
				req, _ := http.NewRequest("GET", "http://"+addr+u, nil)
				req.SetBasicAuth("admin", "admin")
				resp, err := cl.Do(req)
				if err != nil {
					out = append(out, u+"=ERR:"+strings.ReplaceAll(err.Error(), "\n", " "))
					continue
				}
				io.Copy(io.Discard, resp.Body)
				resp.Body.Close()
				out = append(out, fmt.Sprintf("%s=%d", u, resp.StatusCode))
			}
		}
		sort.Strings(out)
		return strings.Join(out, " ")
	})
	e2erig.RegisterHandler("c38", backendHandler)
	e2erig.RegisterChildCommand("ping", func(*e2erig.Proxy, string) string { return "pong" })
	e2erig.MaybeChild()
	initSeeds()
	r := ev.Start("C38", "exploration")
	w := &world{}
	w.start()

	report := func(c Case, kind string, res result, extra string) {
		site := ""
		if kind == "crash" {
			site = crashSite(extra)
		}
		mk := []string{}
		for _, m := range c.Muts {
			mk = append(mk, m.K)
		}
		r.Violation(ev.Witness{
			Summary:  fmt.Sprintf("%s: %s — client saw %q; bytes sent: %s %s %s", c, kind, res.outcome, hex.EncodeToString(res.sent), res.detail, tail(extra, 1500)),
			Features: map[string]string{"kind": kind, "seed": c.Seed, "mutation": strings.Join(mk, "+"), "client": res.outcome, "site": site, "cpu": res.cpu},
			Case:     c,
		})
	}

	// runOne runs one case with all checks, sequentially (used for replay, for pinpointing
	// a crash and for re-running hang candidates).
	// A crash can come from a background goroutine AFTER the response was written. settle
	// gives it the time of two control-channel round trips (no sleeping); with long=true
	// it polls the process state (ends as soon as the child is dead, at most 3 s).
	settle := func(long bool) {
		for i := 0; i < 2 && w.child.Alive(); i++ {
			w.child.Command("ping")
		}
		if long {
			for d := time.Now().Add(3 * time.Second); w.child.Alive() && time.Now().Before(d); {
				time.Sleep(2 * time.Millisecond)
			}
		}
	}
	// diedSoon: something just failed on another session; is the process on its way down?
	diedSoon := func() bool {
		for d := time.Now().Add(3 * time.Second); w.child.Alive() && time.Now().Before(d); {
			time.Sleep(2 * time.Millisecond)
		}
		return !w.child.Alive()
	}
	longSettle := false
	var lastCase *Case   // the case judged by the previous runOne (child alive at its end)
	var lateCrash []Case // cases after whose verdict the child was found dead
	runOne := func(c Case) (string, result, string) {
		if !w.child.Alive() {
			if lastCase != nil {
				lateCrash = append(lateCrash, *lastCase)
			}
			w.start()
		}
		lastCase = nil
		h, err := healthy(w.child.Addr)
		if err != nil {
			// the server was left unusable by earlier cases: continue on a fresh child
			w.child.Close()
			w.start()
			if h, err = healthy(w.child.Addr); err != nil {
				ev.Fatalf("healthy session on a fresh child: %v", err)
			}
		}
		defer h.Close()
		// the server counts a connection when Session.Run starts, i.e. possibly after the
		// client has seen the handshake OK: one round trip makes sure h is counted
		if err := selectOne(h); err != nil {
			ev.Fatalf("healthy session: %v", err)
		}
		base := w.connCount()
		res := runCase(w.child.Addr, c, false)
		settle(longSettle)
		if !w.child.Alive() {
			return "crash", res, w.child.ExitState() + "\n" + w.child.Stderr()
		}
		if res.bad == "hang" {
			return "hang", res, ""
		}
		if res.bad == "no_error_no_close" {
			return "no_error_no_close", res, ""
		}
		if res.bad != "" {
			return "engine", res, res.detail
		}
		if err := selectOne(h); err != nil {
			if diedSoon() {
				return "crash", res, w.child.ExitState() + "\n" + w.child.Stderr()
			}
			return "other_session_affected", res, err.Error()
		}
		// a scrape of the metrics / statistics after the case must not kill the process
		w.child.Command("scrape")
		settle(longSettle)
		if !w.child.Alive() {
			res.detail = "the process died when the metrics / statistics were scraped after the case"
			return "crash", res, w.child.ExitState() + "\n" + w.child.Stderr()
		}
		// the namespace's connection counter returns to its value before the case
		if n, ok := w.waitCount(base); !ok && w.child.Alive() {
			res.detail = fmt.Sprintf("the namespace's client-connection counter stays at %d (%d before the case) although the case's connection is closed", n, base)
			return "connection_slot_leaked", res, ""
		}
		// ... and a session opened afterwards works too
		h2, err := healthy(w.child.Addr)
		if err != nil {
			if diedSoon() {
				return "crash", res, w.child.ExitState() + "\n" + w.child.Stderr()
			}
			return "other_session_affected", res, "new session after the case: " + err.Error()
		}
		err = selectOne(h2)
		h2.Close()
		if err != nil {
			if diedSoon() {
				return "crash", res, w.child.ExitState() + "\n" + w.child.Stderr()
			}
			return "other_session_affected", res, "new session after the case: " + err.Error()
		}
		cc := c
		lastCase = &cc
		return "", res, ""
	}
	confirm := func(c Case, kind string) (bool, result, string) {
		var res result
		var extra string
		if kind == "crash" {
			// the process may die a moment after the answer: wait for the process state
			prev := longSettle
			longSettle = true
			defer func() { longSettle = prev }()
		}
		for i := 0; i < 5; i++ {
			k, r2, e2 := runOne(c)
			res, extra = r2, e2
			if k != kind {
				return false, res, extra
			}
		}
		return true, res, extra
	}

	// confirmHang: 5 connections send the case at the same time on a fresh child; every one
	// must stay without answer and without close for the whole horizon (first wait + a second
	// probe = 2 x 10 s); the child's CPU time over that interval goes into the witness.
	maxHangReports := 1
	if r.Thorough() {
		maxHangReports = 2
	}
	hangReports := 0
	confirmHang := func(c Case) (bool, result) {
		w.child.Close()
		w.start()
		h, err := healthy(w.child.Addr)
		if err != nil {
			ev.Fatalf("healthy session on a fresh child: %v", err)
		}
		defer h.Close()
		cpu0 := cpuSeconds(w.child.Pid())
		t0 := time.Now()
		rs := make([]result, 5)
		var wg2 sync.WaitGroup
		for i := range rs {
			wg2.Add(1)
			go func(i int) {
				defer wg2.Done()
				rs[i] = runCase(w.child.Addr, c, false)
			}(i)
		}
		wg2.Wait()
		cpu1 := cpuSeconds(w.child.Pid())
		alive := w.child.Alive()
		others := selectOne(h)
		ok := alive
		for _, x := range rs {
			if x.bad != "hang" {
				ok = false
			}
		}
		res := rs[0]
		if ok {
			state := "idle"
			if cpu0 >= 0 && cpu1-cpu0 > 5 {
				state = "burning"
			}
			res.cpu = state
			res.detail = fmt.Sprintf("5 of 5 connections got no packet and no close within %.0f s (first wait + a second probe); meanwhile the proxy process used %.1f s of CPU; select 1 on another session: %v", time.Since(t0).Seconds(), cpu1-cpu0, others)
		}
		w.child.Close()
		w.start()
		return ok, res
	}

	var rc Case
	if r.ReplayCase(&rc) && rc.Seed == "hs_interleave" {
		w.child.Close()
		interleave(r) // the whole (small) in-process family
		cleanScratch()
		r.Finish()
	}
	if r.ReplayCase(&rc) {
		k, res, extra := runOne(rc)
		fmt.Printf("replay: %s -> client saw %q, verdict %q, sent %s\n%s\n", rc, res.outcome, k, hex.EncodeToString(res.sent), tail(extra, 3000))
		if k != "" && k != "engine" {
			report(rc, k, res, extra)
		}
		w.child.Close()
		cleanScratch()
		r.Finish()
	}

	// ---- in-process part: interleaved handshakes -------------------------------------
	// "every VALID login succeeds whatever another client sends": the order A reads its
	// handshake response -> B's packet is read (buffer pool) -> A's password check cannot be
	// forced through TCP, so it is played over net.Pipe on the real functions, GC off and
	// the goroutine pinned so that the buffer pool hands B the buffer A just returned.
	inter := interleave(r)

	cases := universe(r.Thorough())
	if f := os.Getenv("C38_ONLY"); f != "" {
		var cs []Case
		for _, c := range cases {
			if strings.Contains(","+f+",", ","+c.Seed+",") {
				cs = append(cs, c)
			}
		}
		cases = cs
	}
	r.Set("universe", len(cases))
	workers := runtime.GOMAXPROCS(0)
	if workers > maxWorkers {
		workers = maxWorkers
	}
	var next, done int64
	done = int64(inter)
	outcomes := map[string]int{}
	var omu sync.Mutex
	var recent []Case   // the last cases that completed without any sign of trouble (a crash may come late)
	var suspects []Case // cases to re-examine sequentially (in flight at a crash, hang candidates, health failures)
	var wg sync.WaitGroup
	var capped, abortBatch int32
	hangSuspects := map[string]bool{}
	batch := func(from, to int) {
		next = int64(from)
		atomic.StoreInt32(&abortBatch, 0)
		for k := 0; k < workers; k++ {
			wg.Add(1)
			go func() {
				defer wg.Done()
				addr := w.child.Addr
				h, err := healthy(addr)
				if err == nil {
					defer h.Close()
				}
				for {
					i := int(atomic.AddInt64(&next, 1) - 1)
					if i >= to {
						return
					}
					if r.TimeUp() {
						atomic.StoreInt32(&capped, 1)
						return
					}
					c := cases[i]
					if h == nil || !w.child.Alive() {
						omu.Lock()
						suspects = append(suspects, c)
						omu.Unlock()
						atomic.AddInt64(&done, 1)
						continue
					}
					if atomic.LoadInt32(&abortBatch) != 0 {
						// too many commands without an answer in this batch: stop it (each one
						// occupies a worker for the whole horizon and leaves a spinning session)
						atomic.StoreInt32(&capped, 1)
						return
					}
					res := runCase(addr, c, true)
					if res.bad == "hang" {
						omu.Lock()
						hangSuspects[c.String()] = true
						if len(hangSuspects) >= 4 {
							atomic.StoreInt32(&abortBatch, 1)
						}
						omu.Unlock()
					}
					if os.Getenv("C38_DEBUG") != "" && c.Seed == "field_list" && c.Muts[0].K == "trunc" {
						fmt.Fprintf(os.Stderr, "dbg %s -> %q bad=%q alive=%v\n", c, res.outcome, res.bad, w.child.Alive())
					}
					bad := res.bad != ""
					if !bad {
						if err := selectOne(h); err != nil {
							bad = true
						}
					}
					if bad || !w.child.Alive() {
						omu.Lock()
						// the crash may be the late effect of a case that already completed
						suspects = append(suspects, recent...)
						recent = nil
						suspects = append(suspects, c)
						omu.Unlock()
					} else {
						omu.Lock()
						outcomes[c.Seed+"|"+res.outcome]++
						recent = append(recent, c)
						if len(recent) > 4*workers {
							recent = recent[len(recent)-4*workers:]
						}
						omu.Unlock()
					}
					atomic.AddInt64(&done, 1)
				}
			}()
		}
		wg.Wait()
	}
	// batches, so that after a crash only a bounded number of cases has to be re-examined
	// after this many confirmed violations the run stops (each confirmation costs 5 runs,
	// a hang candidate 5 x 20 s): the verdict is known, the evidence says exhaustive:false
	const maxReports = 6
	reported := 0
	leaksReported := 0
	batchSize := 2000
	if v := os.Getenv("C38_BATCH"); v != "" {
		fmt.Sscan(v, &batchSize)
	}
	// leakOf runs one case alone and reports whether the namespace's connection counter
	// fails to return to its value before the case (all connections of the case closed).
	leakOf := func(c Case) (bool, result, int) {
		if !w.child.Alive() {
			w.start()
		}
		base := w.connCount()
		res := runCase(w.child.Addr, c, false)
		n, ok := w.waitCount(base)
		return !ok && w.child.Alive(), res, n - base
	}
	for from := 0; from < len(cases) && atomic.LoadInt32(&capped) == 0; {
		// a batch = the cases of one seed (at most batchSize)
		to := from
		for to < len(cases) && cases[to].Seed == cases[from].Seed && len(cases[to].Muts) == len(cases[from].Muts) && to-from < batchSize {
			to++
		}
		batch(from, to)
		settle(false)
		if w.child.Alive() && len(hangSuspects) == 0 {
			// what a monitoring system does after the clients' input: scrape the metrics and
			// the per-namespace statistics; a panic in one of these deferred consumers of
			// per-statement state kills the process
			w.child.Command("scrape")
			settle(false)
			if !w.child.Alive() {
				r.Add("batches_followed_by_a_fatal_scrape", 1)
				suspects = append(append([]Case(nil), cases[from:to]...), suspects...)
				recent = nil
			}
		}
		if len(hangSuspects) > 0 {
			// sessions that never answered keep spinning in the child: continue on a fresh one
			w.child.Close()
			w.start()
		}
		if !w.child.Alive() {
			suspects = append(recent, suspects...)
			recent = nil
			w.start()
		} else if n, ok := w.waitCount(0); !ok {
			// every harness connection is closed, yet the namespace still counts n client
			// connections: some case of this batch leaked its slot. Find it: fresh child, one
			// case at a time, counter before/after.
			r.Add("batches_with_leaked_connection_slots", 1)
			w.child.Close()
			w.start()
			for _, c := range cases[from:to] {
				if r.TimeUp() || reported >= maxReports || leaksReported >= 2 {
					atomic.StoreInt32(&capped, 1)
					break
				}
				leaked, res, by := leakOf(c)
				if !leaked {
					continue
				}
				// confirmation: 4 more runs back to back, then ONE wait: every run must have
				// left its slot occupied (counter >= base + 5 after the horizon)
				base := w.connCount() - by
				for i := 0; i < 4; i++ {
					res = runCase(w.child.Addr, c, false)
				}
				after, _ := w.waitCount(base)
				if after-base < 5 {
					r.Add("unconfirmed_leak_candidates", 1)
					continue
				}
				res.detail = fmt.Sprintf("after the case (its connection closed) the namespace's client-connection counter stays above its value before the case: +%d after 5 runs; batch %s[%d..%d) left %d slots of max_client_connections=%d occupied", after-base, cases[from].Seed, from, to, n, maxClients)
				report(c, "connection_slot_leaked", res, "")
				reported++
				leaksReported++
				w.child.Close()
				w.start()
				break // one culprit per batch is enough to localise the defect
			}
		} else if h, err := healthy(w.child.Addr); err != nil {
			// hard requirement: a session opened after the batch works
			omu.Lock()
			suspects = append(suspects, cases[from])
			omu.Unlock()
		} else {
			if selectOne(h) != nil {
				suspects = append(suspects, cases[from])
			}
			h.Close()
		}
		// sequential re-examination
		sus := suspects
		suspects = nil
		if os.Getenv("C38_DEBUG") != "" {
			fmt.Fprintf(os.Stderr, "batch %d..%d: %d suspects, child alive=%v\n", from, to, len(sus), w.child.Alive())
		}
		found := 0
		for _, c := range sus {
			if r.TimeUp() || reported >= maxReports {
				atomic.StoreInt32(&capped, 1)
				break
			}
			if hangSuspects[c.String()] {
				if hangReports >= maxHangReports {
					r.Add("hang_candidates_not_examined", 1)
					continue
				}
				ok, res2 := confirmHang(c)
				if !ok {
					r.Add("unconfirmed_hang_candidates", 1)
					continue
				}
				report(c, "hang", res2, "")
				reported++
				hangReports++
				found++
				outcomes[c.Seed+"|hang"]++
				continue
			}
			k, res, extra := runOne(c)
			if k == "engine" {
				ev.Fatalf("case %s: %s", c, extra)
			}
			if k == "hang" {
				if hangReports >= maxHangReports {
					r.Add("hang_candidates_not_examined", 1)
					continue
				}
				ok, res2 := confirmHang(c)
				if !ok {
					r.Add("unconfirmed_hang_candidates", 1)
					continue
				}
				report(c, "hang", res2, "")
				reported++
				hangReports++
				found++
				outcomes[c.Seed+"|hang"]++
				continue
			}
			if k != "" {
				ok, res2, extra2 := confirm(c, k)
				if !ok {
					if k == "hang" {
						// a hang that does not repeat 5 times is not reported
						r.Add("unconfirmed_hang_candidates", 1)
						continue
					}
					ev.Fatalf("case %s: verdict %s not reproducible", c, k)
				}
				report(c, k, res2, extra2)
				reported++
				found++
				outcomes[c.Seed+"|"+k]++
				_ = res
			} else {
				outcomes[c.Seed+"|"+res.outcome]++
			}
		}
		// the child may have died after the last suspect was judged
		if len(sus) > 0 {
			settle(false)
			if !w.child.Alive() && lastCase != nil {
				lateCrash = append(lateCrash, *lastCase)
				lastCase = nil
			}
		}
		// cases after whose verdict the child was found dead: once more, waiting for the
		// process state (long settle)
		late := lateCrash
		lateCrash = nil
		longSettle = true
		for _, c := range late {
			if r.TimeUp() || reported >= maxReports {
				break
			}
			k, _, _ := runOne(c)
			if k != "crash" {
				continue
			}
			ok, res2, extra2 := confirm(c, k)
			if !ok {
				ev.Fatalf("case %s: late crash not reproducible", c)
			}
			report(c, k, res2, extra2)
			reported++
			found++
		}
		longSettle = false
		lastCase = nil
		lateCrash = nil
		if len(hangSuspects) > 0 {
			found++ // the batch's trouble is explained: no sequential re-run of the whole batch
			hangSuspects = map[string]bool{}
		}
		if len(sus) > 0 && found == 0 {
			// something went wrong in the parallel batch that no single suspect reproduces
			// on its own: an earlier case of the batch may have damaged the server for the
			// others. Re-run the whole batch sequentially with all checks after every case.
			r.Add("batches_rerun_sequentially", 1)
			w.child.Close()
			w.start()
			for _, c := range cases[from:to] {
				if r.TimeUp() || reported >= maxReports {
					atomic.StoreInt32(&capped, 1)
					break
				}
				k, _, extra := runOne(c)
				if k == "engine" {
					ev.Fatalf("case %s: %s", c, extra)
				}
				if k == "" {
					continue
				}
				w.child.Close()
				w.start()
				ok, res2, extra2 := confirm(c, k)
				if !ok {
					if k == "hang" {
						r.Add("unconfirmed_hang_candidates", 1)
						continue
					}
					ev.Fatalf("case %s: verdict %s not reproducible", c, k)
				}
				report(c, k, res2, extra2)
				reported++
				w.child.Close()
				w.start()
			}
		}
		from = to
	}
	if atomic.LoadInt32(&capped) != 0 {
		r.Capped(fmt.Sprintf("stopped (time budget, or %d violations confirmed) after %d of %d cases in enumeration order (all single mutations come before pairs)", maxReports, done, len(cases)))
	}
	if os.Getenv("C38_DEBUG") != "" {
		fmt.Fprintf(os.Stderr, "child gen=%d stderr:\n%s\n", w.gen, tail(w.child.Stderr(), 1200))
	}
	w.child.Close()
	r.Set("evaluations", done)
	for k := range outcomes {
		r.Distinct("outcomes", k)
		// non-trivial: the server had to reject or drop the input (not a plain OK answer)
		if !strings.HasSuffix(k, "|ok") && !strings.HasSuffix(k, "|data") && !strings.HasSuffix(k, "|eof") {
			r.Distinct("nontrivial", k)
		}
	}
	r.Set("outcome_histogram", outcomes)
	for i := 0; i < len(cases); i += len(cases)/6 + 1 {
		r.Sample(map[string]interface{}{"case": cases[i], "text": cases[i].String()})
	}
	r.Set("rule", "seeds = 3 handshake responses (plain, with db, with plugin name + connection attributes) and one well-formed packet per command (QUERY local/backend, INIT_DB, FIELD_LIST, PING, STMT_PREPARE, STMT_EXECUTE on an open and on a closed statement, STMT_SEND_LONG_DATA, STMT_RESET, STMT_CLOSE, SET_OPTION, QUIT, two unsupported commands); mutations, enumerated completely: every truncation length, every byte replaced by each of 00 01 7f 80 fb fc fd fe ff, every 1-byte length prefix replaced by the fc/fd/fe form with an all-ones length, statement id in {1,2,2^31-1,2^32-1} (+ the closed-statement seed), header length in {0,1,n-1,n+1,n+4,2n,65535,2^24-1}, sequence id off by one / 255, and for COM_STMT_EXECUTE every parameter type code (quick: the 25 defined codes) x unsigned flag x every truncation of a plausible value; thorough adds all pairs byte x (byte|truncation|length prefix) on the STMT_EXECUTE and handshake-with-db seeds. quick = single mutations of the handshake, STMT_EXECUTE, SEND_LONG_DATA and FIELD_LIST seeds + parameter types. distinct_nontrivial = distinct (seed, client-visible outcome) pairs in which the server rejected or dropped the input (ERR packet, closed connection, waits-for-more then close), as opposed to answering OK/data")
	r.Assume("inputs outside the enumerated mutation set are not covered (this is exhaustive over a finite set, not coverage-guided fuzzing)")
	cleanScratch()
	r.Assume("a hang is reported only if no packet and no close arrives within 10 s in 5 consecutive runs; a server that waits because the packet header announced more bytes than were sent is not a hang: the client half-closes and the server must close")
	r.Finish()
}

// interleave enumerates B's packet over sizes around the pool's bucket boundaries and A's
// own packet size x fill bytes; A's login (valid user, valid proof) must succeed.
func interleave(r *ev.Run) int {
	f, err := fakemysql.Start(fakemysql.Options{Name: "inproc", NoLog: true})
	if err != nil {
		ev.Fatalf("fakemysql: %v", err)
	}
	defer f.Close()
	p, err := e2erig.StartProxy("c38", e2erig.Namespace("ns_inproc", 2, f.Addr()))
	if err != nil {
		ev.Fatalf("in-process proxy: %v", err)
	}
	defer p.Close()
	defer debug.SetGCPercent(debug.SetGCPercent(-1))
	// one P: sync.Pool keeps a returned buffer in the per-P slot, so with a single P the
	// next Get of that size class (session B's read) receives exactly the buffer session A
	// returned, whichever goroutine runs it
	defer runtime.GOMAXPROCS(runtime.GOMAXPROCS(1))
	runtime.LockOSThread()
	defer runtime.UnlockOSThread()
	build := func(salt []byte) []byte {
		return e2erig.HandshakeResponse(uint32(e2erig.DefaultCaps), 45, e2erig.User, e2erig.NativePassword(salt, e2erig.Password), "", "")
	}
	alen := len(build(make([]byte, 20)))
	sizes := uniqInts([]int{1, 16, 31, 32, 33, alen - 1, alen, alen + 1, 63, 64, 65, 127, 128, 129, 256, 1024})
	n := 0
	for _, size := range sizes {
		for _, fill := range []int{0x00, 0x58, 0xff} {
			n++
			one := func() error {
				return server.VerifHandshakeInterleaved(p.Srv, build, bytesOf(byte(fill), size))
			}
			err := one()
			key := "hs_interleave|login_ok"
			if err != nil {
				again := 0
				for i := 0; i < 5; i++ {
					if one() != nil {
						again++
					}
				}
				if again == 5 {
					key = "hs_interleave|login_refused"
					r.Violation(ev.Witness{
						Summary:  fmt.Sprintf("hs_interleave: session A (valid user and proof) is refused (%v) when session B's packet of %d bytes 0x%02x is read between A's handshake response and A's password check (6 of 6 runs); A's response is %d bytes", err, size, fill, alen),
						Features: map[string]string{"kind": "other_session_affected", "seed": "hs_interleave", "mutation": "bpkt", "client": "login_refused", "site": "", "cpu": ""},
						Case:     Case{Seed: "hs_interleave", Muts: []Mut{{K: "bpkt", P: size, V: fill}}},
					})
				} else {
					r.Add("unconfirmed_interleave_failures", 1)
				}
			}
			r.Distinct("outcomes", key)
		}
	}
	r.Set("interleaved_handshake_cases", n)
	return n
}

func crashSite(stderr string) string {
	// first Gaea frame after the panic line
	lines := strings.Split(stderr, "\n")
	for i, l := range lines {
		if strings.HasPrefix(l, "panic:") || strings.HasPrefix(l, "fatal error:") {
			for _, m := range lines[i:] {
				m = strings.TrimSpace(m)
				if strings.HasPrefix(m, "github.com/XiaoMi/Gaea/") {
					if j := strings.Index(m, "("); j > 0 {
						m = m[:strings.LastIndex(m, "(")]
					}
					return strings.TrimPrefix(m, "github.com/XiaoMi/Gaea/")
				}
			}
			return strings.TrimSpace(l)
		}
	}
	return "unknown"
}

func c38ScratchRoot() string {
	if d := os.Getenv("VERIF_BUILD_DIR"); d != "" {
		return d
	}
	return os.TempDir()
}
