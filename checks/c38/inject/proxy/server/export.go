//go:build verif

package server

import (
	"fmt"
	"net"

	"github.com/XiaoMi/Gaea/mysql"
	uber_atomic "go.uber.org/atomic"
)

// VerifClientConnections reads the namespace's client-connection counter (the one
// clientConnectionReachLimit compares with max_client_connections).
func VerifClientConnections(m *Manager, ns string) int {
	v, ok := m.statistics.clientConnecions.Load(ns)
	if !ok {
		return 0
	}
	return int(v.(*uber_atomic.Int32).Load())
}

// VerifAdminAddr is the address the admin HTTP server really listens on.
func VerifAdminAddr(s *Server) string {
	if s.adminServer == nil || s.adminServer.listener == nil {
		return ""
	}
	return s.adminServer.listener.Addr().String()
}

// VerifHandshakeInterleaved plays the server side of two sessions over net.Pipe in the
// order: session A reads its handshake response (real readHandshakeResponse), session B
// (another connection) reads one packet (real ReadEphemeralPacket: takes a buffer from the
// process-wide pool), session A's credentials are checked (real handleHandshakeResponse).
// build gets A's salt and returns A's handshake response payload. The result is the
// error of A's login.
func VerifHandshakeInterleaved(srv *Server, build func(salt []byte) []byte, bPacket []byte) error {
	frame := func(p []byte) []byte {
		return append([]byte{byte(len(p)), byte(len(p) >> 8), byte(len(p) >> 16), 0}, p...)
	}
	aSrv, aCli := net.Pipe()
	defer aSrv.Close()
	defer aCli.Close()
	cc := new(Session)
	cc.c = NewClientConn(mysql.NewConn(aSrv), srv.manager)
	cc.proxy = srv
	cc.manager = srv.manager
	cc.c.proxy = srv
	cc.executor = newSessionExecutor(srv.manager)
	cc.executor.clientAddr = "127.0.0.1:1"
	cc.closed.Store(false)
	cc.executor.session = cc
	go aCli.Write(frame(build(cc.c.salt)))
	info, err := cc.c.readHandshakeResponse()
	if err != nil {
		return fmt.Errorf("readHandshakeResponse: %v", err)
	}
	bSrv, bCli := net.Pipe()
	defer bSrv.Close()
	defer bCli.Close()
	b := mysql.NewConn(bSrv)
	go bCli.Write(frame(bPacket))
	if _, err := b.ReadEphemeralPacket(); err != nil {
		return fmt.Errorf("session B read: %v", err)
	}
	err = cc.handleHandshakeResponse(info)
	b.RecycleReadPacket()
	return err
}
