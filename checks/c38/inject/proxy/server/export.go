//go:build verif

package server

import (
	uber_atomic "go.uber.org/atomic"
)

// VerifClientConnections reads the namespace's client-connection counter (the one
// clientConnectionReachLimit compares with max_client_connections).
func VerifClientConnections(m *Manager, ns string) int {
	v, ok := m.statistics.clientConnecions.Load(ns)
	if !ok {
		return 0
	}
	return int(v.(*uber_atomic.Int32).Load())
}

// VerifAdminAddr is the address the admin HTTP server really listens on.
func VerifAdminAddr(s *Server) string {
	if s.adminServer == nil || s.adminServer.listener == nil {
		return ""
	}
	return s.adminServer.listener.Addr().String()
}
