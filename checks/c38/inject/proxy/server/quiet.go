//go:build verif

package server

import "github.com/gin-gonic/gin"

// silence gin's route listing on stdout (the admin server of the in-process proxy)
func init() { gin.SetMode(gin.ReleaseMode) }
