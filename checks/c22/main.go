// C22: read/write splitting sends only plain reads to replicas.
//
// Engine: enum (bounded-exhaustive inputs) on the C21 session rig (checks/c21/rig): real
// Manager / Namespace / Session, Session.Run fed protocol packets, slice pools replaced by
// recording fakes that know whether they belong to the master or to a replica.
//
// Universe: statement form x decoration (lead x trailer x letter case x inner whitespace) x
// user {rw_split, rw_nosplit, ro_split, ro_nosplit} x check_select_lock {true, false in the
// namespace configuration} x transaction state {none, BEGIN, SET autocommit=0} x transport
// {COM_QUERY, COM_STMT_PREPARE+EXECUTE}; plus multi-statement COM_QUERYs "<plain read>; F",
// "F; <plain read>", "<plain read>; F; <plain read>" judged piece by piece; plus statement
// histories on one session (autocommit switches, BEGIN/COMMIT/ROLLBACK, reads, writes) in which
// every read/write is judged under the transaction state the history defines.
//
// Oracle = the property statement as a table (never Gaea's own classification):
//   - inside a transaction every statement that reaches a backend reaches the master;
//   - outside a transaction, for a user allowed to write: writes, locking reads (FOR UPDATE,
//     FOR SHARE, LOCK IN SHARE MODE, FOR UPDATE/SHARE NOWAIT | SKIP LOCKED), statements with
//     the documented master hint /*master*/ (leading, behind the first keyword, trailing) and
//     read_only probes reach the master only;
//   - a user without read/write splitting (rw_flag=2, rw_split=0) is never served by a replica;
//   - a plain read on the master is never a violation ("may run on replicas"); read-only users
//     outside a transaction are documented to read from replicas whatever the statement says
//     (docs/faq.md) and are only observed.
package main

import (
	"fmt"
	"os"
	"reflect"
	"sort"
	"strings"
	"sync"
	"unicode"

	"github.com/XiaoMi/Gaea/parser"

	"verif/checks/c21/rig"
	"verif/engine/enum"
	"verif/engine/ev"
	"verif/engine/gx"
)

// ---------------------------------------------------------------- alphabet

type form struct {
	Name  string
	Class string // plain | lock | hint | probe | write | other-hint (observed only)
	SQL   string // lower case, single blanks; prepared transport binds ? to the int 1
	PSQL  string
}

const sel = "select id, v from tc where id = 1"
const selP = "select id, v from tc where id = ?"

// a statement text of more than 4 KiB (an ORM's long IN list): the clause that decides the
// routing sits at the END of the text (added after seeded change c22-2 was missed: only the
// head of a long statement was tokenized)
var selLong = "select id, v from tc where id in (" + strings.Repeat("1, ", 1500) + "1)"

var forms = []form{
	{"select", "plain", sel, selP},
	{"select-const", "plain", "select 2", ""},
	{"show-tables", "plain", "show tables", ""},
	{"show-variables", "plain", "show variables like 'version'", ""},

	{"for-update", "lock", sel + " for update", selP + " for update"},
	{"for-update-nowait", "lock", sel + " for update nowait", selP + " for update nowait"},
	{"for-update-skip-locked", "lock", sel + " for update skip locked", selP + " for update skip locked"},
	{"for-share", "lock", sel + " for share", selP + " for share"},
	{"for-share-nowait", "lock", sel + " for share nowait", selP + " for share nowait"},
	{"for-share-skip-locked", "lock", sel + " for share skip locked", selP + " for share skip locked"},
	{"lock-in-share-mode", "lock", sel + " lock in share mode", selP + " lock in share mode"},

	{"hint-leading", "hint", "/*master*/ " + sel, "/*master*/ " + selP},
	{"hint-after-select", "hint", "select /*master*/ id, v from tc where id = 1", "select /*master*/ id, v from tc where id = ?"},
	{"hint-trailing", "hint", sel + " /*master*/", selP + " /*master*/"},
	{"show-hint-leading", "hint", "/*master*/ show tables", ""},
	{"show-hint-trailing", "hint", "show tables /*master*/", ""},
	{"plus-master-hint", "other-hint", "select /*+ master */ id, v from tc where id = 1", ""},

	{"probe-read-only", "probe", "select @@read_only", ""},
	{"probe-global-read-only", "probe", "select @@global.read_only", ""},
	{"probe-show-variables", "probe", "show variables like 'read_only'", ""},
	{"probe-show-global-variables", "probe", "show global variables like 'read_only'", ""},

	{"long-select", "plain", selLong, ""},
	{"long-for-update", "lock", selLong + " for update", ""},
	{"long-for-share-nowait", "lock", selLong + " for share nowait", ""},
	{"long-lock-in-share-mode", "lock", selLong + " lock in share mode", ""},
	{"long-hint-trailing", "hint", selLong + " /*master*/", ""},
	{"long-hint-leading", "hint", "/*master*/ " + selLong, ""},
	{"long-delete", "write", "delete from tc where id in (" + strings.Repeat("1, ", 1500) + "1)", ""},

	{"insert", "write", "insert into tc (id, v) values (1, 'a')", "insert into tc (id, v) values (?, 'a')"},
	{"replace", "write", "replace into tc (id, v) values (1, 'a')", "replace into tc (id, v) values (?, 'a')"},
	{"update", "write", "update tc set v = 'b' where id = 1", "update tc set v = 'b' where id = ?"},
	{"delete", "write", "delete from tc where id = 1", "delete from tc where id = ?"},
}

// lenClass: the long-* forms are the same forms with a text of more than 4 KiB; the known
// trailer/hint findings apply to them as well, so the form feature is the base form and the
// length is a feature of its own.
func lenClass(form string) string {
	if strings.HasPrefix(form, "long-") {
		return "long"
	}
	return "short"
}

type deco struct{ Name, Text string }

var leads = []deco{
	{"none", ""}, {"blank", "  "}, {"tab", "\t"}, {"newline", "\n"},
	{"block-comment", "/* c */ "}, {"dash-comment", "-- c\n"},
	// `--` comment lines whose dashes are followed by a blank, a tab, a newline or CRLF (MySQL:
	// `--` starts a comment when white space or a control character follows) and whose TEXT
	// begins with a read or a write keyword, as in mysqldump-style banners (added after
	// seeded change c22-5). firstExtraLead is the index of the first of them.
	{"dash-space-select", "-- Select stale rows\n"},
	{"dash-tab-select", "--\tselect stale rows\n"},
	{"dash-tab-show", "--\tshow what is stale\n"},
	{"dash-newline-banner-select", "--\n-- Select stale rows\n--\n"},
	{"dash-crlf-banner-select", "--\r\n-- Select stale rows\r\n--\r\n"},
	{"dash-space-delete", "-- delete old rows\n"},
	{"dash-tab-delete", "--\tdelete old rows\n"},
	{"dash-newline-banner-delete", "--\n-- Delete old rows\n--\n"},
}

const firstExtraLead = 6

// trailers: what drivers and tracing agents append, and what people type
var trails = []deco{
	{"none", ""}, {"block-comment", " /* trace */"}, {"dash-comment", " -- x"},
	{"semicolon", ";"}, {"semicolon-blank", "; "}, {"newline", "\n"}, {"block-comment-semicolon", " /* trace */;"},
	// dashes followed by the end of the text (added after seeded change c22-5)
	{"newline-dashes-at-end", "\n--"},
}
var cases = []string{"lower", "upper", "mixed"}
var spaces = []deco{{"blank", " "}, {"tab", "\t"}, {"newline", "\n"}}

var users = []string{rig.RwSplit, rig.RwNoSplit, rig.RoSplit, rig.RoNoSplit}
var csls = []string{"on", "off"}
var txs = []string{"none", "begin", "autocommit0"}
var transports = []string{"query", "prepared"}

func recase(s string, mode int) string {
	switch mode {
	case 1:
		return strings.ToUpper(s)
	case 2:
		var b strings.Builder
		up := true
		for _, r := range s {
			if unicode.IsLetter(r) {
				if up {
					b.WriteRune(unicode.ToUpper(r))
				} else {
					b.WriteRune(unicode.ToLower(r))
				}
				up = !up
			} else {
				b.WriteRune(r)
			}
		}
		return b.String()
	}
	return s
}

func decorate(base string, lead, trail, cs, sp int) string {
	s := base
	if sp != 0 {
		s = strings.ReplaceAll(s, " ", spaces[sp].Text)
	}
	return leads[lead].Text + recase(s, cs) + trails[trail].Text
}

func nodeType(sql string) (string, error) {
	n, err := parser.New().ParseOneStmt(sql, "", "")
	if err != nil {
		return "", err
	}
	return reflect.TypeOf(n).Elem().Name(), nil
}

// ---------------------------------------------------------------- case

type caseT struct {
	Form      string `json:"form"`
	Class     string `json:"class"`
	Lead      string `json:"lead"`
	Trail     string `json:"trail"`
	Case      string `json:"case"`
	Space     string `json:"space"`
	User      string `json:"user"`
	CSL       string `json:"check_select_lock"`
	Tx        string `json:"tx"`
	Transport string `json:"transport"`
	SQL       string `json:"sql"`
	// multi-statement transport only: the pieces of SQL in order (joined by "; ") and the
	// shape, e.g. "plain-select;F" — F is the decorated form, the others are plain reads
	Shape  string   `json:"shape,omitempty"`
	Pieces []pieceT `json:"pieces,omitempty"`
	// transport "history" only: the commands sent one after the other on one session
	Hist []string `json:"hist,omitempty"`
}

// pieceT is one statement of a multi-statement query.
type pieceT struct {
	Role  string `json:"role"`  // form | plain-select | plain-show
	Class string `json:"class"` // class of this piece in the must-master table
	SQL   string `json:"sql"`
}

// the replica-eligible plain reads put before / behind the form in a multi-statement query
var plainPieces = []pieceT{
	{"plain-select", "plain", "select id, v from tc where id = 2"},
	{"plain-show", "plain", "show variables like 'version'"},
}

type worker struct {
	w  *rig.World
	ns map[string]string // csl -> namespace
}

type outcome struct {
	Served   string // none | master | replica | master+replica
	Rejected bool
	ErrMsg   string
	Rule     string
	Execs    []rig.Event
}

func canWrite(user string) bool { return user == rig.RwSplit || user == rig.RwNoSplit }

// mustMaster is the reference table: the rule (or "") that obliges this case to the master.
func mustMaster(c caseT) string {
	if c.Tx != "none" {
		return "in-transaction"
	}
	if c.User == rig.RwNoSplit {
		return "user-without-rw-split"
	}
	if c.Class == "write" {
		return "write"
	}
	if c.User == rig.RwSplit {
		switch c.Class {
		case "lock":
			return "locking-read"
		case "hint":
			return "master-hint"
		case "probe":
			return "read-only-probe"
		}
	}
	return ""
}

func runCase(r *ev.Run, wk *worker, c caseT) outcome {
	var o outcome
	caps := uint32(rig.CapsBase)
	if c.Transport == "multi" {
		caps = rig.CapsMulti
	}
	s, err := wk.w.NewSession(wk.ns[c.CSL], c.User, caps)
	if err != nil {
		ev.Fatalf("session: %v", err)
	}
	defer s.Close()

	switch c.Tx {
	case "begin":
		if rep := s.Query("begin"); rep.Err || rep.Closed {
			ev.Fatalf("rig: begin failed: %+v", rep)
		}
	case "autocommit0":
		if rep := s.Query("set autocommit=0"); rep.Err || rep.Closed {
			ev.Fatalf("rig: set autocommit=0 failed: %+v", rep)
		}
	}
	if c.Transport == "multi" {
		return runMulti(r, s, c)
	}
	if c.Transport == "history" {
		return runHistory(r, s, c)
	}
	var rep rig.Reply
	if c.Transport == "prepared" {
		id, np, prep := s.Prepare(c.SQL)
		if prep.Closed || prep.AnyErr {
			rep = prep
			rep.Err = true
		} else {
			rep = s.Execute(id, np)
			rep.Events = append(prep.Events, rep.Events...)
		}
	} else {
		rep = s.Query(c.SQL)
	}
	o.Rejected = rep.Err || rep.Closed
	o.ErrMsg = rep.ErrMsg
	o.Execs = rig.Execs(rep.Events)
	cl := map[string]bool{}
	for _, e := range o.Execs {
		cl[e.Class] = true
	}
	var cls []string
	for k := range cl {
		cls = append(cls, k)
	}
	sort.Strings(cls)
	o.Served = "none"
	if len(cls) > 0 {
		o.Served = strings.Join(cls, "+")
	}
	o.Rule = mustMaster(c)

	r.Add("evaluations", 1)
	r.Distinct("outcomes", fmt.Sprintf("%s|%s|%s|%s", c.Class, c.User, c.Tx, o.Served))
	if o.Served != "none" {
		r.Add("served", 1)
		if c.User == rig.RwSplit && c.Tx == "none" {
			// the only configuration in which routing is a decision about the statement
			r.Distinct("nontrivial", fmt.Sprintf("%s|%s|%s|%s|%s|%s|%s", c.Form, c.Lead, c.Trail, c.Case, c.Space, c.CSL, c.Transport))
			r.Add("routed_"+o.Served+"_"+c.Class, 1)
		}
	}
	if o.Rule == "" || o.Served == "none" || o.Served == "master" {
		return o
	}
	if os.Getenv("C22_DEBUG") != "" {
		fmt.Fprintf(os.Stderr, "V\t%s\t%s\t%s\t%s\t%s\t%s\t%s\t%s\t%s\t%s\t%s\n", c.Form, c.Class, c.Lead, c.Trail, c.Case, c.Space, c.User, c.CSL, c.Tx, c.Transport, o.Rule)
	}
	r.Violation(ev.Witness{
		Summary: fmt.Sprintf("%s (tx=%s, check_select_lock=%s, %s): %q must run on the master (%s) but was executed on %s: %q",
			c.User, c.Tx, c.CSL, c.Transport, c.SQL, o.Rule, o.Served, o.Execs[0].SQL),
		Features: map[string]string{
			"form": strings.TrimPrefix(c.Form, "long-"), "len": lenClass(c.Form), "class": c.Class, "lead": c.Lead, "trail": c.Trail, "case": c.Case, "space": c.Space,
			"user": c.User, "check_select_lock": c.CSL, "tx": c.Tx, "transport": c.Transport,
			"rule": o.Rule, "served": o.Served,
		},
		Case: c,
	})
	return o
}

// ---------------------------------------------------------------- statement histories

// histCmd is one command of a session history. Control commands change the session state of
// the reference model below; data commands are judged with the must-master table under the
// transaction state the history has produced.
type histCmd struct {
	Name  string
	SQL   string
	Class string // "" = control command
}

var histCmds = []histCmd{
	{"autocommit0", "set autocommit=0", ""},
	{"autocommit1", "set autocommit=1", ""},
	{"begin", "begin", ""},
	{"commit", "commit", ""},
	{"rollback", "rollback", ""},
	{"select", "select id, v from tc where id = 1", "plain"},
	{"insert", "insert into tc (id, v) values (1, 'a')", "write"},
	// the same statements while the environment breaks the statement's backend connection
	// (socket error / connection closed by max_sql_execute_time): error + connection closed
	{"select!", "select id, v from tc where id = 1", "plain"},
	{"insert!", "insert into tc (id, v) values (1, 'a')", "write"},
	// thorough only:
	{"show", "show variables like 'version'", "plain"},
	{"for-update", "select id, v from tc where id = 1 for update", "lock"},
	{"start-transaction", "start transaction", ""},
}

func histCmdByName(n string) histCmd {
	for _, h := range histCmds {
		if h.Name == n {
			return h
		}
	}
	ev.Fatalf("history command %q", n)
	return histCmd{}
}

// txModel is the reference session state (MySQL's rules, not Gaea's flags):
//   - BEGIN / START TRANSACTION opens an explicit transaction, COMMIT / ROLLBACK end it;
//   - with autocommit=0 every statement runs inside a transaction — COMMIT / ROLLBACK end the
//     current one and the next statement implicitly starts the next, so the session is never
//     outside a transaction until autocommit is switched back to 1 (which commits);
//   - SET autocommit=1 while autocommit is already 1 does not end an explicit transaction in
//     MySQL, Gaea treats it as a commit: the model does not take sides (unsure) until the next
//     COMMIT / ROLLBACK / BEGIN / autocommit=0 and applies only the outside-transaction rules.
type txModel struct {
	autocommit bool
	explicit   bool
	unsure     bool
	ended      int // transactions ended by COMMIT/ROLLBACK since autocommit was last set to 0
}

func (m *txModel) control(name string) {
	switch name {
	case "autocommit0":
		if m.autocommit {
			m.ended = 0
		}
		m.autocommit = false
		m.unsure = false
	case "autocommit1":
		if m.autocommit && m.explicit {
			m.unsure = true
		}
		if !m.autocommit {
			m.explicit = false // switching from 0 to 1 commits
		}
		m.autocommit = true
	case "begin", "start-transaction":
		m.explicit, m.unsure = true, false
	case "commit", "rollback":
		m.explicit, m.unsure = false, false
		if !m.autocommit {
			m.ended++
		}
	}
}

// state returns the transaction label of the next data command: begin | autocommit0 | none.
func (m *txModel) state() string {
	switch {
	case m.unsure:
		return "none"
	case m.explicit:
		return "begin"
	case !m.autocommit:
		return "autocommit0"
	}
	return "none"
}

// runHistory sends the commands of c.Hist one by one on one session and judges every data
// command with mustMaster under the transaction state the reference model derives from the
// commands before it.
func runHistory(r *ev.Run, s *rig.Sess, c caseT) outcome {
	var o outcome
	m := txModel{autocommit: true}
	failedBefore := 0 // backend failures so far; they never change the reference tx state
	r.Add("evaluations", 1)
	r.Add("histories", 1)
	var trace []string
	for i, name := range c.Hist {
		h := histCmdByName(name)
		var rep rig.Reply
		broke := false
		if strings.HasSuffix(name, "!") {
			rep, broke = s.QueryBackendBreaks(h.SQL)
			if broke {
				r.Add("history_backend_failures", 1)
				if !(rep.Err || rep.Closed) {
					ev.Fatalf("rig: statement %q answered OK although its backend connection broke (history %v)", h.SQL, c.Hist)
				}
				if rep.Closed {
					// the proxy closed the client connection: nothing follows
					trace = append(trace, name+"[session closed]")
					break
				}
				failedBefore++
			}
		} else {
			rep = s.Query(h.SQL)
		}
		if h.Class == "" {
			if rep.Err || rep.Closed {
				ev.Fatalf("rig: control command %q failed in history %v: %+v", h.SQL, c.Hist, rep)
			}
			m.control(name)
			trace = append(trace, name)
			continue
		}
		tx := m.state()
		execs := rig.Execs(rep.Events)
		served := "none"
		if len(execs) > 0 {
			served = execs[0].Class
			for _, e := range execs {
				if e.Class != served {
					served = "master+replica"
				}
			}
		}
		trace = append(trace, fmt.Sprintf("%s[tx=%s:%s]", name, tx, served))
		pcase := c
		pcase.Class, pcase.Tx = h.Class, tx
		rule := mustMaster(pcase)
		r.Add("history_statements", 1)
		r.Distinct("outcomes", fmt.Sprintf("history|%s|%s|%s|ended=%d|%s", h.Class, c.User, tx, min(m.ended, 2), served))
		if served != "none" {
			r.Add("served", 1)
			if c.User == rig.RwSplit {
				r.Distinct("nontrivial", fmt.Sprintf("history|%s|%d", strings.Join(c.Hist, ","), i))
				if tx == "autocommit0" && m.ended > 0 && served == "master" {
					r.Add("history_master_in_later_autocommit0_transaction", 1)
				}
				if tx == "none" && i > 0 && served == "replica" {
					r.Add("history_replica_after_transaction_ended", 1)
				}
				if tx != "none" && !broke && failedBefore > 0 && served == "master" {
					r.Add("history_master_after_backend_failure_in_transaction", 1)
				}
			}
		}
		if rule == "" || served == "none" || served == "master" {
			continue
		}
		o.Rule = rule
		prev := "nothing"
		if i > 0 {
			prev = c.Hist[i-1]
		}
		r.Violation(ev.Witness{
			Summary: fmt.Sprintf("%s, history %s: command %d %q runs with tx=%s and must run on the master (%s) but was executed on %s",
				c.User, strings.Join(c.Hist, "; "), i+1, h.SQL, tx, rule, served),
			Features: map[string]string{
				"form": name, "len": "short", "class": h.Class, "lead": "none", "trail": "none", "case": "lower", "space": "blank",
				"user": c.User, "check_select_lock": c.CSL, "tx": tx, "transport": "history",
				"rule": rule, "served": served, "before": prev,
				"transactions_ended_in_autocommit0": fmt.Sprint(min(m.ended, 2)),
				"backend_failures_before":           fmt.Sprint(min(failedBefore, 2)), "this_statement_broke": fmt.Sprint(broke),
			},
			Case: c,
		})
	}
	o.Served = strings.Join(trace, " ; ")
	return o
}

// runMulti sends the pieces as ONE multi-statement COM_QUERY and judges every piece with the
// same must-master table: the routing of a piece must not depend on what ran before it in the
// same request. Executions are attributed to pieces in order by their SQL text (there are no
// shard rules, so a piece reaches the backend verbatim).
func runMulti(r *ev.Run, s *rig.Sess, c caseT) outcome {
	var o outcome
	rep := s.Query(c.SQL)
	o.Rejected = rep.Err || rep.Closed
	o.ErrMsg = rep.ErrMsg
	o.Execs = rig.Execs(rep.Events)
	r.Add("evaluations", 1)
	r.Add("multi_statement_queries", 1)
	next := 0
	served := make([]string, len(c.Pieces))
	for i, pc := range c.Pieces {
		served[i] = "none"
		for j := next; j < len(o.Execs); j++ {
			if strings.TrimSpace(o.Execs[j].SQL) == strings.TrimSpace(pc.SQL) {
				served[i] = o.Execs[j].Class
				next = j + 1
				break
			}
		}
	}
	if next != len(o.Execs) {
		ev.Fatalf("rig: executions not attributable to pieces: %q -> %+v", c.SQL, o.Execs)
	}
	o.Served = strings.Join(served, ",")
	r.Distinct("outcomes", fmt.Sprintf("multi|%s|%s|%s|%s|%s", c.Shape, c.Class, c.User, c.Tx, o.Served))
	for i, pc := range c.Pieces {
		pcase := c
		pcase.Class = pc.Class
		rule := mustMaster(pcase)
		if served[i] != "none" {
			r.Add("served", 1)
			r.Add("multi_pieces_served", 1)
			if c.User == rig.RwSplit && c.Tx == "none" {
				r.Distinct("nontrivial", fmt.Sprintf("multi|%s|%d|%s|%s|%s|%s|%s|%s", c.Shape, i, c.Form, c.Lead, c.Trail, c.Case, c.Space, c.CSL))
				r.Add("multi_routed_"+served[i]+"_"+pc.Class, 1)
				if i > 0 && served[i] == "master" && served[i-1] == "replica" {
					r.Add("multi_master_piece_after_replica_piece", 1)
				}
			}
		}
		if rule == "" || served[i] == "none" || served[i] == "master" {
			continue
		}
		o.Rule = rule
		before := "nothing"
		if i > 0 {
			before = c.Pieces[i-1].Role + "-on-" + served[i-1]
		}
		// decoration features describe the judged piece: only the form piece is decorated
		lead, trail, cs, sp, form := "none", "none", "lower", "blank", pc.Role
		if pc.Role == "form" {
			lead, trail, cs, sp, form = c.Lead, c.Trail, c.Case, c.Space, c.Form
		}
		r.Violation(ev.Witness{
			Summary: fmt.Sprintf("%s (tx=%s, check_select_lock=%s, multi-statement %s): piece %d %q of %q must run on the master (%s) but was executed on %s (pieces served by: %s)",
				c.User, c.Tx, c.CSL, c.Shape, i+1, pc.SQL, c.SQL, rule, served[i], o.Served),
			Features: map[string]string{
				"form": strings.TrimPrefix(form, "long-"), "len": lenClass(form), "class": pc.Class, "lead": lead, "trail": trail, "case": cs, "space": sp,
				"user": c.User, "check_select_lock": c.CSL, "tx": c.Tx, "transport": c.Transport,
				"rule": rule, "served": served[i],
				"shape": c.Shape, "piece": fmt.Sprint(i + 1), "before": before,
			},
			Case: c,
		})
	}
	return o
}

func main() {
	gx.Quiet()
	r := ev.Start("C22", "exploration")

	const nWorkers = 16
	var specs []rig.NSSpec
	var wks []*worker
	for i := 0; i < nWorkers; i++ {
		wk := &worker{ns: map[string]string{"on": fmt.Sprintf("cslon%d", i), "off": fmt.Sprintf("csloff%d", i)}}
		wks = append(wks, wk)
		specs = append(specs,
			rig.NSSpec{Name: wk.ns["on"], CheckSelectLock: true, MultiQuery: true},
			rig.NSSpec{Name: wk.ns["off"], CheckSelectLock: false, MultiQuery: true})
	}
	w, err := rig.NewWorld(specs)
	if err != nil {
		ev.Fatalf("rig: %v", err)
	}
	for _, wk := range wks {
		wk.w = w
	}
	r.Set("check_select_lock_effective", map[string]bool{
		"configured_true": w.CheckSelectLockEffective(wks[0].ns["on"]), "configured_false": w.CheckSelectLockEffective(wks[0].ns["off"])})

	var rc caseT
	if r.ReplayCase(&rc) {
		o := runCase(r, wks[0], rc)
		fmt.Printf("replay: %+v\n  rule=%q served=%s rejected=%v err=%q execs=%+v\n", rc, o.Rule, o.Served, o.Rejected, o.ErrMsg, o.Execs)
		r.Set("rule", "replay of one case")
		r.Finish()
	}

	type dv struct{ lead, trail, cs, sp, ndev int }
	var decos []dv
	dims := []int{len(leads), len(trails), len(cases), len(spaces)}
	nd := func(idx []int) int {
		n := 0
		for _, x := range idx {
			if x != 0 {
				n++
			}
		}
		return n
	}
	if r.Quick() {
		enum.Deviations(dims, 2, func(idx []int) { decos = append(decos, dv{idx[0], idx[1], idx[2], idx[3], nd(idx)}) })
	} else {
		enum.Product(dims, func(idx []int) { decos = append(decos, dv{idx[0], idx[1], idx[2], idx[3], nd(idx)}) })
	}

	var all []caseT
	texts, unparsed := 0, 0
	for _, f := range forms {
		for _, d := range decos {
			for _, tr := range transports {
				base := f.SQL
				if tr == "prepared" {
					if f.PSQL == "" {
						continue
					}
					base = f.PSQL
				}
				sql := decorate(base, d.lead, d.trail, d.cs, d.sp)
				// universe sanity: all decorations are whitespace / comments / letter case / a
				// final semicolon; where Gaea's parser can read the text it must still see the
				// same statement
				want, err0 := nodeType(strings.ReplaceAll(base, "?", "1"))
				if err0 != nil {
					ev.Fatalf("base statement %q does not parse: %v", base, err0)
				}
				got, err1 := nodeType(strings.ReplaceAll(sql, "?", "1"))
				if err1 != nil {
					unparsed++
				} else if got != want {
					ev.Fatalf("decoration changed the AST node: %q %s vs %s", sql, got, want)
				}
				texts++
				for _, u := range users {
					for _, csl := range csls {
						for _, tx := range txs {
							full := tx == "none" && csl == "on" && tr == "query"
							if r.Quick() && d.ndev == 2 && (d.lead >= firstExtraLead || d.trail == len(trails)-1) {
								continue // quick: the keyword-bearing `--` banners only on otherwise plain texts
							}
							if r.Quick() && d.ndev == 2 && !full {
								continue // quick: doubly decorated texts only for COM_QUERY outside a transaction, check_select_lock=true
							}
							all = append(all, caseT{Form: f.Name, Class: f.Class, Lead: leads[d.lead].Name, Trail: trails[d.trail].Name,
								Case: cases[d.cs], Space: spaces[d.sp].Name, User: u, CSL: csl, Tx: tx, Transport: tr, SQL: sql})
						}
					}
				}
			}
		}
	}

	// multi-statement transport (one COM_QUERY, client with CLIENT_MULTI_STATEMENTS, namespace
	// with support_multi_query): "<plain read>; F", "F; <plain read>", "<plain read>; F;
	// <plain read>" for every form F under a reduced decoration set. Trailers that would
	// swallow the following piece (`-- x`) or contain a semicolon are left out.
	type mdv struct{ lead, trail, cs, sp int }
	mdecos := []mdv{{0, 0, 0, 0}, {3, 0, 0, 0}, {4, 0, 0, 0}, {0, 1, 0, 0}, {0, 0, 1, 0}, {0, 0, 0, 2}}
	if !r.Quick() {
		mdecos = nil
		for _, l := range []int{0, 1, 2, 3, 4} {
			for _, t := range []int{0, 1, 5} {
				for cs := range cases {
					for sp := range spaces {
						mdecos = append(mdecos, mdv{l, t, cs, sp})
					}
				}
			}
		}
	}
	multiCases := 0
	for _, f := range forms {
		for _, d := range mdecos {
			fp := pieceT{"form", f.Class, decorate(f.SQL, d.lead, d.trail, d.cs, d.sp)}
			for _, pp := range plainPieces {
				shapes := []struct {
					name   string
					pieces []pieceT
				}{
					{pp.Role + ";F", []pieceT{pp, fp}},
					{"F;" + pp.Role, []pieceT{fp, pp}},
					{pp.Role + ";F;" + pp.Role, []pieceT{pp, fp, pp}},
				}
				for _, sh := range shapes {
					var parts []string
					for _, pc := range sh.pieces {
						parts = append(parts, pc.SQL)
					}
					sql := strings.Join(parts, "; ")
					got, err := parser.SplitStatementToPieces(sql)
					if err != nil || len(got) != len(sh.pieces) {
						ev.Fatalf("multi-statement text %q does not split into %d pieces: %v %q", sql, len(sh.pieces), err, got)
					}
					for _, u := range users {
						for _, tx := range []string{"none", "begin"} {
							for _, csl := range csls {
								if csl == "off" && (r.Quick() || tx != "none") {
									continue
								}
								all = append(all, caseT{Form: f.Name, Class: f.Class, Lead: leads[d.lead].Name, Trail: trails[d.trail].Name,
									Case: cases[d.cs], Space: spaces[d.sp].Name, User: u, CSL: csl, Tx: tx, Transport: "multi",
									SQL: sql, Shape: sh.name, Pieces: sh.pieces})
								multiCases++
							}
						}
					}
				}
			}
		}
	}
	r.Set("multi_statement_cases", multiCases)

	// statement histories on one session: every sequence of 2..4 (thorough: 2..5) commands over
	// {set autocommit=0, set autocommit=1, begin, commit, rollback, select, insert} (thorough:
	// plus show, select ... for update, start transaction) that contains a data command, for
	// every user; each data command is judged under the transaction state the history defines
	// fault budget: at most one command of a history breaks its backend connection
	nc, maxLen := 9, 4
	if !r.Quick() {
		nc, maxLen = len(histCmds), 5
	}
	nHist, nFaultHist := 0, 0
	enum.Seqs(nc, 2, maxLen, func(seq []int) {
		hist := make([]string, len(seq))
		data := false
		faults := 0
		for i, x := range seq {
			hist[i] = histCmds[x].Name
			data = data || histCmds[x].Class != ""
			if strings.HasSuffix(hist[i], "!") {
				faults++
			}
		}
		if !data || histCmds[seq[len(seq)-1]].Class == "" {
			return // ends with a control command: the same judgements as its prefix
		}
		if faults > 1 {
			return
		}
		if faults == 1 {
			nFaultHist++
		}
		for _, u := range users {
			all = append(all, caseT{Form: "history", Class: "history", Lead: "none", Trail: "none", Case: "lower", Space: "blank",
				User: u, CSL: "on", Tx: "none", Transport: "history", SQL: strings.Join(hist, "; "), Hist: hist})
			nHist++
		}
	})
	r.Set("history_cases", nHist)
	r.Set("history_sequences_with_a_backend_failure", nFaultHist)

	var mu sync.Mutex
	sampled := map[string]bool{}
	free := make(chan *worker, nWorkers)
	for _, wk := range wks {
		free <- wk
	}
	done := enum.Parallel(len(all), r.TimeUp, func(i int) {
		wk := <-free
		o := runCase(r, wk, all[i])
		free <- wk
		key := fmt.Sprintf("%s/%s/%s/%s/%s", all[i].Class, all[i].User, all[i].Tx, o.Served, all[i].Shape)
		mu.Lock()
		if !sampled[key] && (all[i].User == rig.RwSplit || len(sampled) < 3) {
			sampled[key] = true
			r.Sample(map[string]interface{}{"case": all[i], "must_master_rule": o.Rule, "served_by": o.Served,
				"rejected": o.Rejected, "error": o.ErrMsg, "executed": o.Execs})
		}
		mu.Unlock()
	})
	if done < len(all) {
		r.Capped(fmt.Sprintf("%d of %d cases (enumeration order: forms, decorations, transports, users, check_select_lock, tx)", done, len(all)))
	}

	r.Set("universe", len(all))
	r.Set("texts", texts)
	r.Set("texts_gaea_parser_cannot_read", unparsed)
	r.Set("bound", map[string]interface{}{
		"forms": len(forms), "leads": len(leads), "trailers": len(trails), "letter_cases": len(cases), "inner_whitespace": len(spaces),
		"decoration_vectors": fmt.Sprintf("%d (%s)", len(decos), map[bool]string{true: "<=2 deviations from plain; 2-deviation vectors only for COM_QUERY, no transaction, check_select_lock=true", false: "full product"}[r.Quick()]),
		"users":              users, "check_select_lock": csls, "tx": txs, "transports": transports,
	})
	r.Set("rule", "every statement form x decoration vector (lead, trailer, letter case, inner whitespace) x user x check_select_lock configuration x transaction state x transport; each case runs on a fresh real Session and the node class (master/replica) of the fake pool that executed the statement is compared with the 'must run on the master' table taken from the property statement. distinct_nontrivial = distinct (form, decoration, configuration) cases of the rw_split user outside a transaction that reached a backend — the only configuration in which master-or-replica is decided from the statement text.")
	r.Assume("fake pools/connections always succeed and both master and replica are up, so routing is decided by the proxy alone (no fallback to the master)")
	r.Assume("read-only users outside a transaction are documented (docs/faq.md) to be served by replicas even for hinted / locking reads; they are observed, not judged")
	r.Assume("only the documented hint spelling /*master*/ (any letter case) is judged; /*+ master */ is observed only")
	// self-test of the harness; when the run has unexplained violations they are the verdict
	if r.Violations() == 0 && r.Count("history_master_after_backend_failure_in_transaction") == 0 {
		ev.Fatalf("vacuous: no statement was served by the master after a backend failure inside a transaction")
	}
	if r.Violations() == 0 && (r.Count("history_master_in_later_autocommit0_transaction") == 0 || r.Count("history_replica_after_transaction_ended") == 0) {
		ev.Fatalf("vacuous: histories: master in a later autocommit=0 transaction=%d, replica after a transaction ended=%d",
			r.Count("history_master_in_later_autocommit0_transaction"), r.Count("history_replica_after_transaction_ended"))
	}
	if r.Violations() == 0 && r.Count("multi_master_piece_after_replica_piece") == 0 {
		ev.Fatalf("vacuous: no multi-statement query had a master piece directly behind a replica piece")
	}
	if r.Violations() == 0 && (r.Count("routed_replica_plain") == 0 || r.Count("routed_master_lock") == 0) {
		ev.Fatalf("vacuous: plain reads on replica=%d, locking reads on master=%d", r.Count("routed_replica_plain"), r.Count("routed_master_lock"))
	}
	r.Finish()
}
