// C32: a namespace change is applied on all proxies or on none.
//
// Engine: enum, level fault_enumeration. The REAL cc/service.ModifyNamespace / DelNamespace
// (with the real models.NewClient("etcd") / EtcdClient, cc/proxy.APIClient and util/requests
// code underneath) run against
//
//	ref/fakeetcd   an in-memory etcd v2 keys API on loopback HTTP (the coordinator), and
//	ref/fakeadmin  1-3 reference proxies behind the proxy admin HTTP API on loopback HTTP,
//
// and every placement of <=1 (quick) / <=2 (thorough) scripted failures over the remote calls
// of the exchange is enumerated. A failure is keyed by (target, call kind, attempt number on
// that target), never by global order, so that the goroutine fan-out in ModifyNamespace cannot
// change which call fails. A scripted failure answers at once (HTTP 500 or a closed
// connection); nothing waits for a real timeout.
package main

import (
	"encoding/json"
	"fmt"
	"net/http/httptest"
	"net/url"
	"os"
	"sort"
	"strconv"
	"strings"
	"sync"
	"time"

	"github.com/XiaoMi/Gaea/cc/service"
	"github.com/XiaoMi/Gaea/models"

	"verif/engine/enum"
	"verif/engine/ev"
	"verif/engine/gx"
	"verif/ref/fakeadmin"
	"verif/ref/fakeetcd"
)

const (
	cluster    = "c32"
	root       = "/" + cluster
	nsName     = "ns1"
	nsName2    = "ns2"
	encryptKey = "1234abcd5678efg*"
	adminUser  = "admin"
	adminPass  = "admin-pw"
	maxProxies = 3
)

// Fault is one scripted failure.
//
//	Target "proxy": Proxy = index, Kind = ping|prepare|commit|delete, Nth = 1-based call number of
//	                that kind on that proxy (0 = every call of that kind: the proxy is down for the
//	                whole phase), Mode = fail_before|fail_after|drop_before|drop_after.
//	Target "store": Kind = version|list_namespaces|read_namespace|write_namespace|delete_namespace|
//	                list_proxies|read_proxy, Nth = 1-based number of that kind of coordinator call,
//	                Mode = fail_before|fail_after.
type Fault struct {
	Target string `json:"target"`
	Proxy  int    `json:"proxy,omitempty"`
	Kind   string `json:"kind"`
	Nth    int    `json:"nth"`
	Mode   string `json:"mode"`
	NS     string `json:"ns,omitempty"` // two-change scenarios: only calls for this namespace
}

func (f Fault) site() string {
	return fmt.Sprintf("%s/%d/%s/%d/%s", f.Target, f.Proxy, f.Kind, f.Nth, f.NS)
}

type Case struct {
	Op       string  `json:"op"` // modify | delete | two (two namespaces changed one after the other / interleaved)
	N        int     `json:"proxies"`
	Existing bool    `json:"existing"`
	Faults   []Fault `json:"faults"`
	Order    string  `json:"order,omitempty"` // op two: order of the proxy phases of the two exchanges
}

// ---------------------------------------------------------------- rig

type rig struct {
	mem     *fakeetcd.Mem
	etcd    *httptest.Server
	proxies [maxProxies]*fakeadmin.Proxy
	servers [maxProxies]*httptest.Server
	cfg     *models.CCConfig
	byCase  []int // case proxy index -> rig proxy index (coordinator listing order)
}

func newRig() *rig {
	g := &rig{mem: fakeetcd.New(root)}
	g.mem.KeepLog = true
	g.etcd = httptest.NewUnstartedServer(g.mem.Handler())
	g.etcd.Config.SetKeepAlivesEnabled(false) // one request per connection: no transparent client retries
	g.etcd.Start()
	for i := range g.proxies {
		g.proxies[i] = fakeadmin.New(adminUser, adminPass)
		g.servers[i] = httptest.NewUnstartedServer(g.proxies[i])
		g.servers[i].Config.SetKeepAlivesEnabled(false)
		g.servers[i].Start()
	}
	g.cfg = &models.CCConfig{CoordinatorType: models.ConfigEtcd, CoordinatorAddr: g.etcd.URL,
		EncryptKey: encryptKey, ProxyUserName: adminUser, ProxyPassword: adminPass}
	return g
}

func versionNumber(v int) int { return 1000 + v }

// buildNS is namespace `name` in version v (the version is carried in max_client_connections).
func buildNS(name string, v int) *models.Namespace {
	return &models.Namespace{
		Name: name, Online: true,
		AllowedDBS:           map[string]bool{"db1": true},
		SlowSQLTime:          "1000",
		DefaultSlice:         "slice-0",
		MaxClientConnections: versionNumber(v),
		Users:                []*models.User{{UserName: "u_" + name, Password: "pw_" + name, Namespace: name, RWFlag: 2, RWSplit: 1}},
		Slices: []*models.Slice{{Name: "slice-0", UserName: "backend", Password: "backend-pw", Master: "127.0.0.1:3306",
			Capacity: 4, MaxCapacity: 8, IdleTimeout: 60}},
	}
}

func storedBlob(name string, v int) []byte {
	ns := buildNS(name, v)
	if err := ns.Verify(); err != nil {
		ev.Fatalf("base namespace: %v", err)
	}
	if err := ns.Encrypt(encryptKey); err != nil {
		ev.Fatalf("base namespace: %v", err)
	}
	return ns.Encode()
}

// versionOf decodes the version of a stored blob: "v1", "v2", ... or "garbage".
func versionOf(b []byte) string {
	var x struct {
		Name string `json:"name"`
		V    int    `json:"max_client_connections"`
	}
	if err := json.Unmarshal(b, &x); err != nil || x.V < 1000 {
		return "garbage"
	}
	return "v" + strconv.Itoa(x.V-1000)
}

func nsKey(name string) string { return root + "/namespace/" + name }

// ---------------------------------------------------------------- scenario execution

type fired struct {
	f     Fault
	label string
}

type outcome struct {
	Ret     string              `json:"ret"`
	Store   map[string]string   `json:"store"`
	Proxies []map[string]string `json:"proxies"`
	Fired   []string            `json:"fired"`
}

func storeKind(op, key string) string {
	switch {
	case op == "version":
		return "version"
	case op == "getr" && key == root+"/namespace":
		return "list_namespaces"
	case op == "get" && strings.HasPrefix(key, root+"/namespace/"):
		return "read_namespace"
	case op == "set" && strings.HasPrefix(key, root+"/namespace/"):
		return "write_namespace"
	case op == "delete" && strings.HasPrefix(key, root+"/namespace/"):
		return "delete_namespace"
	case op == "get" && key == root+"/proxy":
		return "list_proxies"
	case op == "get" && strings.HasPrefix(key, root+"/proxy/"):
		return "read_proxy"
	}
	return "other:" + op
}

func proxyMode(s string) fakeadmin.Mode {
	switch s {
	case "fail_before":
		return fakeadmin.FailBefore
	case "fail_after":
		return fakeadmin.FailAfter
	case "drop_before":
		return fakeadmin.DropBefore
	case "drop_after":
		return fakeadmin.DropAfter
	}
	ev.Fatalf("unknown proxy fault mode %q", s)
	return fakeadmin.OK
}

// setup prepares coordinator and proxies for a case and installs the fault script.
func (g *rig) setup(c Case, names []string, firedOut *[]fired, mu *sync.Mutex) {
	g.mem.Reset()
	g.mem.KeepLog = true
	active := map[string]string{}
	for _, n := range append([]string{"other"}, names...) {
		if n == "other" || c.Existing {
			g.mem.Put(nsKey(n), storedBlob(n, 1))
			active[n] = "v1"
		}
	}
	for i := 0; i < maxProxies; i++ {
		g.proxies[i].Reset(active)
	}
	for i := 0; i < c.N; i++ {
		u, _ := url.Parse(g.servers[i].URL)
		host, port := u.Hostname(), u.Port()
		m := &models.ProxyMonitorMetric{Token: host + ":" + port, IP: host, AdminPort: port, ProxyPort: "13306", StartTime: "t0"}
		g.mem.Put(root+"/proxy/proxy-"+m.Token, m.Encode())
	}
	// proxies are registered under their port; ListProxyMonitorMetrics reads them in key order.
	// Map "proxy index in the case" to the rig's servers in that same order.
	type pp struct {
		key string
		idx int
	}
	var order []pp
	for i := 0; i < c.N; i++ {
		u, _ := url.Parse(g.servers[i].URL)
		order = append(order, pp{u.Host, i})
	}
	sort.Slice(order, func(a, b int) bool { return order[a].key < order[b].key })
	// case proxy k = k-th proxy in coordinator order
	byCase := make([]int, c.N)
	for k, o := range order {
		byCase[k] = o.idx
	}
	kindCount := map[string]int{}
	g.mem.SetHook(func(op, key string, _ int) fakeetcd.Fault {
		kind := storeKind(op, key)
		kindCount[kind]++
		nth := kindCount[kind]
		for _, f := range c.Faults {
			if f.Target == "store" && f.Kind == kind && (f.Nth == nth || f.Nth == 0) {
				if f.NS != "" && !strings.HasSuffix(key, "/"+f.NS) {
					continue
				}
				mu.Lock()
				*firedOut = append(*firedOut, fired{f, fmt.Sprintf("store.%s#%d:%s", kind, f.Nth, f.Mode)})
				mu.Unlock()
				if f.Mode == "fail_after" {
					return fakeetcd.FaultAfterApply
				}
				return fakeetcd.FaultBeforeApply
			}
		}
		return fakeetcd.FaultNone
	})
	for k := 0; k < c.N; k++ {
		k := k
		p := g.proxies[byCase[k]]
		perNS := map[string]int{}
		p.Configure(
			func(name string) (string, bool) {
				b, ok := g.mem.Get(nsKey(name))
				if !ok {
					return "", false
				}
				return versionOf(b), true
			},
			func(kind, name string, nth int) fakeadmin.Mode {
				perNS[kind+"/"+name]++
				var hit *Fault
				for i := range c.Faults {
					f := &c.Faults[i]
					if f.Target != "proxy" || f.Proxy != k || f.Kind != kind {
						continue
					}
					n := nth
					if f.NS != "" {
						if kind == "ping" || f.NS != name {
							continue
						}
						n = perNS[kind+"/"+name]
					}
					if f.Nth == n {
						hit = f
						break
					}
					if f.Nth == 0 && hit == nil {
						hit = f
					}
				}
				if hit == nil {
					return fakeadmin.OK
				}
				mu.Lock()
				*firedOut = append(*firedOut, fired{*hit, fmt.Sprintf("proxy.%s#%d:%s", kind, hit.Nth, hit.Mode)})
				mu.Unlock()
				return proxyMode(hit.Mode)
			})
	}
	g.byCase = byCase
}

func (g *rig) observe(c Case, names []string) (store map[string]string, proxies []map[string]string) {
	store = map[string]string{}
	for _, n := range names {
		if b, ok := g.mem.Get(nsKey(n)); ok {
			store[n] = versionOf(b)
		} else {
			store[n] = "none"
		}
	}
	byCase := g.byCase
	for k := 0; k < c.N; k++ {
		m := map[string]string{}
		for _, n := range names {
			if v, ok := g.proxies[byCase[k]].Active(n); ok {
				m[n] = v
			} else {
				m[n] = "none"
			}
		}
		proxies = append(proxies, m)
	}
	return
}

// pingPhases labels every ping call of a proxy log with the phase it belongs to, following the
// call protocol of cc/proxy (every prepare/commit/delete is preceded by its own ping; a dropped
// ping ends the attempt). Used only to name features, never for the verdict.
func pingPhases(calls []fakeadmin.Call) map[int]string {
	out := map[int]string{}
	for i, c := range calls {
		if c.Kind != "ping" {
			continue
		}
		phase := "prepare"
		// the call this ping introduces is the next non-ping call, if the ping was answered
		if strings.HasPrefix(c.Mode, "drop") {
			// no call follows in this attempt: the phase is "commit" iff a prepare was already
			// acknowledged (mode ok, applied) or three prepare attempts are over
			attempts, acked := 0, false
			for _, d := range calls[:i] {
				if d.Kind == "ping" {
					attempts++
				}
				if d.Kind == "prepare" && d.Mode == "ok" && d.Res == "applied" {
					acked = true
				}
				if d.Kind == "delete" {
					phase = "delete"
				}
			}
			if acked || attempts >= 3 {
				phase = "commit"
			}
			if len(calls) > 0 && onlyDelete(calls) {
				phase = "delete"
			}
		} else if i+1 < len(calls) {
			phase = calls[i+1].Kind
		}
		out[c.Nth] = phase
	}
	return out
}

func onlyDelete(calls []fakeadmin.Call) bool {
	for _, c := range calls {
		if c.Kind == "prepare" || c.Kind == "commit" {
			return false
		}
	}
	return true
}

type ctx struct {
	r    *ev.Run
	rigs chan *rig
}

var (
	dbgMu sync.Mutex
	dbg   = map[string]int{}
)

func (x *ctx) violation(w ev.Witness) {
	if os.Getenv("VERIF_DEBUG") != "" {
		ks := make([]string, 0, len(w.Features))
		for k := range w.Features {
			ks = append(ks, k)
		}
		sort.Strings(ks)
		sig := ""
		for _, k := range ks {
			if k != "proxies" {
				sig += k + "=" + w.Features[k] + " "
			}
		}
		dbgMu.Lock()
		dbg[sig]++
		dbgMu.Unlock()
	}
	x.r.Violation(w)
}

func dumpDebug() {
	ks := make([]string, 0, len(dbg))
	for k := range dbg {
		ks = append(ks, k)
	}
	sort.Strings(ks)
	for _, k := range ks {
		fmt.Printf("DEBUG %4d %s\n", dbg[k], k)
	}
}

func classify(vals []string, prev, next string) string {
	allPrev, allNew := true, true
	for _, v := range vals {
		if v != prev {
			allPrev = false
		}
		if v != next {
			allNew = false
		}
	}
	switch {
	case len(vals) == 0:
		return "none_registered"
	case allNew && allPrev:
		return "all_prev" // prev == next cannot happen in our cases
	case allNew:
		return "all_new"
	case allPrev:
		return "all_prev"
	}
	for _, v := range vals {
		if v != prev && v != next {
			return "unexpected_version"
		}
	}
	return "split"
}

func (x *ctx) runCase(c Case) {
	g := <-x.rigs
	defer func() { x.rigs <- g }()
	if c.Op == "two" {
		x.runTwo(g, c)
		return
	}
	var firedList []fired
	var mu sync.Mutex
	names := []string{nsName}
	g.setup(c, names, &firedList, &mu)

	prev, next := "none", "v2"
	if c.Existing {
		prev = "v1"
	}
	var err error
	if p := ev.Catch(func() {
		switch c.Op {
		case "modify":
			err = service.ModifyNamespace(buildNS(nsName, 2), g.cfg, cluster)
		case "delete":
			next = "none"
			err = service.DelNamespace(nsName, g.cfg, cluster)
		default:
			ev.Fatalf("unknown op %q", c.Op)
		}
	}); p != nil {
		x.violation(ev.Witness{Summary: fmt.Sprintf("control plane panicked: %v", p),
			Features: map[string]string{"kind": "panic", "op": c.Op}, Case: c})
		return
	}
	store, proxies := g.observe(c, names)
	byCase := g.byCase

	// labels of the failures that actually happened (canonical, without the proxy index)
	var labels, labelsIdx []string
	for _, f := range firedList {
		l := f.label
		if f.f.Target == "proxy" && f.f.Kind == "ping" {
			ph := pingPhases(g.proxies[byCase[f.f.Proxy]].Calls())
			// the nth recorded in the label is the scripted one (0 = all); find the phase of the first hit
			phase := "prepare"
			if f.f.Nth > 0 {
				phase = ph[f.f.Nth]
			} else if c.Op == "delete" {
				phase = "delete"
			}
			l = fmt.Sprintf("proxy.ping@%s#%s:%s", phase, nthLabel(f.f.Nth), f.f.Mode)
		} else {
			l = fmt.Sprintf("%s.%s#%s:%s", f.f.Target, f.f.Kind, nthLabel(f.f.Nth), f.f.Mode)
		}
		labels = append(labels, l)
		if f.f.Target == "proxy" {
			labelsIdx = append(labelsIdx, fmt.Sprintf("p%d:%s", f.f.Proxy, l))
		} else {
			labelsIdx = append(labelsIdx, l)
		}
	}
	labels = uniqSorted(labels)
	labelsIdx = uniqSorted(labelsIdx)
	cause := x.causeOf(g, c, firedList)

	var pv []string
	for _, m := range proxies {
		pv = append(pv, m[nsName])
	}
	storeState := "unexpected_version"
	switch store[nsName] {
	case next:
		storeState = "new"
	case prev:
		storeState = "prev"
	}
	proxyState := classify(pv, prev, next)
	ret := "nil"
	if err != nil {
		ret = "error"
	}
	okv := false
	if err == nil {
		okv = storeState == "new" && (proxyState == "all_new" || proxyState == "none_registered")
	} else {
		okv = storeState == "prev" && (proxyState == "all_prev" || proxyState == "none_registered")
	}
	x.r.Add("evaluations", 1)
	x.r.Distinct("outcomes", fmt.Sprintf("%s/%d/%v/%s/%s/%s", c.Op, c.N, c.Existing, ret, storeState, proxyState))
	if len(firedList) > 0 {
		x.r.Add("cases_with_fired_fault", 1)
		x.r.Distinct("nontrivial", fmt.Sprintf("%s/%d/%v/%s", c.Op, c.N, c.Existing, strings.Join(labelsIdx, "+")))
	} else {
		x.r.Add("cases_fault_not_reached", 1)
	}
	if okv {
		return
	}
	// position: where the proxies that were hit by a scripted proxy failure stand relative to
	// the others at the end
	position := "-"
	faulty := map[int]bool{}
	for _, f := range firedList {
		if f.f.Target == "proxy" {
			faulty[f.f.Proxy] = true
		}
	}
	if len(faulty) > 0 {
		othersNew, faultyNew, faultyPrev := 0, 0, 0
		for k, v := range pv {
			switch {
			case !faulty[k] && v == next:
				othersNew++
			case faulty[k] && v == next:
				faultyNew++
			case faulty[k]:
				faultyPrev++
			}
		}
		switch {
		case othersNew > 0 && faultyPrev > 0:
			position = "after_other_proxy_committed"
		case faultyNew > 0 && faultyPrev > 0:
			position = "between_failing_proxies"
		case faultyNew > 0:
			position = "applied_on_failing_proxy"
		default:
			position = "no_proxy_changed"
		}
	}
	errText := ""
	if err != nil {
		errText = err.Error()
		if len(errText) > 160 {
			errText = errText[:160]
		}
	}
	x.violation(ev.Witness{
		Summary: fmt.Sprintf("%s(%s) with %d proxies (namespace %s) under %v returned %s [%s] but store=%s (%s) proxies=%v (%s); want all %s",
			c.Op, nsName, c.N, map[bool]string{true: "existing", false: "new"}[c.Existing], labelsIdx, ret, errText, store[nsName], storeState, pv, proxyState,
			map[bool]string{true: "new", false: "previous"}[err == nil]),
		Features: map[string]string{"op": c.Op, "proxies": strconv.Itoa(c.N), "existing": strconv.FormatBool(c.Existing), "ret": ret,
			"faults": strings.Join(labels, "+"), "nfaults": strconv.Itoa(len(labels)), "cause": cause, "store": storeState, "proxy_state": proxyState, "position": position},
		Case: c})
}

// causeOf reduces the failures that fired to the classes that can matter for the outcome:
//   - a ping answered with HTTP 500 is dropped: cc's requests.SendGet returns (nil, nil) for any
//     HTTP answer, so APIClient.Ping reports success (counted in ping_500_treated_as_success);
//   - a failed prepare attempt (or its dropped ping) that was followed by an acknowledged
//     prepare on the same proxy is dropped (recovered by cc's retry loop);
//   - fail/drop are merged into before-apply / after-apply; proxy index and attempt number are
//     dropped; the rollback write is named apart from the main write.
func (x *ctx) causeOf(g *rig, c Case, firedList []fired) string {
	var classes []string
	for _, f := range firedList {
		cl := ""
		ba := "before"
		if strings.HasSuffix(f.f.Mode, "_after") {
			ba = "after"
		}
		if f.f.Target == "store" {
			switch f.f.Kind {
			case "version", "list_namespaces", "read_namespace":
				cl = "store_read_fail_before_write"
			case "write_namespace":
				if f.f.Nth == 1 {
					cl = "store_write_fail_" + ba
				} else {
					cl = "rollback_write_fail_" + ba
				}
			case "delete_namespace":
				if c.Op == "delete" {
					cl = "store_delete_fail_" + ba
				} else {
					cl = "rollback_write_fail_" + ba
				}
			case "list_proxies", "read_proxy":
				cl = "proxy_list_fail"
			}
		} else {
			calls := g.proxies[g.byCase[f.f.Proxy]].Calls()
			acked := false
			for _, d := range calls {
				if d.Kind == "prepare" && d.Mode == "ok" && d.Res == "applied" {
					acked = true
				}
			}
			switch f.f.Kind {
			case "ping":
				if !strings.HasPrefix(f.f.Mode, "drop") {
					x.r.Add("ping_500_treated_as_success", 1)
					break
				}
				phase := "prepare"
				if c.Op == "delete" {
					phase = "delete"
				} else if f.f.Nth > 0 {
					phase = pingPhases(calls)[f.f.Nth]
				} else if acked {
					// every ping is dropped but a prepare was acknowledged (another scripted answer
					// let one ping through): what the "always" failure hit is the commit's ping
					phase = "commit"
				}
				switch phase {
				case "prepare":
					if !acked {
						cl = "prepare_fail_before"
					}
				case "commit":
					cl = "commit_fail_before"
				case "delete":
					cl = "delete_fail_before"
				}
			case "prepare":
				if !acked {
					cl = "prepare_fail_" + ba
				}
			default:
				cl = f.f.Kind + "_fail_" + ba
			}
		}
		if cl != "" {
			classes = append(classes, cl)
		}
	}
	classes = uniqSorted(classes)
	if len(classes) == 0 {
		return "none"
	}
	return strings.Join(classes, "+")
}

func nthLabel(n int) string {
	if n == 0 {
		return "*"
	}
	return strconv.Itoa(n)
}

func uniqSorted(s []string) []string {
	sort.Strings(s)
	var out []string
	for i, v := range s {
		if i == 0 || v != s[i-1] {
			out = append(out, v)
		}
	}
	return out
}

// ---------------------------------------------------------------- two namespaces

// sched fixes the interleaving of two exchanges at the granularity of their proxy phases
// ("ns1/prepare", "ns1/commit", "ns2/prepare", "ns2/commit"): a call of a phase is let through
// only when every earlier phase of the order is complete (all proxies answered it, or the
// ModifyNamespace call owning it has returned).
type sched struct {
	mu       sync.Mutex
	cond     *sync.Cond
	order    []string
	need     int
	done     map[string]int
	finished map[string]bool
}

func newSched(order []string, need int) *sched {
	s := &sched{order: order, need: need, done: map[string]int{}, finished: map[string]bool{}}
	s.cond = sync.NewCond(&s.mu)
	return s
}

func (s *sched) complete(phase string) bool {
	ns := phase[:strings.IndexByte(phase, '/')]
	return s.done[phase] >= s.need || s.finished[ns]
}

func (s *sched) gate(kind, name string) func() {
	ph := name + "/" + kind
	idx := -1
	for i, p := range s.order {
		if p == ph {
			idx = i
		}
	}
	if idx < 0 {
		return nil
	}
	s.mu.Lock()
	for {
		ok := true
		for _, p := range s.order[:idx] {
			ok = ok && s.complete(p)
		}
		if ok {
			break
		}
		s.cond.Wait()
	}
	s.mu.Unlock()
	return func() {
		s.mu.Lock()
		s.done[ph]++
		s.cond.Broadcast()
		s.mu.Unlock()
	}
}

func (s *sched) finish(ns string) {
	s.mu.Lock()
	s.finished[ns] = true
	s.cond.Broadcast()
	s.mu.Unlock()
}

var schedules = map[string][]string{
	"A.prepare,A.commit,B.prepare,B.commit": {nsName + "/prepare", nsName + "/commit", nsName2 + "/prepare", nsName2 + "/commit"},
	"A.prepare,B.prepare,A.commit,B.commit": {nsName + "/prepare", nsName2 + "/prepare", nsName + "/commit", nsName2 + "/commit"},
	"A.prepare,B.prepare,B.commit,A.commit": {nsName + "/prepare", nsName2 + "/prepare", nsName2 + "/commit", nsName + "/commit"},
}

// runTwo changes two different namespaces A = ns1 and B = ns2 with two ModifyNamespace calls
// running at the same time; the order of their prepare/commit phases on the proxies is fixed
// by c.Order (all three orders up to symmetry), so the verdict does not depend on the Go
// scheduler. Failures: none, or one commit failure in A's exchange (no retries are involved,
// so every phase consists of exactly one call per proxy).
func (x *ctx) runTwo(g *rig, c Case) {
	var firedList []fired
	var mu sync.Mutex
	names := []string{nsName, nsName2}
	g.setup(c, names, &firedList, &mu)
	order, ok := schedules[c.Order]
	if !ok {
		ev.Fatalf("unknown schedule %q", c.Order)
	}
	sc := newSched(order, c.N)
	for k := 0; k < c.N; k++ {
		g.proxies[g.byCase[k]].SetGate(sc.gate)
	}
	watchdog := time.AfterFunc(60*time.Second, func() { ev.Fatalf("two-change scenario %v did not finish (schedule gate stuck)", c) })
	defer watchdog.Stop()
	prev := "none"
	if c.Existing {
		prev = "v1"
	}
	errs := make([]error, 2)
	var wg sync.WaitGroup
	for i := 0; i < 2; i++ {
		wg.Add(1)
		go func(i int) {
			defer wg.Done()
			errs[i] = service.ModifyNamespace(buildNS(names[i], 2), g.cfg, cluster)
			sc.finish(names[i])
		}(i)
	}
	wg.Wait()
	store, proxies := g.observe(c, names)
	var classes []string
	for _, f := range firedList {
		ba := "before"
		if strings.HasSuffix(f.f.Mode, "_after") {
			ba = "after"
		}
		classes = append(classes, fmt.Sprintf("%s_fail_%s@A", f.f.Kind, ba))
	}
	classes = uniqSorted(classes)
	cause := "none"
	if len(classes) > 0 {
		cause = strings.Join(classes, "+")
	}
	x.r.Add("evaluations", 1)
	x.r.Add("two_change_cases", 1)
	x.r.Distinct("nontrivial", fmt.Sprintf("two/%s/%d/%v/%v", c.Order, c.N, c.Existing, c.Faults))
	for i, n := range names {
		var pv []string
		for _, m := range proxies {
			pv = append(pv, m[n])
		}
		want, ret := prev, "error"
		if errs[i] == nil {
			want, ret = "v2", "nil"
		}
		st := classify(pv, prev, "v2")
		good := store[n] == want
		for _, v := range pv {
			good = good && v == want
		}
		storeState := "unexpected_version"
		if store[n] == "v2" {
			storeState = "new"
		} else if store[n] == prev {
			storeState = "prev"
		}
		x.r.Distinct("outcomes", fmt.Sprintf("two/%s/%d/%v/%d/%s/%s/%s", c.Order, c.N, c.Existing, i, ret, storeState, st))
		if good {
			continue
		}
		x.violation(ev.Witness{
			Summary: fmt.Sprintf("two concurrent changes, phases %s, %d proxies, failures %v: change %s of %s returned %s (%v) but store=%s proxies=%v",
				c.Order, c.N, classes, []string{"A", "B"}[i], n, ret, errs[i], store[n], pv),
			Features: map[string]string{"op": "two", "order": c.Order, "change": []string{"A", "B"}[i], "proxies": strconv.Itoa(c.N),
				"existing": strconv.FormatBool(c.Existing), "ret": ret, "cause": cause, "nfaults": strconv.Itoa(len(classes)),
				"store": storeState, "proxy_state": st, "position": "-"},
			Case: c})
	}
}

// ---------------------------------------------------------------- universe

func sites(op string, n int, existing bool) []Fault {
	var fs []Fault
	st := func(kind string, nth int, modes ...string) {
		for _, m := range modes {
			fs = append(fs, Fault{Target: "store", Kind: kind, Nth: nth, Mode: m})
		}
	}
	px := func(p int, kind string, nths []int, modes ...string) {
		for _, nth := range nths {
			for _, m := range modes {
				fs = append(fs, Fault{Target: "proxy", Proxy: p, Kind: kind, Nth: nth, Mode: m})
			}
		}
	}
	st("version", 1, "fail_before")
	if op == "modify" {
		st("list_namespaces", 1, "fail_before")
		st("read_namespace", 1, "fail_before")
		st("write_namespace", 1, "fail_before", "fail_after")
		if existing {
			st("write_namespace", 2, "fail_before", "fail_after") // the rollback write
		} else {
			st("delete_namespace", 1, "fail_before", "fail_after") // the rollback delete
		}
	} else {
		st("delete_namespace", 1, "fail_before", "fail_after")
	}
	st("list_proxies", 1, "fail_before")
	for i := 1; i <= n; i++ {
		st("read_proxy", i, "fail_before")
	}
	for p := 0; p < n; p++ {
		if op == "modify" {
			px(p, "ping", []int{0, 1, 2, 3, 4}, "drop_before", "fail_before")
			px(p, "prepare", []int{0, 1, 2, 3}, "fail_before", "fail_after", "drop_before", "drop_after")
			px(p, "commit", []int{1}, "fail_before", "fail_after", "drop_before", "drop_after")
		} else {
			px(p, "ping", []int{1}, "drop_before", "fail_before")
			px(p, "delete", []int{1}, "fail_before", "fail_after", "drop_before", "drop_after")
		}
	}
	return fs
}

func genCases(r *ev.Run, emit func(Case)) {
	maxFaults := r.Pick(1, 2)
	for _, op := range []string{"modify", "delete"} {
		for n := 1; n <= maxProxies; n++ {
			for _, existing := range []bool{false, true} {
				if op == "delete" && !existing {
					continue
				}
				ss := sites(op, n, existing)
				enum.Subsets(len(ss), maxFaults, func(idx []int) {
					fl := make([]Fault, 0, len(idx))
					seen := map[string]bool{}
					for _, i := range idx {
						k := fmt.Sprintf("%s/%d/%s/%d", ss[i].Target, ss[i].Proxy, ss[i].Kind, ss[i].Nth)
						if seen[k] {
							return // two behaviours for one call
						}
						seen[k] = true
						fl = append(fl, ss[i])
					}
					emit(Case{Op: op, N: n, Existing: existing, Faults: fl})
				})
			}
		}
	}
	// no proxy registered at all
	emit(Case{Op: "modify", N: 0, Existing: false})
	emit(Case{Op: "modify", N: 0, Existing: true})
	emit(Case{Op: "delete", N: 0, Existing: true})
}

// genTwo: two namespaces changed by two simultaneous ModifyNamespace calls under each of the
// three phase orders, fault-free and with one commit failure (before / after apply) on one
// proxy in A's exchange.
func genTwo(r *ev.Run, emit func(Case)) {
	orders := make([]string, 0, len(schedules))
	for o := range schedules {
		orders = append(orders, o)
	}
	sort.Strings(orders)
	for _, order := range orders {
		for n := 1; n <= r.Pick(2, 3); n++ {
			for _, existing := range []bool{false, true} {
				emit(Case{Op: "two", Order: order, N: n, Existing: existing})
				for p := 0; p < n; p++ {
					for _, mode := range []string{"fail_before", "fail_after"} {
						emit(Case{Op: "two", Order: order, N: n, Existing: existing,
							Faults: []Fault{{Target: "proxy", Proxy: p, Kind: "commit", Nth: 1, Mode: mode, NS: nsName}}})
					}
				}
			}
		}
	}
}

func main() {
	gx.Quiet()
	r := ev.Start("C32", "fault_enumeration")
	x := &ctx{r: r, rigs: make(chan *rig, 64)}
	var rc Case
	if r.ReplayCase(&rc) {
		x.rigs <- newRig()
		x.runCase(rc)
		r.Finish()
	}
	workers := 8
	for i := 0; i < workers; i++ {
		x.rigs <- newRig()
	}
	// self-test of the rig: the fault-free exchange must succeed and reach every proxy
	for n := 0; n <= maxProxies; n++ {
		for _, ex := range []bool{false, true} {
			before := r.Violations()
			x.runCase(Case{Op: "modify", N: n, Existing: ex})
			if r.Violations() != before {
				ev.Fatalf("rig self-test: fault-free ModifyNamespace with %d proxies (existing=%v) does not satisfy the oracle", n, ex)
			}
		}
	}
	r.Set("rule", "fault enumeration: every set of <=k scripted failures over the remote calls of the exchange — coordinator calls (version, list namespaces, read namespace, write namespace, rollback write/delete, list proxies, read proxy i; fail before apply / fail after apply) and per-proxy admin calls (ping #1-4 and 'always', prepare #1-3 and 'always', commit; HTTP 500 before apply, HTTP 500 after apply, connection closed before / after apply) x 1-3 proxies x namespace new/existing x ModifyNamespace/DelNamespace, executed against the real cc/service code; a failure is keyed by (target, call kind, attempt number). distinct_nontrivial = distinct (operation, proxies, new/existing, set of failures that actually fired with proxy index) — placements whose failure site was never reached are counted separately (cases_fault_not_reached)")
	r.Assume("ref/fakeetcd reproduces the etcd v2 HTTP semantics used by models/etcd; ref/fakeadmin reproduces the admin API semantics of proxy/server (single prepared slot, commit needs a prepared configuration, idempotent delete); a timeout is modelled as 'applied (or not) and an immediate error answer'")
	r.Assume("the reference proxy's prepare reads the namespace straight from the coordinator's memory (its own coordinator access is not failed separately; a failing load is the same as prepare fail_before)")
	r.Set("bounds", fmt.Sprintf("<=%d failures per scenario, 0-3 proxies, namespace new/existing, modify+delete; two simultaneous changes of different namespaces: 3 phase orders, <=1 commit failure", r.Pick(1, 2)))

	var cases []Case
	genCases(r, func(c Case) { cases = append(cases, c) })
	nSingle := len(cases)
	genTwo(r, func(c Case) { cases = append(cases, c) })
	r.Set("universe", len(cases))
	r.Set("universe_single_change", nSingle)
	for _, i := range []int{0, 7, 60, nSingle - 1, len(cases) - 1} {
		if i >= 0 && i < len(cases) {
			r.Sample(cases[i])
		}
	}
	sem := make(chan struct{}, workers)
	var wg sync.WaitGroup
	done := 0
	for i := range cases {
		if r.TimeUp() {
			r.Capped(fmt.Sprintf("%d of %d scenarios executed (fewest failures first within each configuration)", done, len(cases)))
			break
		}
		sem <- struct{}{}
		wg.Add(1)
		done++
		go func(c Case) {
			defer wg.Done()
			defer func() { <-sem }()
			x.runCase(c)
		}(cases[i])
	}
	wg.Wait()
	dumpDebug()
	if r.DistinctN("outcomes") < 4 {
		ev.Fatalf("vacuous run: %d distinct outcomes", r.DistinctN("outcomes"))
	}
	r.Finish()
}
