// C24: the connection pool never over-allocates, double-issues or fails a return.
//
// Engine: vsched (cooperative scheduler + preemption-bounded DFS) on the real
// util.ResourcePool, rewritten by mkoverlay so that every mutex / atomic / channel / go
// step is a scheduling point.
package main

import (
	"context"
	"fmt"
	"sort"
	"strings"
	"time"

	"github.com/XiaoMi/Gaea/backend"
	"github.com/XiaoMi/Gaea/util"
	"github.com/XiaoMi/Gaea/verifshim/vclock"
	"github.com/XiaoMi/Gaea/verifshim/vsched"

	"verif/engine/ev"
	"verif/engine/gx"
	"verif/engine/vx"
)

type res struct {
	id     int
	closed bool
}

func (r *res) Close() { r.closed = true }

// scenario: threads are op strings; ops:
//
//	G get  P put oldest held  N put nil for oldest held  I idle sweep (clock +11s)
//	S scale-in tick (clock +61s)  C<n> SetCapacity(n)  X Close  R return one pre-held resource
//	g get with the thread's own cancellable context  K<i> cancel the context of thread i
//
// No thread waits for a second resource while holding one in a scenario whose capacity can
// shrink (S, X): with a context that never expires that is a hold-and-wait deadlock by
// construction of the harness, not a pool defect (real callers use a 2 s timeout). Such
// scenarios empty the pool with pre-held resources instead (Pre, op R).
type scenario struct {
	Name    string
	Cap     int
	Max     int
	Idle    bool
	Threads []string
	Faulty  bool // factory may fail (environment choice)
	Pre     int  // resources taken before the threads start (returned by op R)
	Backend bool // drive backend.connectionPoolImpl / pooledConnectImpl (Get, Recycle, SetCapacity, Close) instead of util.ResourcePool
}

type world struct {
	sc       scenario
	rp       *util.ResourcePool
	nextID   int
	held     map[*res]string // resource -> holder thread
	nHeld    int
	viol     []string
	outcome  []string
	getErrs  int
	finalMsg string
	pre      []*res
	// failRemaining: number of upcoming factory calls that fail (set by an environment
	// choice before a Get: 3 = every retry of one Get fails)
	failRemaining int
	// the real Close stops the idle and scale-in timers first, and timer.Stop waits for a
	// running callback: model that with one lock per timer and a stopped flag
	idleBusy, capBusy, idleStopped, capStopped bool
	// backend layer
	cp    backend.ConnectionPool
	bheld map[backend.PooledConnect]string
	// cancellable contexts, one per thread (op g = Get with the thread's context, op K<i> =
	// cancel the context of thread i: the caller of Get gives up while the pool may still be
	// creating the resource for it)
	ctxs    []context.Context
	cancels []context.CancelFunc
}

var w *world

func (w *world) fail(format string, a ...interface{}) {
	w.viol = append(w.viol, fmt.Sprintf(format, a...))
}

func setup(sc scenario) {
	vclock.Enable(time.Unix(1700000000, 0))
	w = &world{sc: sc, held: map[*res]string{}, bheld: map[backend.PooledConnect]string{}}
	for range sc.Threads {
		c, cancel := context.WithCancel(context.Background())
		w.ctxs = append(w.ctxs, c)
		w.cancels = append(w.cancels, cancel)
	}
	if sc.Backend {
		cp, err := backend.VerifNewPool(sc.Cap, sc.Max)
		if err != nil {
			ev.Fatalf("VerifNewPool: %v", err)
		}
		w.cp = cp
		return
	}
	ww := w
	factory := func() (util.Resource, error) {
		if ww.failRemaining > 0 {
			ww.failRemaining--
			return nil, fmt.Errorf("factory failed")
		}
		ww.nextID++
		return &res{id: ww.nextID}, nil
	}
	idle := time.Duration(0)
	if sc.Idle {
		idle = 10 * time.Second
	}
	rp, err := util.NewResourcePool(factory, sc.Cap, sc.Max, idle)
	if err != nil {
		ev.Fatalf("NewResourcePool: %v", err)
	}
	util.VerifStopTimers(rp)
	w.rp = rp
	for i := 0; i < sc.Pre; i++ {
		r, err := rp.Get(context.Background())
		if err != nil {
			ev.Fatalf("pre-get: %v", err)
		}
		rr := r.(*res)
		w.pre = append(w.pre, rr)
		w.held[rr] = "pre"
		w.nHeld++
	}
}

func runThread(w *world, name, prog string) {
	var mine []*res
	self := int(name[1] - '0')
	for i := 0; i < len(prog); i++ {
		switch prog[i] {
		case 'K':
			i++
			vsched.Point("cancel", "ctx")
			w.cancels[int(prog[i]-'0')]()
		case 'G', 'g':
			if w.sc.Faulty && vsched.Choose(2, 1, "factory-outage") == 1 {
				w.failRemaining = 3
			}
			ctx := context.Background()
			if prog[i] == 'g' {
				ctx = w.ctxs[self]
			}
			r, err := w.rp.Get(ctx)
			if err != nil {
				w.getErrs++
				w.outcome = append(w.outcome, name+":Gerr")
				continue
			}
			rr := r.(*res)
			if rr.closed {
				w.fail("Get returned a closed resource r%d", rr.id)
			}
			if h, dup := w.held[rr]; dup {
				w.fail("resource r%d handed to %s while held by %s", rr.id, name, h)
			}
			w.held[rr] = name
			w.nHeld++
			if w.nHeld > w.sc.Max {
				w.fail("%d resources handed out, max capacity %d", w.nHeld, w.sc.Max)
			}
			mine = append(mine, rr)
		case 'P', 'N':
			if len(mine) == 0 {
				continue
			}
			rr := mine[0]
			mine = mine[1:]
			delete(w.held, rr)
			w.nHeld--
			if prog[i] == 'P' {
				w.rp.Put(rr)
			} else {
				rr.Close()
				w.rp.Put(nil)
			}
		case 'R':
			if len(w.pre) == 0 {
				continue
			}
			rr := w.pre[0]
			w.pre = w.pre[1:]
			delete(w.held, rr)
			w.nHeld--
			w.rp.Put(rr)
		case 'I':
			vsched.PointIf("timer", "idle", func() bool { return !w.idleBusy })
			if w.idleStopped {
				continue
			}
			w.idleBusy = true
			vclock.Advance(11 * time.Second)
			util.VerifCloseIdle(w.rp)
			w.idleBusy = false
		case 'S':
			vsched.PointIf("timer", "cap", func() bool { return !w.capBusy })
			if w.capStopped {
				continue
			}
			w.capBusy = true
			vclock.Advance(61 * time.Second)
			util.VerifScaleIn(w.rp)
			w.capBusy = false
		case 'C':
			i++
			w.rp.SetCapacity(int(prog[i] - '0'))
		case 'X':
			// Close() = idleTimer.Stop(); capTimer.Stop(); ScaleCapacity(0)
			// each Stop takes effect at once (no callback starts after it returned)
			vsched.PointIf("timer.stop", "idle", func() bool { return !w.idleBusy })
			w.idleStopped = true
			vsched.PointIf("timer.stop", "cap", func() bool { return !w.capBusy })
			w.capStopped = true
			w.rp.Close()
		}
	}
	// anything still held is returned (a Get that succeeded must be matched by a Put)
	for _, rr := range mine {
		delete(w.held, rr)
		w.nHeld--
		w.rp.Put(rr)
	}
}

// runBackendThread drives the exported ConnectionPool / PooledConnect API.
func runBackendThread(w *world, name, prog string) {
	var mine []backend.PooledConnect
	for i := 0; i < len(prog); i++ {
		switch prog[i] {
		case 'G':
			pc, err := w.cp.Get(context.Background())
			if err != nil {
				w.getErrs++
				w.outcome = append(w.outcome, name+":Gerr")
				continue
			}
			if pc.IsClosed() {
				w.fail("Get returned a closed connection")
			}
			if h, dup := w.bheld[pc]; dup {
				w.fail("connection handed to %s while held by %s", name, h)
			}
			w.bheld[pc] = name
			w.nHeld++
			if w.nHeld > w.sc.Max {
				w.fail("%d resources handed out, max capacity %d", w.nHeld, w.sc.Max)
			}
			mine = append(mine, pc)
		case 'P', 'N':
			if len(mine) == 0 {
				continue
			}
			pc := mine[0]
			mine = mine[1:]
			delete(w.bheld, pc)
			w.nHeld--
			if prog[i] == 'N' {
				pc.Close() // a broken connection is discarded through the same Recycle call
			}
			pc.Recycle()
		case 'C':
			i++
			w.cp.SetCapacity(int(prog[i] - '0'))
		case 'X':
			w.cp.Close()
		case 'B':
			// the backend goes away: pings and reconnects fail from now on
			backend.VerifKillBackend(w.cp)
		case 'A':
			// idle connections become older than the pool's ping period (4 s): the next Get pings first
			vclock.Advance(5 * time.Second)
		}
	}
	for _, pc := range mine {
		delete(w.bheld, pc)
		w.nHeld--
		pc.Recycle()
	}
}

func bodyBackend() {
	ww := w
	for i, prog := range ww.sc.Threads {
		name := fmt.Sprintf("T%d", i)
		p := prog
		vsched.GoNamed(name, func() { runBackendThread(ww, name, p) })
	}
	vsched.WaitOthers()
	capNow, inUse, avail, idle, ok := backend.VerifPoolCounters(ww.cp)
	if !ok {
		ww.finalMsg = fmt.Sprintf("closed geterr=%d", ww.getErrs)
		return
	}
	if inUse != 0 {
		ww.fail("quiescent: inUse=%d although every holder returned", inUse)
	}
	if idle+inUse != capNow {
		ww.fail("quiescent: idle(%d)+inUse(%d) != capacity(%d)", idle, inUse, capNow)
	}
	if avail+inUse != capNow {
		ww.fail("quiescent: available(%d)+inUse(%d) != capacity(%d)", avail, inUse, capNow)
	}
	if capNow > int64(ww.sc.Max) {
		ww.fail("quiescent: capacity %d exceeds max capacity %d", capNow, ww.sc.Max)
	}
	ww.finalMsg = fmt.Sprintf("cap=%d avail=%d idle=%d geterr=%d", capNow, avail, idle, ww.getErrs)
}

func body() {
	if w.sc.Backend {
		bodyBackend()
		return
	}
	ww := w
	for i, prog := range ww.sc.Threads {
		name := fmt.Sprintf("T%d", i)
		p := prog
		vsched.GoNamed(name, func() { runThread(ww, name, p) })
	}
	vsched.WaitOthers()
	// quiescent: idle + in-use == capacity
	rp := ww.rp
	capNow, inUse, avail, chanLen := rp.Capacity(), rp.InUse(), rp.Available(), int64(util.VerifChanLen(rp))
	if inUse != 0 {
		ww.fail("quiescent: inUse=%d although every holder returned", inUse)
	}
	if chanLen+inUse != capNow {
		ww.fail("quiescent: idle(%d)+inUse(%d) != capacity(%d)", chanLen, inUse, capNow)
	}
	if avail+inUse != capNow {
		ww.fail("quiescent: available(%d)+inUse(%d) != capacity(%d)", avail, inUse, capNow)
	}
	if capNow > int64(ww.sc.Max) {
		ww.fail("quiescent: capacity %d exceeds max capacity %d", capNow, ww.sc.Max)
	}
	ww.finalMsg = fmt.Sprintf("cap=%d avail=%d idle=%d active=%d geterr=%d", capNow, avail, chanLen, rp.Active(), ww.getErrs)
}

func scenarios(r *ev.Run) []scenario {
	s := []scenario{
		{Name: "2clients-cap1max1", Cap: 1, Max: 1, Threads: []string{"GP", "GP"}},
		{Name: "2clients-cap1max2", Cap: 1, Max: 2, Threads: []string{"GP", "GP"}},
		{Name: "3clients-cap1max2", Cap: 1, Max: 2, Threads: []string{"GP", "GP", "GP"}},
		{Name: "nested-cap1max2", Cap: 1, Max: 2, Threads: []string{"GGPP", "GP"}},
		{Name: "putnil-cap1max2", Cap: 1, Max: 2, Threads: []string{"GN", "GP"}},
		{Name: "idle-cap1max2", Cap: 1, Max: 2, Idle: true, Threads: []string{"GPGP", "I"}},
		{Name: "idle-2clients", Cap: 1, Max: 2, Idle: true, Threads: []string{"GP", "GP", "I"}},
		{Name: "scalein-busy", Cap: 1, Max: 2, Pre: 2, Threads: []string{"S", "GP", "RR"}},
		{Name: "scalein-after", Cap: 1, Max: 2, Threads: []string{"GGPPSGP", "GP"}},
		{Name: "setcap-cap1max2", Cap: 1, Max: 2, Threads: []string{"GP", "C2", "GP"}},
		{Name: "setcap-cap1max3", Cap: 1, Max: 3, Threads: []string{"GGPP", "C2", "GP"}},
		{Name: "setcap-shrink", Cap: 2, Max: 3, Threads: []string{"GP", "C1", "GP"}},
		// a base capacity above the maximum must not let more than Max resources out (seed c24-5)
		{Name: "setcap-above-max", Cap: 1, Max: 2, Threads: []string{"GGPP", "C3", "GP"}},
		{Name: "close-cap1max2", Cap: 1, Max: 2, Threads: []string{"GP", "X", "GP"}},
		{Name: "close-scaleout", Cap: 1, Max: 2, Pre: 1, Threads: []string{"GP", "X", "R"}},
		{Name: "close-setcap", Cap: 1, Max: 2, Threads: []string{"GP", "X", "C2"}},
		{Name: "faulty-factory", Cap: 1, Max: 2, Faulty: true, Threads: []string{"GP", "GP"}},
		// the caller of Get gives up (context cancelled) at any point, also while the factory call
		// made for it is still running (added after seeded change c24-2 was missed)
		{Name: "cancel-during-get", Cap: 1, Max: 1, Threads: []string{"gP", "K0"}},
		{Name: "cancel-during-get-2clients", Cap: 1, Max: 2, Threads: []string{"gP", "K0", "GP"}},
		// backend.connectionPoolImpl + pooledConnectImpl on top of the resource pool
		{Name: "backend-2clients", Backend: true, Cap: 1, Max: 2, Threads: []string{"GP", "GP"}},
		{Name: "backend-discard", Backend: true, Cap: 1, Max: 2, Threads: []string{"GN", "GP"}},
		{Name: "backend-close-while-held", Backend: true, Cap: 1, Max: 2, Threads: []string{"GP", "X"}},
		{Name: "backend-close-2clients", Backend: true, Cap: 1, Max: 2, Threads: []string{"GP", "X", "GP"}},
		{Name: "backend-setcap", Backend: true, Cap: 1, Max: 2, Threads: []string{"GP", "C2", "GP"}},
		// Get on a connection idle for longer than the ping period while the backend is gone: ping
		// fails, reconnect fails, the slot must come back exactly once (added after seeded change c24-4)
		{Name: "backend-ping-reconnect-fail", Backend: true, Cap: 1, Max: 2, Threads: []string{"GPBAGGP"}},
		{Name: "backend-ping-reconnect-fail-full", Backend: true, Cap: 1, Max: 1, Threads: []string{"GPBAGG"}},
		{Name: "backend-ping-reconnect-fail-2clients", Backend: true, Cap: 1, Max: 2, Threads: []string{"GPBAG", "GP"}},
	}
	if r.Thorough() {
		s = append(s,
			scenario{Name: "3clients-cap2max3", Cap: 2, Max: 3, Threads: []string{"GGPP", "GP", "GP"}},
			scenario{Name: "idle-scalein", Cap: 1, Max: 2, Idle: true, Pre: 2, Threads: []string{"RRGP", "I", "S"}},
			scenario{Name: "setcap-scalein", Cap: 1, Max: 3, Pre: 2, Threads: []string{"RRGP", "C2", "S"}},
			scenario{Name: "close-idle", Cap: 1, Max: 2, Idle: true, Threads: []string{"GP", "X", "I"}},
			scenario{Name: "faulty-3", Cap: 1, Max: 2, Faulty: true, Threads: []string{"GP", "GP", "GN"}},
		)
	}
	return s
}

func opsOf(sc scenario) string {
	set := map[string]bool{}
	for _, t := range sc.Threads {
		for _, c := range t {
			switch c {
			case 'C':
				set["setcap"] = true
			case 'X':
				set["close"] = true
			case 'S':
				set["scalein"] = true
			case 'I':
				set["idle"] = true
			case 'N':
				set["putnil"] = true
			case 'B':
				set["backenddown"] = true
			}
		}
	}
	if sc.Faulty {
		set["faultyfactory"] = true
	}
	if sc.Backend {
		set["backend"] = true
	}
	ks := []string{"get"}
	for k := range set {
		ks = append(ks, k)
	}
	sort.Strings(ks)
	return strings.Join(ks, "+")
}

func normInvariant(d string) string {
	for _, k := range []string{"handed out, max capacity", "handed to", "closed resource", "idle(", "available(", "inUse=", "exceeds max"} {
		if strings.Contains(d, k) {
			return k
		}
	}
	return d
}

func main() {
	gx.Quiet()
	r := ev.Start("C24", "model_checking")
	var scs []*vx.Scenario
	for _, sc := range scenarios(r) {
		sc := sc
		bound := 2
		if len(sc.Threads) >= 3 && r.Quick() {
			bound = 1
		}
		if r.Thorough() && len(sc.Threads) < 3 {
			bound = 3
		}
		scs = append(scs, &vx.Scenario{
			Name: sc.Name, Bound: bound, Spec: sc,
			Before:   func() { setup(sc) },
			Body:     body,
			Features: map[string]string{"ops": opsOf(sc)},
			Classify: func(x *vsched.Exec) (string, string, string, string) {
				outcome := w.finalMsg + "|" + strings.Join(w.outcome, ",")
				if k, d, n := vx.DefaultClassify(x); k != "" {
					return k, d, n, outcome
				}
				if len(w.viol) > 0 {
					return "invariant", w.viol[0], normInvariant(w.viol[0]), outcome
				}
				return "", "", "", outcome
			},
		})
	}
	vx.Main(r, scs, "timers of the pool are stopped; idle sweep and scale-in tick are explicit harness threads calling the real closeIdleResources / scaleInResources on a logical clock")
}
