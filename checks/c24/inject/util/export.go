//go:build verif

package util

// Accessors for the C24 pool harness (injected by build overlay; not part of Gaea).

func VerifStopTimers(rp *ResourcePool) {
	if rp.idleTimer != nil {
		rp.idleTimer.Stop()
		rp.idleTimer = nil
	}
	if rp.capTimer != nil {
		rp.capTimer.Stop()
		rp.capTimer = nil
	}
}

func VerifCloseIdle(rp *ResourcePool)     { rp.closeIdleResources() }
func VerifScaleIn(rp *ResourcePool)       { rp.scaleInResources() }
func VerifChanLen(rp *ResourcePool) int   { return len(rp.resources) }
func VerifBaseCap(rp *ResourcePool) int64 { return rp.baseCapacity.Get() }
