//go:build verif

package backend

import (
	"errors"
	"net"
	"sync"

	"github.com/XiaoMi/Gaea/mysql"
	"github.com/XiaoMi/Gaea/util"
)

// VerifNewPool builds a real connectionPoolImpl whose resource factory makes pooled
// connections around a DirectConnection that has no server behind it (an in-memory pipe).
// Everything the C24 harness exercises (Get / Recycle / Put / tryReuse / SetCapacity /
// Close) is the real code; only the network dial is replaced.
func VerifNewPool(capacity, maxCapacity int) (ConnectionPool, error) {
	// addr "fake" has no port: Reconnect's dial fails at once, without any network access
	cp := &connectionPoolImpl{addr: "fake", capacity: capacity, maxCapacity: maxCapacity}
	st := &verifBackendState{}
	verifBackend = st
	factory := func() (util.Resource, error) {
		st.mu.Lock()
		defer st.mu.Unlock()
		if st.down {
			return nil, errors.New("verif: backend is down")
		}
		c1, c2 := net.Pipe()
		st.peers = append(st.peers, c2)
		dc := &DirectConnection{conn: mysql.NewConn(c1), status: mysql.ServerStatusAutocommit}
		return &pooledConnectImpl{directConnection: dc, pool: cp}, nil
	}
	rp, err := util.NewResourcePool(factory, capacity, maxCapacity, 0)
	if err != nil {
		return nil, err
	}
	util.VerifStopTimers(rp)
	cp.connections = rp
	return cp, nil
}

// VerifPoolCounters returns capacity, inUse, available, idle of the underlying resource
// pool, ok=false when the pool has been detached by Close.
func VerifPoolCounters(p ConnectionPool) (capacity, inUse, available, idle int64, ok bool) {
	cp := p.(*connectionPoolImpl)
	rp := cp.connections
	if rp == nil {
		return 0, 0, 0, 0, false
	}
	return rp.Capacity(), rp.InUse(), rp.Available(), int64(util.VerifChanLen(rp)), true
}

// verifBackendState holds the server side of every in-memory connection of one pool.
type verifBackendState struct {
	mu    sync.Mutex
	down  bool
	peers []net.Conn
}

// one pool per execution: the state of the pool built last
var verifBackend *verifBackendState

// VerifKillBackend closes the server side of every connection of the pool built last and makes
// its factory fail from now on: the next ping on an idle connection fails, and so does the
// reconnect (environment event "the backend went away").
func VerifKillBackend(ConnectionPool) {
	st := verifBackend
	if st == nil {
		return
	}
	st.mu.Lock()
	defer st.mu.Unlock()
	st.down = true
	for _, c := range st.peers {
		c.Close()
	}
	st.peers = nil
}
