//go:build verif

package backend

import (
	"net"

	"github.com/XiaoMi/Gaea/mysql"
	"github.com/XiaoMi/Gaea/util"
)

// VerifNewPool builds a real connectionPoolImpl whose resource factory makes pooled
// connections around a DirectConnection that has no server behind it (an in-memory pipe).
// Everything the C24 harness exercises (Get / Recycle / Put / tryReuse / SetCapacity /
// Close) is the real code; only the network dial is replaced.
func VerifNewPool(capacity, maxCapacity int) (ConnectionPool, error) {
	cp := &connectionPoolImpl{addr: "fake", capacity: capacity, maxCapacity: maxCapacity}
	factory := func() (util.Resource, error) {
		c1, _ := net.Pipe()
		dc := &DirectConnection{conn: mysql.NewConn(c1), status: mysql.ServerStatusAutocommit}
		return &pooledConnectImpl{directConnection: dc, pool: cp}, nil
	}
	rp, err := util.NewResourcePool(factory, capacity, maxCapacity, 0)
	if err != nil {
		return nil, err
	}
	util.VerifStopTimers(rp)
	cp.connections = rp
	return cp, nil
}

// VerifPoolCounters returns capacity, inUse, available, idle of the underlying resource
// pool, ok=false when the pool has been detached by Close.
func VerifPoolCounters(p ConnectionPool) (capacity, inUse, available, idle int64, ok bool) {
	cp := p.(*connectionPoolImpl)
	rp := cp.connections
	if rp == nil {
		return 0, 0, 0, 0, false
	}
	return rp.Capacity(), rp.InUse(), rp.Available(), int64(util.VerifChanLen(rp)), true
}
