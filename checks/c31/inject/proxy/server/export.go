//go:build verif

package server

import (
	"sort"

	"github.com/XiaoMi/Gaea/models"
)

// Constructor and read-only views for the C31 harness (injected by build overlay; not part of
// Gaea).

// VerifNewManager builds a Manager the way CreateManager does (namespace manager + user
// manager in the current slot, SQLResponsePercentile entries for the initial namespaces as
// startConnectPoolMetricsTask creates them) but with a bare StatisticManager: no prometheus
// registration, no log files, no metric tickers.
func VerifNewManager(idc string, cfgs map[string]*models.Namespace) (*Manager, error) {
	m := NewManager()
	m.statistics = &StatisticManager{manager: m, SQLResponsePercentile: make(map[string]*SQLResponse), closeChan: make(chan bool)}
	current, _, _ := m.switchIndex.Get()
	m.namespaces[current] = CreateNamespaceManager(idc, cfgs)
	user, err := CreateUserManager(cfgs)
	if err != nil {
		return nil, err
	}
	m.users[current] = user
	for _, ns := range m.namespaces[current].namespaces {
		m.statistics.SQLResponsePercentile[ns.name] = NewSQLResponse(ns.name)
	}
	return m, nil
}

// VerifSlot describes one of the two generations held by the Manager.
type VerifSlot struct {
	Nil        bool
	Namespaces map[string]int // name -> max_sql_result_size (the version marker)
	Users      []string       // sorted "user/password->namespace"
}

// VerifManagerState renders both generations: the current one first, then the other one.
func VerifManagerState(m *Manager) (cur, other VerifSlot, prepared bool) {
	c, o, _ := m.switchIndex.Get()
	return verifSlot(m, c), verifSlot(m, o), m.reloadPrepared.Get()
}

func verifSlot(m *Manager, i int32) VerifSlot {
	var s VerifSlot
	if m.namespaces[i] == nil {
		s.Nil = true
		return s
	}
	s.Namespaces = map[string]int{}
	for name, ns := range m.namespaces[i].namespaces {
		s.Namespaces[name] = ns.maxSqlResultSize
	}
	if m.users[i] != nil {
		for k, ns := range m.users[i].userNamespaces {
			s.Users = append(s.Users, k+"->"+ns)
		}
		sort.Strings(s.Users)
	}
	return s
}
