package main

// Part 2: concurrent administrators and a reader on one real Manager under vsched.
//
// Scheduling points: every atomic operation of switchIndex (util.BoolIndex) and
// reloadPrepared (sync2.AtomicBool), and every read/write of Manager.namespaces,
// Manager.users and StatisticManager.SQLResponsePercentile (access points inserted by the
// overlay). `go currentNamespace.Close(true)` stays a plain goroutine: it only touches the
// namespace object that was just unpublished (cancel func, its own caches, zero pools) and
// never a Manager field, an instrumented atomic or the scheduler.
//
// Oracles (the sequential defects of part 1 are NOT re-reported here): the reference is the
// real Manager itself executed with every operation atomic, over all interleavings of the
// administrators' programs:
//
//	O1 every reader observation (GetNamespace marker / CheckUser) is a value that is visible
//	   after some prefix of some atomic interleaving ("readers only see committed generations");
//	O2 the final state (visible markers, user table, prepared flag) is the final state of
//	   some atomic interleaving (administrator operations are linearizable);
//	O3 no panic escapes, no deadlock, and no happens-before race on SQLResponsePercentile.
//
// The sharded runner below is engine/vx's (self-test, exploration per shard in worker
// processes, 5x replay of every violation), copied so that it returns its counters instead
// of finishing the run.

import (
	"encoding/json"
	"fmt"
	"os"
	"os/exec"
	"runtime"
	"sort"
	"strconv"
	"strings"
	"sync"
	"time"

	"github.com/XiaoMi/Gaea/proxy/server"
	"github.com/XiaoMi/Gaea/verifshim/vsched"

	"verif/engine/ev"
	"verif/engine/vx"
)

type cscenario struct {
	Name   string     `json:"name"`
	Names  []string   `json:"initial_namespaces"`
	Obs    []string   `json:"observed_namespaces"`
	Admins [][]string `json:"administrators"`
	Reader []string   `json:"reader"` // "ns N" | "user N V"
	Bound  int        `json:"preemption_bound"`

	seqVisible map[string]bool // "ns A=v1", "user A 1=true"
	seqFinal   map[string]bool
}

type cworld struct {
	sc    *cscenario
	m     *server.Manager
	obs   []string
	final string
	viol  []string
}

var cw *cworld

func renderState(m *server.Manager, names []string) string {
	var sb strings.Builder
	for _, n := range names {
		ns := m.GetNamespace(n)
		if ns == nil {
			fmt.Fprintf(&sb, "%s=-", n)
		} else {
			fmt.Fprintf(&sb, "%s=v%d", n, ns.GetMaxResultSize()-markerBase)
		}
		sb.WriteString("[")
		for _, v := range versions {
			if m.CheckUser(userOf(n, v)) {
				fmt.Fprintf(&sb, "u%d", v)
			}
		}
		sb.WriteString("] ")
	}
	_, _, prep := server.VerifManagerState(m)
	fmt.Fprintf(&sb, "prepared=%v", prep)
	return sb.String()
}

func observe(m *server.Manager, what string) string {
	f := strings.Fields(what)
	switch f[0] {
	case "ns":
		ns := m.GetNamespace(f[1])
		if ns == nil {
			return what + "=-"
		}
		return fmt.Sprintf("%s=v%d", what, ns.GetMaxResultSize()-markerBase)
	case "user":
		v, _ := strconv.Atoi(f[2])
		return fmt.Sprintf("%s=%v", what, m.CheckUser(userOf(f[1], v)))
	}
	ev.Fatalf("unknown observation %q", what)
	return ""
}

func adminOp(m *server.Manager, e string) string {
	f := strings.Fields(e)
	var err error
	var pan interface{}
	switch f[0] {
	case "p":
		v, _ := strconv.Atoi(f[2])
		pan = ev.Catch(func() { err = m.ReloadNamespacePrepare(nsConfig(f[1], v)) })
	case "pf":
		pan = ev.Catch(func() { err = m.ReloadNamespacePrepare(badConfig(f[1])) })
	case "c":
		pan = ev.Catch(func() { err = m.ReloadNamespaceCommit(f[1]) })
	case "d":
		pan = ev.Catch(func() { err = m.DeleteNamespace(f[1]) })
	}
	return resStr(err, pan)
}

// reference sets from atomic interleavings of the real implementation
func (sc *cscenario) buildReference() {
	sc.seqVisible, sc.seqFinal = map[string]bool{}, map[string]bool{}
	var rec func(pos []int, seq []string)
	rec = func(pos []int, seq []string) {
		done := true
		for a := range sc.Admins {
			if pos[a] < len(sc.Admins[a]) {
				done = false
				np := append([]int{}, pos...)
				np[a]++
				rec(np, append(append([]string{}, seq...), sc.Admins[a][pos[a]]))
			}
		}
		if !done {
			return
		}
		m := newManager(sc.Names)
		note := func() {
			for _, o := range sc.Reader {
				sc.seqVisible[observe(m, o)] = true
			}
		}
		note()
		for _, e := range seq {
			adminOp(m, e)
			note()
		}
		sc.seqFinal[renderState(m, sc.Obs)] = true
		m.Close()
	}
	rec(make([]int, len(sc.Admins)), nil)
}

func (sc *cscenario) before() {
	cw = &cworld{sc: sc, m: newManager(sc.Names)}
}

func (sc *cscenario) body() {
	w := cw
	if len(sc.Reader) > 0 {
		vsched.GoNamed("R", func() {
			for _, o := range sc.Reader {
				w.obs = append(w.obs, observe(w.m, o))
			}
		})
	}
	for i, prog := range sc.Admins {
		prog := prog
		vsched.GoNamed(fmt.Sprintf("Adm%d", i+1), func() {
			for _, e := range prog {
				adminOp(w.m, e)
			}
		})
	}
	vsched.WaitOthers()
	w.final = renderState(w.m, sc.Obs)
}

// classify: kind "" = fine.
func (sc *cscenario) classify(x *vsched.Exec) (kind, detail, norm, outcome string) {
	w := cw
	outcome = w.final + "|" + strings.Join(w.obs, ",")
	switch {
	case x.Panic != nil, x.Deadlock, x.Horizon:
		k, d, n := vx.DefaultClassify(x)
		return k, d, n, outcome
	}
	for _, ra := range x.Races {
		// Manager.namespaces / Manager.users are 2-element arrays whose elements are touched on
		// purpose by different threads (reader: current slot, administrator: other slot); the
		// detector works at field granularity and cannot tell the elements apart, so its reports
		// for these two labels cannot decide anything (O1/O2 catch the harmful cases semantically).
		if ra.Label == "namespaces" || ra.Label == "users" {
			continue
		}
		return "race", fmt.Sprintf("%s: %s / %s", ra.Label, ra.A, ra.B), ra.Label, outcome
	}
	for _, o := range w.obs {
		if !sc.seqVisible[o] {
			what := o
			if i := strings.Index(o, " "); i > 0 {
				what = o[:i]
			}
			return "uncommitted_read", fmt.Sprintf("the reader observed %q, which no atomic interleaving of the administrators' operations ever makes visible", o), what, outcome
		}
	}
	if x.Diverged == "" && w.final != "" && !sc.seqFinal[w.final] {
		n := "final_state"
		// torn generation: user table and namespace table of different configurations
		for _, part := range strings.Split(w.final, "] ") {
			if i := strings.Index(part, "="); i > 0 && strings.Contains(part, "[") {
				ver := part[i+1 : strings.Index(part, "[")]
				us := part[strings.Index(part, "[")+1:]
				want := ""
				if ver != "-" {
					want = "u" + strings.TrimPrefix(ver, "v")
				}
				if us != want {
					n = "users_vs_namespaces"
				}
			}
		}
		return "non_linearizable_final", fmt.Sprintf("final state %q is not the final state of any atomic interleaving of the administrators' operations", w.final), n, outcome
	}
	return "", "", "", outcome
}

func concScenarios(r *ev.Run) []*cscenario {
	ab := []string{"A", "B"}
	s := []*cscenario{
		{Name: "delete-vs-prepare", Names: ab, Obs: ab, Admins: [][]string{{"d B"}, {"p A 1"}}, Reader: []string{"ns A", "user A 1"}, Bound: 2},
		{Name: "two-updates", Names: ab, Obs: ab, Admins: [][]string{{"p A 1", "c A"}, {"p B 1", "c B"}}, Reader: []string{"ns A", "user A 1"}, Bound: 2},
		{Name: "update-vs-delete", Names: ab, Obs: ab, Admins: [][]string{{"p A 1", "c A"}, {"d B"}}, Reader: []string{"ns B", "ns A"}, Bound: 2},
		{Name: "two-deletes", Names: ab, Obs: ab, Admins: [][]string{{"d A"}, {"d B"}}, Reader: []string{"ns A", "ns B"}, Bound: 2},
		{Name: "one-update-reader", Names: ab, Obs: ab, Admins: [][]string{{"p A 1", "c A", "p A 2", "c A"}}, Reader: []string{"ns A", "user A 1", "ns A", "user A 2"}, Bound: 2},
		{Name: "failed-prepare-vs-update", Names: ab, Obs: ab, Admins: [][]string{{"p A 1", "c A"}, {"pf B", "pf A"}}, Reader: []string{"ns A", "user A 1"}, Bound: 1},
		{Name: "create-two-new", Names: []string{"A"}, Obs: []string{"A", "B", "C"}, Admins: [][]string{{"p B 1", "c B"}, {"p C 1", "c C"}}, Bound: 2},
	}
	if r.Quick() {
		// the two largest three-thread scenarios run with one preemption in the quick tier
		s[1].Bound, s[2].Bound = 1, 1
	}
	if r.Thorough() {
		for _, sc := range s {
			sc.Bound = 3
		}
		s[5].Bound = 2 // failed-prepare-vs-update
		s = append(s,
			&cscenario{Name: "three-ns-updates", Names: allNames, Obs: allNames, Admins: [][]string{{"p A 1", "c A", "d C"}, {"p B 2", "c B"}}, Reader: []string{"ns A", "ns C", "user B 2"}, Bound: 2},
			&cscenario{Name: "delete-then-recreate", Names: ab, Obs: ab, Admins: [][]string{{"d A", "p A 2", "c A"}, {"d B"}}, Reader: []string{"ns A", "ns B", "ns A"}, Bound: 2},
		)
	}
	return s
}

type concStats struct {
	states, transitions, execs int64
}

type shardViol struct {
	Kind, Detail, Norm string
	Choices            []int
	Preempted          int
}

type shardRes struct {
	Execs, Steps, Points int64
	MaxDepth             int
	Capped               bool
	Outcomes             []string
	Viol                 []shardViol
	ViolExecs            int64
	IgnoredRaceExecs     int64
	Error                string
}

const maxSteps = 4000

func exploreShard(sc *cscenario, k, n int, deadline time.Time) *shardRes {
	res := &shardRes{}
	outcomes := map[string]bool{}
	seen := map[string]bool{}
	e := &vsched.Explorer{Bound: sc.Bound, Before: sc.before, Body: sc.body, MaxSteps: maxSteps, Deadline: deadline, ShardK: k, ShardN: n}
	e.Check = func(x *vsched.Exec) {
		kind, detail, norm, outcome := sc.classify(x)
		for _, ra := range x.Races {
			if ra.Label == "namespaces" || ra.Label == "users" {
				res.IgnoredRaceExecs++
				break
			}
		}
		cw.m.Close()
		if len(outcomes) < 5000 {
			outcomes[outcome+"|"+kind+"|"+norm] = true
		}
		if kind == "" {
			return
		}
		res.ViolExecs++
		key := kind + "|" + norm
		if seen[key] {
			return
		}
		seen[key] = true
		choices := append([]int{}, x.Choices...)
		for i := 0; i < 5; i++ {
			sc.before()
			y := vsched.Run(vsched.Options{Prefix: choices, MaxSteps: maxSteps}, sc.body)
			k2, _, n2, _ := sc.classify(y)
			cw.m.Close()
			if k2 != kind || n2 != norm {
				res.Error = fmt.Sprintf("scenario %s: violation %s/%s did not reproduce on replay %d (got %s/%s)", sc.Name, kind, norm, i, k2, n2)
				return
			}
		}
		res.Viol = append(res.Viol, shardViol{kind, detail, norm, choices, x.Preempted})
	}
	e.Explore()
	res.Execs, res.Steps, res.Points, res.MaxDepth, res.Capped = e.Stats.Execs, e.Stats.Transitions, e.Stats.Points, e.Stats.MaxDepth, e.Stats.Capped
	if e.Stats.Diverged != "" {
		res.Error = "replay divergence: " + e.Stats.Diverged
	}
	for o := range outcomes {
		res.Outcomes = append(res.Outcomes, o)
	}
	sort.Strings(res.Outcomes)
	return res
}

func concSelfTest(sc *cscenario) string {
	run := func(prefix []int) (*vsched.Exec, string) {
		sc.before()
		x := vsched.Run(vsched.Options{Prefix: prefix, Trace: true, MaxSteps: maxSteps}, sc.body)
		_, _, n, o := sc.classify(x)
		cw.m.Close()
		return x, n + "|" + o
	}
	x1, o1 := run(nil)
	x2, o2 := run(x1.Choices)
	if strings.Join(x1.Log, "|") != strings.Join(x2.Log, "|") || o1 != o2 {
		return fmt.Sprintf("scenario %s: the same schedule replayed twice gave different observations", sc.Name)
	}
	return ""
}

func concFeatures(sc *cscenario, kind, norm string) map[string]string {
	return map[string]string{"part": "concurrent", "scenario": sc.Name, "kind": kind, "detail": norm}
}

// concChild is the worker-process mode.
func concChild(r *ev.Run) {
	name := os.Getenv("C31_CHILD")
	var sc *cscenario
	for _, s := range concScenarios(r) {
		if s.Name == name {
			sc = s
		}
	}
	if sc == nil {
		ev.Fatalf("unknown scenario %q", name)
	}
	sc.buildReference()
	k, _ := strconv.Atoi(os.Getenv("C31_K"))
	n, _ := strconv.Atoi(os.Getenv("C31_N"))
	dl, _ := strconv.ParseInt(os.Getenv("C31_DEADLINE"), 10, 64)
	res := exploreShard(sc, k, n, time.Unix(dl, 0))
	b, _ := json.Marshal(res)
	os.WriteFile(os.Getenv("C31_OUT"), b, 0o644)
	os.Exit(0)
}

func replayConcurrent(r *ev.Run, c caseT) {
	for _, sc := range concScenarios(r) {
		if sc.Name != c.Scenario {
			continue
		}
		sc.buildReference()
		sc.before()
		x := vsched.Replay(c.Choices, maxSteps, sc.body)
		kind, detail, norm, outcome := sc.classify(x)
		cw.m.Close()
		fmt.Printf("replay scenario=%s choices=%v\n", sc.Name, c.Choices)
		for _, l := range x.Log {
			fmt.Println("  ", l)
		}
		fmt.Printf("result: kind=%q detail=%q outcome=%q\n", kind, detail, outcome)
		if kind != "" {
			r.Violation(ev.Witness{Summary: sc.Name + ": " + kind + ": " + detail, Features: concFeatures(sc, kind, norm), Case: c})
		}
		return
	}
	ev.Fatalf("replay: unknown scenario %q", c.Scenario)
}

func runConcurrent(r *ev.Run) concStats {
	scs := concScenarios(r)
	for _, sc := range scs {
		sc.buildReference()
		if msg := concSelfTest(sc); msg != "" {
			ev.Fatalf("%s", msg)
		}
	}
	workers := runtime.NumCPU()
	nShard := (workers + len(scs) - 1) / len(scs)
	if r.Thorough() {
		nShard = workers
	}
	type job struct {
		sc   *cscenario
		k, n int
	}
	var jobs []job
	for _, sc := range scs {
		for k := 0; k < nShard; k++ {
			jobs = append(jobs, job{sc, k, nShard})
		}
	}
	deadline := time.Now().Add(r.Remaining() - 5*time.Second)
	self := os.Getenv("VERIF_CHECK_BIN")
	if self == "" {
		self, _ = os.Executable()
	}
	tmp, err := os.MkdirTemp(os.Getenv("VERIF_BUILD_DIR"), "c31vx")
	if err != nil {
		ev.Fatalf("%v", err)
	}
	defer os.RemoveAll(tmp)
	results := make([]*shardRes, len(jobs))
	var wg sync.WaitGroup
	sem := make(chan struct{}, workers)
	for i, j := range jobs {
		wg.Add(1)
		go func(i int, j job) {
			defer wg.Done()
			sem <- struct{}{}
			defer func() { <-sem }()
			out := fmt.Sprintf("%s/%d.json", tmp, i)
			cmd := exec.Command(self, r.Tier)
			cmd.Env = append(os.Environ(), "C31_CHILD="+j.sc.Name, "C31_K="+strconv.Itoa(j.k), "C31_N="+strconv.Itoa(j.n),
				"C31_OUT="+out, "C31_DEADLINE="+strconv.FormatInt(deadline.Unix(), 10), "GOMAXPROCS=2")
			cmd.Stderr = os.Stderr
			err := cmd.Run()
			b, rerr := os.ReadFile(out)
			res := &shardRes{}
			if rerr != nil || json.Unmarshal(b, res) != nil {
				res.Error = fmt.Sprintf("worker for %s shard %d/%d failed: %v", j.sc.Name, j.k, j.n, err)
			}
			results[i] = res
		}(i, j)
	}
	wg.Wait()

	var st concStats
	per := map[string]map[string]interface{}{}
	reported := map[string]bool{}
	for i, res := range results {
		if res.Error != "" {
			ev.Fatalf("%s", res.Error)
		}
		sc := jobs[i].sc
		st.execs += res.Execs
		st.transitions += res.Steps
		st.states += res.Points
		m := per[sc.Name]
		if m == nil {
			m = map[string]interface{}{"executions": int64(0), "steps": int64(0), "max_choice_depth": 0, "complete": true, "bound": sc.Bound,
				"violating_executions": int64(0), "executions_with_array_granular_race_reports_ignored": int64(0),
				"reference_visible_values": len(sc.seqVisible), "reference_final_states": len(sc.seqFinal)}
			per[sc.Name] = m
		}
		m["executions"] = m["executions"].(int64) + res.Execs
		m["steps"] = m["steps"].(int64) + res.Steps
		m["violating_executions"] = m["violating_executions"].(int64) + res.ViolExecs
		m["executions_with_array_granular_race_reports_ignored"] = m["executions_with_array_granular_race_reports_ignored"].(int64) + res.IgnoredRaceExecs
		if res.MaxDepth > m["max_choice_depth"].(int) {
			m["max_choice_depth"] = res.MaxDepth
		}
		if res.Capped {
			m["complete"] = false
			r.Capped(fmt.Sprintf("concurrent scenario %s: time share used up (bound %d not completed)", sc.Name, sc.Bound))
		}
		for _, o := range res.Outcomes {
			r.Distinct("concurrent_outcomes", sc.Name+"|"+o)
			r.Distinct("outcomes_"+sc.Name, o)
		}
		for _, v := range res.Viol {
			key := sc.Name + "|" + v.Kind + "|" + v.Norm
			if reported[key] {
				continue
			}
			reported[key] = true
			r.Violation(ev.Witness{Summary: fmt.Sprintf("%s: %s: %s (preemptions=%d)", sc.Name, v.Kind, v.Detail, v.Preempted),
				Features: concFeatures(sc, v.Kind, v.Norm), Case: caseT{Part: "concurrent", Scenario: sc.Name, Choices: v.Choices}})
		}
	}
	for _, sc := range scs {
		per[sc.Name]["distinct_outcomes"] = r.DistinctN("outcomes_" + sc.Name)
		per[sc.Name]["spec"] = sc
	}
	r.Sample(map[string]interface{}{"part": "concurrent", "scenario": scs[0]})
	r.Set("concurrent", per)
	r.Assume("concurrent part: interleavings are sequentially consistent at hooked operations (atomics of switchIndex/reloadPrepared, accesses of Manager.namespaces/users/SQLResponsePercentile); preemption inside unhooked straight-line code is not explored; happens-before reports for the two slot arrays are ignored (field-granular detector, element-granular protocol)")
	return st
}
