// C31: online reload never loses or resurrects a namespace configuration.
//
// Part 1 (engine xstate): explicit-state BFS over histories of prepare(n,v) / commit(n) /
// delete(n) applied to a fresh REAL server.Manager (ReloadNamespacePrepare,
// ReloadNamespaceCommit, DeleteNamespace — exactly what admin.go's handlers call through
// Server), compared after every step with the abstract specification of the property
// statement; observation = Manager.GetNamespace(n) version marker for every n, CheckUser and
// GetNamespaceByUser for every (n, version) credential.
//
// Part 2 (engine vsched, see concurrent.go): one reader thread and two administrator threads
// on the same real Manager under the cooperative scheduler, preemption-bounded.
package main

import (
	"crypto/sha256"
	"fmt"
	"os"
	"runtime"
	"sort"
	"strconv"
	"strings"
	"time"

	"github.com/XiaoMi/Gaea/models"
	"github.com/XiaoMi/Gaea/proxy/server"
	"github.com/XiaoMi/Gaea/verifshim/vclock"

	"verif/engine/ev"
	"verif/engine/gx"
	"verif/engine/xstate"
)

const markerBase = 1000 // max_sql_result_size = markerBase + version

var allNames = []string{"A", "B", "C"}

func nsConfig(name string, v int) *models.Namespace {
	return &models.Namespace{
		Name:   name,
		Online: true,
		AllowedDBS: map[string]bool{
			"db_" + name: true,
		},
		// one slice without a master address: no connection pool, no health-check pings, so a
		// replay creates no timers, sockets or lingering goroutines
		Slices:           []*models.Slice{{Name: "slice-0", UserName: "root", Password: "root", Capacity: 1, MaxCapacity: 1}},
		DefaultSlice:     "slice-0",
		Users:            []*models.User{{UserName: userOf(name, v), Password: pwOf(name, v), Namespace: name, RWFlag: 2}},
		MaxSqlResultSize: markerBase + v,
	}
}

// badVersion marks the configuration used by the "pf" event: structurally fine for
// models.Namespace (cc would store it) but rejected by server.NewNamespace because
// slow_sql_time does not parse, so ReloadNamespacePrepare must return an error.
const badVersion = 9

var versions = []int{0, 1, 2, badVersion}

func badConfig(name string) *models.Namespace {
	c := nsConfig(name, badVersion)
	c.SlowSQLTime = "not-a-number"
	return c
}

func userOf(n string, v int) string { return fmt.Sprintf("u_%s_%d", n, v) }
func pwOf(n string, v int) string   { return fmt.Sprintf("pw_%s_%d", n, v) }

func newManager(names []string) *server.Manager {
	cfgs := map[string]*models.Namespace{}
	for _, n := range names {
		cfgs[n] = nsConfig(n, 0)
	}
	m, err := server.VerifNewManager("", cfgs)
	if err != nil {
		ev.Fatalf("VerifNewManager: %v", err)
	}
	return m
}

// ---------------------------------------------------------------------------------------
// abstract specification (the property statement, nothing more)
//
//	active[n]       configuration version sessions must see for n (absent = deleted)
//	lastPrepared[n] version most recently prepared for n
//
// prepare(n,v): lastPrepared[n] = v; nothing visible changes.
// commit(n) that reports success: requires lastPrepared[n] to exist; active[n] =
// lastPrepared[n]; no other entry changes. commit(n) that reports failure (error or a
// recovered panic): nothing visible changes.
// delete(n): active loses n; no other entry changes.
type spec struct {
	active       map[string]int
	lastPrepared map[string]int
}

func newSpec(names []string) *spec {
	s := &spec{active: map[string]int{}, lastPrepared: map[string]int{}}
	for _, n := range names {
		s.active[n] = 0
	}
	return s
}

type world struct {
	names []string
	m     *server.Manager
	sp    *spec
	viol  string
	feat  map[string]string
	out   string
}

// observe compares what sessions see with spec.active; returns "" or a description.
func (w *world) observe() (kind, detail string) {
	for _, n := range w.names {
		ns := w.m.GetNamespace(n)
		want, present := w.sp.active[n]
		switch {
		case ns == nil && present:
			return "namespace_lost", fmt.Sprintf("namespace %s is gone although its last committed configuration is v%d", n, want)
		case ns != nil && !present:
			return "namespace_resurrected", fmt.Sprintf("deleted namespace %s is visible again (v%d) without a commit for it", n, ns.GetMaxResultSize()-markerBase)
		case ns != nil && ns.GetMaxResultSize()-markerBase != want:
			got := ns.GetMaxResultSize() - markerBase
			return "wrong_version", fmt.Sprintf("namespace %s shows v%d, the configuration last committed for it is v%d", n, got, want)
		}
		// user table of the same generation
		for _, v := range versions {
			should := present && v == want
			if got := w.m.CheckUser(userOf(n, v)); got != should {
				return "user_table", fmt.Sprintf("CheckUser(%s)=%v, expected %v (namespace %s at %s)", userOf(n, v), got, should, n, verStr(want, present))
			}
			gotNs := w.m.GetNamespaceByUser(userOf(n, v), pwOf(n, v))
			wantNs := ""
			if should {
				wantNs = n
			}
			if gotNs != wantNs {
				return "user_table", fmt.Sprintf("GetNamespaceByUser(%s)=%q, expected %q", userOf(n, v), gotNs, wantNs)
			}
		}
	}
	return "", ""
}

func verStr(v int, present bool) string {
	if !present {
		return "deleted"
	}
	return "v" + strconv.Itoa(v)
}

// step applies one event to the real manager and to the spec, then compares.
func (w *world) step(hist []string, i int) {
	e := hist[i]
	f := strings.Fields(e)
	n := f[1]
	var err error
	var pan interface{}
	switch f[0] {
	case "p":
		v, _ := strconv.Atoi(f[2])
		pan = ev.Catch(func() { err = w.m.ReloadNamespacePrepare(nsConfig(n, v)) })
		if pan == nil && err == nil {
			w.sp.lastPrepared[n] = v
		}
		w.out = fmt.Sprintf("prepare:%s", resStr(err, pan))
	case "pf":
		// a prepare that fails must leave everything as it was: active AND prepared
		pan = ev.Catch(func() { err = w.m.ReloadNamespacePrepare(badConfig(n)) })
		if pan == nil && err == nil {
			w.sp.lastPrepared[n] = badVersion // accepted after all: then it is a prepare like any other
		}
		w.out = fmt.Sprintf("failing-prepare:%s", resStr(err, pan))
	case "c":
		pan = ev.Catch(func() { err = w.m.ReloadNamespaceCommit(n) })
		ok := pan == nil && err == nil
		w.out = fmt.Sprintf("commit:%s", resStr(err, pan))
		if ok {
			v, has := w.sp.lastPrepared[n]
			if !has {
				w.fail(hist, i, "commit_without_prepare", fmt.Sprintf("commit(%s) reported success although no configuration was ever prepared for %s", n, n))
				return
			}
			w.sp.active[n] = v
		}
	case "d":
		pan = ev.Catch(func() { err = w.m.DeleteNamespace(n) })
		if pan == nil && err == nil {
			delete(w.sp.active, n)
		}
		w.out = fmt.Sprintf("delete:%s", resStr(err, pan))
	default:
		ev.Fatalf("unknown event %q", e)
	}
	if k, d := w.observe(); k != "" {
		w.fail(hist, i, k, fmt.Sprintf("after %s (%s): %s", e, w.out, d))
	}
}

func resStr(err error, pan interface{}) string {
	switch {
	case pan != nil:
		return "panic"
	case err != nil:
		return "error"
	}
	return "ok"
}

// fail records the violation with features that name the mechanism:
//
//	op                  kind of the violating step (p/c/d)
//	result              ok / error / panic of the violating step
//	own_prepare         for a commit(n): "none" (n never prepared), "is_slot_prepare" (the most
//	                    recent prepare of ANY namespace is a prepare of n), "older_than_slot_prepare"
//	deletes_since_slot  number of delete steps (that really deleted something is not
//	                    distinguished) between the most recent prepare and the violating step
//	commits_since_slot  number of successful commits between them
func (w *world) fail(hist []string, i int, kind, detail string) {
	if w.viol != "" {
		return
	}
	w.viol = detail
	f := strings.Fields(hist[i])
	feat := map[string]string{"kind": kind, "op": f[0], "result": strings.SplitN(w.out, ":", 2)[len(strings.SplitN(w.out, ":", 2))-1]}
	slot := -1
	for j := i - 1; j >= 0; j-- {
		if strings.HasPrefix(hist[j], "p ") {
			slot = j
			break
		}
	}
	own := "none"
	if f[0] == "c" {
		for j := i - 1; j >= 0; j-- {
			g := strings.Fields(hist[j])
			if g[0] == "p" && g[1] == f[1] {
				if j == slot {
					own = "is_slot_prepare"
				} else {
					own = "older_than_slot_prepare"
				}
				break
			}
		}
	} else {
		own = "n/a"
	}
	feat["own_prepare"] = own
	dels, coms, fails := 0, 0, 0
	if slot >= 0 {
		for j := slot + 1; j < i; j++ {
			switch {
			case strings.HasPrefix(hist[j], "pf "):
				fails++
			case hist[j][0] == 'd':
				dels++
			case hist[j][0] == 'c':
				coms++
			}
		}
	}
	feat["failed_prepares_since_slot"] = cls(fails)
	feat["deletes_since_slot"] = cls(dels)
	feat["commit_attempts_since_slot"] = cls(coms)
	if slot < 0 {
		feat["deletes_since_slot"], feat["commit_attempts_since_slot"], feat["failed_prepares_since_slot"] = "no_prepare", "no_prepare", "no_prepare"
	}
	w.feat = feat
}

func cls(n int) string {
	if n == 0 {
		return "0"
	}
	return "1+"
}

// key: canonical state.
//
// Merging argument. The future behaviour of the three Manager operations and of the reader
// functions depends only on: the namespace set + configuration of the current generation,
// the namespace set + configuration of the other generation (nil before the first
// prepare/delete), both user tables, and reloadPrepared. Which physical slot (0/1) is
// current is irrelevant (every method addresses the slots through switchIndex.Get()).
// Namespace.namespaceChangeIndex (a per-namespace counter bumped by prepare, used by sessions
// to drop keep-session connections) grows without bound and is not observable through this
// property's observations; it is deliberately excluded. The oracle's future depends on
// active and lastPrepared. Configurations are identified by their version marker (the only
// field the alphabet varies, together with the per-version user).
func (w *world) key() string {
	cur, other, prepared := server.VerifManagerState(w.m)
	var sb strings.Builder
	slot := func(s server.VerifSlot) {
		if s.Nil {
			sb.WriteString("nil|")
			return
		}
		ks := make([]string, 0, len(s.Namespaces))
		for n, mk := range s.Namespaces {
			ks = append(ks, fmt.Sprintf("%s=%d", n, mk-markerBase))
		}
		sort.Strings(ks)
		sb.WriteString(strings.Join(ks, ",") + ";" + strings.Join(s.Users, ",") + "|")
	}
	slot(cur)
	slot(other)
	fmt.Fprintf(&sb, "prep=%v|", prepared)
	for _, n := range w.names {
		v, ok := w.sp.active[n]
		lp, okp := w.sp.lastPrepared[n]
		fmt.Fprintf(&sb, "%s:%s/%s,", n, verStr(v, ok), verStr(lp, okp))
	}
	h := sha256.Sum256([]byte(sb.String()))
	return string(h[:16])
}

func replayHist(names []string) func(hist []string) xstate.Result {
	return func(hist []string) xstate.Result {
		w := &world{names: names, m: newManager(names), sp: newSpec(names)}
		defer w.m.Close()
		if k, d := w.observe(); k != "" {
			ev.Fatalf("C31 harness: initial state does not match the specification: %s", d)
		}
		for i := range hist {
			w.step(hist, i)
			if w.viol != "" {
				return xstate.Result{Violation: w.viol, Features: w.feat, Outcome: "violation:" + w.feat["kind"]}
			}
		}
		return xstate.Result{Key: w.key(), Outcome: w.out + "|" + w.visible()}
	}
}

func (w *world) visible() string {
	var ks []string
	for _, n := range w.names {
		if ns := w.m.GetNamespace(n); ns != nil {
			ks = append(ks, fmt.Sprintf("%s=%d", n, ns.GetMaxResultSize()-markerBase))
		}
	}
	return strings.Join(ks, ",")
}

func enabled(names []string) func([]string) []string {
	var evs []string
	for _, n := range names {
		evs = append(evs, "p "+n+" 1", "p "+n+" 2", "pf "+n, "c "+n, "d "+n)
	}
	return func([]string) []string { return evs }
}

type caseT struct {
	Part   string   `json:"part"`
	Names  []string `json:"names"`
	Events []string `json:"events"`
	// part 2
	Scenario string `json:"scenario,omitempty"`
	Choices  []int  `json:"choices,omitempty"`
}

func main() {
	gx.Quiet()
	// Namespace.Close(true) sleeps 60 s before releasing the old generation's resources: on
	// the logical clock that is a no-op, so the goroutines started by commit/delete end at once.
	vclock.Enable(time.Unix(1700000000, 0))
	vclock.SleepHook = func(time.Duration) {}
	r := ev.Start("C31", "model_checking")
	if os.Getenv("C31_CHILD") != "" {
		concChild(r)
	}
	var c caseT
	if r.ReplayCase(&c) {
		if c.Part == "concurrent" {
			replayConcurrent(r, c)
			r.Finish()
		}
		res := replayHist(c.Names)(c.Events)
		fmt.Printf("replay names=%v events=%v\n  outcome=%q violation=%q\n", c.Names, c.Events, res.Outcome, res.Violation)
		if res.Violation != "" {
			r.Violation(ev.Witness{Summary: res.Violation + " — history: " + strings.Join(c.Events, "; "), Features: res.Features, Case: c})
		}
		r.Finish()
	}

	names := allNames[:r.Pick(2, 3)]
	depth := r.Pick(5, 7)
	nViol := 0
	st := xstate.BFS(xstate.Spec[string]{
		Replay:   replayHist(names),
		Enabled:  enabled(names),
		MaxDepth: depth,
		Workers:  runtime.NumCPU(),
		Stop:     r.TimeUp,
		OnViolation: func(hist []string, res xstate.Result) {
			nViol++
			f := map[string]string{"part": "sequential"}
			for k, v := range res.Features {
				f[k] = v
			}
			r.Violation(ev.Witness{Summary: res.Violation + " — history: " + strings.Join(hist, "; "), Features: f,
				Case: caseT{Part: "sequential", Names: names, Events: append([]string{}, hist...)}})
		},
		OnOutcome: func(o string) {
			r.Distinct("outcomes", o)
			if strings.HasPrefix(o, "failing-prepare:error") {
				r.Distinct("failing_prepare_errors", o)
			}
		},
	})
	if st.Capped {
		r.Capped(fmt.Sprintf("sequential part: time budget used up at depth %d of %d", st.MaxDepth, depth))
	}
	if r.DistinctN("outcomes") < 6 {
		ev.Fatalf("C31 harness is vacuous: %d distinct outcomes", r.DistinctN("outcomes"))
	}
	if nViol == 0 || r.Violations() == 0 {
		// only meaningful on a tree without new violations: the failing prepare must really fail
		if r.DistinctN("failing_prepare_errors") == 0 {
			ev.Fatalf("C31 harness is vacuous: the 'pf' event never made ReloadNamespacePrepare return an error")
		}
	}
	seq := map[string]interface{}{"namespaces": names, "versions": []int{1, 2}, "failing_prepare_event": true, "max_depth": depth, "depth_reached": st.MaxDepth,
		"states": st.States, "transitions": st.Transitions, "violating_histories": nViol, "frontier_per_depth": st.PerDepth, "complete": !st.Capped}
	r.Set("sequential", seq)
	r.Sample(caseT{Part: "sequential", Names: names, Events: []string{"p A 2", "c A", "d B", "p B 1", "c B"}})
	r.Sample(caseT{Part: "sequential", Names: names, Events: []string{"p A 2", "p B 2", "c A"}})
	r.Sample(caseT{Part: "sequential", Names: names, Events: []string{"p A 2", "pf B", "c A"}})

	if r.Violations() > 0 {
		// the tree already breaks the property on sequential histories (deterministic witnesses
		// above); schedules are not explored on top of that
		r.Set("concurrent", "skipped: the sequential part found violations that are not known findings")
		r.Set("states", st.States)
		r.Set("transitions", st.Transitions)
		r.Set("traces_validated_against_impl", st.Transitions)
		r.Finish()
	}
	cst := runConcurrent(r)

	r.Set("states", st.States+cst.states)
	r.Set("transitions", st.Transitions+cst.transitions)
	r.Set("traces_validated_against_impl", st.Transitions+cst.execs)
	r.Set("explanation", "sequential part: states = distinct canonical (both Manager generations + prepared flag + specification) states, transitions = histories replayed on a fresh real Manager; concurrent part: states = scheduling decision nodes, transitions = scheduling steps, every explored schedule is an execution of the real (overlay-instrumented) Manager; traces_validated_against_impl = sequential transitions + concurrent executions")
	r.Assume("namespaces are built from a minimal configuration with one slice that has no master address (no pools, no health-check traffic); the version marker is max_sql_result_size plus one user per version")
	r.Assume("the Manager is built by an injected constructor that mirrors CreateManager without prometheus registration, log files and metric tickers")
	r.Finish()
}
