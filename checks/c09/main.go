// C09: range and calendar rules place each key in its configured interval.
//
// Engine: enum (bounded-exhaustive). Every rule is built through the real configuration
// path (models.Namespace.Verify -> router.NewRouter -> Router.GetShardRule) and
// Rule.FindTableIndex / GetSubTableIndexes / GetSliceIndexFromTableIndex / GetSlice are
// compared with an interval reference (range) and a calendar reference (Go's time package
// used in the direction calendar fields -> unix seconds, the opposite of what Gaea does).
//
// What the oracle demands (no more than the statement):
//   - range: a numeric key (int, int64, uint64, decimal string) inside [i*limit,(i+1)*limit)
//     of a configured table i is placed in i; a numeric key outside every interval comes
//     back as an error value; a digit-free string is rejected (error value or the
//     KeyError panic that the proxy's handleQuery turns into an error).
//   - date_year / date_month / date_day: the three accepted spellings of an instant
//     ('YYYY-MM-DD', 'YYYY-MM-DD hh:mm:ss', unix seconds in time.Local) are placed in the
//     number of the calendar period (YYYY, YYYYMM, YYYYMMDD) and therefore identically;
//     that number is in GetSubTableIndexes and mapped to the configured slice exactly when
//     the period is configured; strings that are too short to contain the period fields
//     and digit-free strings come back as an *error value* (a panic is a violation:
//     the API returns (int, error) and the statement says "rejected with an error").
//     Other non-accepted strings that still contain a readable period (prefixes of a
//     datetime) may be rejected with an error or placed in that period. No string key
//     may panic.
package main

import (
	"fmt"
	"math"
	"sort"
	"strconv"
	"strings"
	"time"

	"github.com/XiaoMi/Gaea/models"
	"github.com/XiaoMi/Gaea/proxy/router"

	"verif/engine/enum"
	"verif/engine/ev"
	"verif/engine/gx"
)

// ---------------------------------------------------------------- case description

type cfg struct {
	Type      string   `json:"type"`
	Locations []int    `json:"locations,omitempty"`
	Limit     int      `json:"table_row_limit,omitempty"`
	DateRange []string `json:"date_range,omitempty"`
}

func (c cfg) id() string {
	if c.Type == models.ShardRange {
		return fmt.Sprintf("range%v/%d", c.Locations, c.Limit)
	}
	return c.Type + "[" + strings.Join(c.DateRange, ",") + "]"
}

type key struct {
	T string `json:"t"` // int | int64 | uint64 | string
	I int64  `json:"i,omitempty"`
	U uint64 `json:"u,omitempty"`
	S string `json:"s,omitempty"`
}

func (k key) value() interface{} {
	switch k.T {
	case "int":
		return int(k.I)
	case "int64":
		return k.I
	case "uint64":
		return k.U
	}
	return k.S
}

func (k key) String() string {
	switch k.T {
	case "int", "int64":
		return fmt.Sprintf("%s(%d)", k.T, k.I)
	case "uint64":
		return fmt.Sprintf("uint64(%d)", k.U)
	}
	return fmt.Sprintf("%q", k.S)
}

// want: what the reference demands for this key.
//
//	place    must return (Index, nil)
//	error    must return a non-nil error value (no panic)
//	reject   must not be placed: error value or panic
//	lenient  error value, or (Index, nil); no panic
//	nopanic  anything but a panic
type want struct {
	Mode  string `json:"mode"`
	Index int    `json:"index,omitempty"`
}

type kcase struct {
	TZ    string `json:"tz"`
	Cfg   cfg    `json:"cfg"`
	Key   key    `json:"key"`
	Class string `json:"class"`
	Want  want   `json:"want"`
	Note  string `json:"note,omitempty"` // the instant / value the key spells
}

// ---------------------------------------------------------------- real rule construction

const logicDB, logicTable, linkedTable = "db", "t", "t_l"

func sliceName(i int) string { return fmt.Sprintf("slice-%d", i) }

func namespaceOf(c cfg) *models.Namespace {
	n := len(c.Locations)
	if c.Type != models.ShardRange {
		n = len(c.DateRange)
	}
	ns := &models.Namespace{
		Name:         "ns",
		AllowedDBS:   map[string]bool{logicDB: true},
		Users:        []*models.User{{UserName: "u", Password: "p", Namespace: "ns", RWFlag: models.ReadWrite}},
		DefaultSlice: sliceName(0),
	}
	var names []string
	for i := 0; i < n; i++ {
		ns.Slices = append(ns.Slices, &models.Slice{Name: sliceName(i), UserName: "r", Password: "r",
			Master: fmt.Sprintf("127.0.0.1:%d", 3306+i), Capacity: 1, MaxCapacity: 1})
		names = append(names, sliceName(i))
	}
	ns.ShardRules = []*models.Shard{
		{DB: logicDB, Table: logicTable, Type: c.Type, Key: "k", Locations: c.Locations, Slices: names,
			DateRange: c.DateRange, TableRowLimit: c.Limit},
		{DB: logicDB, Table: linkedTable, Type: models.ShardLinked, Key: "k", ParentTable: logicTable},
	}
	return ns
}

// build returns the rule of table t and of the table linked to it, through the real
// configuration path. A configuration of this universe that Gaea refuses is an engine
// error of this harness (the universe is meant to hold valid configurations only).
func build(c cfg) (router.Rule, router.Rule, string) {
	ns := namespaceOf(c)
	var rt *router.Router
	var err error
	if p := ev.Catch(func() {
		if err = ns.Verify(); err != nil {
			return
		}
		rt, err = router.NewRouter(ns)
	}); p != nil {
		return nil, nil, fmt.Sprintf("panic while loading: %v", p)
	}
	if err != nil {
		return nil, nil, "refused: " + err.Error()
	}
	r, ok := rt.GetShardRule(logicDB, logicTable)
	l, ok2 := rt.GetShardRule(logicDB, linkedTable)
	if !ok || !ok2 {
		return nil, nil, "rule not found in the built router"
	}
	return r, l, ""
}

// ---------------------------------------------------------------- configuration universe

func rangeConfigs() []cfg {
	var out []cfg
	for n := 1; n <= 3; n++ {
		dims := make([]int, n)
		for i := range dims {
			dims[i] = 4
		}
		enum.Product(dims, func(idx []int) {
			for _, lim := range []int{1, 10, 10000} {
				out = append(out, cfg{Type: models.ShardRange, Locations: append([]int(nil), idx...), Limit: lim})
			}
		})
	}
	return out
}

func dateConfigs(thorough bool) []cfg {
	y := [][]string{{"2016"}, {"2015-2017"}, {"2017-2015"}, {"2014", "2016-2017"}, {"2015-2016", "2017", "2019-2020"},
		{"1999-2001"}, {"1970"}, {"1969-1971"}}
	m := [][]string{{"201603"}, {"201601-201603"}, {"201511-201602"}, {"201511-201802"}, {"201603-201601"},
		{"201602-201511"}, {"201512", "201601-201602"}, {"201911-202002", "202003", "202101-202112"},
		{"201612"}, {"201601"}, {"201512-201601"}, {"199912-200001"}}
	d := [][]string{{"20160301"}, {"20160227-20160302"}, {"20150227-20150302"}, {"20151230-20160102"},
		{"20160302-20160227"}, {"20160102-20151230"}, {"20160101", "20160102-20160105"},
		{"20151231", "20160101-20160131", "20160301-20160302"}, {"20160229"}, {"20000228-20000301"},
		{"19000227-19000302"}, {"20160312-20160314"}, {"20161105-20161107"}, {"19700101"}}
	if thorough {
		y = append(y, []string{"1900-2100"}, []string{"2000", "2001", "2002", "2003"})
		m = append(m, []string{"200001-209912"}, []string{"201001-201012", "201101-201112", "201201-201212"})
		d = append(d, []string{"20150101-20171231"}, []string{"20160101-20160630", "20160701-20161231"})
	} else {
		d = append(d, []string{"20160101-20161231"})
	}
	var out []cfg
	for _, v := range y {
		out = append(out, cfg{Type: models.ShardYear, DateRange: v})
	}
	for _, v := range m {
		out = append(out, cfg{Type: models.ShardMonth, DateRange: v})
	}
	for _, v := range d {
		out = append(out, cfg{Type: models.ShardDay, DateRange: v})
	}
	return out
}

// spanConfigs: date_range SPANS whose ends are enumerated around calendar discontinuities
// (added after seeded change c09-4). For date_day: for every boundary B in {1 Jan after a
// common / leap / century year, 1 Mar of common and leap years, 1 Feb, 1 May (30-day month
// before), 1 Aug (31-day month before)} the spans a-b with a in {B-3,B-2,B-1}, b in {B,B+1},
// the one-sided spans (B-2)-(B-1) and B-(B+1), the one-day spans (B-1)-(B-1) and B-B, one
// descending span, a two-slice list split exactly at B, and long spans (> 365 days, up to
// ~3 years) between two year-end / 1-March boundaries with both ends on either side of
// their boundary. The analogous year-crossing lists for date_month and date_year.
func spanConfigs() []cfg {
	var out []cfg
	seen := map[string]bool{}
	add := func(typ string, entries ...string) {
		c := cfg{Type: typ, DateRange: entries}
		if !seen[c.id()] {
			seen[c.id()] = true
			out = append(out, c)
		}
	}
	day := func(y, m, d int) time.Time { return time.Date(y, time.Month(m), d, 0, 0, 0, 0, time.UTC) }
	f := func(t time.Time) string { return t.Format("20060102") }
	sp := func(a, b time.Time) string { return f(a) + "-" + f(b) }
	years := []int{1900, 1999, 2000, 2001, 2015, 2016, 2017, 2023, 2024}
	var major []time.Time // year ends and 1 March: ends of the long spans
	for _, y := range years {
		for _, b := range []time.Time{day(y+1, 1, 1), day(y, 3, 1), day(y, 2, 1), day(y, 5, 1), day(y, 8, 1)} {
			for _, a := range []int{-3, -2, -1} {
				for _, e := range []int{0, 1} {
					add(models.ShardDay, sp(b.AddDate(0, 0, a), b.AddDate(0, 0, e)))
				}
			}
			add(models.ShardDay, sp(b.AddDate(0, 0, -2), b.AddDate(0, 0, -1)))
			add(models.ShardDay, sp(b, b.AddDate(0, 0, 1)))
			add(models.ShardDay, sp(b.AddDate(0, 0, -1), b.AddDate(0, 0, -1)))
			add(models.ShardDay, sp(b, b))
			add(models.ShardDay, sp(b.AddDate(0, 0, 1), b.AddDate(0, 0, -2))) // descending
			add(models.ShardDay, sp(b.AddDate(0, 0, -2), b.AddDate(0, 0, -1)), sp(b, b.AddDate(0, 0, 1)))
		}
		major = append(major, day(y, 3, 1), day(y+1, 1, 1))
	}
	for _, bi := range major {
		for _, bj := range major {
			if d := bj.Sub(bi).Hours() / 24; d < 364 || d > 1100 {
				continue
			}
			for _, a := range []int{-1, 0} {
				for _, e := range []int{-1, 0} {
					add(models.ShardDay, sp(bi.AddDate(0, 0, a), bj.AddDate(0, 0, e)))
				}
			}
		}
	}
	ym := func(y, m int) string {
		t := day(y, m, 1)
		return t.Format("200601")
	}
	for _, y := range []int{1999, 2015, 2016, 2023} {
		for _, a := range []int{11, 12} {
			for _, e := range []int{13, 14} { // Jan, Feb of y+1
				add(models.ShardMonth, ym(y, a)+"-"+ym(y, e))
			}
		}
		add(models.ShardMonth, ym(y, 12)+"-"+ym(y, 12))
		add(models.ShardMonth, ym(y, 13)+"-"+ym(y, 13))
		add(models.ShardMonth, ym(y, 14)+"-"+ym(y, 11)) // descending
		add(models.ShardMonth, ym(y, 11)+"-"+ym(y, 12), ym(y, 13)+"-"+ym(y, 14))
		for _, a := range []int{1, 11, 12} {
			for _, e := range []int{25, 36, 38} { // Jan and Dec of y+2, Feb of y+3
				add(models.ShardMonth, ym(y, a)+"-"+ym(y, e))
			}
		}
	}
	for _, y := range []int{1999, 2000, 2015, 2016, 2099} {
		add(models.ShardYear, fmt.Sprintf("%d-%d", y, y+1))
		add(models.ShardYear, fmt.Sprintf("%d-%d", y, y+2))
		add(models.ShardYear, fmt.Sprintf("%d-%d", y, y))
		add(models.ShardYear, fmt.Sprintf("%d-%d", y+1, y))
		add(models.ShardYear, fmt.Sprintf("%d", y), fmt.Sprintf("%d-%d", y+1, y+2))
	}
	return out
}

// atDiscontinuity: periods next to a calendar discontinuity inside a long entry also get keys.
func atDiscontinuity(typ string, p period) bool {
	switch typ {
	case models.ShardDay:
		return (p.m == 12 && p.d == 31) || (p.m == 1 && p.d <= 2) || (p.m == 2 && p.d >= 28) || (p.m == 3 && p.d == 1)
	case models.ShardMonth:
		return p.m == 12 || p.m == 1
	}
	return false
}

// ---------------------------------------------------------------- calendar reference

// period is the first day of a calendar period (month = day = 1 for a year, day = 1 for a month).
type period struct{ y, m, d int }

func (p period) num(typ string) int {
	switch typ {
	case models.ShardYear:
		return p.y
	case models.ShardMonth:
		return p.y*100 + p.m
	}
	return p.y*10000 + p.m*100 + p.d
}

func shift(typ string, p period, by int) period {
	var t time.Time
	switch typ {
	case models.ShardYear:
		return period{p.y + by, 1, 1}
	case models.ShardMonth:
		t = time.Date(p.y, time.Month(p.m+by), 1, 0, 0, 0, 0, time.UTC)
	default:
		t = time.Date(p.y, time.Month(p.m), p.d+by, 0, 0, 0, 0, time.UTC)
	}
	return period{t.Year(), int(t.Month()), t.Day()}
}

func less(a, b period) bool {
	if a.y != b.y {
		return a.y < b.y
	}
	if a.m != b.m {
		return a.m < b.m
	}
	return a.d < b.d
}

func parsePeriod(typ, s string) (period, bool) {
	n, err := strconv.Atoi(s)
	if err != nil {
		return period{}, false
	}
	switch typ {
	case models.ShardYear:
		return period{n, 1, 1}, len(s) == 4
	case models.ShardMonth:
		return period{n / 100, n % 100, 1}, len(s) == 6
	}
	return period{n / 10000, n / 100 % 100, n % 100}, len(s) == 8
}

// refPeriods: "a" is one period, "a-b" all periods from the earlier to the later inclusive.
func refPeriods(typ, entry string) []period {
	parts := strings.Split(entry, "-")
	a, ok := parsePeriod(typ, parts[0])
	if !ok {
		ev.Fatalf("bad date_range entry in the universe: %s", entry)
	}
	b := a
	if len(parts) == 2 {
		if b, ok = parsePeriod(typ, parts[1]); !ok {
			ev.Fatalf("bad date_range entry in the universe: %s", entry)
		}
	}
	if less(b, a) {
		a, b = b, a
	}
	var out []period
	for p := a; !less(b, p); p = shift(typ, p, 1) {
		out = append(out, p)
	}
	return out
}

// ---------------------------------------------------------------- config-level checks

type cfgRef struct {
	indexes []int       // reference sub-table list
	sliceOf map[int]int // reference table -> slice index
	outside []int       // table numbers that must not be listed (neighbours)
	entries [][]period
}

func reference(c cfg) cfgRef {
	ref := cfgRef{sliceOf: map[int]int{}}
	if c.Type == models.ShardRange {
		t := 0
		for si, n := range c.Locations {
			for j := 0; j < n; j++ {
				ref.indexes = append(ref.indexes, t)
				ref.sliceOf[t] = si
				t++
			}
		}
		ref.outside = []int{-1, t}
		return ref
	}
	for si, e := range c.DateRange {
		ps := refPeriods(c.Type, e)
		ref.entries = append(ref.entries, ps)
		for _, p := range ps {
			ref.indexes = append(ref.indexes, p.num(c.Type))
			ref.sliceOf[p.num(c.Type)] = si
		}
	}
	for _, ps := range ref.entries {
		for _, q := range []period{shift(c.Type, ps[0], -1), shift(c.Type, ps[len(ps)-1], 1)} {
			if _, in := ref.sliceOf[q.num(c.Type)]; !in {
				ref.outside = append(ref.outside, q.num(c.Type))
			}
		}
	}
	return ref
}

func checkLayout(r *ev.Run, tz string, c cfg, rule, linked router.Rule, ref cfgRef) {
	bad := func(kind, msg string) {
		r.Violation(ev.Witness{
			Summary:  fmt.Sprintf("%s %s: %s", c.id(), kind, msg),
			Features: map[string]string{"rule": c.Type, "kind": kind, "keytype": "-", "keyclass": "-", "keylen": "-", "tz": tz},
			Case:     kcase{TZ: tz, Cfg: c, Key: key{T: "int64", I: 0}, Class: "layout", Want: want{Mode: "nopanic"}},
		})
	}
	for _, ru := range []router.Rule{rule, linked} {
		got := ru.GetSubTableIndexes()
		if fmt.Sprint(got) != fmt.Sprint(ref.indexes) && !(len(got) == 0 && len(ref.indexes) == 0) {
			bad("subtable_list", fmt.Sprintf("GetSubTableIndexes=%v, configured periods/tables are %v", trunc(got), trunc(ref.indexes)))
			return
		}
		for _, t := range ref.indexes {
			si := ru.GetSliceIndexFromTableIndex(t)
			if si != ref.sliceOf[t] {
				bad("slice_map", fmt.Sprintf("table %d is mapped to slice index %d, configured in entry %d", t, si, ref.sliceOf[t]))
				return
			}
			if ru.GetSlice(si) != sliceName(si) {
				bad("slice_map", fmt.Sprintf("table %d: slice name %q, want %q", t, ru.GetSlice(si), sliceName(si)))
				return
			}
		}
		for _, t := range ref.outside {
			if si := ru.GetSliceIndexFromTableIndex(t); si != -1 {
				bad("slice_map", fmt.Sprintf("table %d is not configured but mapped to slice index %d", t, si))
				return
			}
		}
	}
}

func trunc(v []int) string {
	if len(v) <= 14 {
		return fmt.Sprint(v)
	}
	return fmt.Sprintf("%v ... %v (%d entries)", v[:6], v[len(v)-6:], len(v))
}

// ---------------------------------------------------------------- key universe

func rangeKeys(c cfg) []kcase {
	tables := 0
	for _, n := range c.Locations {
		tables += n
	}
	lim := int64(c.Limit)
	hi := int64(tables) * lim
	vals := map[int64]bool{-1: true, 0: true, -2: true, hi + 5: true, math.MaxInt64: true, math.MaxInt64 - 1: true,
		math.MinInt64: true, math.MinInt64 + 1: true, 1 << 31: true, 1 << 32: true, 1<<32 + 1: true, -(1 << 32): true}
	for i := int64(0); i <= int64(tables); i++ {
		vals[i*lim-1], vals[i*lim], vals[i*lim+1] = true, true, true
		if lim > 2 {
			vals[i*lim+lim/2] = true
		}
	}
	var vs []int64
	for v := range vals {
		vs = append(vs, v)
	}
	sort.Slice(vs, func(i, j int) bool { return vs[i] < vs[j] })
	refOf := func(v int64) (want, string) {
		if v >= 0 && v < hi {
			return want{Mode: "place", Index: int(v / lim)}, "in_range"
		}
		return want{Mode: "error"}, "out_of_range"
	}
	var out []kcase
	add := func(k key, w want, class, note string) {
		out = append(out, kcase{Cfg: c, Key: k, Class: class, Want: w, Note: note})
	}
	for _, v := range vs {
		w, class := refOf(v)
		note := strconv.FormatInt(v, 10)
		add(key{T: "int64", I: v}, w, class, note)
		add(key{T: "int", I: v}, w, class, note)
		add(key{T: "string", S: note}, w, class+"_numeric_string", note)
		if v >= 0 {
			add(key{T: "uint64", U: uint64(v)}, w, class, note)
			add(key{T: "string", S: "00" + note}, w, class+"_numeric_string", note)
		}
	}
	// unsigned keys above the signed range and decimal strings outside int64: outside every interval
	for _, u := range []uint64{1 << 63, 1<<63 + 1, math.MaxUint64} {
		add(key{T: "uint64", U: u}, want{Mode: "error"}, "out_of_range", strconv.FormatUint(u, 10))
	}
	for _, s := range []string{"9223372036854775808", "-9223372036854775809", "18446744073709551616"} {
		add(key{T: "string", S: s}, want{Mode: "reject"}, "out_of_range_numeric_string", s)
	}
	for _, s := range []string{"", "a", "abc", "-", "+", " ", "中"} {
		add(key{T: "string", S: s}, want{Mode: "reject"}, "nonnumeric_string", "")
	}
	return out
}

// need = number of leading bytes of the string spelling that hold the period fields.
func need(typ string) int {
	switch typ {
	case models.ShardYear:
		return 4
	case models.ShardMonth:
		return 7
	}
	return 10
}

type instant struct{ y, mo, d, h, mi, s int }

func (i instant) date() string     { return fmt.Sprintf("%04d-%02d-%02d", i.y, i.mo, i.d) }
func (i instant) datetime() string { return fmt.Sprintf("%s %02d:%02d:%02d", i.date(), i.h, i.mi, i.s) }
func (i instant) unix(loc *time.Location) int64 {
	return time.Date(i.y, time.Month(i.mo), i.d, i.h, i.mi, i.s, 0, loc).Unix()
}

func lastDay(typ string, p period) period {
	switch typ {
	case models.ShardYear:
		return period{p.y, 12, 31}
	case models.ShardMonth:
		return period{p.y, p.m, time.Date(p.y, time.Month(p.m)+1, 0, 0, 0, 0, 0, time.UTC).Day()}
	}
	return p
}

func dateKeys(c cfg, ref cfgRef, loc *time.Location) []kcase {
	typ := c.Type
	var out []kcase
	add := func(k key, w want, class, note string) {
		out = append(out, kcase{Cfg: c, Key: k, Class: class, Want: w, Note: note})
	}
	// periods of interest: every configured period of short entries, the first/last four of
	// long ones, and the periods just before / after each entry.
	seen := map[period]bool{}
	var ps []period
	use := func(p period) {
		if !seen[p] && p.y >= 1 && p.y <= 9999 {
			seen[p] = true
			ps = append(ps, p)
		}
	}
	for _, e := range ref.entries {
		use(shift(typ, e[0], -1))
		for i, p := range e {
			if len(e) <= 10 || i < 4 || i >= len(e)-4 || atDiscontinuity(typ, p) {
				use(p)
			}
		}
		use(shift(typ, e[len(e)-1], 1))
	}
	for _, p := range ps {
		ld := lastDay(typ, p)
		for _, in := range []instant{
			{p.y, p.m, p.d, 0, 0, 0}, {p.y, p.m, p.d, 0, 0, 1}, {p.y, p.m, p.d, 12, 0, 0},
			{ld.y, ld.m, ld.d, 12, 30, 30}, {ld.y, ld.m, ld.d, 23, 59, 59},
		} {
			w := want{Mode: "place", Index: period{in.y, in.mo, in.d}.numOf(typ)}
			note := in.datetime()
			add(key{T: "string", S: in.datetime()}, w, "datetime", note)
			add(key{T: "string", S: in.date()}, w, "date", note)
			u := in.unix(loc)
			add(key{T: "int64", I: u}, w, "timestamp", note)
			add(key{T: "int", I: u}, w, "timestamp", note)
			if u >= 0 {
				add(key{T: "uint64", U: uint64(u)}, w, "timestamp", note)
			}
		}
	}
	// every prefix of a datetime inside the first configured period and of one outside
	first := ref.entries[0][0]
	after := shift(typ, ref.entries[len(ref.entries)-1][len(ref.entries[len(ref.entries)-1])-1], 1)
	for _, p := range []period{first, after} {
		in := instant{p.y, p.m, p.d, 10, 20, 30}
		full := in.datetime()
		idx := period{in.y, in.mo, in.d}.numOf(typ)
		for l := 0; l < len(full); l++ {
			if l == 10 {
				continue // the date spelling, covered above
			}
			s := full[:l]
			if l < need(typ) {
				add(key{T: "string", S: s}, want{Mode: "error"}, "short_string", "prefix of "+full)
			} else {
				add(key{T: "string", S: s}, want{Mode: "lenient", Index: idx}, "datetime_prefix", "prefix of "+full)
			}
		}
	}
	// digit-free strings of many lengths
	for _, s := range []string{"a", "ab", "abc", "abcd", "abcde", "abcdef", "abcdefg", "abcd-ef", "abcdefghi", "abcd-ef-gh",
		"----------", "abcd-ef-gh ij:kl:mn", "中", "中文", "中文日期", "年-月-日 时:分:秒", "          ", "\x00\x00\x00\x00\x00\x00\x00\x00\x00\x00"} {
		class := "digit_free"
		if len(s) < need(typ) {
			class = "short_string"
		}
		add(key{T: "string", S: s}, want{Mode: "error"}, class, "")
	}
	// one non-digit in a digit position the rule reads (not the leading one, where Atoi's sign
	// is tolerated by the code and nobody's business): malformed, must be an error value
	// (seed c09-5: a day field parsed on its own accepts "+5")
	for _, full := range []string{instant{first.y, first.m, first.d, 0, 0, 0}.date(), instant{first.y, first.m, first.d, 10, 20, 30}.datetime()} {
		for i := 1; i < need(typ) && i < len(full); i++ {
			if i == 4 || i == 7 {
				continue
			}
			for _, c := range []byte{'+', '-', ' ', 'x', '.', ':'} {
				b := []byte(full)
				b[i] = c
				add(key{T: "string", S: string(b)}, want{Mode: "error"}, "nondigit_in_field", fmt.Sprintf("position %d of %s", i, full))
			}
		}
	}
	// strings that are not one of the accepted spellings and whose reading is MySQL's or
	// nobody's business: only "no panic" is demanded
	for _, s := range []string{"2016-13-01", "2016-02-30", "2016-00-00", "1456790400", "20160301", "2016/03/01", "2016-3-1",
		"16-03-01", " 2016-03-01", "2016-03-01T10:20:30", "2016-03-01 10:20:30.123456", "2016-03-01 10:20:30 ", "+016-03-01", "-016-03-01"} {
		add(key{T: "string", S: s}, want{Mode: "nopanic"}, "other_string", "")
	}
	// instants that cannot be spelled as YYYY-MM-DD (year outside 1..9999) and extremes
	for _, v := range []int64{0, -1, 1, 253402300800 + 86400*2, -62135596800 - 86400*400, math.MaxInt64, math.MinInt64, 1 << 31, 1 << 32} {
		t := time.Unix(v, 0).In(loc)
		if t.Year() >= 1 && t.Year() <= 9999 && v > -62135596800 && v < 253402300800 {
			in := instant{t.Year(), int(t.Month()), t.Day(), t.Hour(), t.Minute(), t.Second()}
			if in.unix(loc) == v { // cross-checked in the other direction
				w := want{Mode: "place", Index: period{in.y, in.mo, in.d}.numOf(typ)}
				add(key{T: "int64", I: v}, w, "timestamp", in.datetime())
				continue
			}
		}
		add(key{T: "int64", I: v}, want{Mode: "nopanic"}, "timestamp_unspellable", "")
	}
	for _, u := range []uint64{1 << 63, math.MaxUint64} {
		add(key{T: "uint64", U: u}, want{Mode: "nopanic"}, "timestamp_unspellable", "")
	}
	return out
}

// numOf: number of the period that contains the day p.
func (p period) numOf(typ string) int { return p.num(typ) }

// ---------------------------------------------------------------- judging one key

func call(rule router.Rule, k key) (idx int, err error, pv interface{}) {
	pv = ev.Catch(func() { idx, err = rule.FindTableIndex(k.value()) })
	return
}

func judge(w want, idx int, err error, pv interface{}) (kind, msg string) {
	got := fmt.Sprintf("(%d, nil)", idx)
	if pv != nil {
		got = fmt.Sprintf("panic: %v", pv)
	} else if err != nil {
		got = fmt.Sprintf("error %q", err.Error())
	}
	switch w.Mode {
	case "place":
		switch {
		case pv != nil:
			return "panic", got + fmt.Sprintf(", want table %d", w.Index)
		case err != nil:
			return "rejected_valid_key", got + fmt.Sprintf(", want table %d", w.Index)
		case idx != w.Index:
			return "wrong_table", got + fmt.Sprintf(", want table %d", w.Index)
		}
	case "error":
		switch {
		case pv != nil:
			return "panic", got + ", want an error value"
		case err == nil:
			return "not_rejected", got + ", want an error value"
		}
	case "reject":
		if pv == nil && err == nil {
			return "not_rejected", got + ", want a rejection"
		}
	case "lenient":
		switch {
		case pv != nil:
			return "panic", got + fmt.Sprintf(", want an error value or table %d", w.Index)
		case err == nil && idx != w.Index:
			return "wrong_table", got + fmt.Sprintf(", want an error value or table %d", w.Index)
		}
	case "nopanic":
		if pv != nil {
			return "panic", got
		}
	}
	return "", got
}

func keylen(k key) string {
	if k.T != "string" {
		return "-"
	}
	return strconv.Itoa(len(k.S))
}

func runKey(r *ev.Run, kc kcase, rule, linked router.Rule, ref *cfgRef) {
	idx, err, pv := call(rule, kc.Key)
	r.Add("evaluations", 1)
	kind, msg := judge(kc.Want, idx, err, pv)
	if kind == "" && kc.Want.Mode == "place" {
		// the table of the key's own interval / period must be on the slice the configuration assigns to that
		// interval / date_range entry, and on no slice (-1) when the period is not configured
		wantSlice, in := ref.sliceOf[kc.Want.Index]
		if !in {
			wantSlice = -1
		}
		if got := rule.GetSliceIndexFromTableIndex(idx); got != wantSlice {
			kind, msg = "wrong_slice", fmt.Sprintf("placed in table %d, which is mapped to slice index %d; the configuration assigns slice index %d", idx, got, wantSlice)
		}
	}
	if kind == "" {
		// the linked table must follow its parent
		li, lerr, lpv := call(linked, kc.Key)
		if (lpv != nil) != (pv != nil) || (lerr != nil) != (err != nil) || (err == nil && pv == nil && li != idx) {
			kind, msg = "linked_differs", fmt.Sprintf("parent %s, linked table (%d,%v,%v)", msg, li, lerr, lpv)
		}
	}
	if kind != "" {
		r.Violation(ev.Witness{
			Summary: fmt.Sprintf("%s tz=%s key %s [%s %s]: %s", kc.Cfg.id(), kc.TZ, kc.Key, kc.Class, kc.Note, msg),
			Features: map[string]string{"rule": kc.Cfg.Type, "kind": kind, "keytype": kc.Key.T,
				"keyclass": kc.Class, "keylen": keylen(kc.Key), "tz": kc.TZ},
			Case: kc,
		})
		return
	}
	switch {
	case pv != nil:
		r.Distinct("rejected_by_keyerror_panic", kc.Cfg.Type+"|"+kc.Class)
		r.Add("rejections", 1)
	case err != nil:
		r.Distinct("rejections", kc.Cfg.id()+"|"+kc.Class+"|"+kc.Key.T)
		r.Add("rejections", 1)
	default:
		r.Add("placements", 1)
		if kc.Want.Mode == "place" && rule.GetSliceIndexFromTableIndex(idx) >= 0 {
			// non-trivial: a key placed in a configured table (distinct by configuration and table)
			r.Distinct("nontrivial", fmt.Sprintf("%s|%d", kc.Cfg.id(), idx))
			r.Distinct("placed_spellings", kc.Cfg.Type+"|"+kc.Class+"|"+kc.Key.T)
		} else if kc.Want.Mode == "place" {
			r.Distinct("placed_outside_configured", fmt.Sprintf("%s|%d", kc.Cfg.id(), idx))
		}
	}
}

// ---------------------------------------------------------------- main

func setTZ(name string) *time.Location {
	loc, err := time.LoadLocation(name)
	if err != nil {
		ev.Fatalf("time zone %s: %v", name, err)
	}
	time.Local = loc // "the proxy's time zone"; only changed between parallel sections
	return loc
}

func runConfig(r *ev.Run, tz string, loc *time.Location, c cfg, sample bool) {
	rule, linked, why := build(c)
	if rule == nil {
		ev.Fatalf("configuration %s of the (valid) universe cannot be loaded: %s", c.id(), why)
	}
	ref := reference(c)
	checkLayout(r, tz, c, rule, linked, ref)
	var ks []kcase
	if c.Type == models.ShardRange {
		ks = rangeKeys(c)
	} else {
		ks = dateKeys(c, ref, loc)
	}
	for i, kc := range ks {
		kc.TZ = tz
		runKey(r, kc, rule, linked, &ref)
		if sample && (i == 3 || i == len(ks)/2) {
			r.Sample(kc)
		}
	}
	r.Add("configurations", 1)
	r.Distinct("configs", c.id())
}

func main() {
	gx.Quiet()
	r := ev.Start("C09", "exploration")

	var rc kcase
	if r.ReplayCase(&rc) {
		loc := setTZ(rc.TZ)
		rule, linked, why := build(rc.Cfg)
		if rule == nil {
			ev.Fatalf("replay: configuration cannot be loaded: %s", why)
		}
		rref := reference(rc.Cfg)
		if rc.Class == "layout" {
			checkLayout(r, rc.TZ, rc.Cfg, rule, linked, rref)
		} else {
			runKey(r, rc, rule, linked, &rref)
		}
		_ = loc
		r.Set("rule", "replay of one recorded case")
		r.Finish()
	}

	zones := []string{"UTC", "Asia/Shanghai", "America/New_York"}
	if r.Thorough() {
		zones = append(zones, "Pacific/Auckland", "Europe/London", "Asia/Kolkata")
	}
	var cfgs []cfg
	perType := map[string]int{}
	seenCfg := map[string]bool{}
	for _, c := range append(append(dateConfigs(r.Thorough()), spanConfigs()...), rangeConfigs()...) {
		if !seenCfg[c.id()] {
			seenCfg[c.id()] = true
			cfgs = append(cfgs, c)
			perType[c.Type]++
		}
	}
	r.Set("configurations_per_rule_type", perType)
	for _, tz := range zones {
		loc := setTZ(tz)
		done := enum.Parallel(len(cfgs), r.TimeUp, func(i int) {
			runConfig(r, tz, loc, cfgs[i], i%40 == 0)
		})
		if done != len(cfgs) {
			r.Capped(fmt.Sprintf("time budget reached in zone %s after %d of %d configurations", tz, done, len(cfgs)))
			break
		}
	}
	r.Set("universe_configurations", len(cfgs))
	r.Set("time_zones", zones)
	r.Set("bound", "range: locations of 1-3 slices x 0-3 tables x table_row_limit {1,10,10000}; calendar: "+
		"the listed date_range lists (single, span, descending, year-end, multi-year, leap/non-leap February, several slices); "+
		"keys: every interval/period boundary and neighbour in every spelling and key type, all prefixes of a datetime, digit-free strings, extremes")
	r.Set("rule", "every configuration of the universe is loaded through Namespace.Verify + NewRouter; every key of its key "+
		"universe is passed to Rule.FindTableIndex and judged against the interval/calendar reference. "+
		"evaluations = FindTableIndex calls judged; distinct_nontrivial = distinct (configuration, table) pairs for which "+
		"some key was placed in a table that is configured and mapped to a slice (a real placement, not a rejection)")
	r.Assume("Go's time package is the calendar (used as fields->unix by the reference, unix->fields by Gaea)")
	r.Assume("the proxy's time zone is time.Local; zones with a DST switch at midnight are not in the universe")
	r.Assume("range rule: a digit-free string key may be rejected by the KeyError panic that handleQuery converts into an error")
	if r.DistinctN("nontrivial") < 50 || r.Count("rejections") < 50 {
		ev.Fatalf("vacuous run: %d distinct placements, %d rejections", r.DistinctN("nontrivial"), r.Count("rejections"))
	}
	r.Finish()
}
