// C14: prepared-statement parameters are exactly the SQL grammar's placeholders.
//
// Engine: enum. Universe: every sequence of ≤N lexical pieces (a '?' in every quoting /
// comment context, plus the separators needed to make statements grammatical) embedded in
// two SELECT skeletons, joined with and without blanks. Each text is
//   - parsed with Gaea's own SQL parser (the grammar the proxy plans with); texts it rejects
//     are outside the property;
//   - sent as COM_STMT_PREPARE to a real SessionExecutor; the parameter count the proxy
//     reports and the offsets it will substitute at are read from the resulting Stmt.
//
// Oracle: offsets reported == offsets of the ParamMarkerExpr nodes of the parsed statement.
// An independent lexer (ref/mylex) cross-checks the parser's answer and classifies the
// context of every discrepancy (that is what known-finding signatures are keyed on).
package main

import (
	"fmt"
	"sort"
	"strings"
	"sync"
	"sync/atomic"

	"github.com/XiaoMi/Gaea/mysql"
	"github.com/XiaoMi/Gaea/parser"
	"github.com/XiaoMi/Gaea/parser/ast"
	driver "github.com/XiaoMi/Gaea/parser/tidb-types/parser_driver"
	"github.com/XiaoMi/Gaea/proxy/server"

	"verif/engine/enum"
	"verif/engine/ev"
	"verif/engine/gx"
	"verif/ref/mylex"
	sessrig "verif/ref/sessrig_stmt"
)

// pieces, simplest first. Index 0 is never used as "default"; sequences are plain products.
var pieces = []string{
	"?",         // 0 a parameter
	"'a'",       // 1
	",",         // 2
	"id=",       // 3
	"'?'",       // 4 ? in a single-quoted string
	"\"?\"",     // 5 ? in a double-quoted string
	"`c?`",      // 6 ? in a quoted identifier
	"/* ? */",   // 7 ? in a C-style comment
	"-- ?\n",    // 8 ? in a -- comment
	"# ?\n",     // 9 ? in a # comment
	"'''?'",     // 10 ? after a doubled quote
	"'\\'?'",    // 11 ? after a backslash-escaped quote
	"\"\\\"?\"", // 12 same, double quotes
	"/* ' */",   // 13 a quote character inside a comment
	"`c'`",      // 14 a quote character inside a quoted identifier
	"'\"?'",     // 15 ? after the other quote character inside a string
	"'a\\\\'",   // 16 a string ending in an escaped backslash (added after seeded change c14-1 was missed)
	// multi-byte UTF-8 characters in every context (added after seeded change c14-3 was missed):
	// everything the proxy reports and cuts is in BYTES, a character-indexed walk goes wrong
	// after the first of these
	"'\u00e9'",         // 17 a 2-byte character inside a string
	"`\u20ac`",         // 18 a 3-byte character inside a quoted identifier
	"/* \U0001F600 */", // 19 a 4-byte character inside a comment
	"\u00e9",           // 20 a 2-byte character in plain text (a bare identifier)
}

var skeletons = [][2]string{
	{"select ", " from t"},
	{"select 1 from t where ", ""},
}
var joiners = []string{" ", ""}

type tcase struct {
	Skeleton int    `json:"skeleton"`
	Joiner   int    `json:"joiner"`
	Seq      []int  `json:"seq"`
	Text     string `json:"text"`
}

func (c *tcase) build() string {
	parts := make([]string, len(c.Seq))
	for i, p := range c.Seq {
		parts[i] = pieces[p]
	}
	sk := skeletons[c.Skeleton]
	return sk[0] + strings.Join(parts, joiners[c.Joiner]) + sk[1]
}

var parsers = sync.Pool{New: func() interface{} { return parser.New() }}

type markerVisitor struct{ offs []int }

func (v *markerVisitor) Enter(n ast.Node) (ast.Node, bool) {
	if p, ok := n.(*driver.ParamMarkerExpr); ok {
		v.offs = append(v.offs, p.Offset)
	}
	return n, false
}
func (v *markerVisitor) Leave(n ast.Node) (ast.Node, bool) { return n, true }

// grammarMarkers parses sql the way SessionExecutor.Parse does and returns the offsets of
// its parameter markers.
func grammarMarkers(sql string) (offs []int, ok bool) {
	var stmt ast.StmtNode
	var err error
	ps := parsers.Get().(*parser.Parser)
	defer parsers.Put(ps)
	if p := ev.Catch(func() { stmt, err = ps.ParseOneStmt(sql, "", "") }); p != nil || err != nil || stmt == nil {
		return nil, false
	}
	v := &markerVisitor{}
	stmt.Accept(v)
	sort.Ints(v.offs)
	return v.offs, true
}

// contextAt names the lexical context of byte offset off of sql (per ref/mylex).
func contextAt(toks []mylex.Token, sql string, off int) string {
	for _, t := range toks {
		if off < t.Off || off >= t.End {
			continue
		}
		switch t.Kind {
		case mylex.Comment:
			switch {
			case strings.HasPrefix(t.Text, "--"):
				return "line_comment_dash"
			case strings.HasPrefix(t.Text, "#"):
				return "line_comment_hash"
			default:
				return "block_comment"
			}
		case mylex.QuotedIdent:
			return "backquote"
		case mylex.String:
			before := sql[t.Off+1 : off]
			q := string(t.Quote)
			switch {
			case strings.Contains(before, "\\"+q):
				return "string_backslash_quote"
			case strings.Contains(before, q+q):
				return "string_doubled_quote"
			default:
				return "string_plain"
			}
		case mylex.Param:
			return "plain"
		}
		return "other_" + t.Kind.String()
	}
	return "outside_token"
}

// causeBefore names the first token, at or before byte offset off, that a scanner which only
// knows '…' and "…" strings can misread: a comment or quoted identifier containing a quote
// character or a '?', or a string containing a backslash-escaped quote. "none" if there is
// no such token (then the discrepancy has another reason).
func causeBefore(toks []mylex.Token, off int) string {
	fallback := "none"
	for _, t := range toks {
		if t.Off > off {
			break
		}
		switch t.Kind {
		case mylex.Comment:
			name := "block_comment"
			if strings.HasPrefix(t.Text, "--") {
				name = "line_comment_dash"
			} else if strings.HasPrefix(t.Text, "#") {
				name = "line_comment_hash"
			}
			if strings.ContainsAny(t.Text, "'\"") {
				return "comment_quote"
			}
			if strings.Contains(t.Text, "?") {
				return name + "_qmark"
			}
		case mylex.QuotedIdent:
			if t.Quote != '`' {
				continue
			}
			if strings.ContainsAny(t.Text, "'\"") {
				return "backquote_quote"
			}
			if strings.Contains(t.Text, "?") {
				return "backquote_qmark"
			}
		case mylex.String:
			// a backslash-escaped quote INSIDE the literal (not the closing quote after an
			// escaped backslash: 'a\\\\' ends in an escaped backslash and has none)
			if hasEscapedQuote(t.Text, t.Quote) {
				return "string_backslash_quote"
			}
			if strings.Contains(t.Text, "\\\\") {
				// harmless on its own for a scanner that ignores backslashes: lowest priority
				fallback = "string_escaped_backslash"
			}
		}
	}
	return fallback
}

// hasEscapedQuote scans the body of a string token (text includes the delimiters) pairing
// each backslash with the character it escapes.
func hasEscapedQuote(text string, quote byte) bool {
	if len(text) < 2 {
		return false
	}
	body := text[1 : len(text)-1]
	for i := 0; i < len(body); i++ {
		if body[i] == '\\' && i+1 < len(body) {
			if body[i+1] == quote {
				return true
			}
			i++
		}
	}
	return false
}

func intsEq(a, b []int) bool {
	if len(a) != len(b) {
		return false
	}
	for i := range a {
		if a[i] != b[i] {
			return false
		}
	}
	return true
}

var sessions chan *sessrig.Session

var nEval, nRejected, nAccepted, nRefused, nPrepared int64

func runCase(r *ev.Run, c tcase) {
	sql := c.build()
	c.Text = sql
	atomic.AddInt64(&nEval, 1)
	want, ok := grammarMarkers(sql)
	if !ok {
		atomic.AddInt64(&nRejected, 1)
		return
	}
	atomic.AddInt64(&nAccepted, 1)

	// independent cross-check of the oracle itself
	toks := mylex.Lex(sql, mylex.Mode{}, true)
	lexOffs, lexErr := mylex.Params(sql, mylex.Mode{})
	if lexErr != nil || !intsEq(lexOffs, want) {
		ev.Fatalf("oracle disagreement on %q: parser markers %v, mylex %v (%v)", sql, want, lexOffs, lexErr)
	}

	s := <-sessions
	resp := s.Cmd(mysql.ComStmtPrepare, []byte(sql))
	id, count, got, isStmt := server.VerifStmtOf(resp)
	items := server.VerifStmtItems(resp)
	if isStmt {
		var b [4]byte
		b[0], b[1], b[2], b[3] = byte(id), byte(id>>8), byte(id>>16), byte(id>>24)
		s.Cmd(mysql.ComStmtClose, b[:])
	}
	sessions <- s
	if !isStmt {
		// the proxy refused to prepare: it reports no parameters at all, which the
		// statement does not forbid. Counted, not judged.
		atomic.AddInt64(&nRefused, 1)
		r.Distinct("refused", fmt.Sprint(c.Seq))
		return
	}
	atomic.AddInt64(&nPrepared, 1)
	if count != len(got) {
		r.Violation(ev.Witness{Summary: fmt.Sprintf("%q: paramCount %d but %d offsets %v", sql, count, len(got), got),
			Features: map[string]string{"first_kind": "count_offsets_mismatch", "first_context": "none", "cause": "none"}, Case: c})
		return
	}
	// the pieces COM_STMT_EXECUTE reassembles the text from: concatenated they must be the
	// statement, byte for byte, and the "?" pieces must sit exactly at the reported offsets
	{
		var sb strings.Builder
		var at []int
		for _, it := range items {
			if it == "?" {
				at = append(at, sb.Len())
			}
			sb.WriteString(it)
		}
		if sb.String() != sql || !intsEq(at, got) {
			r.Violation(ev.Witness{
				Summary: fmt.Sprintf("prepare %q: the statement is cut into %q (markers at bytes %v), reported offsets %v; reassembled text %q",
					sql, items, at, got, sb.String()),
				Features: map[string]string{"first_kind": "pieces_do_not_reassemble", "first_context": "none", "cause": "none"}, Case: c})
			return
		}
	}
	if len(want) > 0 {
		// non-trivial: a statement with real parameters AND at least one '?' that is not one
		lex := 0
		for _, t := range toks {
			if t.Kind != mylex.Param {
				lex += strings.Count(t.Text, "?")
			}
		}
		if lex > 0 {
			r.Distinct("nontrivial", sql)
		}
	}
	if intsEq(got, want) {
		return
	}
	// first discrepancy
	inWant := map[int]bool{}
	for _, o := range want {
		inWant[o] = true
	}
	inGot := map[int]bool{}
	for _, o := range got {
		inGot[o] = true
	}
	first, kind := -1, ""
	for off := 0; off <= len(sql); off++ {
		if inGot[off] && !inWant[off] {
			first, kind = off, "extra"
			break
		}
		if inWant[off] && !inGot[off] {
			first, kind = off, "missing"
			break
		}
	}
	ctx := ""
	if kind == "extra" {
		if first < len(sql) && sql[first] == '?' {
			ctx = contextAt(toks, sql, first)
		} else {
			ctx = "not_a_question_mark"
		}
	} else {
		ctx = "plain"
	}
	cause := causeBefore(toks, first)
	r.Violation(ev.Witness{
		Summary: fmt.Sprintf("prepare %q: proxy reports %d parameter(s) at %v, the grammar has %d at %v (first difference: %s at byte %d, context %s, cause %s)",
			sql, count, got, len(want), want, kind, first, ctx, cause),
		Features: map[string]string{"first_kind": kind, "first_context": ctx, "cause": cause},
		Case:     c,
	})
}

func main() {
	gx.Quiet()
	r := ev.Start("C14", "exploration")
	const workers = 16
	if err := sessrig.Init(workers); err != nil {
		ev.Fatalf("sessrig: %v", err)
	}
	sessions = make(chan *sessrig.Session, workers)
	for i := 0; i < workers; i++ {
		sessions <- sessrig.Acquire().NewSession(false)
	}

	var c tcase
	if r.ReplayCase(&c) {
		runCase(r, c)
		r.Finish()
	}

	// universe = blocks (length, skeleton x joiner combo), shortest first. Quick: every combo
	// up to length 4; thorough: every combo up to length 5 and the first combo at length 6.
	// (after the alphabet grew to 21 pieces: quick = every combo up to length 3 and the two
	// joiners of the first skeleton at length 4; thorough = every combo up to length 5)
	fullLen, extraLen, extraCombos := 3, 4, 2
	if r.Thorough() {
		fullLen, extraLen, extraCombos = 5, 5, 0
	}
	a := len(pieces)
	combos := len(skeletons) * len(joiners)
	type block struct{ l, combo, size int }
	var blocks []block
	universe := 0
	for l, n := 1, a; l <= extraLen; l, n = l+1, n*a {
		for cb := 0; cb < combos; cb++ {
			if l > fullLen && cb >= extraCombos {
				continue
			}
			blocks = append(blocks, block{l, cb, n})
			universe += n
		}
	}
	r.Set("universe", universe)
	bound := fmt.Sprintf("alphabet of %d pieces; every sequence of length 1..%d in %d skeleton x joiner combinations", a, fullLen, combos)
	if extraLen > fullLen {
		bound += fmt.Sprintf(", and of length %d..%d in the first %d combination(s)", fullLen+1, extraLen, extraCombos)
	}
	r.Set("bound", bound)

	decode := func(i int) tcase {
		for _, bl := range blocks {
			if i >= bl.size {
				i -= bl.size
				continue
			}
			seq := make([]int, bl.l)
			for k := bl.l - 1; k >= 0; k-- {
				seq[k] = i % a
				i /= a
			}
			return tcase{Skeleton: bl.combo / len(joiners), Joiner: bl.combo % len(joiners), Seq: seq}
		}
		panic("index out of universe")
	}
	done := enum.Parallel(universe, r.TimeUp, func(i int) {
		c := decode(i)
		runCase(r, c)
		if i%(universe/6+1) == 7 {
			c.Text = c.build()
			r.Sample(c)
		}
	})
	if done < universe {
		r.Capped(fmt.Sprintf("%d of %d cases in index order (shortest sequences first)", done, universe))
	}
	// second family (added after seeded change c14-1 was missed): longer sequences over the
	// escape-related sub-alphabet only, so that two literals ending in an escaped backslash can
	// enclose a parameter ("'a\\\\' , ? , 'a\\\\'" needs 5 pieces)
	sub := []int{0, 2, 1, 16, 11, 10}
	subMin, subMax := extraLen+1, extraLen+2
	subUniverse := 0
	for l := subMin; l <= subMax; l++ {
		n := 1
		for k := 0; k < l; k++ {
			n *= len(sub)
		}
		subUniverse += n
	}
	r.Set("escape_family", fmt.Sprintf("every sequence of length %d..%d over pieces %v in the first skeleton x joiner combination (%d cases)", subMin, subMax, sub, subUniverse))
	doneSub := enum.Parallel(subUniverse, r.TimeUp, func(i int) {
		l := subMin
		n := 1
		for k := 0; k < l; k++ {
			n *= len(sub)
		}
		for i >= n {
			i -= n
			l++
			n *= len(sub)
		}
		seq := make([]int, l)
		for k := l - 1; k >= 0; k-- {
			seq[k] = sub[i%len(sub)]
			i /= len(sub)
		}
		runCase(r, tcase{Skeleton: 0, Joiner: 0, Seq: seq})
	})
	if doneSub < subUniverse {
		r.Capped(fmt.Sprintf("escape family: %d of %d cases", doneSub, subUniverse))
	}
	r.Set("evaluations", nEval)
	r.Set("parser_rejected", nRejected)
	r.Set("parser_accepted", nAccepted)
	r.Set("prepare_refused", nRefused)
	r.Set("prepared", nPrepared)
	if nPrepared == 0 || r.DistinctN("nontrivial") < 2 {
		ev.Fatalf("vacuous run: prepared=%d nontrivial=%d", nPrepared, r.DistinctN("nontrivial"))
	}
	r.Set("rule", "every sequence of 1..N lexical pieces (parameter, strings with plain/escaped/doubled quotes, quoted identifiers, --/#/C comments, each containing '?'; separators; 2-, 3- and 4-byte UTF-8 characters in a string, a quoted identifier, a comment and in plain text) in 2 SELECT skeletons, joined with ' ' and ''. Judged: texts Gaea's parser accepts and the proxy prepares. distinct_nontrivial = distinct prepared texts that have at least one real parameter marker and at least one '?' that is not one")
	r.Assume("Gaea's parser (parser.ParseOneStmt, the one the proxy plans with) defines the SQL grammar; cross-checked on every accepted text against the independent lexer ref/mylex (any disagreement is an engine error)")
	r.Assume("default sql_mode (backslash escapes on, ANSI_QUOTES off) — COM_STMT_PREPARE handling does not look at sql_mode")
	r.Assume("a prepare the proxy refuses (error response) reports no parameters and is not judged; counted as prepare_refused")
	r.Finish()
}
