// C10: accepted configurations load and give an unambiguous routing table.
//
// Engine: enum (bounded-exhaustive). For every rule type a valid base namespace
// (2 slices, one rule of the type on table t, a second hash table u, a linked table l -> t,
// a linked table l2 -> t) is varied in every way that differs from the base in at most
// 3 (quick) / 4 (thorough) of its dimensions (enum.Deviations). Every variant is handed to
// the control plane's validation, models.Namespace.Verify(). For every variant that Verify
// accepts, the proxy's loading steps are executed on the real code
// (router.NewRouter and server.NewNamespace) and the loaded routing table is inspected:
//
//	load_failed         NewRouter / NewNamespace returns an error or panics
//	duplicate_table     GetSubTableIndexes lists an index twice
//	negative_table      GetSubTableIndexes lists a negative index
//	slice_map           a listed table has no slice / a slice that is not a namespace slice
//	db_map              (mycat, global) a listed table has no physical database
//	duplicate_database  (mycat, global) the same (slice, physical database) is listed twice
//	unlisted_index      (hash, mod, range, mycat_*) FindTableIndex(key) returns (i, nil) with i not listed
//
// A sharding function that answers a key with an error or a (recovered) panic names no
// table and is only counted.
package main

import (
	"fmt"
	"math"
	"sort"
	"strings"
	"sync"

	"github.com/XiaoMi/Gaea/models"
	"github.com/XiaoMi/Gaea/proxy/router"
	"github.com/XiaoMi/Gaea/proxy/server"

	"verif/engine/enum"
	"verif/engine/ev"
	"verif/engine/gx"
)

// ---------------------------------------------------------------- configuration vector

// cvec is one fully written-out configuration (also the replay case).
type cvec struct {
	Type      string   `json:"type"`
	NsSlices  int      `json:"ns_slices"`
	Default   string   `json:"default_slice"`
	Table     string   `json:"table"`
	Locations []int    `json:"locations"`
	Slices    []string `json:"slices"`
	Databases []string `json:"databases,omitempty"`
	DateRange []string `json:"date_range,omitempty"`
	Limit     int      `json:"table_row_limit,omitempty"`
	PC        string   `json:"partition_count,omitempty"`
	PL        string   `json:"partition_length,omitempty"`
	HS        string   `json:"hash_slice,omitempty"`
	Seed      string   `json:"seed,omitempty"`
	VBT       string   `json:"virtual_bucket_times,omitempty"`
	PadFrom   string   `json:"pad_from,omitempty"`
	PadLength string   `json:"pad_length,omitempty"`
	ModBegin  string   `json:"mod_begin,omitempty"`
	ModEnd    string   `json:"mod_end,omitempty"`
	R2Table   string   `json:"second_table"` // "" = rule absent
	R3Table   string   `json:"linked_table"` // "" = rule absent
	R3Parent  string   `json:"linked_parent"`
}

const logicDB = "db"

func nsSliceNames(n int) []string {
	var out []string
	for i := 0; i < n; i++ {
		out = append(out, fmt.Sprintf("slice-%d", i))
	}
	return out
}

func (c cvec) namespace() *models.Namespace {
	ns := &models.Namespace{
		Name:         "ns",
		AllowedDBS:   map[string]bool{logicDB: true},
		Users:        []*models.User{{UserName: "u", Password: "p", Namespace: "ns", RWFlag: models.ReadWrite}},
		DefaultSlice: c.Default,
	}
	for i, name := range nsSliceNames(c.NsSlices) {
		ns.Slices = append(ns.Slices, &models.Slice{Name: name, UserName: "r", Password: "r",
			Master: fmt.Sprintf("127.0.0.1:%d", 3306+i), Capacity: 1, MaxCapacity: 1})
	}
	ns.ShardRules = append(ns.ShardRules, &models.Shard{DB: logicDB, Table: c.Table, Type: c.Type, Key: "k",
		Locations: c.Locations, Slices: c.Slices, Databases: c.Databases, DateRange: c.DateRange, TableRowLimit: c.Limit,
		PartitionCount: c.PC, PartitionLength: c.PL, HashSlice: c.HS, Seed: c.Seed, VirtualBucketTimes: c.VBT,
		PadFrom: c.PadFrom, PadLength: c.PadLength, ModBegin: c.ModBegin, ModEnd: c.ModEnd})
	if c.R2Table != "" {
		ns.ShardRules = append(ns.ShardRules, &models.Shard{DB: logicDB, Table: c.R2Table, Type: models.ShardHash, Key: "k",
			Locations: []int{1}, Slices: []string{"slice-0"}})
	}
	if c.R3Table != "" {
		ns.ShardRules = append(ns.ShardRules, &models.Shard{DB: logicDB, Table: c.R3Table, Type: models.ShardLinked, Key: "k", ParentTable: c.R3Parent})
	}
	ns.ShardRules = append(ns.ShardRules, &models.Shard{DB: logicDB, Table: "l2", Type: models.ShardLinked, Key: "k", ParentTable: c.Table})
	return ns
}

// ---------------------------------------------------------------- dimensions

// raw holds the parts the dimensions select; finalize turns it into a cvec.
type raw struct {
	c                cvec
	llen, slen, dlen int
	loc              [3]int
	sl, dr           [3]string
	hasLoc, hasDR    bool
}

func (r *raw) finalize() cvec {
	c := r.c
	if r.hasLoc {
		c.Locations = append([]int{}, r.loc[:r.llen]...)
	}
	c.Slices = append([]string{}, r.sl[:r.slen]...)
	if r.hasDR {
		c.DateRange = append([]string{}, r.dr[:r.dlen]...)
	}
	return c
}

type dim struct {
	name string
	n    int
	set  func(r *raw, v int)
}

func strDim(name string, vals []string, f func(r *raw, s string)) dim {
	return dim{name, len(vals), func(r *raw, v int) { f(r, vals[v]) }}
}

func intDim(name string, vals []int, f func(r *raw, i int)) dim {
	return dim{name, len(vals), func(r *raw, v int) { f(r, vals[v]) }}
}

var dbLists = [][]string{nil, {"d0", "d1"}, {"db[0-1]"}, {"db[1-0]"}, {"db[0-3]"}, {"d0", "d1", "d2", "d3"}, {"d0", "d0", "d1", "d1"},
	{"db[0-2]"}, {"d0"}, {"d0", "d1", "d0", "d1"}}

var dateVals = map[string][3][]string{
	models.ShardYear: {
		{"2015", "2013-2015", "2015-2013", "15", "2015-2016", "20a5", ""},
		{"2016", "2016-2018", "2018-2016", "2015", "2014", "x"},
		{"2019", "2019-2020", "2016", "bad"}},
	models.ShardMonth: {
		{"201503", "201501-201503", "201503-201501", "201513", "2015-03", "201503-201604", "201511-201602"},
		{"201604", "201604-201606", "201606-201604", "201503", "201502", "201600"},
		{"201701", "201701-201702", "201604", "bad"}},
	models.ShardDay: {
		{"20150301", "20150227-20150302", "20150302-20150227", "20150230", "2015031", "20150301-20160401", "20151230-20160102"},
		{"20160401", "20160401-20160403", "20160403-20160401", "20150301", "20150228", "20160431"},
		{"20170101", "20170101-20170102", "20160401", "bad"}},
}

func isMycat(t string) bool {
	switch t {
	case models.ShardMycatMod, models.ShardMycatLong, models.ShardMycatString, models.ShardMycatMURMUR, models.ShardMycatPaddingMod:
		return true
	}
	return false
}

func isDate(t string) bool {
	return t == models.ShardYear || t == models.ShardMonth || t == models.ShardDay
}

// dimsOf returns the base configuration (value 0 of every dimension) and the dimensions of a rule type.
func dimsOf(typ string) (raw, []dim) {
	b := raw{c: cvec{Type: typ, NsSlices: 2, Default: "slice-0", Table: "t", R2Table: "u", R3Table: "l", R3Parent: "t"}}
	b.slen, b.sl = 2, [3]string{"slice-0", "slice-1", "slice-0"}
	ds := []dim{
		intDim("ns_slices", []int{2, 1}, func(r *raw, i int) { r.c.NsSlices = i }),
		strDim("default_slice", []string{"slice-0", "", "nope", "slice-1"}, func(r *raw, s string) { r.c.Default = s }),
		strDim("table", []string{"t", "T"}, func(r *raw, s string) { r.c.Table = s }),
		strDim("second_table", []string{"u", "t", "T", ""}, func(r *raw, s string) { r.c.R2Table = s }),
		strDim("linked_table", []string{"l", "t", "T", "u", ""}, func(r *raw, s string) { r.c.R3Table = s }),
		strDim("linked_parent", []string{"t", "T", "zz", "l2", "u"}, func(r *raw, s string) { r.c.R3Parent = s }),
		intDim("slices_len", []int{2, 0, 1, 3}, func(r *raw, i int) { r.slen = i }),
		strDim("slices[0]", []string{"slice-0", "slice-1", "nope"}, func(r *raw, s string) { r.sl[0] = s }),
		strDim("slices[1]", []string{"slice-1", "slice-0", "nope"}, func(r *raw, s string) { r.sl[1] = s }),
		strDim("slices[2]", []string{"slice-0", "slice-1", "nope"}, func(r *raw, s string) { r.sl[2] = s }),
	}
	if isDate(typ) {
		v := dateVals[typ]
		b.hasDR, b.dlen, b.dr = true, 2, [3]string{v[0][0], v[1][0], v[2][0]}
		ds = append(ds,
			intDim("date_range_len", []int{2, 0, 1, 3}, func(r *raw, i int) { r.dlen = i }),
			strDim("date_range[0]", v[0], func(r *raw, s string) { r.dr[0] = s }),
			strDim("date_range[1]", v[1], func(r *raw, s string) { r.dr[1] = s }),
			strDim("date_range[2]", v[2], func(r *raw, s string) { r.dr[2] = s }))
		return b, ds
	}
	b.hasLoc, b.llen, b.loc = true, 2, [3]int{2, 2, 1}
	ds = append(ds,
		intDim("locations_len", []int{2, 0, 1, 3}, func(r *raw, i int) { r.llen = i }),
		intDim("locations[0]", []int{2, -1, 0, 1}, func(r *raw, i int) { r.loc[0] = i }),
		intDim("locations[1]", []int{2, -1, 0, 1}, func(r *raw, i int) { r.loc[1] = i }),
		intDim("locations[2]", []int{1, -1, 0, 2}, func(r *raw, i int) { r.loc[2] = i }))
	dbDim := func(base int) dim {
		order := append([]int{base}, func() (o []int) {
			for i := range dbLists {
				if i != base {
					o = append(o, i)
				}
			}
			return
		}()...)
		return intDim("databases", order, func(r *raw, i int) { r.c.Databases = dbLists[i] })
	}
	switch {
	case typ == models.ShardRange:
		b.c.Limit = 10000
		ds = append(ds, intDim("table_row_limit", []int{10000, 0, -1, 1}, func(r *raw, i int) { r.c.Limit = i }))
	case typ == models.ShardGlobal:
		b.loc = [3]int{1, 1, 1}
		ds[11] = intDim("locations[0]", []int{1, -1, 0, 2}, func(r *raw, i int) { r.loc[0] = i })
		ds[12] = intDim("locations[1]", []int{1, -1, 0, 2}, func(r *raw, i int) { r.loc[1] = i })
		ds = append(ds, dbDim(0))
	case isMycat(typ):
		b.c.Databases = dbLists[4]
		ds = append(ds, dbDim(4))
	}
	switch typ {
	case models.ShardMycatLong, models.ShardMycatString:
		b.c.PC, b.c.PL = "2,2", "256,256"
		ds = append(ds,
			strDim("partition_count", []string{"2,2", "4", "2,1", "2", "a", "1,1,1,1", "-1,5", "", "3", "1,2"}, func(r *raw, s string) { r.c.PC = s }),
			strDim("partition_length", []string{"256,256", "256", "512,256", "256,128", "x", "", "128,384", "512", "256,512", "1024"}, func(r *raw, s string) { r.c.PL = s }))
		if typ == models.ShardMycatString {
			b.c.HS = "2"
			ds = append(ds, strDim("hash_slice", []string{"2", ":", "-2:", "a", "1:2:3", "", " 1:2 "}, func(r *raw, s string) { r.c.HS = s }))
		}
	case models.ShardMycatMURMUR:
		b.c.Seed, b.c.VBT = "0", "160"
		ds = append(ds,
			strDim("seed", []string{"0", "-1", "x", "", "4294967296"}, func(r *raw, s string) { r.c.Seed = s }),
			strDim("virtual_bucket_times", []string{"160", "", "0", "-1", "x", "1"}, func(r *raw, s string) { r.c.VBT = s }))
	case models.ShardMycatPaddingMod:
		b.c.PadFrom, b.c.PadLength, b.c.ModBegin, b.c.ModEnd = "1", "18", "10", "16"
		ds = append(ds,
			strDim("pad_from", []string{"1", "0", "2", "x", ""}, func(r *raw, s string) { r.c.PadFrom = s }),
			strDim("pad_length", []string{"18", "0", "5", "x", "6"}, func(r *raw, s string) { r.c.PadLength = s }),
			strDim("mod_begin", []string{"10", "-1", "16", "x", "0"}, func(r *raw, s string) { r.c.ModBegin = s }),
			strDim("mod_end", []string{"16", "10", "19", "x", "6"}, func(r *raw, s string) { r.c.ModEnd = s }))
	}
	return b, ds
}

var ruleTypes = []string{models.ShardHash, models.ShardMod, models.ShardRange, models.ShardYear, models.ShardMonth, models.ShardDay,
	models.ShardMycatMod, models.ShardMycatLong, models.ShardMycatString, models.ShardMycatMURMUR, models.ShardMycatPaddingMod,
	models.ShardGlobal}

// ---------------------------------------------------------------- features of a configuration

func features(c cvec) map[string]string {
	f := map[string]string{"type": c.Type, "neg_location": "no", "case_dup": "no", "default_slice": "existing",
		"dup_db_cfg": "no", "rule_slices_gt_ns": "no"}
	if dbs, err := router.GetRealDatabases(c.Databases); err == nil {
		seen := map[string]bool{}
		for _, d := range dbs {
			if seen[d] {
				f["dup_db_cfg"] = "yes" // the configured databases list names a database twice
			}
			seen[d] = true
		}
	}
	if len(c.Slices) > c.NsSlices {
		f["rule_slices_gt_ns"] = "yes" // the rule's slices list is longer than the namespace's (a slice is repeated)
	}
	for _, l := range c.Locations {
		if l < 0 {
			f["neg_location"] = "yes"
		}
	}
	switch {
	case c.Default == "":
		f["default_slice"] = "empty"
	case !contains(nsSliceNames(c.NsSlices), c.Default):
		f["default_slice"] = "unknown"
	}
	names := []string{c.Table, "l2"}
	if c.R2Table != "" {
		names = append(names, c.R2Table)
	}
	if c.R3Table != "" {
		names = append(names, c.R3Table)
	}
	for i := range names {
		for j := 0; j < i; j++ {
			if names[i] != names[j] && strings.EqualFold(names[i], names[j]) {
				f["case_dup"] = "yes"
			}
		}
	}
	return f
}

func contains(l []string, s string) bool {
	for _, x := range l {
		if x == s {
			return true
		}
	}
	return false
}

func reasonOf(msg string) string {
	switch {
	case strings.Contains(msg, "default slice"):
		return "default_slice_not_in_list"
	case strings.Contains(msg, "duplicate"):
		return "duplicate_table"
	case strings.Contains(msg, "parent table of LinkedRule"):
		return "linked_parent_missing"
	case strings.Contains(msg, "not in the namespace.slices"):
		return "unknown_slice"
	case strings.HasPrefix(msg, "panic"):
		return "panic"
	}
	w := strings.Fields(msg)
	if len(w) > 6 {
		w = w[:6]
	}
	return "other: " + strings.Join(w, " ")
}

// ---------------------------------------------------------------- the check of one configuration

type keyT struct {
	class string
	v     interface{}
}

var keySample = []keyT{
	{"int64", int64(0)}, {"int64", int64(1)}, {"int64", int64(2)}, {"int64", int64(3)}, {"int64", int64(5)}, {"int64", int64(7)},
	{"int64", int64(-1)}, {"int64", int64(-7)}, {"int64", int64(1023)}, {"int64", int64(1024)}, {"int64", int64(9999)},
	{"int64", int64(10000)}, {"int64", int64(19999)}, {"int64", int64(20000)}, {"int64", int64(39999)}, {"int64", int64(40000)},
	{"int64", int64(123456789012)}, {"int64", int64(math.MaxInt64)}, {"min_int64", int64(math.MinInt64)},
	{"uint64", uint64(17)}, {"string", "0"}, {"string", "7"}, {"string", "-12"}, {"string", "abc"}, {"string", ""}, {"string", "中"},
}

func hasShardingFn(t string) bool {
	return t == models.ShardHash || t == models.ShardMod || t == models.ShardRange || isMycat(t)
}

type verdict struct {
	kind, msg string
	extra     map[string]string
}

// inspect loads an accepted configuration like a proxy does and inspects the routing table.
// It returns the first violation (fixed order) or nil, and a rendering of the loaded table.
func inspect(r *ev.Run, c cvec) (*verdict, string) {
	ns := c.namespace()
	var rt *router.Router
	var err error
	if p := ev.Catch(func() { rt, err = router.NewRouter(ns) }); p != nil {
		return &verdict{"load_failed", fmt.Sprintf("router.NewRouter panics: %v", p), map[string]string{"reason": "panic", "step": "NewRouter"}}, ""
	}
	if err != nil {
		return &verdict{"load_failed", "router.NewRouter: " + err.Error(), map[string]string{"reason": reasonOf(err.Error()), "step": "NewRouter"}}, ""
	}
	if v := loadNamespace(c); v != nil {
		return v, ""
	}

	nsSlices := nsSliceNames(c.NsSlices)
	var render []string
	for _, sh := range ns.ShardRules {
		if sh.Type == models.ShardLinked {
			continue
		}
		rule, ok := rt.GetShardRule(sh.DB, strings.ToLower(sh.Table))
		if !ok {
			return &verdict{"load_failed", fmt.Sprintf("table %s has no rule in the loaded router", sh.Table), map[string]string{"reason": "rule_missing", "step": "GetShardRule"}}, ""
		}
		if rule.IsLinkedRule() {
			// a linked table with the same lower-case name replaced it; inspect what it links to
			render = append(render, sh.Table+"=>linked")
		}
		idxs := rule.GetSubTableIndexes()
		listed := map[int]bool{}
		phys := map[string]bool{}
		var line []string
		for _, idx := range idxs {
			if listed[idx] {
				return &verdict{"duplicate_table", fmt.Sprintf("table %s (%s): GetSubTableIndexes=%v lists %d twice", sh.Table, sh.Type, idxs, idx), nil}, ""
			}
			listed[idx] = true
		}
		for _, idx := range idxs {
			if idx < 0 {
				return &verdict{"negative_table", fmt.Sprintf("table %s (%s): GetSubTableIndexes=%v lists a negative index", sh.Table, sh.Type, idxs), nil}, ""
			}
			si := rule.GetSliceIndexFromTableIndex(idx)
			var sname string
			if p := ev.Catch(func() { sname = rule.GetSlice(si) }); p != nil || !contains(nsSlices, sname) {
				return &verdict{"slice_map", fmt.Sprintf("table %s (%s): index %d -> slice index %d -> %q (%v)", sh.Table, sh.Type, idx, si, sname, p), nil}, ""
			}
			cell := fmt.Sprintf("%d@%s", idx, sname)
			if isMycat(sh.Type) || sh.Type == models.ShardGlobal {
				var db string
				var derr error
				if p := ev.Catch(func() { db, derr = rule.GetDatabaseNameByTableIndex(idx) }); p != nil || derr != nil {
					return &verdict{"db_map", fmt.Sprintf("table %s (%s): index %d has no physical database (%v %v)", sh.Table, sh.Type, idx, derr, p), nil}, ""
				}
				cell += "/" + db
				// a global table without a databases list is "the same table in the logical database on every
				// slice"; the repository's own sample configuration gives it locations [2,2], i.e. lists every
				// (slice, database) twice. That duplication is by design of the format, not checked here.
				if phys[sname+"/"+db] && !(sh.Type == models.ShardGlobal && len(sh.Databases) == 0) {
					return &verdict{"duplicate_database", fmt.Sprintf("table %s (%s): physical database %s on %s is listed twice (databases %v)", sh.Table, sh.Type, db, sname, sh.Databases), nil}, ""
				}
				phys[sname+"/"+db] = true
			}
			line = append(line, cell)
		}
		render = append(render, sh.Table+":"+sh.Type+"["+strings.Join(line, " ")+"]")
		if hasShardingFn(sh.Type) {
			for _, k := range keySample {
				var idx int
				var ferr error
				p := ev.Catch(func() { idx, ferr = rule.FindTableIndex(k.v) })
				r.Add("sharding_fn_calls", 1)
				switch {
				case p != nil:
					r.Distinct("sharding_fn_panics", fmt.Sprintf("%s|tables=%d|%s|%.40v", sh.Type, len(idxs), k.class, p))
				case ferr != nil:
					r.Distinct("sharding_fn_errors", fmt.Sprintf("%s|%s", sh.Type, k.class))
				case !listed[idx]:
					return &verdict{"unlisted_index", fmt.Sprintf("table %s (%s): FindTableIndex(%v)=%d, listed tables %v", sh.Table, sh.Type, k.v, idx, idxs),
						map[string]string{"keyclass": k.class, "fn_rule": sh.Type}}, ""
				}
			}
		}
	}
	sort.Strings(render)
	return nil, strings.Join(render, ";")
}

// loadNamespace runs the proxy's own constructor for a namespace (slices, users, charset,
// default physical databases, router, sequences) and releases it again.
func loadNamespace(c cvec) *verdict {
	var sn *server.Namespace
	var err error
	if p := ev.Catch(func() { sn, err = server.NewNamespace(c.namespace(), "") }); p != nil {
		return &verdict{"load_failed", fmt.Sprintf("server.NewNamespace panics: %v", p), map[string]string{"reason": "panic", "step": "NewNamespace"}}
	}
	if err != nil {
		return &verdict{"load_failed", "server.NewNamespace: " + err.Error(), map[string]string{"reason": reasonOf(err.Error()), "step": "NewNamespace"}}
	}
	sn.Close(false)
	return nil
}

func runOne(r *ev.Run, c cvec, sample bool) {
	r.Add("evaluations", 1)
	ns := c.namespace()
	var verr error
	if p := ev.Catch(func() { verr = ns.Verify() }); p != nil {
		r.Add("verify_panics", 1)
		r.Distinct("verify_panics", fmt.Sprintf("%s|%.60v", c.Type, p))
		notePanic(fmt.Sprintf("%s: %.80v", c.Type, p), c)
		return
	}
	if verr != nil {
		r.Add("rejected_by_verify", 1)
		r.Distinct("rejection_reasons", c.Type+"|"+reasonOf(verr.Error()))
		return
	}
	r.Add("accepted_by_verify", 1)
	v, table := inspect(r, c)
	if v == nil {
		// non-trivial: accepted, loaded, inspected; distinct by the loaded routing table
		r.Distinct("nontrivial", c.Type+"|"+table)
		if sample {
			r.Sample(c)
		}
		return
	}
	f := features(c)
	f["kind"] = v.kind
	for _, k := range []string{"reason", "step", "keyclass", "fn_rule"} {
		f[k] = "-"
	}
	for k, val := range v.extra {
		f[k] = val
	}
	noteClass(fmt.Sprintf("%s rule=%s reason=%s keyclass=%s neg_location=%s case_dup=%s default_slice=%s dup_db_cfg=%s rule_slices_gt_ns=%s", v.kind,
		f["fn_rule"], f["reason"], f["keyclass"], f["neg_location"], f["case_dup"], f["default_slice"], f["dup_db_cfg"], f["rule_slices_gt_ns"]))
	r.Violation(ev.Witness{Summary: fmt.Sprintf("accepted by Verify, then %s: %s  [%s]", v.kind, v.msg, describe(c)), Features: f, Case: c})
}

var (
	classMu sync.Mutex
	classes = map[string]int{}
)

var panicEx = map[string]cvec{}

// notePanic keeps one example configuration per distinct panic inside Namespace.Verify (an observation:
// such a configuration is not "accepted", so the property says nothing about it).
func notePanic(k string, c cvec) {
	classMu.Lock()
	if _, ok := panicEx[k]; !ok {
		panicEx[k] = c
	}
	classMu.Unlock()
}

// noteClass counts violations per mechanism class (reported in coverage.violation_classes).
func noteClass(s string) {
	classMu.Lock()
	classes[s]++
	classMu.Unlock()
}

func describe(c cvec) string {
	s := fmt.Sprintf("%s table=%s default_slice=%q ns_slices=%d slices=%v", c.Type, c.Table, c.Default, c.NsSlices, c.Slices)
	if c.Locations != nil {
		s += fmt.Sprintf(" locations=%v", c.Locations)
	}
	if c.DateRange != nil {
		s += fmt.Sprintf(" date_range=%v", c.DateRange)
	}
	if c.Databases != nil {
		s += fmt.Sprintf(" databases=%v", c.Databases)
	}
	return s + fmt.Sprintf(" second=%q linked=%q->%q", c.R2Table, c.R3Table, c.R3Parent)
}

func main() {
	gx.Quiet()
	r := ev.Start("C10", "exploration")

	var rc cvec
	if r.ReplayCase(&rc) {
		runOne(r, rc, false)
		r.Set("rule", "replay of one recorded configuration")
		r.Finish()
	}

	k := r.Pick(3, 4)
	// the serial part only records compact index vectors; configurations are written out by the workers
	type job struct {
		typ int
		idx []uint8
	}
	var all []job
	perType := map[string]int{}
	bases := make([]raw, len(ruleTypes))
	dimss := make([][]dim, len(ruleTypes))
	for t, typ := range ruleTypes {
		bases[t], dimss[t] = dimsOf(typ)
		sizes := make([]int, len(dimss[t]))
		for i, d := range dimss[t] {
			sizes[i] = d.n
		}
		enum.Deviations(sizes, k, func(idx []int) {
			v := make([]uint8, len(idx))
			for i, x := range idx {
				v[i] = uint8(x)
			}
			all = append(all, job{t, v})
			perType[typ]++
		})
	}
	done := enum.Parallel(len(all), r.TimeUp, func(i int) {
		j := all[i]
		rw := bases[j.typ]
		for d, v := range j.idx {
			if v != 0 {
				dimss[j.typ][d].set(&rw, int(v))
			}
		}
		runOne(r, rw.finalize(), i%997 == 0)
	})
	if done != len(all) {
		r.Capped(fmt.Sprintf("time budget reached after %d of %d configurations", done, len(all)))
	}
	r.Set("violation_classes", classes)
	r.Set("verify_panic_examples", panicEx)
	r.Set("universe_configurations", len(all))
	r.Set("configurations_per_rule_type", perType)
	r.Set("max_deviations_from_base", k)
	r.Set("rule", fmt.Sprintf("for each of %d rule types, every configuration that differs from the valid base namespace in at most %d "+
		"dimensions (namespace slices, default slice, table names and case, second table, linked table and parent, rule slices, locations, "+
		"databases, date ranges, row limit, partition/hash/murmur/padding parameters; enum.Deviations) is given to Namespace.Verify; "+
		"evaluations = configurations verified; every accepted one is loaded with router.NewRouter and server.NewNamespace and its routing "+
		"table inspected. distinct_nontrivial = distinct loaded routing tables (rule type + per table: listed index@slice/database) among "+
		"accepted configurations that passed every check", len(ruleTypes), k))
	r.Assume("the control plane's validation is models.Namespace.Verify (cc service and Store.LoadNamespace call exactly it)")
	r.Assume("loading = router.NewRouter + server.NewNamespace (no backend is contacted: connection pools are lazy)")
	r.Assume("a sharding function that answers with an error or a panic recovered by handleQuery names no table (counted, not a violation)")
	if done == len(all) && (r.DistinctN("nontrivial") < 50 || r.Count("rejected_by_verify") < 100) {
		ev.Fatalf("vacuous run: %d distinct loaded tables, %d rejections", r.DistinctN("nontrivial"), r.Count("rejected_by_verify"))
	}
	r.Finish()
}
