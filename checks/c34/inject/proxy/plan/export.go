//go:build verif

package plan

// VerifInsertSQLs returns the backend statements of an insert plan (slice -> db -> SQL texts)
// - what the planned INSERT/REPLACE would send, with the sequence values it was handed
// (injected accessor for the C34 harness; not part of Gaea).
func VerifInsertSQLs(p Plan) (map[string]map[string][]string, bool) {
	ip, ok := p.(*InsertPlan)
	if !ok {
		return nil, false
	}
	return ip.sqls, true
}
