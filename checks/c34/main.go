// C34: global sequence values are never issued twice.
//
// Engine: vsched (cooperative scheduler + deviation-bounded DFS) on the real
// sequence.MySQLSequence. proxy/sequence/mysql.go is rewritten by mkoverlay so that its
// mutex is a scheduling point and the fields curr/max are access points (scheduling points
// and inputs of the happens-before race detector).
//
// World: 1-3 MySQLSequence objects ("proxies"), each bound to a real backend.Slice whose
// master ConnPool is a fake; all fakes share ONE reference sequence table (current value,
// increment) modelled after docs/sequence-id.md: mycat_seq_nextval = `current += increment`,
// reply "current,increment" - one atomic table step per Execute. The outcome of every block
// fetch is an environment choice (vsched.Choose, cost 1): ok, pool error, USE error, execute
// error, the stored function's missing-row default "-999999999,null", non-numeric fields,
// zero / negative increment, a single field, an empty result set.
//
// Oracle (the property statement, no more):
//
//	(1) all successfully returned values are pairwise distinct;
//	(2) the values one proxy returns are strictly increasing in the order its NextSeq calls
//	    completed (= lock order: the harness records the value in the same scheduler step
//	    in which the mutex is released);
//	(3) a NextSeq call whose block fetch failed or whose reply is not "two integers with a
//	    positive increment" returns an error, not a value.
//
// (1)/(2) are evaluated on the values NOT explained by an already reported violation of (3):
// once a proxy accepted a bad reply its cached block is garbage until its next good fetch
// ("tainted"); duplicates among tainted values are listed as consequences in the detail of
// the (3) violation. A duplicate / non-increasing pair among untainted values is reported
// first, under its own name, so that a known finding about (3) can never hide it.
package main

import (
	"context"
	"errors"
	"fmt"
	"strings"
	"time"

	"github.com/XiaoMi/Gaea/backend"
	"github.com/XiaoMi/Gaea/mysql"
	"github.com/XiaoMi/Gaea/proxy/sequence"
	"github.com/XiaoMi/Gaea/verifshim/vsched"

	"verif/engine/ev"
	"verif/engine/gx"
	"verif/engine/vx"
)

// ---------------------------------------------------------------------------------------
// fetch outcomes (environment alphabet)

type outcome struct {
	Class string
	Reply string // literal reply for malformed-reply classes
}

var outcomes = []outcome{
	{Class: "ok"},
	{Class: "pool_err"},
	{Class: "usedb_err"},
	{Class: "exec_err"},
	{Class: "missing_row", Reply: "-999999999,null"},
	{Class: "nonnumeric_start", Reply: "abc,5"},
	{Class: "nonnumeric_incr", Reply: "10,x"},
	{Class: "zero_incr", Reply: "10,0"},
	{Class: "negative_incr", Reply: "10,-5"},
	{Class: "one_field", Reply: "10"},
	{Class: "no_rows"},
}

// classes whose fetch is a transport/SQL error vs a reply that must be rejected by validation
func isErrorClass(c string) bool {
	return c == "pool_err" || c == "usedb_err" || c == "exec_err"
}

// ---------------------------------------------------------------------------------------
// scenario / world

type thr struct {
	Proxy int `json:"proxy"`
	Calls int `json:"calls"`
}

type scenario struct {
	Name     string `json:"name"`
	Proxies  int    `json:"proxies"`
	Block    int64  `json:"block"` // increment of the sequence row = block size
	Start    int64  `json:"start"` // current_value of the row before the run
	MaxLimit int64  `json:"max_limit"`
	Threads  []thr  `json:"threads"`
	Faults   bool   `json:"faults"` // fetch outcome is an environment choice (else always ok)
}

type callRec struct {
	Thread  string
	Proxy   int
	Fetches []string // outcome class of every fetch made inside this call (normally <= 1)
	Val     int64
	Err     string
	Done    bool
}

type seqTable struct {
	cur, incr int64
	steps     int
}

type world struct {
	sc     scenario
	tbl    *seqTable
	seqs   []*sequence.MySQLSequence
	pools  []*fakePool
	active map[string]*callRec
	done   []*callRec // in completion order
	sqlBad string
}

var w *world

const seqName = "DB.T"

func setup(sc scenario) {
	w = &world{sc: sc, tbl: &seqTable{cur: sc.Start, incr: sc.Block}, active: map[string]*callRec{}}
	for i := 0; i < sc.Proxies; i++ {
		p := &fakePool{w: w, proxy: i}
		sl := &backend.Slice{Namespace: "ns", Master: &backend.DBInfo{Nodes: []*backend.NodeInfo{
			{Address: fmt.Sprintf("db:%d", i), ConnPool: p, Status: backend.StatusUp}}}}
		w.pools = append(w.pools, p)
		w.seqs = append(w.seqs, sequence.NewMySQLSequence(sl, seqName, "id", sc.MaxLimit))
	}
}

func runThread(ww *world, name string, t thr) {
	for i := 0; i < t.Calls; i++ {
		rec := &callRec{Thread: name, Proxy: t.Proxy}
		ww.active[name] = rec
		v, err := ww.seqs[t.Proxy].NextSeq()
		// no scheduling point between the Unlock inside NextSeq and here
		rec.Val, rec.Done = v, true
		if err != nil {
			rec.Err = err.Error()
			if rec.Err == "" {
				rec.Err = "error"
			}
		}
		ww.done = append(ww.done, rec)
		delete(ww.active, name)
	}
}

func body() {
	ww := w
	for i, t := range ww.sc.Threads {
		name := fmt.Sprintf("T%d", i)
		t := t
		vsched.GoNamed(name, func() { runThread(ww, name, t) })
	}
	vsched.WaitOthers()
}

// ---------------------------------------------------------------------------------------
// fakes

type fakePool struct {
	w      *world
	proxy  int
	out    int // connections handed out and not yet recycled
	gets   int
	recyc  int
	closed int
}

func (p *fakePool) Get(ctx context.Context) (backend.PooledConnect, error) {
	ww := p.w
	o := 0
	if ww.sc.Faults {
		o = vsched.Choose(len(outcomes), 1, "fetch")
	}
	if rec := ww.active[vsched.ThreadName()]; rec != nil {
		rec.Fetches = append(rec.Fetches, outcomes[o].Class)
	}
	p.gets++
	if outcomes[o].Class == "pool_err" {
		return nil, errors.New("fake pool: no connection")
	}
	p.out++
	return &fakeConn{p: p, o: outcomes[o]}, nil
}

func (p *fakePool) GetCheck(ctx context.Context) (backend.PooledConnect, error) { return p.Get(ctx) }
func (p *fakePool) Open() error                                                 { return nil }
func (p *fakePool) Addr() string                                                { return fmt.Sprintf("db:%d", p.proxy) }
func (p *fakePool) Datacenter() string                                          { return "" }
func (p *fakePool) Close()                                                      {}
func (p *fakePool) Put(pc backend.PooledConnect)                                {}
func (p *fakePool) SetCapacity(capacity int) (err error)                        { return nil }
func (p *fakePool) SetIdleTimeout(idleTimeout time.Duration)                    {}
func (p *fakePool) StatsJSON() string                                           { return "{}" }
func (p *fakePool) Capacity() int64                                             { return 1 }
func (p *fakePool) Available() int64                                            { return 1 }
func (p *fakePool) Active() int64                                               { return 0 }
func (p *fakePool) InUse() int64                                                { return int64(p.out) }
func (p *fakePool) MaxCap() int64                                               { return 1 }
func (p *fakePool) WaitCount() int64                                            { return 0 }
func (p *fakePool) WaitTime() time.Duration                                     { return 0 }
func (p *fakePool) IdleTimeout() time.Duration                                  { return 0 }
func (p *fakePool) IdleClosed() int64                                           { return 0 }
func (p *fakePool) SetLastChecked()                                             {}
func (p *fakePool) GetLastChecked() int64                                       { return 0 }

type fakeConn struct {
	p *fakePool
	o outcome
}

func (c *fakeConn) Recycle() { c.p.out--; c.p.recyc++ }

func (c *fakeConn) UseDB(db string) error {
	if c.o.Class == "usedb_err" {
		return errors.New("fake conn: USE failed")
	}
	return nil
}

// Execute is ONE atomic step on the shared sequence table.
func (c *fakeConn) Execute(sql string, maxRows int) (*mysql.Result, error) {
	ww := c.p.w
	if sql != "SELECT mycat_seq_nextval('"+seqName+"') as seq_val" {
		ww.sqlBad = sql
	}
	vsched.Point("exec", "seqtable")
	var rows [][]interface{}
	switch c.o.Class {
	case "ok":
		t := ww.tbl
		t.cur += t.incr
		t.steps++
		rows = [][]interface{}{{fmt.Sprintf("%d,%d", t.cur, t.incr)}}
	case "exec_err":
		return nil, errors.New("fake conn: execute failed")
	case "no_rows":
	default:
		rows = [][]interface{}{{c.o.Reply}}
	}
	return &mysql.Result{Resultset: &mysql.Resultset{
		Fields:     []*mysql.Field{{Name: []byte("seq_val")}},
		FieldNames: map[string]int{"seq_val": 0},
		Values:     rows,
	}}, nil
}

func (c *fakeConn) ExecuteWithTimeout(sql string, maxRows int, timeout time.Duration) (*mysql.Result, error) {
	return c.Execute(sql, maxRows)
}
func (c *fakeConn) Reconnect() error                                            { return nil }
func (c *fakeConn) Close()                                                      { c.p.closed++ }
func (c *fakeConn) IsClosed() bool                                              { return false }
func (c *fakeConn) SetAutoCommit(v uint8) error                                 { return nil }
func (c *fakeConn) Begin() error                                                { return nil }
func (c *fakeConn) Commit() error                                               { return nil }
func (c *fakeConn) Rollback() error                                             { return nil }
func (c *fakeConn) Ping() error                                                 { return nil }
func (c *fakeConn) PingWithTimeout(timeout time.Duration) error                 { return nil }
func (c *fakeConn) SetCharset(cs string, co mysql.CollationID) (bool, error)    { return false, nil }
func (c *fakeConn) FieldList(table string, wc string) ([]*mysql.Field, error)   { return nil, nil }
func (c *fakeConn) GetAddr() string                                             { return c.p.Addr() }
func (c *fakeConn) SetSessionVariables(f *mysql.SessionVariables) (bool, error) { return false, nil }
func (c *fakeConn) SyncSessionVariables(f *mysql.SessionVariables) error        { return nil }
func (c *fakeConn) WriteSetStatement() error                                    { return nil }
func (c *fakeConn) GetConnectionID() int64                                      { return 1 }
func (c *fakeConn) GetReturnTime() time.Time                                    { return time.Time{} }
func (c *fakeConn) MoreRowsExist() bool                                         { return false }
func (c *fakeConn) MoreResultsExist() bool                                      { return false }
func (c *fakeConn) FetchMoreRows(result *mysql.Result, maxRows int) error       { return nil }
func (c *fakeConn) ReadMoreResult(maxRows int) (*mysql.Result, error)           { return nil, nil }

// ---------------------------------------------------------------------------------------
// oracle

type verdict struct {
	kind, detail, norm string
}

func judge(ww *world) (v verdict, outcome string) {
	var parts []string
	tainted := make([]bool, ww.sc.Proxies)
	seen := map[int64]*callRec{} // untainted values
	last := make([]int64, ww.sc.Proxies)
	hasLast := make([]bool, ww.sc.Proxies)
	allVals := map[int64]int{}
	var pure, accepted verdict
	var acceptedRec *callRec
	for _, rec := range ww.done {
		fetch := ""
		if len(rec.Fetches) > 0 {
			fetch = rec.Fetches[len(rec.Fetches)-1]
		}
		if rec.Err != "" {
			parts = append(parts, fmt.Sprintf("%s/p%d:err[%s]", rec.Thread, rec.Proxy, fetch))
			continue
		}
		parts = append(parts, fmt.Sprintf("%s/p%d:%d[%s]", rec.Thread, rec.Proxy, rec.Val, fetch))
		allVals[rec.Val]++
		// clause (3)
		bad := ""
		for _, f := range rec.Fetches {
			if f != "ok" {
				bad = f
			}
		}
		if bad != "" {
			tainted[rec.Proxy] = true
			if accepted.kind == "" {
				name := "bad-reply-accepted:"
				if isErrorClass(bad) {
					name = "fetch-error-ignored:"
				}
				accepted = verdict{"invariant", fmt.Sprintf("%s on proxy %d returned value %d although its block fetch ended with outcome %q", rec.Thread, rec.Proxy, rec.Val, bad), name + bad}
				acceptedRec = rec
			}
			continue
		}
		if fetch == "ok" {
			tainted[rec.Proxy] = false
		}
		if tainted[rec.Proxy] {
			continue
		}
		// clauses (1) and (2) on untainted values
		if o := seen[rec.Val]; o != nil && pure.kind == "" {
			where := "two proxies"
			if o.Proxy == rec.Proxy {
				where = "one proxy"
			}
			pure = verdict{"invariant", fmt.Sprintf("value %d handed out twice: to %s on proxy %d and to %s on proxy %d", rec.Val, o.Thread, o.Proxy, rec.Thread, rec.Proxy), "duplicate-value:" + where}
		}
		seen[rec.Val] = rec
		if hasLast[rec.Proxy] && rec.Val <= last[rec.Proxy] && pure.kind == "" {
			pure = verdict{"invariant", fmt.Sprintf("proxy %d handed out %d after %d", rec.Proxy, rec.Val, last[rec.Proxy]), "not-increasing"}
		}
		last[rec.Proxy], hasLast[rec.Proxy] = rec.Val, true
	}
	outcome = fmt.Sprintf("tbl=%d|%s", ww.tbl.cur, strings.Join(parts, " "))
	if ww.sqlBad != "" {
		return verdict{"invariant", "unexpected fetch statement: " + ww.sqlBad, "fetch-sql"}, outcome
	}
	if pure.kind != "" {
		return pure, outcome
	}
	if accepted.kind != "" {
		_ = acceptedRec
		var dups []string
		for val, n := range allVals {
			if n > 1 {
				dups = append(dups, fmt.Sprintf("%d x%d", val, n))
			}
		}
		if len(dups) == 1 {
			accepted.detail += "; consequence in this run: value " + dups[0] + " handed out"
		} else if len(dups) > 1 {
			accepted.detail += fmt.Sprintf("; consequence in this run: %d values handed out more than once", len(dups))
		}
		return accepted, outcome
	}
	return verdict{}, outcome
}

// ---------------------------------------------------------------------------------------

func scenarios(r *ev.Run) []scenario {
	one := func(n int) []thr { return []thr{{0, n}, {0, n}} }
	s := []scenario{
		// two threads on one proxy
		{Name: "1proxy-2thr-b1", Proxies: 1, Block: 1, Threads: one(2), Faults: true},
		{Name: "1proxy-2thr-b2", Proxies: 1, Block: 2, Threads: one(3), Faults: true},
		{Name: "1proxy-2thr-b3", Proxies: 1, Block: 3, Threads: one(2), Faults: true},
		// two proxies, one thread each
		{Name: "2proxy-2thr-b1", Proxies: 2, Block: 1, Threads: []thr{{0, 3}, {1, 3}}, Faults: true},
		{Name: "2proxy-2thr-b2", Proxies: 2, Block: 2, Threads: []thr{{0, 3}, {1, 3}}, Faults: true},
		{Name: "2proxy-2thr-b5", Proxies: 2, Block: 5, Start: 5, Threads: []thr{{0, 3}, {1, 2}}, Faults: true},
		// schedules only (no faults)
		{Name: "2proxy-2thr-b1-sched", Proxies: 2, Block: 1, Threads: []thr{{0, 3}, {1, 3}}},
		{Name: "1proxy-2thr-b2-sched", Proxies: 1, Block: 2, Threads: one(3)},
		// three threads: two share a proxy
		{Name: "2proxy-3thr-b2", Proxies: 2, Block: 2, Threads: []thr{{0, 2}, {0, 2}, {1, 2}}, Faults: true},
		{Name: "2proxy-3thr-b1", Proxies: 2, Block: 1, Threads: []thr{{0, 2}, {0, 1}, {1, 2}}, Faults: true},
		{Name: "3proxy-3thr-b1", Proxies: 3, Block: 1, Threads: []thr{{0, 2}, {1, 2}, {2, 2}}, Faults: true},
		{Name: "3proxy-3thr-b4", Proxies: 3, Block: 4, Threads: []thr{{0, 3}, {1, 1}, {2, 2}}, Faults: true},
		// upper limit of the sequence (errors without a fetch are fine)
		{Name: "1proxy-maxlimit", Proxies: 1, Block: 2, MaxLimit: 5, Threads: one(2), Faults: true},
		{Name: "3proxy-3thr-b2", Proxies: 3, Block: 2, Threads: []thr{{0, 3}, {1, 3}, {2, 3}}, Faults: true},
		{Name: "2proxy-3thr-b3", Proxies: 2, Block: 3, Threads: []thr{{0, 3}, {0, 3}, {1, 3}}, Faults: true},
		{Name: "1proxy-3thr-b1", Proxies: 1, Block: 1, Threads: []thr{{0, 2}, {0, 2}, {0, 2}}, Faults: true},
		{Name: "2proxy-2thr-b4", Proxies: 2, Block: 4, Threads: []thr{{0, 3}, {1, 3}}, Faults: true},
	}
	return s
}

func main() {
	gx.Quiet()
	r := ev.Start("C34", "model_checking")
	var scs []*vx.Scenario
	for _, sc := range scenarios(r) {
		sc := sc
		bound := 2
		if len(sc.Threads) >= 3 && r.Quick() {
			bound = 1
		}
		if r.Thorough() && len(sc.Threads) < 3 {
			bound = 3
		}
		scs = append(scs, &vx.Scenario{
			Name: sc.Name, Bound: bound, Spec: sc,
			Before:   func() { setup(sc) },
			Body:     body,
			Features: map[string]string{"proxies": fmt.Sprint(sc.Proxies), "block": fmt.Sprint(sc.Block)},
			Classify: func(x *vsched.Exec) (string, string, string, string) {
				v, outcome := judge(w)
				if k, d, n := vx.DefaultClassify(x); k != "" {
					return k, d, n, outcome
				}
				return v.kind, v.detail, v.norm, outcome
			},
		})
	}
	vx.Main(r, scs,
		"the sequence table is a Go model of docs/sequence-id.md (mycat_seq_nextval: current_value += increment, reply \"current,increment\"); each fake Execute is one atomic table step",
		"fetch outcomes are environment choices at cost 1 each under the same deviation budget as preemptions; malformed replies are the literal strings of the design alphabet")
}
