// C34: global sequence values are never issued twice.
//
// Engine: vsched (cooperative scheduler + deviation-bounded DFS) on the real
// sequence.MySQLSequence. proxy/sequence/mysql.go is rewritten by mkoverlay so that its
// mutex is a scheduling point and the fields curr/max are access points (scheduling points
// and inputs of the happens-before race detector).
//
// World: 1-3 MySQLSequence objects ("proxies"), each bound to a real backend.Slice whose
// master ConnPool is a fake; all fakes share ONE reference sequence table (current value,
// increment) modelled after docs/sequence-id.md: mycat_seq_nextval = `current += increment`,
// reply "current,increment" - one atomic table step per Execute. The outcome of every block
// fetch is an environment choice (vsched.Choose, cost 1): ok, pool error, USE error, execute
// error, the stored function's missing-row default "-999999999,null", non-numeric fields,
// zero / negative increment, a single field, an empty result set.
//
// Consumer side (added after seeded change c34-3): in the stmt-* scenarios the threads do not
// call NextSeq themselves; each is a session of its proxy planning INSERT statements (1-4
// rows with the sequence column omitted / NULL / nextval(), REPLACE, INSERT ... SET) through
// the real plan path plan.BuildPlan -> HandleInsertStmt -> handleInsertGlobalSequenceValue,
// on a real Router and a SequenceManager whose sequence for db.t delegates to the real
// MySQLSequence and records every result in lock order. The values are read back from the
// backend SQL of the plan. With block sizes 1-3 the cached block runs out between the rows of
// a statement, so fetch faults are enumerated at every fetch position, also mid-statement.
//
// Oracle (the property statement, no more):
//
//	(1) all successfully returned values are pairwise distinct;
//	(2) the values one proxy returns are strictly increasing in the order its NextSeq calls
//	    completed (= lock order: the harness records the value in the same scheduler step
//	    in which the mutex is released);
//	(3) a NextSeq call whose block fetch failed or whose reply is not "two integers with a
//	    positive increment" returns an error, not a value;
//	(4) consumer side: a statement one of whose sequence requests failed is not planned; a
//	    planned statement carries, row by row, exactly the values its requests returned (so
//	    (1)/(2) hold for what reaches the backends; checked directly as well: plan values
//	    pairwise distinct, increasing by row).
//
// (1)/(2) are evaluated on the values NOT explained by an already reported violation of (3):
// once a proxy accepted a bad reply its cached block is garbage until its next good fetch
// ("tainted"); duplicates among tainted values are listed as consequences in the detail of
// the (3) violation. A duplicate / non-increasing pair among untainted values is reported
// first, under its own name, so that a known finding about (3) can never hide it.
package main

import (
	"context"
	"errors"
	"fmt"
	"regexp"
	"strconv"
	"strings"
	"time"

	"github.com/XiaoMi/Gaea/backend"
	"github.com/XiaoMi/Gaea/models"
	"github.com/XiaoMi/Gaea/mysql"
	"github.com/XiaoMi/Gaea/parser"
	"github.com/XiaoMi/Gaea/proxy/plan"
	"github.com/XiaoMi/Gaea/proxy/router"
	"github.com/XiaoMi/Gaea/proxy/sequence"
	"github.com/XiaoMi/Gaea/verifshim/vsched"

	"verif/engine/ev"
	"verif/engine/gx"
	"verif/engine/vx"
)

// ---------------------------------------------------------------------------------------
// fetch outcomes (environment alphabet)

type outcome struct {
	Class string
	Reply string // literal reply for malformed-reply classes
}

var outcomes = []outcome{
	{Class: "ok"},
	{Class: "pool_err"},
	{Class: "usedb_err"},
	{Class: "exec_err"},
	{Class: "missing_row", Reply: "-999999999,null"},
	{Class: "nonnumeric_start", Reply: "abc,5"},
	{Class: "nonnumeric_incr", Reply: "10,x"},
	{Class: "zero_incr", Reply: "10,0"},
	{Class: "negative_incr", Reply: "10,-5"},
	{Class: "one_field", Reply: "10"},
	// well-formed "int,int" prefix followed by garbage (seed c34-5: a prefix-scanning parse accepts these)
	{Class: "digits_then_garbage_incr", Reply: "10,5abc"},
	{Class: "three_fields", Reply: "10,5,7"},
	{Class: "no_rows"},
}

// classes whose fetch is a transport/SQL error vs a reply that must be rejected by validation
func isErrorClass(c string) bool {
	return c == "pool_err" || c == "usedb_err" || c == "exec_err"
}

// ---------------------------------------------------------------------------------------
// scenario / world

type thr struct {
	Proxy int `json:"proxy"`
	Calls int `json:"calls"`
	// Stmts: instead of calling NextSeq directly the thread plans these INSERT statements
	// through the real plan path (plan.BuildPlan -> HandleInsertStmt ->
	// handleInsertGlobalSequenceValue) of its proxy. Forms: vK = VALUES with K rows and the
	// sequence column omitted, nK = K rows with an explicit NULL, fK = K rows with
	// nextval(), rK = REPLACE with K rows, s = INSERT ... SET id = nextval().
	Stmts []string `json:"stmts,omitempty"`
}

type scenario struct {
	Name     string `json:"name"`
	Proxies  int    `json:"proxies"`
	Block    int64  `json:"block"` // increment of the sequence row = block size
	Start    int64  `json:"start"` // current_value of the row before the run
	MaxLimit int64  `json:"max_limit"`
	Threads  []thr  `json:"threads"`
	Faults   bool   `json:"faults"` // fetch outcome is an environment choice (else always ok)
}

type callRec struct {
	Thread  string
	Proxy   int
	Fetches []string // outcome class of every fetch made inside this call (normally <= 1)
	Val     int64
	Err     string
	Done    bool
	Stmt    *stmtRec // statement on whose behalf the value was requested (consumer scenarios)
}

// stmtRec is one statement planned by a session of a proxy.
type stmtRec struct {
	Thread  string
	Proxy   int
	Form    string
	SQL     string
	Rows    int
	Calls   []*callRec // NextSeq calls made while planning it, in order
	Planned bool
	Err     string
	IDs     []int64 // sequence column of row j in the planned backend SQL
	Bad     string  // the planned SQL carries something that is not an integer value
}

type seqTable struct {
	cur, incr int64
	steps     int
}

type world struct {
	sc     scenario
	tbl    *seqTable
	seqs   []*sequence.MySQLSequence
	pools  []*fakePool
	active map[string]*callRec
	done   []*callRec // in completion order
	sqlBad string
	// consumer side: one router + sequence manager per proxy, statements in completion order
	routers []*router.Router
	mgrs    []*sequence.SequenceManager
	curStmt map[string]*stmtRec
	stmts   []*stmtRec
}

var w *world

const seqName = "DB.T"

func setup(sc scenario) {
	w = &world{sc: sc, tbl: &seqTable{cur: sc.Start, incr: sc.Block}, active: map[string]*callRec{}}
	for i := 0; i < sc.Proxies; i++ {
		p := &fakePool{w: w, proxy: i}
		sl := &backend.Slice{Namespace: "ns", Master: &backend.DBInfo{Nodes: []*backend.NodeInfo{
			{Address: fmt.Sprintf("db:%d", i), ConnPool: p, Status: backend.StatusUp}}}}
		w.pools = append(w.pools, p)
		w.seqs = append(w.seqs, sequence.NewMySQLSequence(sl, seqName, "id", sc.MaxLimit))
	}
	consumer := false
	for _, t := range sc.Threads {
		if len(t.Stmts) > 0 {
			consumer = true
		}
	}
	if !consumer {
		return
	}
	w.curStmt = map[string]*stmtRec{}
	for i := 0; i < sc.Proxies; i++ {
		rt, err := router.NewRouter(&models.Namespace{
			Slices:       []*models.Slice{{Name: "slice-0"}, {Name: "slice-1"}},
			DefaultSlice: "slice-0",
			ShardRules: []*models.Shard{{DB: "db", Table: "t", Type: "mod", Key: "k", Locations: []int{1, 1},
				Slices: []string{"slice-0", "slice-1"}}},
		})
		if err != nil {
			ev.Fatalf("NewRouter: %v", err)
		}
		mgr := sequence.NewSequenceManager()
		if err := mgr.SetSequence("db", "t", &recSeq{w: w, proxy: i, inner: w.seqs[i]}); err != nil {
			ev.Fatalf("SetSequence: %v", err)
		}
		w.routers = append(w.routers, rt)
		w.mgrs = append(w.mgrs, mgr)
	}
}

// recSeq is the sequence registered for db.t: it hands every request to the real
// MySQLSequence and records what came back (value or error), in lock order.
type recSeq struct {
	w     *world
	proxy int
	inner *sequence.MySQLSequence
}

func (s *recSeq) GetPKName() string { return s.inner.GetPKName() }

func (s *recSeq) NextSeq() (int64, error) {
	return callNextSeq(s.w, vsched.ThreadName(), s.proxy)
}

func callNextSeq(ww *world, name string, proxy int) (int64, error) {
	rec := &callRec{Thread: name, Proxy: proxy, Stmt: ww.curStmt[name]}
	ww.active[name] = rec
	v, err := ww.seqs[proxy].NextSeq()
	// no scheduling point between the Unlock inside NextSeq and here
	rec.Val, rec.Done = v, true
	if err != nil {
		rec.Err = err.Error()
		if rec.Err == "" {
			rec.Err = "error"
		}
	}
	ww.done = append(ww.done, rec)
	if rec.Stmt != nil {
		rec.Stmt.Calls = append(rec.Stmt.Calls, rec)
	}
	delete(ww.active, name)
	return v, err
}

// stmtSQL builds the statement of a form; row j has sharding key k=j and marker a='mj'.
func stmtSQL(form string) (sql string, rows int) {
	if form == "s" {
		return "insert into t set k = 1, a = 'm0', id = nextval()", 1
	}
	rows = int(form[1] - '0')
	var tuples []string
	for j := 0; j < rows; j++ {
		switch form[0] {
		case 'v', 'r':
			tuples = append(tuples, fmt.Sprintf("(%d, 'm%d')", j, j))
		case 'n':
			tuples = append(tuples, fmt.Sprintf("(null, %d, 'm%d')", j, j))
		case 'f':
			tuples = append(tuples, fmt.Sprintf("(%d, nextval(), 'm%d')", j, j))
		}
	}
	switch form[0] {
	case 'v':
		sql = "insert into t (k, a) values "
	case 'r':
		sql = "replace into t (k, a) values "
	case 'n':
		sql = "insert into t (id, k, a) values "
	case 'f':
		sql = "insert into t (k, id, a) values "
	default:
		ev.Fatalf("unknown statement form %q", form)
	}
	return sql + strings.Join(tuples, ", "), rows
}

var (
	reValues = regexp.MustCompile("^(?:INSERT|REPLACE) INTO `[^`]+` \\(([^)]*)\\) VALUES (.*)$")
	reTuple  = regexp.MustCompile("\\(([^()]*)\\)")
	reSet    = regexp.MustCompile("^INSERT INTO `[^`]+` SET (.*)$")
	reMarker = regexp.MustCompile("^'m([0-9])'$")
)

// readIDs finds the sequence column of every row in the backend statements of a plan.
func readIDs(st *stmtRec, sqls map[string]map[string][]string) {
	st.IDs = make([]int64, st.Rows)
	got := make([]bool, st.Rows)
	put := func(marker, id string) {
		m := reMarker.FindStringSubmatch(marker)
		if m == nil {
			st.Bad = "row marker " + marker
			return
		}
		j := int(m[1][0] - '0')
		v, err := strconv.ParseInt(id, 10, 64)
		if err != nil || j >= st.Rows || got[j] {
			st.Bad = fmt.Sprintf("row %d carries %s", j, id)
			return
		}
		st.IDs[j], got[j] = v, true
	}
	for _, byDB := range sqls {
		for _, list := range byDB {
			for _, q := range list {
				if m := reSet.FindStringSubmatch(q); m != nil {
					marker, id := "", ""
					for _, asg := range strings.Split(m[1], ",") {
						kv := strings.SplitN(asg, "=", 2)
						switch strings.Trim(kv[0], "` ") {
						case "a":
							marker = kv[1]
						case "id":
							id = kv[1]
						}
					}
					put(marker, id)
					continue
				}
				m := reValues.FindStringSubmatch(q)
				if m == nil {
					st.Bad = "statement " + q
					return
				}
				ia, iid := -1, -1
				for i, c := range strings.Split(m[1], ",") {
					switch strings.Trim(c, "` ") {
					case "a":
						ia = i
					case "id":
						iid = i
					}
				}
				for _, t := range reTuple.FindAllStringSubmatch(m[2], -1) {
					f := strings.Split(t[1], ",")
					if ia < 0 || iid < 0 || ia >= len(f) || iid >= len(f) {
						st.Bad = "statement " + q
						return
					}
					put(strings.TrimSpace(f[ia]), strings.TrimSpace(f[iid]))
				}
			}
		}
	}
	for j, ok := range got {
		if !ok && st.Bad == "" {
			st.Bad = fmt.Sprintf("row %d is missing from the planned statements", j)
		}
	}
}

func planStmt(ww *world, name string, proxy int, form string) {
	sql, rows := stmtSQL(form)
	st := &stmtRec{Thread: name, Proxy: proxy, Form: form, SQL: sql, Rows: rows}
	ww.curStmt[name] = st
	defer func() {
		delete(ww.curStmt, name)
		ww.stmts = append(ww.stmts, st)
	}()
	node, err := parser.New().ParseOneStmt(sql, "", "")
	if err != nil {
		ev.Fatalf("harness statement does not parse: %s: %v", sql, err)
	}
	p, err := plan.BuildPlan(node, map[string]string{"db": "db"}, "db", sql, ww.routers[proxy], ww.mgrs[proxy], nil)
	if err != nil {
		st.Err = err.Error()
		return
	}
	sqls, ok := plan.VerifInsertSQLs(p)
	if !ok {
		st.Err = fmt.Sprintf("not an insert plan: %T", p)
		return
	}
	st.Planned = true
	readIDs(st, sqls)
}

func runThread(ww *world, name string, t thr) {
	for _, form := range t.Stmts {
		planStmt(ww, name, t.Proxy, form)
	}
	for i := 0; i < t.Calls; i++ {
		callNextSeq(ww, name, t.Proxy)
	}
}

func body() {
	ww := w
	for i, t := range ww.sc.Threads {
		name := fmt.Sprintf("T%d", i)
		t := t
		vsched.GoNamed(name, func() { runThread(ww, name, t) })
	}
	vsched.WaitOthers()
}

// ---------------------------------------------------------------------------------------
// fakes

type fakePool struct {
	w      *world
	proxy  int
	out    int // connections handed out and not yet recycled
	gets   int
	recyc  int
	closed int
}

func (p *fakePool) Get(ctx context.Context) (backend.PooledConnect, error) {
	ww := p.w
	o := 0
	if ww.sc.Faults {
		o = vsched.Choose(len(outcomes), 1, "fetch")
	}
	if rec := ww.active[vsched.ThreadName()]; rec != nil {
		rec.Fetches = append(rec.Fetches, outcomes[o].Class)
	}
	p.gets++
	if outcomes[o].Class == "pool_err" {
		return nil, errors.New("fake pool: no connection")
	}
	p.out++
	return &fakeConn{p: p, o: outcomes[o]}, nil
}

func (p *fakePool) GetCheck(ctx context.Context) (backend.PooledConnect, error) { return p.Get(ctx) }
func (p *fakePool) Open() error                                                 { return nil }
func (p *fakePool) Addr() string                                                { return fmt.Sprintf("db:%d", p.proxy) }
func (p *fakePool) Datacenter() string                                          { return "" }
func (p *fakePool) Close()                                                      {}
func (p *fakePool) Put(pc backend.PooledConnect)                                {}
func (p *fakePool) SetCapacity(capacity int) (err error)                        { return nil }
func (p *fakePool) SetIdleTimeout(idleTimeout time.Duration)                    {}
func (p *fakePool) StatsJSON() string                                           { return "{}" }
func (p *fakePool) Capacity() int64                                             { return 1 }
func (p *fakePool) Available() int64                                            { return 1 }
func (p *fakePool) Active() int64                                               { return 0 }
func (p *fakePool) InUse() int64                                                { return int64(p.out) }
func (p *fakePool) MaxCap() int64                                               { return 1 }
func (p *fakePool) WaitCount() int64                                            { return 0 }
func (p *fakePool) WaitTime() time.Duration                                     { return 0 }
func (p *fakePool) IdleTimeout() time.Duration                                  { return 0 }
func (p *fakePool) IdleClosed() int64                                           { return 0 }
func (p *fakePool) SetLastChecked()                                             {}
func (p *fakePool) GetLastChecked() int64                                       { return 0 }

type fakeConn struct {
	p *fakePool
	o outcome
}

func (c *fakeConn) Recycle() { c.p.out--; c.p.recyc++ }

func (c *fakeConn) UseDB(db string) error {
	if c.o.Class == "usedb_err" {
		return errors.New("fake conn: USE failed")
	}
	return nil
}

// Execute is ONE atomic step on the shared sequence table.
func (c *fakeConn) Execute(sql string, maxRows int) (*mysql.Result, error) {
	ww := c.p.w
	if sql != "SELECT mycat_seq_nextval('"+seqName+"') as seq_val" {
		ww.sqlBad = sql
	}
	vsched.Point("exec", "seqtable")
	var rows [][]interface{}
	switch c.o.Class {
	case "ok":
		t := ww.tbl
		t.cur += t.incr
		t.steps++
		rows = [][]interface{}{{fmt.Sprintf("%d,%d", t.cur, t.incr)}}
	case "exec_err":
		return nil, errors.New("fake conn: execute failed")
	case "no_rows":
	default:
		rows = [][]interface{}{{c.o.Reply}}
	}
	return &mysql.Result{Resultset: &mysql.Resultset{
		Fields:     []*mysql.Field{{Name: []byte("seq_val")}},
		FieldNames: map[string]int{"seq_val": 0},
		Values:     rows,
	}}, nil
}

func (c *fakeConn) ExecuteWithTimeout(sql string, maxRows int, timeout time.Duration) (*mysql.Result, error) {
	return c.Execute(sql, maxRows)
}
func (c *fakeConn) Reconnect() error                                            { return nil }
func (c *fakeConn) Close()                                                      { c.p.closed++ }
func (c *fakeConn) IsClosed() bool                                              { return false }
func (c *fakeConn) SetAutoCommit(v uint8) error                                 { return nil }
func (c *fakeConn) Begin() error                                                { return nil }
func (c *fakeConn) Commit() error                                               { return nil }
func (c *fakeConn) Rollback() error                                             { return nil }
func (c *fakeConn) Ping() error                                                 { return nil }
func (c *fakeConn) PingWithTimeout(timeout time.Duration) error                 { return nil }
func (c *fakeConn) SetCharset(cs string, co mysql.CollationID) (bool, error)    { return false, nil }
func (c *fakeConn) FieldList(table string, wc string) ([]*mysql.Field, error)   { return nil, nil }
func (c *fakeConn) GetAddr() string                                             { return c.p.Addr() }
func (c *fakeConn) SetSessionVariables(f *mysql.SessionVariables) (bool, error) { return false, nil }
func (c *fakeConn) SyncSessionVariables(f *mysql.SessionVariables) error        { return nil }
func (c *fakeConn) WriteSetStatement() error                                    { return nil }
func (c *fakeConn) GetConnectionID() int64                                      { return 1 }
func (c *fakeConn) GetReturnTime() time.Time                                    { return time.Time{} }
func (c *fakeConn) MoreRowsExist() bool                                         { return false }
func (c *fakeConn) MoreResultsExist() bool                                      { return false }
func (c *fakeConn) FetchMoreRows(result *mysql.Result, maxRows int) error       { return nil }
func (c *fakeConn) ReadMoreResult(maxRows int) (*mysql.Result, error)           { return nil, nil }

// ---------------------------------------------------------------------------------------
// oracle

type verdict struct {
	kind, detail, norm string
}

func judge(ww *world) (v verdict, outcome string) {
	var parts []string
	tainted := make([]bool, ww.sc.Proxies)
	seen := map[int64]*callRec{} // untainted values
	last := make([]int64, ww.sc.Proxies)
	hasLast := make([]bool, ww.sc.Proxies)
	allVals := map[int64]int{}
	var pure, accepted verdict
	var acceptedRec *callRec
	for _, rec := range ww.done {
		fetch := ""
		if len(rec.Fetches) > 0 {
			fetch = rec.Fetches[len(rec.Fetches)-1]
		}
		if rec.Err != "" {
			parts = append(parts, fmt.Sprintf("%s/p%d:err[%s]", rec.Thread, rec.Proxy, fetch))
			continue
		}
		parts = append(parts, fmt.Sprintf("%s/p%d:%d[%s]", rec.Thread, rec.Proxy, rec.Val, fetch))
		allVals[rec.Val]++
		// clause (3)
		bad := ""
		for _, f := range rec.Fetches {
			if f != "ok" {
				bad = f
			}
		}
		if bad != "" {
			tainted[rec.Proxy] = true
			if accepted.kind == "" {
				name := "bad-reply-accepted:"
				if isErrorClass(bad) {
					name = "fetch-error-ignored:"
				}
				accepted = verdict{"invariant", fmt.Sprintf("%s on proxy %d returned value %d although its block fetch ended with outcome %q", rec.Thread, rec.Proxy, rec.Val, bad), name + bad}
				acceptedRec = rec
			}
			continue
		}
		if fetch == "ok" {
			tainted[rec.Proxy] = false
		}
		if tainted[rec.Proxy] {
			continue
		}
		// clauses (1) and (2) on untainted values
		if o := seen[rec.Val]; o != nil && pure.kind == "" {
			where := "two proxies"
			if o.Proxy == rec.Proxy {
				where = "one proxy"
			}
			pure = verdict{"invariant", fmt.Sprintf("value %d handed out twice: to %s on proxy %d and to %s on proxy %d", rec.Val, o.Thread, o.Proxy, rec.Thread, rec.Proxy), "duplicate-value:" + where}
		}
		seen[rec.Val] = rec
		if hasLast[rec.Proxy] && rec.Val <= last[rec.Proxy] && pure.kind == "" {
			pure = verdict{"invariant", fmt.Sprintf("proxy %d handed out %d after %d", rec.Proxy, rec.Val, last[rec.Proxy]), "not-increasing"}
		}
		last[rec.Proxy], hasLast[rec.Proxy] = rec.Val, true
	}
	// consumer side: what the planned statements carry
	var stmtV, planV verdict
	planSeen := map[int64]*stmtRec{}
	for _, st := range ww.stmts {
		failed, class := false, ""
		var vals []int64
		for _, c := range st.Calls {
			if c.Err != "" {
				failed = true
				if len(c.Fetches) > 0 {
					class = c.Fetches[len(c.Fetches)-1]
				}
			} else {
				vals = append(vals, c.Val)
			}
		}
		if !st.Planned {
			parts = append(parts, fmt.Sprintf("%s/p%d:%s=refused", st.Thread, st.Proxy, st.Form))
			if !failed && stmtV.kind == "" {
				stmtV = verdict{"invariant", fmt.Sprintf("%s on proxy %d: %q was refused although every sequence request succeeded: %s", st.Thread, st.Proxy, st.SQL, st.Err), "refused-without-failure"}
			}
			continue
		}
		parts = append(parts, fmt.Sprintf("%s/p%d:%s=%v", st.Thread, st.Proxy, st.Form, st.IDs))
		if stmtV.kind != "" {
			continue
		}
		switch {
		case failed:
			// a statement whose block fetch failed must not be planned
			stmtV = verdict{"invariant", fmt.Sprintf("%s on proxy %d: %q (%d rows) was planned with sequence values %v although a sequence request of this statement failed (fetch outcome %q)", st.Thread, st.Proxy, st.SQL, st.Rows, st.IDs, class), "planned-despite-failed-fetch:" + class}
		case st.Bad != "":
			stmtV = verdict{"invariant", fmt.Sprintf("%s on proxy %d: %q was planned, but %s", st.Thread, st.Proxy, st.SQL, st.Bad), "plan-without-value"}
		case fmt.Sprint(vals) != fmt.Sprint(st.IDs):
			stmtV = verdict{"invariant", fmt.Sprintf("%s on proxy %d: %q was handed the sequence values %v but its plan carries %v (row order)", st.Thread, st.Proxy, st.SQL, vals, st.IDs), "plan-value-mismatch"}
		}
		// the oracle itself, on the values that reach the backends
		for j, id := range st.IDs {
			if o := planSeen[id]; o != nil && planV.kind == "" {
				planV = verdict{"invariant", fmt.Sprintf("value %d is in the plan of %s/proxy %d (%s) and of %s/proxy %d (%s)", id, o.Thread, o.Proxy, o.Form, st.Thread, st.Proxy, st.Form), "duplicate-plan-value"}
			}
			planSeen[id] = st
			if j > 0 && id <= st.IDs[j-1] && planV.kind == "" {
				planV = verdict{"invariant", fmt.Sprintf("%s on proxy %d: rows of %q carry %v, not increasing", st.Thread, st.Proxy, st.SQL, st.IDs), "plan-not-increasing"}
			}
		}
	}
	outcome = fmt.Sprintf("tbl=%d|%s", ww.tbl.cur, strings.Join(parts, " "))
	if ww.sqlBad != "" {
		return verdict{"invariant", "unexpected fetch statement: " + ww.sqlBad, "fetch-sql"}, outcome
	}
	if pure.kind != "" {
		return pure, outcome
	}
	if stmtV.kind != "" {
		return stmtV, outcome
	}
	if accepted.kind != "" {
		_ = acceptedRec
		var dups []string
		for val, n := range allVals {
			if n > 1 {
				dups = append(dups, fmt.Sprintf("%d x%d", val, n))
			}
		}
		if len(dups) == 1 {
			accepted.detail += "; consequence in this run: value " + dups[0] + " handed out"
		} else if len(dups) > 1 {
			accepted.detail += fmt.Sprintf("; consequence in this run: %d values handed out more than once", len(dups))
		}
		return accepted, outcome
	}
	if planV.kind != "" {
		return planV, outcome
	}
	return verdict{}, outcome
}

// ---------------------------------------------------------------------------------------

func scenarios(r *ev.Run) []scenario {
	one := func(n int) []thr { return []thr{{Proxy: 0, Calls: n}, {Proxy: 0, Calls: n}} }
	st := func(proxy int, forms ...string) thr { return thr{Proxy: proxy, Stmts: forms} }
	s := []scenario{
		// two threads on one proxy
		{Name: "1proxy-2thr-b1", Proxies: 1, Block: 1, Threads: one(2), Faults: true},
		{Name: "1proxy-2thr-b2", Proxies: 1, Block: 2, Threads: one(3), Faults: true},
		{Name: "1proxy-2thr-b3", Proxies: 1, Block: 3, Threads: one(2), Faults: true},
		// two proxies, one thread each
		{Name: "2proxy-2thr-b1", Proxies: 2, Block: 1, Threads: []thr{{Proxy: 0, Calls: 3}, {Proxy: 1, Calls: 3}}, Faults: true},
		{Name: "2proxy-2thr-b2", Proxies: 2, Block: 2, Threads: []thr{{Proxy: 0, Calls: 3}, {Proxy: 1, Calls: 3}}, Faults: true},
		{Name: "2proxy-2thr-b5", Proxies: 2, Block: 5, Start: 5, Threads: []thr{{Proxy: 0, Calls: 3}, {Proxy: 1, Calls: 2}}, Faults: true},
		// schedules only (no faults)
		{Name: "2proxy-2thr-b1-sched", Proxies: 2, Block: 1, Threads: []thr{{Proxy: 0, Calls: 3}, {Proxy: 1, Calls: 3}}},
		{Name: "1proxy-2thr-b2-sched", Proxies: 1, Block: 2, Threads: one(3)},
		// three threads: two share a proxy
		{Name: "2proxy-3thr-b2", Proxies: 2, Block: 2, Threads: []thr{{Proxy: 0, Calls: 2}, {Proxy: 0, Calls: 2}, {Proxy: 1, Calls: 2}}, Faults: true},
		{Name: "2proxy-3thr-b1", Proxies: 2, Block: 1, Threads: []thr{{Proxy: 0, Calls: 2}, {Proxy: 0, Calls: 1}, {Proxy: 1, Calls: 2}}, Faults: true},
		{Name: "3proxy-3thr-b1", Proxies: 3, Block: 1, Threads: []thr{{Proxy: 0, Calls: 2}, {Proxy: 1, Calls: 2}, {Proxy: 2, Calls: 2}}, Faults: true},
		{Name: "3proxy-3thr-b4", Proxies: 3, Block: 4, Threads: []thr{{Proxy: 0, Calls: 3}, {Proxy: 1, Calls: 1}, {Proxy: 2, Calls: 2}}, Faults: true},
		// upper limit of the sequence (errors without a fetch are fine)
		{Name: "1proxy-maxlimit", Proxies: 1, Block: 2, MaxLimit: 5, Threads: one(2), Faults: true},
		{Name: "3proxy-3thr-b2", Proxies: 3, Block: 2, Threads: []thr{{Proxy: 0, Calls: 3}, {Proxy: 1, Calls: 3}, {Proxy: 2, Calls: 3}}, Faults: true},
		{Name: "2proxy-3thr-b3", Proxies: 2, Block: 3, Threads: []thr{{Proxy: 0, Calls: 3}, {Proxy: 0, Calls: 3}, {Proxy: 1, Calls: 3}}, Faults: true},
		{Name: "1proxy-3thr-b1", Proxies: 1, Block: 1, Threads: []thr{{Proxy: 0, Calls: 2}, {Proxy: 0, Calls: 2}, {Proxy: 0, Calls: 2}}, Faults: true},
		{Name: "2proxy-2thr-b4", Proxies: 2, Block: 4, Threads: []thr{{Proxy: 0, Calls: 3}, {Proxy: 1, Calls: 3}}, Faults: true},
		// consumer side: sessions plan INSERTs (1-4 rows, INSERT ... SET, REPLACE) through the
		// real plan path; with block 1-3 the cached block runs out between the rows of a statement
		{Name: "stmt-1proxy-b1", Proxies: 1, Block: 1, Threads: []thr{st(0, "v2"), st(0, "s")}, Faults: true},
		{Name: "stmt-1proxy-b2", Proxies: 1, Block: 2, Threads: []thr{st(0, "v3"), st(0, "n2")}, Faults: true},
		{Name: "stmt-2proxy-b1", Proxies: 2, Block: 1, Threads: []thr{st(0, "v2", "s"), st(1, "f2")}, Faults: true},
		{Name: "stmt-2proxy-b3", Proxies: 2, Block: 3, Threads: []thr{st(0, "v4"), st(1, "n2", "v1")}, Faults: true},
		{Name: "stmt-2proxy-b2", Proxies: 2, Block: 2, Threads: []thr{st(0, "n3"), st(1, "r3")}, Faults: true},
		{Name: "stmt-2proxy-b1-rows4", Proxies: 2, Block: 1, Threads: []thr{st(0, "f4"), st(1, "s")}, Faults: true},
		{Name: "stmt-mixed-b2", Proxies: 2, Block: 2, Threads: []thr{st(0, "v3"), {Proxy: 1, Calls: 2}}, Faults: true},
		{Name: "stmt-3thr-2proxy-b1", Proxies: 2, Block: 1, Threads: []thr{st(0, "v2"), st(0, "s"), st(1, "n2")}, Faults: true},
		{Name: "stmt-3proxy-b2", Proxies: 3, Block: 2, Threads: []thr{st(0, "v3"), st(1, "v1", "s"), st(2, "f2")}, Faults: true},
	}
	return s
}

func main() {
	gx.Quiet()
	r := ev.Start("C34", "model_checking")
	var scs []*vx.Scenario
	for _, sc := range scenarios(r) {
		sc := sc
		bound := 2
		if len(sc.Threads) >= 3 && r.Quick() {
			bound = 1
		}
		if r.Thorough() && len(sc.Threads) < 3 {
			bound = 3
		}
		scs = append(scs, &vx.Scenario{
			Name: sc.Name, Bound: bound, Spec: sc,
			Before:   func() { setup(sc) },
			Body:     body,
			Features: map[string]string{"proxies": fmt.Sprint(sc.Proxies), "block": fmt.Sprint(sc.Block)},
			Classify: func(x *vsched.Exec) (string, string, string, string) {
				v, outcome := judge(w)
				if k, d, n := vx.DefaultClassify(x); k != "" {
					return k, d, n, outcome
				}
				return v.kind, v.detail, v.norm, outcome
			},
		})
	}
	vx.Main(r, scs,
		"the sequence table is a Go model of docs/sequence-id.md (mycat_seq_nextval: current_value += increment, reply \"current,increment\"); each fake Execute is one atomic table step",
		"fetch outcomes are environment choices at cost 1 each under the same deviation budget as preemptions; malformed replies are the literal strings of the design alphabet")
}
