package main

import (
	"runtime"
	"sync"
	"syscall"

	"github.com/XiaoMi/Gaea/verifshim/vrand"

	"verif/checks/c03/rig"
)

// vrand.Chooser is one process-wide function; planning is synchronous on the calling
// goroutine, so the chooser dispatches on the caller's identity and every worker
// enumerates its own random answers.
type chooser struct {
	prefix []int // answers to give to the first calls
	asked  []int // n of every call met
	last   bool  // answer n-1 to every call (fixed answer for history prefixes)
}

var choosers sync.Map // OS thread id -> *chooser

// gid identifies the calling goroutine while it is locked to its OS thread (planWith locks
// it for the duration of one planning run): the thread id is one cheap system call.
// (Parsing runtime.Stack for the goroutine id serialises all workers on the runtime's
// print lock and cost 70% of the run.)
func gid() int64 { return int64(syscall.Gettid()) }

func init() {
	vrand.Chooser = func(n int, what string) int {
		v, ok := choosers.Load(gid())
		if !ok {
			return 0
		}
		c := v.(*chooser)
		i := len(c.asked)
		c.asked = append(c.asked, n)
		switch {
		case c.last:
			return n - 1
		case i < len(c.prefix):
			return c.prefix[i]
		}
		return 0
	}
}

// planWith plans sql with the given answers (then 0); it returns the n of every call.
func planWith(env *rig.Env, sql string, prefix []int, last bool) (rig.Outcome, []int) {
	c := &chooser{prefix: prefix, last: last}
	runtime.LockOSThread()
	defer runtime.UnlockOSThread()
	id := gid()
	choosers.Store(id, c)
	defer choosers.Delete(id)
	out := env.Plan(rig.DB, sql)
	return out, c.asked
}

// oneRun is one planning run under one vector of random answers.
type oneRun struct {
	choices []int
	asked   []int
	out     rig.Outcome
}

// planAll plans sql under EVERY answer of the planner's rand.Intn calls (odometer over
// the choice points met).
func planAll(env *rig.Env, sql string) []oneRun {
	var runs []oneRun
	prefix := []int{}
	for {
		out, asked := planWith(env, sql, prefix, false)
		runs = append(runs, oneRun{choices: append([]int(nil), prefix...), asked: asked, out: out})
		full := make([]int, len(asked))
		copy(full, prefix)
		i := len(full) - 1
		for i >= 0 {
			full[i]++
			if full[i] < asked[i] {
				break
			}
			i--
		}
		if i < 0 {
			return runs
		}
		prefix = full[:i+1]
	}
}
