// C04: a write that involves only global tables is executed once on every physical copy,
// a SELECT that involves only global tables on exactly one copy, and schema names in the
// statement are rewritten to the physical database of the copy it is sent to.
//
// Engine: enum (bounded-exhaustive). Every global-table layout of the bounded universe
// (namespace slices, the rule's slice list, copies per slice, physical database list form)
// x every statement form is planned by the real plan.BuildPlan on a real router; the
// rand.Intn of the read path is a vrand choice point and every answer is tried.
package main

import (
	"fmt"
	"os"
	"runtime/debug"
	"sort"
	"strconv"
	"strings"
	"sync"

	"github.com/XiaoMi/Gaea/models"
	"github.com/XiaoMi/Gaea/parser/ast"

	"verif/checks/c03/rig"
	"verif/engine/enum"
	"verif/engine/ev"
	"verif/engine/gx"
)

// ------------------------------------------------------------------ layouts

// Layout is one global-table configuration. Both global tables g1 and g2 use it.
type Layout struct {
	NSlices    int    `json:"ns_slices"`   // slices of the namespace: slice-0 .. slice-(n-1)
	RuleSlices []int  `json:"rule_slices"` // the rule's "slices" list, as namespace slice numbers
	Locations  []int  `json:"locations"`   // copies per entry of the rule's slice list
	DBs        string `json:"dbs"`         // absent | list | range | mixed
	// Names: how the namespace names its slices, in configuration order.
	// "" / lex: slice-0, slice-1, ...; rev: slice-(n-1) ... slice-0 (configuration order is
	// the reverse of the lexical order); odd: s2, s10, s1, s9 (not in lexical order either)
	Names string `json:"names,omitempty"`
}

var oddNames = []string{"s2", "s10", "s1", "s9"}

// sliceName is the name of namespace slice i (position in the namespace's slice list).
func (l Layout) sliceName(i int) string {
	switch l.Names {
	case "rev":
		return rig.SliceName(l.NSlices - 1 - i)
	case "odd":
		return oddNames[i]
	}
	return rig.SliceName(i)
}

func (l Layout) namesKind() string {
	if l.Names == "" {
		return "lex"
	}
	return l.Names
}

func (l Layout) String() string {
	s := fmt.Sprintf("ns=%d slices=%v locations=%v dbs=%s", l.NSlices, l.RuleSlices, l.Locations, l.DBs)
	if l.Names != "" {
		var ns []string
		for i := 0; i < l.NSlices; i++ {
			ns = append(ns, l.sliceName(i))
		}
		s += " names=" + strings.Join(ns, ",")
	}
	return s
}

func (l Layout) total() int {
	n := 0
	for _, x := range l.Locations {
		n += x
	}
	return n
}

// sliceOrder names how the rule's slice list relates to the namespace's.
func (l Layout) sliceOrder() string {
	if len(l.RuleSlices) < l.NSlices {
		return "subset"
	}
	for i, s := range l.RuleSlices {
		if s != i {
			return "permuted"
		}
	}
	return "same"
}

// databases returns the configured "databases" entry and the physical db of every copy
// position.
func (l Layout) databases() (cfg []string, phys []string) {
	n := l.total()
	switch l.DBs {
	case "absent":
		for i := 0; i < n; i++ {
			phys = append(phys, rig.DB)
		}
	case "list":
		for i := 0; i < n; i++ {
			d := "phy_" + string(rune('a'+i))
			cfg = append(cfg, d)
			phys = append(phys, d)
		}
	case "range":
		cfg = []string{fmt.Sprintf("gdb[0-%d]", n-1)}
		for i := 0; i < n; i++ {
			phys = append(phys, fmt.Sprintf("gdb%d", i))
		}
	case "mixed":
		cfg = []string{"gdb[0-1]"}
		phys = []string{"gdb0", "gdb1"}
		for i := 2; i < n; i++ {
			d := "phy_" + string(rune('a'+i))
			cfg = append(cfg, d)
			phys = append(phys, d)
		}
	}
	return
}

type copyLoc struct{ Slice, DB string }

func (c copyLoc) String() string { return c.Slice + "/" + c.DB }

// copies is the reference: the configured physical copies (as a set; with "absent" databases
// several locations of one slice are the same physical table).
func (l Layout) copies() []copyLoc {
	_, phys := l.databases()
	seen := map[copyLoc]bool{}
	var out []copyLoc
	p := 0
	for i, s := range l.RuleSlices {
		for j := 0; j < l.Locations[i]; j++ {
			c := copyLoc{l.sliceName(s), phys[p]}
			p++
			if !seen[c] {
				seen[c] = true
				out = append(out, c)
			}
		}
	}
	return out
}

func (l Layout) valid() bool {
	n := l.total()
	switch l.DBs {
	case "range":
		return n >= 2 // the range form needs right > left
	case "mixed":
		return n >= 3
	}
	return true
}

func build(l Layout) (*rig.Env, error) { return buildWith(l, false) }

// buildWith: withT adds a range-sharded table t (key id, 100 rows per table, two tables
// on every namespace slice) for the statements of the history family.
func buildWith(l Layout, withT bool) (*rig.Env, error) {
	cfg, _ := l.databases()
	var slices []string
	for _, s := range l.RuleSlices {
		slices = append(slices, l.sliceName(s))
	}
	mk := func(table string) *models.Shard {
		return &models.Shard{DB: rig.DB, Table: table, Type: models.ShardGlobal, Slices: slices,
			Locations: append([]int(nil), l.Locations...), Databases: append([]string(nil), cfg...)}
	}
	rules := []*models.Shard{mk("g1"), mk("g2")}
	if withT {
		t := &models.Shard{DB: rig.DB, Table: "t", Type: models.ShardRange, Key: "id", TableRowLimit: 100}
		for i := 0; i < l.NSlices; i++ {
			t.Slices = append(t.Slices, l.sliceName(i))
			t.Locations = append(t.Locations, 2)
		}
		rules = append(rules, t)
	}
	var names []string
	for i := 0; i < l.NSlices; i++ {
		names = append(names, l.sliceName(i))
	}
	return rig.NewEnv(rig.NamespaceNamed(names, rules, nil))
}

func layouts(maxSlices, maxLoc int, orders, names bool) []Layout {
	var out []Layout
	for ns := 1; ns <= maxSlices; ns++ {
		var lists [][]int
		id := make([]int, ns)
		for i := range id {
			id[i] = i
		}
		lists = append(lists, id)
		if orders && ns >= 2 {
			rev := make([]int, ns)
			for i := range rev {
				rev[i] = ns - 1 - i
			}
			lists = append(lists, rev, id[1:])
		}
		for _, rs := range lists {
			dims := make([]int, len(rs))
			for i := range dims {
				dims[i] = maxLoc
			}
			enum.Product(dims, func(idx []int) {
				loc := make([]int, len(idx))
				for i, x := range idx {
					loc[i] = x + 1
				}
				for _, d := range []string{"absent", "list", "range", "mixed"} {
					l := Layout{NSlices: ns, RuleSlices: append([]int(nil), rs...), Locations: loc, DBs: d}
					if l.valid() {
						out = append(out, l)
						// slice names whose configuration order is not the lexical order
						if names && ns >= 2 && l.sliceOrder() == "same" {
							for _, nm := range []string{"rev", "odd"} {
								l2 := l
								l2.Names = nm
								out = append(out, l2)
							}
						}
					}
				}
			})
		}
	}
	return out
}

// ------------------------------------------------------------------ statements

// Stmt is one statement form.
type Stmt struct {
	Kind string `json:"kind"` // write | read
	Form string `json:"form"` // insert, update, delete, select, join, ...
	Qual string `json:"qual"` // which names carry "db."
	SQL  string `json:"sql"`
}

func statements() []Stmt {
	var out []Stmt
	add := func(kind, form, qual, sql string) { out = append(out, Stmt{kind, form, qual, sql}) }
	for _, tq := range []string{"", "db."} {
		tname := map[string]string{"": "table_bare", "db.": "table_db"}[tq]
		t1, t2 := tq+"g1", tq+"g2"
		// INSERT family (column names of an INSERT may be qualified too)
		for _, cq := range []string{"", "g1.", "db.g1."} {
			q := tname + "/" + map[string]string{"": "col_bare", "g1.": "col_table", "db.g1.": "col_db"}[cq]
			add("write", "insert", q, fmt.Sprintf("INSERT INTO %s (%sid, %sname) VALUES (1, 'a')", t1, cq, cq))
			add("write", "insert_rows", q, fmt.Sprintf("INSERT INTO %s (%sid, %sname) VALUES (1, 'a'), (2, 'b')", t1, cq, cq))
			add("write", "insert_set", q, fmt.Sprintf("INSERT INTO %s SET %sid = 1, %sname = 'a'", t1, cq, cq))
			add("write", "replace", q, fmt.Sprintf("REPLACE INTO %s (%sid, %sname) VALUES (1, 'a')", t1, cq, cq))
			add("write", "insert_ondup", q, fmt.Sprintf("INSERT INTO %s (%sid, %sname) VALUES (1, 'a') ON DUPLICATE KEY UPDATE %sname = 'b'", t1, cq, cq, cq))
			// SET form together with ON DUPLICATE KEY UPDATE, and a multi-row VALUES list with it
			// (added after seeded change c04-3 was missed: the qualifier clean-up of the SET list
			// and of the ON DUPLICATE list are separate loops)
			add("write", "insert_set_ondup", q, fmt.Sprintf("INSERT INTO %s SET %sid = 1, %sname = 'a' ON DUPLICATE KEY UPDATE %sname = 'b'", t1, cq, cq, cq))
			add("write", "insert_rows_ondup", q, fmt.Sprintf("INSERT INTO %s (%sid, %sname) VALUES (1, 'a'), (2, 'b') ON DUPLICATE KEY UPDATE %sname = 'c'", t1, cq, cq, cq))
			add("write", "replace_set", q, fmt.Sprintf("REPLACE INTO %s SET %sid = 1, %sname = 'a'", t1, cq, cq))
			add("write", "update", q, fmt.Sprintf("UPDATE %s SET %sname = 'x' WHERE %sid = 1", t1, cq, cq))
			add("write", "update_all", q, fmt.Sprintf("UPDATE %s SET %sname = 'x'", t1, cq))
			add("write", "update_order_limit", q, fmt.Sprintf("UPDATE %s SET %sname = 'x' WHERE %sid > 0 ORDER BY %sid LIMIT 1", t1, cq, cq, cq))
			add("write", "update_expr", q, fmt.Sprintf("UPDATE %s SET %sid = %sid + 1 WHERE %sname = 'a'", t1, cq, cq, cq))
			add("write", "delete", q, fmt.Sprintf("DELETE FROM %s WHERE %sid = 1", t1, cq))
			add("write", "delete_in_order_limit", q, fmt.Sprintf("DELETE FROM %s WHERE %sid IN (1, 2) ORDER BY %sid LIMIT 1", t1, cq, cq))
			add("read", "select", q, fmt.Sprintf("SELECT * FROM %s WHERE %sid = 1", t1, cq))
			add("read", "select_cols", q, fmt.Sprintf("SELECT %sid, %sname FROM %s WHERE %sname = 'a' OR %sid IN (1, 2)", cq, cq, t1, cq, cq))
			add("read", "select_group_order", q, fmt.Sprintf("SELECT %sname, COUNT(*) FROM %s GROUP BY %sname ORDER BY %sname LIMIT 2", cq, t1, cq, cq))
			c2 := strings.Replace(cq, "g1", "g2", 1)
			if cq != "" {
				add("read", "join_on", q, fmt.Sprintf("SELECT %sname, %sname FROM %s JOIN %s ON %sid = %sid WHERE %sname = 'a'", cq, c2, t1, t2, cq, c2, cq))
				add("read", "join_comma", q, fmt.Sprintf("SELECT * FROM %s, %s WHERE %sid = %sid", t1, t2, cq, c2))
				add("read", "join_left", q, fmt.Sprintf("SELECT %sid FROM %s LEFT JOIN %s ON %sid = %sid ORDER BY %sid", cq, t1, t2, cq, c2, cq))
			}
		}
		add("write", "delete_all", tname, fmt.Sprintf("DELETE FROM %s", t1))
		// aliases
		add("write", "update_alias", tname+"/alias", fmt.Sprintf("UPDATE %s AS a SET a.name = 'x' WHERE a.id = 1", t1))
		add("read", "select_alias", tname+"/alias", fmt.Sprintf("SELECT a.name FROM %s AS a WHERE a.id = 1 ORDER BY a.id", t1))
		add("read", "select_alias_bare", tname+"/alias", fmt.Sprintf("SELECT name FROM %s a WHERE id = 1", t1))
		add("read", "join_alias", tname+"/alias", fmt.Sprintf("SELECT a.name, b.name FROM %s AS a JOIN %s AS b ON a.id = b.id WHERE b.name = 'a'", t1, t2))
		add("read", "join_alias_comma", tname+"/alias", fmt.Sprintf("SELECT * FROM %s a, %s b WHERE a.id = b.id AND a.id = 1", t1, t2))
		add("read", "self_join_alias", tname+"/alias", fmt.Sprintf("SELECT a.id FROM %s a JOIN %s b ON a.id = b.id", t1, t1))
		add("read", "subquery_in", tname, fmt.Sprintf("SELECT * FROM %s WHERE id IN (SELECT id FROM %s WHERE name = 'a')", t1, t2))
		add("read", "union", tname, fmt.Sprintf("SELECT name FROM %s UNION SELECT name FROM %s", t1, t2))
	}
	// mixed qualification inside one statement
	add("read", "join_on", "table_mixed/col_table", "SELECT g1.name FROM db.g1 JOIN g2 ON g1.id = g2.id")
	add("read", "join_on", "table_mixed/col_db", "SELECT db.g1.name FROM g1 JOIN db.g2 ON db.g1.id = db.g2.id")
	add("write", "update", "table_bare/col_mixed", "UPDATE g1 SET name = 'x' WHERE db.g1.id = 1")
	add("write", "delete", "table_db/col_bare_upper", "DELETE FROM DB.G1 WHERE ID = 1")
	// comparisons with the literal on the LEFT and the (qualified) column on the right, every
	// comparison operator (added after seeded change c04-2 was missed: the value-op-column
	// handler is a separate code path from column-op-value)
	for _, op := range []string{"=", "<>", "<", "<=", ">", ">="} {
		add("write", "update_lit_left", "table_db/col_db", fmt.Sprintf("UPDATE db.g1 SET name = 'x' WHERE 5 %s db.g1.id", op))
		add("write", "delete_lit_left", "table_db/col_db", fmt.Sprintf("DELETE FROM db.g1 WHERE 5 %s db.g1.id", op))
		add("read", "select_lit_left", "table_db/col_db", fmt.Sprintf("SELECT name FROM db.g1 WHERE 5 %s db.g1.id", op))
		add("read", "select_lit_left", "table_bare/col_table", fmt.Sprintf("SELECT name FROM g1 WHERE 5 %s g1.id", op))
		add("write", "update_lit_left", "table_bare/col_bare", fmt.Sprintf("UPDATE g1 SET name = 'x' WHERE 5 %s id", op))
	}
	return out
}

// Case is one (layout, statement) pair.
type Case struct {
	Layout Layout `json:"layout"`
	Stmt   Stmt   `json:"stmt"`
	// History: statements planned before Stmt on the SAME router (history family; the
	// namespace then also has the range-sharded table t)
	History []string `json:"history,omitempty"`
}

// ------------------------------------------------------------------ oracle

type clearer struct{ tables bool }

func (c *clearer) Enter(n ast.Node) (ast.Node, bool) {
	switch x := n.(type) {
	case *ast.TableName:
		x.Schema.O, x.Schema.L = "", ""
	case *ast.ColumnName:
		x.Schema.O, x.Schema.L = "", ""
		if c.tables {
			x.Table.O, x.Table.L = "", ""
		}
	}
	return n, false
}
func (c *clearer) Leave(n ast.Node) (ast.Node, bool) { return n, true }

// shape prints a statement without schema names (and, for single-table statements whose
// column qualifiers the planner may drop, without table qualifiers on columns).
func shape(env *rig.Env, sql string, dropTables bool) (string, error) {
	type res struct {
		s   string
		err error
	}
	k := fmt.Sprint(dropTables) + sql
	if v, ok := shapeCache.Load(k); ok {
		return v.(res).s, v.(res).err
	}
	stmt, err := env.Parse(sql)
	if err != nil {
		shapeCache.Store(k, res{"", err})
		return "", err
	}
	stmt.Accept(&clearer{tables: dropTables})
	out := strings.ToLower(rig.Restore(stmt))
	shapeCache.Store(k, res{out, nil})
	return out, nil
}

// The same generated text recurs across layouts and random answers: what parsing it back
// yields (a pure function of the text, computed by Gaea's parser) is memoised.
var shapeCache, namesCache sync.Map

// qualName is a schema-qualified table or column name found in a generated statement.
type qualName struct{ Schema, Table, Name string }

type sqlNames struct {
	err     error
	tables  []qualName
	columns []qualName
}

func namesOf(env *rig.Env, sql string) sqlNames {
	if v, ok := namesCache.Load(sql); ok {
		return v.(sqlNames)
	}
	var r sqlNames
	_, names, err := env.ParseNames(sql)
	r.err = err
	if err == nil {
		for _, t := range names.Tables {
			r.tables = append(r.tables, qualName{t.Schema.O, "", t.Name.O})
		}
		for _, c := range names.Columns {
			r.columns = append(r.columns, qualName{c.Schema.O, c.Table.O, c.Name.O})
		}
	}
	namesCache.Store(sql, r)
	return r
}

type failure struct {
	viol string
	feat map[string]string
}

type outcome struct {
	fails    []failure // every kind of violation met (one per effect)
	rejected bool
	target   string // where it went (for non-vacuity)
}

// check applies the oracle to what one planning run sent.
func check(env *rig.Env, c *Case, out rig.Outcome) outcome {
	l := c.Layout
	feat := map[string]string{"kind": c.Stmt.Kind, "form": c.Stmt.Form, "qual": c.Stmt.Qual,
		"dbs": l.DBs, "slice_order": l.sliceOrder(), "slice_names": l.namesKind(), "effect": "-",
		"same_db_copies": strconv.FormatBool(l.DBs == "absent" && maxOf(l.Locations) > 1)}
	var res outcome
	seen := map[string]bool{}
	fail := func(effect, msg string) {
		if seen[effect] {
			return
		}
		seen[effect] = true
		f := map[string]string{}
		for k, v := range feat {
			f[k] = v
		}
		f["effect"] = effect
		res.fails = append(res.fails, failure{viol: fmt.Sprintf("%v: %s: %s [%s]", l, c.Stmt.SQL, msg, describe(out)), feat: f})
	}
	if out.ParseErr != "" {
		ev.Fatalf("statement of the universe does not parse: %s: %s", c.Stmt.SQL, out.ParseErr)
	}
	if out.Rejected() {
		return outcome{rejected: true}
	}
	if out.Kind == "UnshardPlan" {
		fail("unshard_plan", "planned as an unsharded statement")
		return res
	}
	copies := l.copies()
	isCopy := map[copyLoc]bool{}
	for _, cp := range copies {
		isCopy[cp] = true
	}
	got := map[copyLoc]int{}
	single := !strings.Contains(c.Stmt.Form, "join") && c.Stmt.Form != "subquery_in" && c.Stmt.Form != "union"
	want, err := shape(env, c.Stmt.SQL, single)
	if err != nil {
		ev.Fatalf("shape: %v", err)
	}
	for _, s := range out.Sent {
		cp := copyLoc{s.Slice, s.DB}
		got[cp]++
		names := namesOf(env, s.SQL)
		if names.err != nil {
			fail("malformed", "generated statement does not parse: "+s.SQL)
			continue
		}
		for _, t := range names.tables {
			if t.Schema != "" && t.Schema != s.DB {
				fail("table_schema_not_physical", fmt.Sprintf("table %s.%s in a statement sent to %v", t.Schema, t.Name, cp))
			}
		}
		for _, col := range names.columns {
			if col.Schema != "" && col.Schema != s.DB {
				fail("column_schema_not_physical", fmt.Sprintf("column %s.%s.%s in a statement sent to %v", col.Schema, col.Table, col.Name, cp))
			}
		}
		if c.Stmt.Kind == "write" {
			// a write must be the same statement on every copy (reads are legitimately
			// rewritten for merging: appended columns, LIMIT)
			g, err := shape(env, s.SQL, single)
			if err != nil {
				fail("malformed", "generated statement does not parse: "+s.SQL)
			} else if g != want {
				fail("statement_changed", "apart from schema names the statement differs: "+s.SQL)
			}
		}
	}
	var where []string
	for cp, n := range got {
		where = append(where, fmt.Sprintf("%v x%d", cp, n))
	}
	sort.Strings(where)
	for _, s := range out.Sent {
		if cp := (copyLoc{s.Slice, s.DB}); !isCopy[cp] {
			fail("not_a_copy", fmt.Sprintf("sent to %v, which is not a configured copy %v", cp, copies))
		}
	}
	if c.Stmt.Kind == "read" {
		// a UNION is two SELECTs, each of which goes to exactly one copy
		wantN := 1
		if c.Stmt.Form == "union" {
			wantN = 2
		}
		if len(out.Sent) != wantN {
			fail("read_copy_count", fmt.Sprintf("every SELECT must go to exactly one copy; %d SELECT(s) produced %d statements", wantN, len(out.Sent)))
		}
	} else {
		for _, cp := range copies {
			switch n := got[cp]; {
			case n == 0:
				fail("copy_missed", fmt.Sprintf("copy %v did not receive the write; copies %v", cp, copies))
			case n > 1:
				fail("copy_written_twice", fmt.Sprintf("copy %v received the write %d times", cp, n))
			}
		}
	}
	res.target = strings.Join(where, ",")
	return res
}

func maxOf(xs []int) int {
	m := 0
	for _, x := range xs {
		if x > m {
			m = x
		}
	}
	return m
}

func describe(o rig.Outcome) string {
	if o.Rejected() {
		return "rejected: " + o.Err
	}
	var parts []string
	for _, s := range o.Sent {
		parts = append(parts, s.Slice+"/"+s.DB+": "+s.SQL)
	}
	if len(parts) == 0 {
		return "accepted, nothing sent"
	}
	return "sent " + strings.Join(parts, " | ")
}

var (
	tallyMu       sync.Mutex
	rejectedForms = map[string]int{}
	tallies       = map[string]int{}
	tallyEx       = map[string]string{}
)

// tally groups violations for C04_DEBUG=1.
func tally(o failure) {
	if os.Getenv("C04_DEBUG") == "" {
		return
	}
	tallyMu.Lock()
	defer tallyMu.Unlock()
	k := fmt.Sprintf("effect=%s kind=%s form=%s qual=%s dbs=%s slice_order=%s same_db_copies=%s", o.feat["effect"], o.feat["kind"], o.feat["form"], o.feat["qual"], o.feat["dbs"], o.feat["slice_order"], o.feat["same_db_copies"])
	tallies[k]++
	if _, ok := tallyEx[k]; !ok {
		tallyEx[k] = o.viol
	}
}

func printTallies() {
	if os.Getenv("C04_DEBUG") == "" {
		return
	}
	var rk []string
	for k := range rejectedForms {
		rk = append(rk, k)
	}
	sort.Strings(rk)
	for _, k := range rk {
		fmt.Printf("REJECTED %5d %s\n", rejectedForms[k], k)
	}
	var ks []string
	for k := range tallies {
		ks = append(ks, k)
	}
	sort.Strings(ks)
	for _, k := range ks {
		fmt.Printf("TALLY %6d %s\n      e.g. %s\n", tallies[k], k, tallyEx[k])
	}
}

// runCase plans the statement under EVERY answer of the planner's rand.Intn calls and
// checks each run.
func runCase(r *ev.Run, env *rig.Env, c Case, verbose bool) {
	for _, run := range planAll(env, c.Stmt.SQL) {
		out := run.out
		res := check(env, &c, out)
		r.Add("evaluations", 1)
		r.Add("runs_"+c.Stmt.Kind, 1)
		if len(run.asked) > 0 {
			r.Add("runs_with_random_choice", 1)
		}
		if verbose {
			fmt.Printf("choices=%v of %v: %s\n", run.choices, run.asked, describe(out))
		}
		switch {
		case len(res.fails) > 0:
			for _, f := range res.fails {
				r.Violation(ev.Witness{Summary: f.viol, Features: f.feat, Case: c})
				tally(f)
			}
		case res.rejected:
			r.Add("rejected", 1)
			r.Distinct("rejected_forms", c.Stmt.Form+"/"+c.Stmt.Qual+": "+out.Err)
			tallyMu.Lock()
			rejectedForms[c.Stmt.Form+"/"+c.Stmt.Qual+": "+out.Err]++
			tallyMu.Unlock()
		default:
			r.Add("accepted", 1)
			r.Distinct("accepted_forms", c.Stmt.Form+"/"+c.Stmt.Qual)
			// non-trivial: a write fanned out to >=2 copies, or a read steered to a copy by
			// the enumerated random answer (distinct layout, form, target)
			if c.Stmt.Kind == "read" || strings.Contains(res.target, ",") {
				r.Distinct("nontrivial", c.Layout.String()+"|"+c.Stmt.Form+"/"+c.Stmt.Qual+"|"+res.target)
			}
			if c.Stmt.Kind == "read" {
				r.Distinct("read_targets", c.Layout.String()+"|"+res.target)
			}
		}
	}
}

func main() {
	gx.Quiet()
	r := ev.Start("C04", "exploration")
	var rc Case
	if r.ReplayCase(&rc) {
		env, err := build(rc.Layout)
		if err != nil {
			ev.Fatalf("layout %v: %v", rc.Layout, err)
		}
		fmt.Println("replay:", rc.Layout, rc.Stmt.SQL, "copies:", rc.Layout.copies())
		if len(rc.History) > 0 {
			replayHistoryCase(r, rc)
			r.Finish()
		}
		runCase(r, env, rc, true)
		r.Finish()
	}
	debug.SetGCPercent(400)
	ls := layouts(r.Pick(3, 4), 3, true, true)
	stmts := statements()
	var mu sync.Mutex
	done := 0
	n := enum.Parallel(len(ls), r.TimeUp, func(i int) {
		l := ls[i]
		env, err := build(l)
		if err != nil {
			ev.Fatalf("layout %v: %v", l, err)
		}
		for _, s := range stmts {
			c := Case{Layout: l, Stmt: s}
			runCase(r, env, c, false)
			if l.NSlices == 2 && l.sliceOrder() == "same" && l.Locations[0] == 1 && l.Locations[1] == 2 && (s.Form == "update" || s.Form == "join_on") && s.Qual == "table_db/col_db" {
				out, _ := planWith(env, s.SQL, nil, true)
				r.Sample(map[string]interface{}{"layout": l.String(), "copies": fmt.Sprint(l.copies()), "sql": s.SQL, "random_answer": "last", "sent": describe(out)})
			}
		}
		mu.Lock()
		done++
		mu.Unlock()
	})
	if n < len(ls) || r.TimeUp() {
		r.Capped(fmt.Sprintf("%d of %d layouts completed", done, len(ls)))
	}
	hls := historyLayouts(r)
	hdone := 0
	hn := enum.Parallel(len(hls), r.TimeUp, func(i int) {
		historyFamily(r, hls[i])
		mu.Lock()
		hdone++
		mu.Unlock()
	})
	if hn < len(hls) || r.TimeUp() {
		r.Capped(fmt.Sprintf("history family: %d of %d layouts completed", hdone, len(hls)))
	}
	r.Set("history_layouts", len(hls))
	r.Set("history_bound", fmt.Sprintf("%d layouts (namespace slices 1-%d, 1-2 copies per slice, databases absent / list / range%s; the namespace also holds a range-sharded table t with two tables per slice): a subject S (one representative per statement form of the main universe, fully db-qualified where the form has such a spelling, plus full scan / NOT BETWEEN / IN / range / UPDATE / INSERT on t and a join of t with a global table) is planned under EVERY rand.Intn answer after every prefix of 1-2 distinct statements of a 17-statement pool (global INSERT VALUES / rows / SET, REPLACE, UPDATE, DELETE, SELECT, join, UNION, GROUP BY; on t: multi-row INSERT, NOT BETWEEN with far-apart bounds, IN, range, full scan, UPDATE, join with a global table) on the SAME router; the subjects follow one another on that router, rotated per prefix; reads inside a history take the last copy", len(hls), r.Pick(2, 3), map[bool]string{true: "", false: "; rule slice list also reversed / without the first slice"}[r.Quick()]))
	printTallies()
	r.Set("layouts", len(ls))
	r.Set("statement_forms", len(stmts))
	r.Set("bound", fmt.Sprintf("%d layouts (namespace slices 1-%d; slice names slice-0.. in lexical order, in reverse-lexical configuration order, or s2,s10,s1,s9; rule slice list = all slices in order / reversed / without the first; 1-3 copies per listed slice; databases absent / explicit list / db[0-n] range / range+names) x %d statement forms (INSERT VALUES/SET/REPLACE/ON DUPLICATE, UPDATE, DELETE, SELECT, joins of two global tables, aliases, subquery, UNION; table and column names bare / table-qualified / db-qualified) x every answer of rand.Intn", len(ls), r.Pick(3, 4), len(stmts)))
	r.Set("rule", "every (layout, statement form, random answer) is enumerated. distinct_nontrivial counts distinct (layout, form, target) where an accepted write was fanned out to at least two copies or an accepted read was steered to one copy by the enumerated rand.Intn answer, plus distinct (layout, prefix, subject) of the history family where the subject was accepted after the prefix and all its plans (one per random answer) were identical to its plans on a fresh router")
	r.Assume("a rejected statement is not executed anywhere and is therefore not a violation (rejected forms are listed in NOTES.md)")
	r.Assume("both global tables of a join have the same configuration (Gaea's documented requirement)")
	r.Assume("the configured copies are the rule's own slices/locations/databases lists; with databases absent, several locations on one slice denote the same physical table db.g1")
	if r.Count("accepted") == 0 || r.Count("runs_with_random_choice") == 0 {
		ev.Fatalf("vacuous run: accepted=%d runs_with_random_choice=%d", r.Count("accepted"), r.Count("runs_with_random_choice"))
	}
	if r.DistinctN("read_targets") < 2 {
		ev.Fatalf("vacuous run: reads never reached two different copies")
	}
	r.Finish()
}
