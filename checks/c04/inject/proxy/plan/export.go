//go:build verif

package plan

// VerifUnionSubPlans returns the per-SELECT plans of a UNION plan (the plan rig reads the
// statements of each through SelectPlan.GetSQLs; UnionPlan.ExecuteIn would go on to merge
// result sets, which a recording executor does not have).
func VerifUnionSubPlans(p *UnionPlan) []Plan { return p.subPlans }
