//go:build verif

package server

import (
	"fmt"

	"github.com/XiaoMi/Gaea/util"
)

// VerifExecuteEmptySQLs hands an empty slice/db/sql map to the real
// SessionExecutor.ExecuteSQLs and returns its answer, so that the recording executor of
// the plan rig can answer an empty map the way the real executor does (today: the error
// "no sql to execute", i.e. a plan that generated nothing is a rejected statement).
func VerifExecuteEmptySQLs() (err error) {
	defer func() {
		if e := recover(); e != nil {
			err = fmt.Errorf("panic: %v", e)
		}
	}()
	_, err = (&SessionExecutor{}).ExecuteSQLs(util.NewRequestContext(), map[string]map[string][]string{})
	return err
}
