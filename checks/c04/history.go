package main

// History family (added after seeded change c03-3): a statement S over global tables is
// planned after a prefix H of 1-2 OTHER statements on the SAME router/namespace instance
// (global-table writes and reads, INSERT forms, and NOT BETWEEN / IN / range statements on
// a range-sharded table of the same namespace) and must (a) satisfy the usual oracle and
// (b) get, for every answer of rand.Intn, exactly the plan it gets on a fresh instance.

import (
	"fmt"
	"strings"

	"verif/checks/c03/rig"
	"verif/engine/ev"
)

type hstmt struct {
	Name string
	SQL  string
	Stmt *Stmt // a statement of the main universe (usual oracle: check)
}

func sig(o rig.Outcome) string {
	if o.Rejected() {
		return "REJECTED"
	}
	var sb strings.Builder
	for _, s := range o.Sent {
		sb.WriteString(s.Slice + "/" + s.DB + ": " + s.SQL + "\n")
	}
	return sb.String()
}

func oneLine(s string) string { return strings.ReplaceAll(strings.TrimSpace(s), "\n", " | ") }

// historyStatements: the prefix pool and the subjects (one representative per statement
// form of the main universe, preferring the fully db-qualified spelling).
func historyStatements() (pool, subjects []hstmt) {
	best := map[string]Stmt{}
	var order []string
	rank := func(q string) int {
		switch {
		case q == "table_db/col_db":
			return 3
		case strings.HasPrefix(q, "table_db"):
			return 2
		}
		return 1
	}
	for _, s := range statements() {
		old, ok := best[s.Form]
		if !ok {
			order = append(order, s.Form)
		}
		if !ok || rank(s.Qual) > rank(old.Qual) {
			best[s.Form] = s
		}
	}
	for _, f := range order {
		s := best[f]
		subjects = append(subjects, hstmt{Name: "S:" + f, SQL: s.SQL, Stmt: &s})
	}
	raw := func(name, sql string) hstmt { return hstmt{Name: name, SQL: sql} }
	shardT := []hstmt{
		raw("t_insert_rows", "INSERT INTO t (id, v) VALUES (399, 'a'), (150, 'b'), (1, 'c')"),
		raw("t_not_between_wide", "SELECT * FROM t WHERE id NOT BETWEEN 50 AND 350"),
		raw("t_in", "SELECT * FROM t WHERE id IN (399, 1)"),
		raw("t_range", "SELECT * FROM t WHERE id > 120 AND id <= 250"),
		raw("t_all", "SELECT * FROM t"),
		raw("t_update", "UPDATE t SET v = 'x' WHERE id = 250"),
		raw("t_join_global", "SELECT * FROM t JOIN g1 ON t.id = g1.id WHERE t.id = 150"),
	}
	for _, h := range shardT {
		subjects = append(subjects, hstmt{Name: "S:" + h.Name, SQL: h.SQL})
	}
	pool = append(pool,
		raw("g_insert", "INSERT INTO db.g1 (id, name) VALUES (1, 'a')"),
		raw("g_insert_rows", "INSERT INTO g1 (id, name) VALUES (1, 'a'), (2, 'b')"),
		raw("g_insert_set", "INSERT INTO g2 SET id = 1, name = 'a'"),
		raw("g_replace", "REPLACE INTO db.g2 (id, name) VALUES (1, 'a')"),
		raw("g_update", "UPDATE db.g1 SET db.g1.name = 'x' WHERE db.g1.id = 1"),
		raw("g_delete", "DELETE FROM g2 WHERE id IN (1, 2) ORDER BY id LIMIT 1"),
		raw("g_select", "SELECT * FROM db.g1 WHERE db.g1.id = 1"),
		raw("g_join", "SELECT g1.name, g2.name FROM g1 JOIN g2 ON g1.id = g2.id WHERE g1.name = 'a'"),
		raw("g_union", "SELECT name FROM g1 UNION SELECT name FROM g2"),
		raw("g_group_order", "SELECT name, COUNT(*) FROM g1 GROUP BY name ORDER BY name LIMIT 2"))
	pool = append(pool, shardT...)
	return
}

func historyLayouts(r *ev.Run) []Layout {
	var out []Layout
	maxNS := r.Pick(2, 3)
	for _, l := range layouts(maxNS, 2, r.Thorough(), r.Thorough()) {
		if l.DBs == "mixed" {
			continue
		}
		out = append(out, l)
	}
	return out
}

// planSubject plans a subject under every random answer; it returns one signature per
// answer vector and the usual-oracle failures.
func planSubject(env *rig.Env, l Layout, s hstmt) (sigs []string, fails []failure, accepted bool) {
	for _, run := range planAll(env, s.SQL) {
		sigs = append(sigs, fmt.Sprint(run.choices)+" => "+sig(run.out))
		if !run.out.Rejected() && len(run.out.Sent) > 0 {
			accepted = true
		}
		if s.Stmt != nil {
			c := Case{Layout: l, Stmt: *s.Stmt}
			fails = append(fails, check(env, &c, run.out).fails...)
		}
	}
	return
}

func freshWithHistory(l Layout, hist []string) *rig.Env {
	env, err := buildWith(l, true)
	if err != nil {
		ev.Fatalf("layout %v: %v", l, err)
	}
	for _, h := range hist {
		planWith(env, h, nil, true) // reads of the history take the last copy
	}
	return env
}

func historyFamily(r *ev.Run, l Layout) {
	pool, subjects := historyStatements()
	base := make([]string, len(subjects))
	for i, s := range subjects {
		sg, _, _ := planSubject(freshWithHistory(l, nil), l, s)
		base[i] = strings.Join(sg, "\n")
	}
	var prefixes [][]int
	for i := range pool {
		prefixes = append(prefixes, []int{i})
	}
	for i := range pool {
		for j := range pool {
			if i != j {
				prefixes = append(prefixes, []int{i, j})
			}
		}
	}
	var plans, equal int64
	for pi, pf := range prefixes {
		var hist, hnames []string
		for _, i := range pf {
			hist = append(hist, pool[i].SQL)
			hnames = append(hnames, pool[i].Name)
		}
		env := freshWithHistory(l, hist)
		plans += int64(len(pf))
		for k := range subjects {
			si := (k + pi) % len(subjects)
			s := subjects[si]
			sg, fails, accepted := planSubject(env, l, s)
			plans += int64(len(sg))
			for _, f := range fails {
				f.feat["history"] = strings.Join(hnames, "+")
				r.Violation(ev.Witness{Summary: "after " + strings.Join(hist, " ; ") + " on the same router: " + f.viol, Features: f.feat,
					Case: Case{Layout: l, Stmt: *s.Stmt, History: append([]string(nil), hist...)}})
				tally(f)
			}
			if got := strings.Join(sg, "\n"); got != base[si] {
				reportHistoryDependence(r, l, hist, s, base[si], got)
			} else {
				equal++
				if accepted {
					r.Distinct("nontrivial", "history:"+l.String()+"|"+strings.Join(hnames, "+")+"|"+s.Name)
				}
			}
			hist = append(hist, s.SQL)
		}
		if r.TimeUp() {
			break
		}
	}
	r.Add("evaluations", plans)
	r.Add("history_plans", plans)
	r.Add("history_prefixes", int64(len(prefixes)))
	r.Add("history_subjects_equal_to_fresh", equal)
}

func templateOf(sql string) string {
	u := strings.ToUpper(sql)
	tbl := "global"
	if strings.Contains(u, " T ") || strings.HasSuffix(u, " T") {
		tbl = "sharded"
	}
	switch {
	case strings.HasPrefix(u, "INSERT"), strings.HasPrefix(u, "REPLACE"):
		return tbl + "_insert"
	case strings.Contains(u, "NOT BETWEEN"):
		return tbl + "_not_between"
	case strings.HasPrefix(u, "UPDATE"):
		return tbl + "_update"
	case strings.HasPrefix(u, "DELETE"):
		return tbl + "_delete"
	}
	return tbl + "_select"
}

// reportHistoryDependence minimises the history (greedy deletion, every trial on a fresh
// router) and reports the differential violation.
func reportHistoryDependence(r *ev.Run, l Layout, hist []string, s hstmt, want, got string) {
	st := Stmt{Kind: "history", Form: strings.TrimPrefix(s.Name, "S:"), SQL: s.SQL}
	if s.Stmt != nil {
		st = *s.Stmt
	}
	feat := map[string]string{"kind": "history", "form": st.Form, "qual": st.Qual, "dbs": l.DBs,
		"slice_order": l.sliceOrder(), "effect": "history_dependent", "same_db_copies": "-", "culprit": "unminimised"}
	cur := append([]string(nil), hist...)
	if r.Count("history_minimised") < 40 {
		r.Add("history_minimised", 1)
		differs := func(h []string) (bool, string) {
			sg, _, _ := planSubject(freshWithHistory(l, h), l, s)
			g := strings.Join(sg, "\n")
			return g != want, g
		}
		if d, _ := differs(cur); !d {
			ev.Fatalf("history violation does not reproduce on a fresh router: %v then %s", hist, s.SQL)
		}
		for i := 0; i < len(cur); {
			trial := append(append([]string(nil), cur[:i]...), cur[i+1:]...)
			if d, _ := differs(trial); d {
				cur = trial
			} else {
				i++
			}
		}
		_, got = differs(cur)
		var cs []string
		for _, h := range cur {
			cs = append(cs, templateOf(h))
		}
		feat["culprit"] = strings.Join(cs, "+")
	}
	sum := fmt.Sprintf("%v: after [%s] on the same router, %q is planned as {%s} but on a fresh router as {%s}",
		l, strings.Join(cur, " ; "), s.SQL, oneLine(got), oneLine(want))
	f := failure{viol: sum, feat: feat}
	r.Violation(ev.Witness{Summary: sum, Features: feat, Case: Case{Layout: l, Stmt: st, History: cur}})
	tally(f)
}

// replayHistoryCase re-runs a witness of the history family.
func replayHistoryCase(r *ev.Run, rc Case) {
	s := hstmt{Name: "S:" + rc.Stmt.Form, SQL: rc.Stmt.SQL}
	if rc.Stmt.Kind != "history" {
		st := rc.Stmt
		s.Stmt = &st
	}
	fresh, _, _ := planSubject(freshWithHistory(rc.Layout, nil), rc.Layout, s)
	after, fails, _ := planSubject(freshWithHistory(rc.Layout, rc.History), rc.Layout, s)
	fmt.Println("history:", rc.History)
	fmt.Println("fresh router:\n ", strings.Join(fresh, "\n  "))
	fmt.Println("after history:\n ", strings.Join(after, "\n  "))
	r.Add("evaluations", int64(len(fresh)+len(after)))
	for _, f := range fails {
		r.Violation(ev.Witness{Summary: f.viol, Features: f.feat, Case: rc})
	}
	if strings.Join(fresh, "\n") != strings.Join(after, "\n") {
		reportHistoryDependence(r, rc.Layout, rc.History, s, strings.Join(fresh, "\n"), strings.Join(after, "\n"))
	}
}
