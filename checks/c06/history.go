package main

// History family ("start from non-initial states"): a representative statement S is decided
// (token pre-check, parser-based analysis, BuildPlan) on a namespace whose router has already
// planned a prefix H of one or two OTHER statements through the real getPlan. Required:
// (a) the C06 oracle for S, and (b) every observable of S — pre-check answer, full-analysis
// answer, plan error, the route of the plan BuildPlan makes, where the short-cut would send
// it — is identical to what a fresh namespace gives. The pre-check and the planner read the
// namespace's shared router; a plan that writes to it changes what LATER statements get.

import (
	"fmt"
	"strings"

	"github.com/XiaoMi/Gaea/proxy/server"

	"verif/engine/ev"
)

type histStmt struct {
	ID      string `json:"id"`
	Session string `json:"session"`
	SQL     string `json:"sql"`
}

// HistCase is the replayable witness of the history family.
type HistCase struct {
	Family string     `json:"family"` // "history"
	Layout string     `json:"layout"`
	Hist   []histStmt `json:"hist"`
	Stmt   Case       `json:"stmt"`
}

// histAlphabet: the statements a history is made of (prime = also used in two-statement
// prefixes). Literals: Z on the first table, A, B, C on the 2nd, 3rd, 4th.
func histAlphabet(layout string) (all []histStmt, prime []histStmt) {
	Z, A, B, C := "4", "1", "2", "3"
	if layout == "range" {
		Z, A, B, C = "5", "10", "25", "35"
	}
	f := strings.NewReplacer("{Z}", Z, "{A}", A, "{B}", B, "{C}", C).Replace
	mk := func(id, session, sql string, p bool) {
		h := histStmt{ID: id, Session: session, SQL: f(sql)}
		all = append(all, h)
		if p {
			prime = append(prime, h)
		}
	}
	mk("insert_values", "db", "insert into t (id, k) values ({B}, 1)", true)
	mk("insert_values_multi", "db", "insert into t (id, k) values ({C}, 1), ({A}, 2)", true)
	mk("select_not_between", "db", "select * from t where id not between {Z} and {C}", true)
	mk("unshard_fast_path", "db", "select * from u where id = 1", true)
	mk("other_db_fast_path", "db", "select * from db2.x where id = 1", true)
	mk("global_select", "db", "select * from g where id = 1", true)
	mk("select_in", "db", "select * from t where id in ({C}, {A})", false)
	mk("select_lt", "db", "select * from t where id < {B}", false)
	mk("select_all", "db", "select * from t", false)
	mk("global_update", "db", "update g set name = 'x' where id = 1", false)
	mk("unshard_insert_fast_path", "db", "insert into u (id, k) values (1, 1)", false)
	mk("upper_case_name", "db", "select * from T where id = {A}", false)
	mk("delete_ge", "db", "delete from t where id >= {B}", false)
	mk("insert_child", "db", "insert into t2 (id, w) values ({B}, 1)", false)
	mk("no_session_db_qualified", "", "select * from db.t where id = {C}", false)
	mk("session_db2_fast_path", "db2", "select * from x", false)
	return
}

// histSubjects: per template the all-unsharded instance, the instance with the sharded
// table first, with it last, with the global table first, and with an upper-case sharded
// name (a former bypass class), session db; plus a qualified instance without session db.
func histSubjects(layout string) []Case {
	var out []Case
	for i := range templates {
		t := &templates[i]
		mk := func(session string, first, last Ref) {
			refs := make([]Ref, t.N)
			for k := range refs {
				refs[k] = Ref{Table: "u"}
			}
			refs[0] = first
			if t.N > 1 {
				refs[t.N-1] = last
			}
			out = append(out, Case{Tpl: t.ID, Refs: refs, Session: session, Layout: layout})
		}
		mk("db", Ref{Table: "u"}, Ref{Table: "u"})
		mk("db", Ref{Table: "t"}, Ref{Table: "u"})
		mk("db", Ref{Table: "g"}, Ref{Table: "u"})
		mk("db", Ref{Table: "t", Upper: true}, Ref{Table: "u"})
		mk("", Ref{Table: "t", Qual: 1}, Ref{Table: "u", Qual: 1})
		if t.N > 1 {
			mk("db", Ref{Table: "u"}, Ref{Table: "t"})
			mk("db", Ref{Table: "t"}, Ref{Table: "t2"})
		}
	}
	return out
}

func (w *world) close() { w.ns.Close(false) }

// histDecide decides S on a fresh world after H went through the real getPlan.
func histDecide(layout string, h []histStmt, s Case) verdict {
	w := newWorld(layout)
	defer w.close()
	for _, x := range h {
		server.VerifC06GetPlan(w.se, x.Session, x.SQL) // outcome irrelevant: only what it leaves behind matters
	}
	w.wantSig = true
	return w.decide(s)
}

type histStats struct{ histories, plans, sharded int64 }

func isRandomPlan(s Case) bool { // SELECT that touches only global tables picks a random copy
	t := tplByID[s.Tpl]
	if t.Stmt != "select" {
		return false
	}
	anyG := false
	for _, r := range s.Refs {
		if r.Table == "t" || r.Table == "t2" {
			return false
		}
		if r.Table == "g" && r.Qual != 3 {
			anyG = true
		}
	}
	return anyG
}

func runHistory(r *ev.Run, layout string, s Case, hs *histStats) {
	all, prime := histAlphabet(layout)
	fresh := histDecide(layout, nil, s)
	if again := histDecide(layout, nil, s); again != fresh && !isRandomPlan(s) {
		ev.Fatalf("history family: %q decided differently on two fresh namespaces:\n%+v\n%+v", s.text(), fresh, again)
	}
	if fresh.parseErr || fresh.withoutPlan {
		return
	}
	var hists [][]histStmt
	for _, h := range all {
		if h.SQL != s.text() {
			hists = append(hists, []histStmt{h})
		}
	}
	for i, h1 := range prime {
		for j, h2 := range prime {
			if i != j {
				hists = append(hists, []histStmt{h1, h2})
			}
		}
	}
	for _, h := range hists {
		if r.TimeUp() {
			return
		}
		hs.histories++
		hs.plans += int64(len(h)) + 1
		if fresh.fullShard {
			hs.sharded++
		}
		checkHistory(r, layout, h, s, fresh, true)
	}
}

func normalise(v verdict, s Case) verdict {
	if isRandomPlan(s) {
		v.planSig = ""
	}
	return v
}

func checkHistory(r *ev.Run, layout string, h []histStmt, s Case, fresh verdict, minimise bool) bool {
	v := histDecide(layout, h, s)
	if normalise(v, s) == normalise(fresh, s) && !v.violates() {
		return false
	}
	if minimise && len(h) > 1 {
		for _, one := range h {
			if checkHistory(r, layout, []histStmt{one}, s, fresh, false) {
				return true
			}
		}
	}
	var ids, sqls []string
	for _, x := range h {
		ids = append(ids, x.ID)
		sqls = append(sqls, x.SQL)
	}
	kind := "decision_depends_on_history"
	if v.violates() {
		kind = "bypass_after_history"
	}
	r.Violation(ev.Witness{
		Summary: fmt.Sprintf("layout %s: after [%s] went through getPlan on the same namespace, session db %q: %q is decided / planned differently.\nafter the history: %+v\nfresh namespace:   %+v", layout, strings.Join(sqls, " ; "), s.Session, s.text(), v, fresh),
		Features: map[string]string{"kind": kind, "mech": "history", "hist": strings.Join(ids, ","), "tpl": s.Tpl, "stmt": tplByID[s.Tpl].Stmt,
			"pos": "-", "table": "-", "ctx": "-", "layout": layout},
		Case: HistCase{Family: "history", Layout: layout, Hist: h, Stmt: s},
	})
	return true
}
