//go:build verif

package server

import (
	"fmt"
	"strings"

	"github.com/XiaoMi/Gaea/parser"
	"github.com/XiaoMi/Gaea/proxy/plan"
	"github.com/XiaoMi/Gaea/util"
)

// Accessors for the C06 harness (injected by the build overlay; not part of Gaea).

// VerifC06Executor assembles a session executor bound to ns (field assignments only).
func VerifC06Executor(ns *Namespace) *SessionExecutor {
	se := newSessionExecutor(nil)
	se.namespace = ns.name
	se.contextNamespace = ns
	se.session = &Session{proxy: &Server{ServerVersionCompareStatus: util.NewVersionCompareStatus("5.6.20-gaea")}}
	return se
}

// VerifC06GetPlan is doQuery up to and including plan construction (the real getPlan:
// token pre-check, else parser + BuildPlan on the namespace's router). A panic is what
// handleQuery would recover into an error.
func VerifC06GetPlan(se *SessionExecutor, db, sql string) (p plan.Plan, err error) {
	defer func() {
		if e := recover(); e != nil {
			p, err = nil, fmt.Errorf("panic: %v", e)
		}
	}()
	reqCtx := util.NewRequestContext()
	sql = strings.TrimRight(sql, ";")
	reqCtx.SetStmtType(parser.Preview(sql))
	if canHandleWithoutPlan(reqCtx.GetStmtType()) {
		return nil, nil
	}
	return se.getPlan(reqCtx, se.GetNamespace(), db, sql, true)
}

// VerifC06PreBuild runs the statement text through the steps that precede the token
// pre-check on the COM_QUERY path (handleQuery trims trailing ';', checkSQLAllowed sets
// the statement type from parser.Preview, doQuery diverts statements that need no plan)
// and then calls the real preBuildUnshardPlan. withoutPlan=true: the statement never
// reaches the plan stage.
func VerifC06PreBuild(se *SessionExecutor, db, sql string) (p plan.Plan, isUnshard bool, withoutPlan bool) {
	reqCtx := util.NewRequestContext()
	sql = strings.TrimRight(sql, ";")
	reqCtx.SetStmtType(parser.Preview(sql))
	if canHandleWithoutPlan(reqCtx.GetStmtType()) {
		return nil, false, true
	}
	p, isUnshard = se.preBuildUnshardPlan(reqCtx, db, sql)
	return p, isUnshard, false
}
