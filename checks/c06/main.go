// C06: the fast unsharded path never bypasses sharding.
//
// Engine: enum (bounded-exhaustive). Statement texts are generated from templates
// (SELECT / DELETE / INSERT / REPLACE / UPDATE; comma join, JOIN, subquery in FROM / WHERE /
// field list, UNION, INSERT … SELECT, multi-table UPDATE) over the table vocabulary
// {t sharded, t2 linked, g global, u unsharded} with every combination of decorations of a
// table reference (letter case, schema qualification db./DB./db2./"db . ", backquotes,
// comment / newline / tab / nothing glued before or after the name) and session database
// ∈ {db, none, db2}. For every text the real SessionExecutor.preBuildUnshardPlan (token
// pre-check) is compared with the parser-based decision (plan.NewChecker over the parsed
// statement, cross-checked against plan.BuildPlan): whenever the full analysis says the
// statement involves a sharded table, the pre-check must not answer isUnshardPlan=true.
package main

import (
	"errors"
	"fmt"
	"os"
	"sort"
	"strings"
	"sync"

	"github.com/XiaoMi/Gaea/proxy/plan"
	"github.com/XiaoMi/Gaea/proxy/server"

	"verif/engine/enum"
	"verif/engine/ev"
	"verif/engine/gx"
	"verif/ref/planrig"
)

// ---------------------------------------------------------------- statement space

type Ref struct {
	Table string `json:"table"` // u | t | t2 | g
	Upper bool   `json:"upper,omitempty"`
	Qual  int    `json:"qual,omitempty"` // 0 none, 1 db., 2 DB., 3 db2., 4 "db . "
	BQ    bool   `json:"bq,omitempty"`
	Glue  int    `json:"glue,omitempty"` // see glueNames
}

var tables = []string{"u", "t", "t2", "g"}
var qualNames = []string{"none", "db.", "DB.", "db2.", "db_space_dot_space"}
var glueNames = []string{"space", "comment_glued_before", "comment_glued_after", "newline_before", "comment_between", "nothing_before", "line_comment_between", "tab_before"}

func (r Ref) render() string {
	name := r.Table
	if r.Upper {
		name = strings.ToUpper(name)
	}
	q := func(s string) string {
		if r.BQ {
			return "`" + s + "`"
		}
		return s
	}
	s := q(name)
	switch r.Qual {
	case 1:
		s = q("db") + "." + s
	case 2:
		s = q("DB") + "." + s
	case 3:
		s = q("db2") + "." + s
	case 4:
		s = q("db") + " . " + s
	}
	switch r.Glue {
	case 0:
		return " " + s
	case 1:
		return "/**/" + s
	case 2:
		return " " + s + "/**/"
	case 3:
		return "\n" + s
	case 4:
		return " /*c*/ " + s
	case 5:
		return s
	case 6:
		return " -- c\n" + s
	}
	return "\t" + s
}

func (r Ref) plain() bool { return !r.Upper && r.Qual == 0 && !r.BQ && r.Glue == 0 }

type template struct {
	ID   string
	Stmt string
	Text string // %1 %2 %3 = table references including the separator in front of them
	N    int
}

var templates = []template{
	{"select_from", "select", "select * from%1", 1},
	{"select_where", "select", "select * from%1 where id = 1", 1},
	{"select_alias", "select", "select * from%1 a where a.id = 1", 1},
	{"select_from_subquery", "select", "select * from (select * from%1) x", 1},
	{"select_from_subquery_sp", "select", "select * from (select * from%1 ) x", 1},
	{"select_group", "select", "select k, count(*) from%1 group by k order by k limit 3", 1},
	{"delete_where", "delete", "delete from%1 where id = 1", 1},
	{"delete_all", "delete", "delete from%1", 1},
	{"insert_into_cols", "insert", "insert into%1 (id, k) values (1, 1)", 1},
	{"insert_into_cols_nospace", "insert", "insert into%1(id, k) values (1, 1)", 1},
	{"insert_no_into", "insert", "insert%1 (id, k) values (1, 1)", 1},
	{"insert_values", "insert", "insert into%1 values (1, 1, 1, 1)", 1},
	{"insert_set", "insert", "insert into%1 set id = 1, k = 1", 1},
	{"insert_ignore", "insert", "insert ignore into%1 (id) values (1)", 1},
	{"replace_into", "replace", "replace into%1 (id, k) values (1, 1)", 1},
	{"replace_no_into", "replace", "replace%1 (id, k) values (1, 1)", 1},
	{"update_where", "update", "update%1 set k = 1 where id = 1", 1},
	{"update_alias", "update", "update%1 a set a.k = 1 where a.id = 1", 1},
	{"update_as_alias", "update", "update%1 as a set a.k = 1", 1},
	{"update_low_priority", "update", "update low_priority%1 set k = 1", 1},

	{"select_comma_join", "select", "select * from%1,%2", 2},
	{"select_join", "select", "select * from%1 join%2 on 1 = 1", 2},
	{"select_left_join", "select", "select * from%1 left join%2 on 1 = 1 where 1 = 1", 2},
	{"select_in_subquery", "select", "select * from%1 where id in (select id from%2)", 2},
	{"select_exists_subquery", "select", "select * from%1 where exists (select 1 from%2 )", 2},
	{"select_union", "select", "select * from%1 union select * from%2", 2},
	{"select_scalar_subquery", "select", "select (select max(id) from%2 ) from%1", 2},
	{"delete_in_subquery", "delete", "delete from%1 where id in (select id from%2)", 2},
	{"insert_select", "insert", "insert into%1 (id) select id from%2", 2},
	{"replace_select", "replace", "replace into%1 (id) select id from%2", 2},
	{"update_set_subquery", "update", "update%1 set k = (select max(k) from%2 )", 2},
	{"update_join", "update", "update%1 join%2 on 1 = 1 set k = 1", 2},
	// a second table named only BEHIND the VALUES keyword / in the ON DUPLICATE list / in the
	// SET list of an insert (added after seeded change c06-3 was missed)
	{"insert_values_subquery", "insert", "insert into%1 (id, k) values (1, (select max(k) from%2 where id = 1))", 2},
	{"insert_ondup_subquery", "insert", "insert into%1 (id, k) values (1, 1) on duplicate key update k = (select max(k) from%2 )", 2},
	{"insert_set_subquery", "insert", "insert into%1 set id = 1, k = (select max(k) from%2 )", 2},
	{"replace_values_subquery", "replace", "replace into%1 (id, k) values (1, (select max(k) from%2 where id = 1))", 2},
	{"delete_exists_subquery", "delete", "delete from%1 where exists (select 1 from%2 where id = 1)", 2},
	{"update_comma", "update", "update%1,%2 set k = 1", 2},

	{"select_three_way", "select", "select * from%1,%2 where id in (select id from%3 )", 3},
}

type Case struct {
	Tpl     string `json:"tpl"`
	Refs    []Ref  `json:"refs"`
	KwUpper bool   `json:"kw_upper,omitempty"`
	Lead    int    `json:"lead,omitempty"` // 0 none, 1 "/* c */ " in front, 2 trailing ";"
	Session string `json:"session"`        // db | "" | db2
	Layout  string `json:"layout"`         // mod | mycat_mod
}

var tplByID = map[string]*template{}

func (c Case) text() string {
	t := tplByID[c.Tpl]
	s := t.Text
	if c.KwUpper {
		s = strings.ToUpper(s)
	}
	for i := range c.Refs {
		s = strings.Replace(s, fmt.Sprintf("%%%d", i+1), c.Refs[i].render(), 1)
	}
	switch c.Lead {
	case 1:
		s = "/* c */ " + s
	case 2:
		s += ";"
	}
	return s
}

func allRefs() []Ref {
	var out []Ref
	for _, tb := range tables {
		for _, up := range []bool{false, true} {
			for q := range qualNames {
				for _, bq := range []bool{false, true} {
					for g := range glueNames {
						out = append(out, Ref{Table: tb, Upper: up, Qual: q, BQ: bq, Glue: g})
					}
				}
			}
		}
	}
	return out
}

// smallRefs: the partner of a fully decorated reference in the quick tier.
func smallRefs() []Ref {
	return []Ref{{Table: "u"}, {Table: "t"}, {Table: "t", Upper: true}, {Table: "t", Qual: 1}, {Table: "t", BQ: true},
		{Table: "t2"}, {Table: "g"}, {Table: "u", Qual: 3}, {Table: "u", Qual: 1}}
}

// ---------------------------------------------------------------- the two decisions

type world struct {
	layout  string
	rig     *planrig.Rig
	ns      *server.Namespace
	se      *server.SessionExecutor
	memo    map[string]verdict // minimisation re-visits the same plain texts over and over
	canon   *world
	wantSig bool
}

// canonical is a world with the mod layout (the world itself if it already is one).
func (w *world) canonical() *world {
	if w.layout == "mod" {
		return w
	}
	if w.canon == nil {
		w.canon = newWorld("mod")
	}
	return w.canon
}

func newWorld(layout string) *world {
	l := planrig.Layout{Rule: layout, Slices: 2, TablesPerSlice: 2}
	rig, err := planrig.New(l)
	if err != nil {
		ev.Fatalf("rig: %v", err)
	}
	ns, err := server.NewNamespace(rig.Namespace, "")
	if err != nil {
		ev.Fatalf("server.NewNamespace: %v", err)
	}
	// every plan of this world is built on the router inside the server.Namespace
	if rig, err = planrig.NewAround(l, rig.Namespace, ns.GetRouter()); err != nil {
		ev.Fatalf("rig: %v", err)
	}
	return &world{layout: layout, rig: rig, ns: ns, se: server.VerifC06Executor(ns), memo: map[string]verdict{}}
}

type verdict struct {
	fastUnshard bool
	withoutPlan bool
	parseErr    bool
	noDB        bool // full analysis: "no database selected"
	fullShard   bool
	sentTo      string
	planErr     string
	planSig     string // route of the plan BuildPlan made (history family only)
}

func (w *world) decide(c Case) verdict {
	var v verdict
	sql := c.text()
	p, isUnshard, withoutPlan := server.VerifC06PreBuild(w.se, c.Session, sql)
	v.fastUnshard, v.withoutPlan = isUnshard, withoutPlan
	if withoutPlan {
		return v
	}
	// the full analysis of getPlan: parse (after handleQuery's TrimRight ";"), Checker, BuildPlan
	full := strings.TrimRight(sql, ";")
	stmt, err := w.rig.Parse(full)
	if err != nil {
		v.parseErr = true
		return v
	}
	ck := plan.NewChecker(c.Session, w.ns.GetRouter())
	stmt.Accept(ck)
	v.noDB = ck.IsDatabaseInvalid()
	v.fullShard = !v.noDB && ck.IsShard()
	// cross-check with BuildPlan itself (same AST, as getPlan would do)
	bp, berr := w.rig.PlanStmt(c.Session, full, stmt)
	if berr != nil {
		v.planErr = berr.Error()
	}
	_, isUnshardPlan := bp.(*plan.UnshardPlan)
	if berr == nil && isUnshardPlan == v.fullShard {
		ev.Fatalf("Checker and BuildPlan disagree on %q (session %q): checker shard=%v, plan %T", full, c.Session, v.fullShard, bp)
	}
	if berr != nil && !v.fullShard && !v.noDB && !errors.Is(berr, planrig.ErrPanic) {
		ev.Fatalf("BuildPlan fails on a statement the Checker calls unsharded: %q: %v", full, berr)
	}
	if w.wantSig && berr == nil {
		if rt, err := w.rig.RouteOf(bp); err == nil {
			v.planSig = rt.Signature()
		} else {
			v.planSig = "ERR: " + err.Error()
		}
	}
	if isUnshard && p != nil {
		if rt, err := w.rig.RouteOf(p); err == nil && len(rt.Targets) == 1 {
			v.sentTo = fmt.Sprintf("%s/%s: %s", rt.Targets[0].Slice, rt.Targets[0].DB, rt.Targets[0].SQL)
		}
	}
	return v
}

func (v verdict) violates() bool { return v.fastUnshard && v.fullShard }

// minimise makes the witness as plain as possible while it still bypasses (same template):
// every dimension is moved to the plainest value that keeps the violation — lead / keyword
// case / session database, and per reference: table (u before t before t2/g), separator,
// backquotes, schema qualification (none before db.), letter case — repeated until nothing
// changes. What is left names the mechanism.
func (w *world) minimise(c Case) Case {
	violates := func(x Case) bool {
		key := x.Session + "|" + x.text()
		v, ok := w.memo[key]
		if !ok {
			v = w.decide(x)
			if len(w.memo) < 200000 {
				w.memo[key] = v
			}
		}
		return v.violates()
	}
	clone := func() Case {
		x := c
		x.Refs = append([]Ref(nil), c.Refs...)
		return x
	}
	for pass := 0; pass < 4; pass++ {
		before := c.text() + "|" + c.Session
		if c.Lead != 0 {
			if x := clone(); true {
				x.Lead = 0
				if violates(x) {
					c = x
				}
			}
		}
		if c.KwUpper {
			x := clone()
			x.KwUpper = false
			if violates(x) {
				c = x
			}
		}
		if c.Session != "db" {
			x := clone()
			x.Session = "db"
			if violates(x) {
				c = x
			}
		}
		for i := range c.Refs {
			for _, tb := range []string{"u", "t"} { // plainer tables first
				if c.Refs[i].Table == tb || (tb == "t" && c.Refs[i].Table == "u") {
					break
				}
				x := clone()
				x.Refs[i].Table = tb
				if violates(x) {
					c = x
					break
				}
			}
			if c.Refs[i].Glue != 0 {
				x := clone()
				x.Refs[i].Glue = 0
				if violates(x) {
					c = x
				}
			}
			if c.Refs[i].BQ {
				x := clone()
				x.Refs[i].BQ = false
				if violates(x) {
					c = x
				}
			}
			for _, q := range []int{0, 1} {
				if c.Refs[i].Qual == q || (q == 1 && c.Refs[i].Qual == 0) {
					break
				}
				x := clone()
				x.Refs[i].Qual = q
				if violates(x) {
					c = x
					break
				}
			}
			if c.Refs[i].Upper {
				x := clone()
				x.Refs[i].Upper = false
				if violates(x) {
					c = x
				}
			}
		}
		if c.text()+"|"+c.Session == before {
			break
		}
	}
	return c
}

func refDevs(r Ref, withPlainQual bool) []string {
	var d []string
	if r.Upper {
		d = append(d, "name_case")
	}
	switch r.Qual {
	case 1:
		if withPlainQual {
			d = append(d, "qualified")
		}
	case 2:
		d = append(d, "schema_case")
	case 3:
		d = append(d, "other_schema")
	case 4:
		d = append(d, "space_around_dot")
	}
	if r.BQ {
		d = append(d, "backquote")
	}
	if r.Glue != 0 {
		d = append(d, glueNames[r.Glue])
	}
	return d
}

// features of a minimised witness: `mech` names what hides the sharded table from the
// pre-check — the decorations left on the sharded reference itself, else the decorations
// left on another reference ("other_ref:…"), else nothing but the template and the
// position of the reference ("template"). Everything that is only context (session
// database, a plain db. qualifier, layout) is kept apart in `ctx`.
func (w *world) features(c Case) map[string]string {
	t := tplByID[c.Tpl]
	var pos, tabs, own, other, ctx []string
	for i, r := range c.Refs {
		if r.Table != "u" && r.Qual != 3 {
			pos = append(pos, fmt.Sprintf("r%d", i+1))
			tabs = append(tabs, r.Table)
			own = append(own, refDevs(r, false)...)
			if r.Qual == 1 {
				ctx = append(ctx, "qualified")
			}
		} else {
			other = append(other, refDevs(r, true)...)
		}
	}
	if c.KwUpper {
		ctx = append(ctx, "keywords=upper")
	}
	if c.Lead != 0 {
		ctx = append(ctx, fmt.Sprintf("lead=%d", c.Lead))
	}
	switch c.Session {
	case "":
		ctx = append(ctx, "session=none")
	case "db2":
		ctx = append(ctx, "session=db2")
	}
	mech := "template"
	switch {
	case len(own) > 0:
		mech = strings.Join(own, "+")
	case len(other) > 0:
		// Is the position hidden by the template anyway? Ask the canonical context: layout mod,
		// session db, every other reference the plain unsharded table. If that bypasses too,
		// the other references' decorations are context (e.g. needed under the mycat layout
		// to keep the pre-check away from the db -> physical db guard), not the mechanism.
		canon := Case{Tpl: c.Tpl, Session: "db", Layout: "mod"}
		for _, r := range c.Refs {
			if r.Table != "u" && r.Qual != 3 {
				canon.Refs = append(canon.Refs, Ref{Table: "t"})
			} else {
				canon.Refs = append(canon.Refs, Ref{Table: "u"})
			}
		}
		if w.canonical().decide(canon).violates() {
			ctx = append(ctx, "other_ref:"+strings.Join(other, "+"))
		} else {
			mech = "other_ref:" + strings.Join(other, "+")
		}
	}
	cx := strings.Join(ctx, ",")
	if cx == "" {
		cx = "none"
	}
	return map[string]string{"kind": "bypass", "mech": mech, "stmt": t.Stmt, "tpl": t.ID, "pos": strings.Join(pos, ","),
		"table": strings.Join(tabs, ","), "ctx": cx, "layout": c.Layout}
}

// ---------------------------------------------------------------- driver

type stats struct {
	evals, parseErr, withoutPlan, noDB, fullShard, fastUnshard, agreeUnshard, agreeShard, viol int64
}

var (
	debugSigs map[string]int
	debugEx   = map[string]string{}
	debugMu   sync.Mutex
)

func report(r *ev.Run, w *world, c Case) {
	m := w.minimise(c)
	v := w.decide(m)
	if !v.violates() {
		ev.Fatalf("minimised case no longer violates: %+v", m)
	}
	f := w.features(m)
	sum := fmt.Sprintf("session db %q: %q — the parser-based analysis finds a sharded table (%s %s), the token pre-check answers unsharded and would send it unrewritten to %q", m.Session, m.text(), f["pos"], f["table"], v.sentTo)
	if debugSigs != nil {
		key := fmt.Sprintf("mech=%s tpl=%s pos=%s table=%s", f["mech"], f["tpl"], f["pos"], f["table"])
		debugMu.Lock()
		debugSigs[key]++
		if _, ok := debugEx[key]; !ok {
			debugEx[key] = sum
		}
		debugMu.Unlock()
	}
	r.Violation(ev.Witness{Summary: sum, Features: f, Case: m})
}

func main() {
	gx.Quiet()
	r := ev.Start("C06", "exploration")
	for i := range templates {
		tplByID[templates[i].ID] = &templates[i]
	}
	r.Assume("\"the full SQL analysis plans it as involving a sharded table\" = Gaea's parser accepts the text and plan.NewChecker(session db, router).IsShard() is true (what plan.BuildPlan itself uses; cross-checked against BuildPlan's result on every case); unparseable texts and texts the full analysis answers with 'no database selected' are skipped and counted")
	r.Assume("the pre-check is observed as on the COM_QUERY path: trailing ';' trimmed, statement type from parser.Preview, then the real SessionExecutor.preBuildUnshardPlan of a session executor bound to a real server.Namespace (mod and mycat_mod layouts, 2 slices x 2 tables, tables t sharded / t2 linked / g global / u unsharded in database db, db2 without rules)")

	var probe struct {
		Family string `json:"family"`
	}
	if r.ReplayCase(&probe) && probe.Family == "history" {
		var hc HistCase
		r.ReplayCase(&hc)
		fresh := histDecide(hc.Layout, nil, hc.Stmt)
		bad := checkHistory(r, hc.Layout, hc.Hist, hc.Stmt, fresh, false)
		fmt.Printf("replay (history): %d statement(s), then %q: violation=%v\n", len(hc.Hist), hc.Stmt.text(), bad)
		r.Set("evaluations", 1)
		r.Finish()
	}
	var rc Case
	if r.ReplayCase(&rc) {
		w := newWorld(rc.Layout)
		v := w.decide(rc)
		fmt.Printf("replay: session %q: %q\n  fast path unshard=%v, full analysis shard=%v (parse error=%v, no db=%v, plan error=%q)\n", rc.Session, rc.text(), v.fastUnshard, v.fullShard, v.parseErr, v.noDB, v.planErr)
		r.Set("evaluations", 1)
		if v.violates() {
			report(r, w, rc)
		}
		r.Finish()
	}
	if os.Getenv("C06_DEBUG") != "" {
		debugSigs = map[string]int{}
	}

	full := allRefs()
	small := smallRefs()
	sessions := []string{"db", "", "db2"}
	// work items: (layout, template, session, kw, lead) → loops over the reference product
	type item struct {
		layout  string
		tpl     *template
		session string
		kw      bool
		lead    int
	}
	var items []item
	for _, layout := range []string{"mod", "mycat_mod"} {
		for i := range templates {
			t := &templates[i]
			for _, s := range sessions {
				if layout == "mycat_mod" && t.N > 1 && r.Quick() {
					continue
				}
				items = append(items, item{layout, t, s, false, 0})
				if t.N == 1 && layout == "mod" {
					items = append(items, item{layout, t, s, true, 0}, item{layout, t, s, false, 1}, item{layout, t, s, false, 2})
					if r.Thorough() {
						items = append(items, item{layout, t, s, true, 1})
					}
				}
			}
		}
	}

	// history family (history.go): S after 1-2 other statements on the same namespace
	type histItem struct {
		layout string
		s      Case
	}
	var histItems []histItem
	for _, layout := range []string{"mod", "range", "mycat_mod"} {
		for _, s := range histSubjects(layout) {
			histItems = append(histItems, histItem{layout, s})
		}
	}
	switch os.Getenv("C06_FAMILY") { // development aid
	case "history":
		items = nil
		r.Capped("C06_FAMILY=history: pristine-namespace families skipped")
	case "pristine":
		histItems = nil
		r.Capped("C06_FAMILY=pristine: history family skipped")
	}

	var mu sync.Mutex
	var total stats
	var htotal histStats
	tplShard := map[string]int64{}
	samples := 0
	n := enum.Parallel(len(items)+len(histItems), r.TimeUp, func(ii int) {
		if ii >= len(items) {
			hi := histItems[ii-len(items)]
			var hs histStats
			runHistory(r, hi.layout, hi.s, &hs)
			mu.Lock()
			htotal.histories += hs.histories
			htotal.plans += hs.plans
			htotal.sharded += hs.sharded
			mu.Unlock()
			return
		}
		it := items[ii]
		w := newWorld(it.layout)
		var st stats
		run := func(refs []Ref) {
			c := Case{Tpl: it.tpl.ID, Refs: refs, KwUpper: it.kw, Lead: it.lead, Session: it.session, Layout: it.layout}
			v := w.decide(c)
			st.evals++
			switch {
			case v.withoutPlan:
				st.withoutPlan++
				return
			case v.parseErr:
				st.parseErr++
				return
			case v.noDB:
				st.noDB++
			}
			if v.fastUnshard {
				st.fastUnshard++
			}
			if v.fullShard {
				st.fullShard++
				if !v.fastUnshard {
					st.agreeShard++
				}
			} else if v.fastUnshard {
				st.agreeUnshard++
			}
			if v.violates() {
				st.viol++
				cc := c
				cc.Refs = append([]Ref(nil), refs...)
				report(r, w, cc)
			}
			if (int64(ii)*7919+st.evals)%9973 == 0 {
				mu.Lock()
				if samples < 8 {
					samples++
					r.Sample(map[string]interface{}{"session_db": c.Session, "layout": c.Layout, "sql": c.text(), "precheck_says_unsharded": v.fastUnshard, "full_analysis_says_sharded": v.fullShard})
				}
				mu.Unlock()
			}
		}
		switch it.tpl.N {
		case 1:
			for _, a := range full {
				run([]Ref{a})
			}
		case 2:
			if r.Thorough() && it.layout == "mod" {
				for _, a := range full {
					for _, b := range full {
						run([]Ref{a, b})
					}
				}
			} else {
				seen := map[[2]Ref]bool{}
				for _, a := range full {
					for _, b := range small {
						for _, pair := range [][2]Ref{{a, b}, {b, a}} {
							if !seen[pair] {
								seen[pair] = true
								run([]Ref{pair[0], pair[1]})
							}
						}
					}
				}
			}
		case 3:
			partners := small
			if r.Quick() {
				partners = small[:3]
			}
			for _, a := range partners {
				for _, b := range partners {
					for _, c3 := range full {
						run([]Ref{a, b, c3})
					}
				}
			}
		}
		mu.Lock()
		total.evals += st.evals
		total.parseErr += st.parseErr
		total.withoutPlan += st.withoutPlan
		total.noDB += st.noDB
		total.fullShard += st.fullShard
		total.fastUnshard += st.fastUnshard
		total.agreeShard += st.agreeShard
		total.agreeUnshard += st.agreeUnshard
		total.viol += st.viol
		tplShard[it.tpl.ID] += st.fullShard
		mu.Unlock()
	})
	if n < len(items)+len(histItems) || r.TimeUp() {
		r.Capped(fmt.Sprintf("%d of %d (layout, template, session, keyword case, lead) items completed", n, len(items)))
	}
	if debugSigs != nil {
		var ks []string
		for k := range debugSigs {
			ks = append(ks, k)
		}
		sort.Strings(ks)
		for _, k := range ks {
			fmt.Printf("SIG %7d  %s\n        e.g. %s\n", debugSigs[k], k, debugEx[k])
		}
	}
	// non-vacuity: the pre-check must both short-cut and refuse, and every template must have
	// produced parseable sharded statements
	if !r.TimeUp() && len(items) > 0 {
		if total.agreeUnshard == 0 || total.agreeShard == 0 {
			ev.Fatalf("vacuous: pre-check short-cut %d unsharded statements and refused %d sharded ones", total.agreeUnshard, total.agreeShard)
		}
		for _, t := range templates {
			if tplShard[t.ID] == 0 {
				ev.Fatalf("vacuous: template %s never produced a parseable statement with a sharded table", t.ID)
			}
		}
	}
	r.Set("history_cases", htotal.histories)
	r.Set("history_plans", htotal.plans)
	r.Set("history_cases_on_sharded_statements", htotal.sharded)
	r.Set("history_rule", "history family: layouts mod, range, mycat_mod; subjects = per template the instances {all unsharded, sharded table first, global table first, upper-case sharded name, qualified without session db, sharded table last, sharded + linked}; each subject S is decided on a fresh server.Namespace after every one-statement prefix over a 16-statement alphabet (INSERT VALUES single/multi-row, NOT BETWEEN with a gap, IN, <, full scan, DELETE, insert into the linked child, global SELECT/UPDATE, unsharded fast-path SELECT/INSERT, other-database fast path, upper-case name, no session db, session db2) and every ordered two-statement prefix over 6 of them, all sent through the real getPlan; oracles: the C06 oracle for S and verdict(S after H) == verdict(S fresh) including the route of the plan BuildPlan makes")
	r.Set("evaluations", total.evals+htotal.histories)
	r.Set("distinct_nontrivial", total.fullShard+htotal.sharded)
	r.Set("skipped_unparseable", total.parseErr)
	r.Set("skipped_without_plan", total.withoutPlan)
	r.Set("no_database_selected", total.noDB)
	r.Set("precheck_unsharded", total.fastUnshard)
	r.Set("both_unsharded", total.agreeUnshard)
	r.Set("both_sharded", total.agreeShard)
	r.Set("bypasses_before_minimisation", total.viol)
	r.Set("templates", len(templates))
	r.Set("decorations_per_reference", len(full))
	r.Set("universe", fmt.Sprintf("%d templates x table references {u,t,t2,g} x letter case x 5 schema qualifications x backquotes x 8 separators (=%d decorated references; one-reference templates: all, also with upper-case keywords / leading comment / trailing ';'; two-reference templates: %s; three-reference template: 3x3 (quick) / 9x9 (thorough) partners x all) x session db {db, none, db2} x layouts {mod, mycat_mod}", len(templates), len(full), map[bool]string{true: "all x all", false: "all x 9 partners in both orders"}[r.Thorough()]))
	r.Set("rule", "every case = (layout, template, decorated references, keyword case, lead, session db), distinct by construction; non-trivial = the text parses and the parser-based analysis (plan.Checker, as in BuildPlan) says a sharded table is involved, i.e. the property's premise holds and the pre-check's answer is constrained")
	r.Finish()
}
