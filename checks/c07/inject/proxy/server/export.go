//go:build verif

package server

import (
	"github.com/XiaoMi/Gaea/mysql"
	"github.com/XiaoMi/Gaea/proxy/plan"
	"github.com/XiaoMi/Gaea/util"
)

// Accessors for the C07 harness (injected by build overlay; not part of Gaea).

// VerifNewExecutor assembles a session executor bound to ns (field assignments only).
func VerifNewExecutor(ns *Namespace, user string) *SessionExecutor {
	se := newSessionExecutor(nil)
	se.namespace = ns.name
	se.user = user
	se.contextNamespace = ns
	se.charset = ns.GetDefaultCharset()
	se.collation = ns.GetDefaultCollationID()
	se.session = &Session{proxy: &Server{ServerVersionCompareStatus: util.NewVersionCompareStatus("5.6.20-gaea")}}
	return se
}

// VerifSetDB is the effect of a successful USE.
func VerifSetDB(se *SessionExecutor, db string) { se.db = db }

// VerifPlan is doQuery up to (and including) plan construction.
func VerifPlan(se *SessionExecutor, sql string) (plan.Plan, error) {
	reqCtx := util.NewRequestContext()
	if err := se.checkSQLAllowed(reqCtx, sql); err != nil {
		return nil, err
	}
	return se.getPlan(reqCtx, se.GetNamespace(), se.db, sql, true)
}

// VerifFieldList is the COM_FIELD_LIST handler.
func VerifFieldList(se *SessionExecutor, table, wildcard string) ([]*mysql.Field, error) {
	data := append(append([]byte(table), 0), wildcard...)
	return se.handleFieldList(util.NewRequestContext(), data)
}
