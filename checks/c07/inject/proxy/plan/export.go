//go:build verif

package plan

import (
	"fmt"
	"sort"
	"strings"
)

// VerifDescribe renders what a plan would send to the backends: plan type, database,
// per-slice / per-database SQL texts in canonical order (injected accessor for C07).
func VerifDescribe(p Plan) string {
	switch x := p.(type) {
	case nil:
		return "nil"
	case *UnshardPlan:
		return fmt.Sprintf("unshard db=%q sql=%q", x.db, x.sql)
	case *SelectPlan:
		return "select " + verifSQLs(x.sqls)
	case *InsertPlan:
		return "insert " + verifSQLs(x.sqls)
	case *UpdatePlan:
		return "update " + verifSQLs(x.sqls)
	case *DeletePlan:
		return "delete " + verifSQLs(x.sqls)
	case *ExplainPlan:
		return "explain " + verifSQLs(x.sqls)
	}
	return fmt.Sprintf("%T", p)
}

func verifSQLs(m map[string]map[string][]string) string {
	var slices []string
	for s := range m {
		slices = append(slices, s)
	}
	sort.Strings(slices)
	var sb strings.Builder
	for _, s := range slices {
		var dbs []string
		for d := range m[s] {
			dbs = append(dbs, d)
		}
		sort.Strings(dbs)
		for _, d := range dbs {
			fmt.Fprintf(&sb, "[%s/%s: %s]", s, d, strings.Join(m[s][d], " ; "))
		}
	}
	return sb.String()
}
