//go:build verif

package router

import (
	"fmt"
	"sort"
	"strings"
)

// VerifDump renders the routing configuration held by a Router in canonical order
// (injected accessor for C07: "routing configuration is not changed by planning").
// The database recorded in the default rule is reported separately.
func VerifDump(r *Router) (state string, defaultRuleDB string) {
	var keys []string
	for db, m := range r.rules {
		for t := range m {
			keys = append(keys, db+"\x00"+t)
		}
	}
	sort.Strings(keys)
	var sb strings.Builder
	for _, k := range keys {
		p := strings.SplitN(k, "\x00", 2)
		sb.WriteString(p[0] + "." + p[1] + "=" + verifRule(r.rules[p[0]][p[1]]) + "\n")
	}
	d := r.defaultRule.(*BaseRule)
	cp := *d
	cp.db = ""
	sb.WriteString("default=" + verifBase(&cp))
	return sb.String(), d.db
}

func verifRule(r Rule) string {
	switch x := r.(type) {
	case *BaseRule:
		return verifBase(x)
	case *LinkedRule:
		return fmt.Sprintf("linked{%s %s %s -> %s}", x.db, x.table, x.shardingColumn, verifBase(x.linkToRule))
	}
	return fmt.Sprintf("%T", r)
}

func verifBase(b *BaseRule) string {
	var ts []string
	for k, v := range b.tableToSlice {
		ts = append(ts, fmt.Sprintf("%d:%d", k, v))
	}
	sort.Strings(ts)
	var md []string
	for k, v := range b.mycatDatabaseToTableIndexMap {
		md = append(md, fmt.Sprintf("%s:%d", k, v))
	}
	sort.Strings(md)
	return fmt.Sprintf("base{%s %s %s %s slices=%v idx=%v t2s=%v shard=%T%+v mdb=%v mmap=%v}", b.db, b.table, b.shardingColumn,
		b.ruleType, b.slices, b.subTableIndexes, ts, b.shard, b.shard, b.mycatDatabases, md)
}
