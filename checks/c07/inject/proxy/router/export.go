//go:build verif

package router

import (
	"fmt"
	"reflect"
	"sort"
	"strconv"
	"strings"
)

// VerifDump renders EVERYTHING reachable from a Router in canonical text form (injected
// accessor for C07: "planning does not write to routing configuration"): all rules with the
// CONTENTS of their slices and maps, the shard objects hanging off them and whatever those
// point to (hash functions, bucket maps), following pointers, interfaces, maps and slices
// including unexported fields. Pointer identity is rendered as "first visit / seen before",
// never as an address. One line per rule, so that a difference can be named.
func VerifDump(r *Router) string {
	var keys []string
	for db, m := range r.rules {
		for t := range m {
			keys = append(keys, db+"\x00"+t)
		}
	}
	sort.Strings(keys)
	var sb strings.Builder
	sb.Grow(16 << 10)
	for _, k := range keys {
		p := strings.SplitN(k, "\x00", 2)
		d := &verifDumper{seen: map[uintptr]int{}}
		d.value(reflect.ValueOf(r.rules[p[0]][p[1]]), 0)
		sb.WriteString(p[0] + "." + p[1] + " = " + d.sb.String() + "\n")
	}
	d := &verifDumper{seen: map[uintptr]int{}}
	d.value(reflect.ValueOf(r.defaultRule), 0)
	sb.WriteString("default = " + d.sb.String())
	return sb.String()
}

type verifDumper struct {
	sb   strings.Builder
	seen map[uintptr]int
}

func (d *verifDumper) value(v reflect.Value, depth int) {
	if depth > 64 {
		d.sb.WriteString("<deep>")
		return
	}
	switch v.Kind() {
	case reflect.Invalid:
		d.sb.WriteString("nil")
	case reflect.Bool:
		fmt.Fprintf(&d.sb, "%v", v.Bool())
	case reflect.Int, reflect.Int8, reflect.Int16, reflect.Int32, reflect.Int64:
		fmt.Fprintf(&d.sb, "%d", v.Int())
	case reflect.Uint, reflect.Uint8, reflect.Uint16, reflect.Uint32, reflect.Uint64, reflect.Uintptr:
		fmt.Fprintf(&d.sb, "%d", v.Uint())
	case reflect.Float32, reflect.Float64:
		fmt.Fprintf(&d.sb, "%g", v.Float())
	case reflect.String:
		fmt.Fprintf(&d.sb, "%q", v.String())
	case reflect.Ptr:
		if v.IsNil() {
			d.sb.WriteString("nil")
			return
		}
		if n, ok := d.seen[v.Pointer()]; ok {
			fmt.Fprintf(&d.sb, "<ref %d>", n)
			return
		}
		d.seen[v.Pointer()] = len(d.seen)
		d.sb.WriteString("&")
		d.value(v.Elem(), depth+1)
	case reflect.Interface:
		if v.IsNil() {
			d.sb.WriteString("nil")
			return
		}
		d.sb.WriteString(v.Elem().Type().String() + ":")
		d.value(v.Elem(), depth+1)
	case reflect.Struct:
		d.sb.WriteString(v.Type().Name() + "{")
		for i := 0; i < v.NumField(); i++ {
			if i > 0 {
				d.sb.WriteString(" ")
			}
			d.sb.WriteString(v.Type().Field(i).Name + ":")
			d.value(v.Field(i), depth+1)
		}
		d.sb.WriteString("}")
	case reflect.Slice:
		if v.IsNil() {
			d.sb.WriteString("nil[]")
			return
		}
		// contents up to len; the spare capacity is rendered too (a scratch buffer that is
		// resliced to [:0] still holds what the last user left in it)
		fmt.Fprintf(&d.sb, "[len=%d:", v.Len())
		full := v
		if v.Cap() > v.Len() {
			full = v.Slice(0, v.Cap())
		}
		if k := v.Type().Elem().Kind(); k == reflect.Int || k == reflect.Int32 || k == reflect.Int64 {
			// big integer tables (mycat segment arrays): length, capacity and an FNV-1a hash
			// of all elements up to the capacity instead of 1024 numbers
			if full.Len() > 64 {
				h := uint64(14695981039346656037)
				for i := 0; i < full.Len(); i++ {
					x := uint64(full.Index(i).Int())
					for b := 0; b < 8; b++ {
						h ^= x & 0xff
						h *= 1099511628211
						x >>= 8
					}
				}
				fmt.Fprintf(&d.sb, "cap=%d fnv=%x]", full.Len(), h)
				return
			}
			var buf []byte
			for i := 0; i < full.Len(); i++ {
				if i > 0 {
					buf = append(buf, ',')
				}
				if i == v.Len() {
					buf = append(buf, '|')
				}
				buf = strconv.AppendInt(buf, full.Index(i).Int(), 10)
			}
			d.sb.Write(buf)
			d.sb.WriteString("]")
			return
		}
		for i := 0; i < full.Len(); i++ {
			if i > 0 {
				d.sb.WriteString(",")
			}
			if i == v.Len() {
				d.sb.WriteString("|")
			}
			d.value(full.Index(i), depth+1)
		}
		d.sb.WriteString("]")
	case reflect.Array:
		d.sb.WriteString("[")
		for i := 0; i < v.Len(); i++ {
			if i > 0 {
				d.sb.WriteString(",")
			}
			d.value(v.Index(i), depth+1)
		}
		d.sb.WriteString("]")
	case reflect.Map:
		if v.IsNil() {
			d.sb.WriteString("nil{}")
			return
		}
		// keys first (scalars in practice), sorted; values are rendered in key order so that
		// the numbering of shared pointers does not depend on map iteration order
		type kv struct {
			k string
			v reflect.Value
		}
		var kvs []kv
		it := v.MapRange()
		for it.Next() {
			kd := &verifDumper{seen: map[uintptr]int{}}
			kd.value(it.Key(), depth+1)
			kvs = append(kvs, kv{kd.sb.String(), it.Value()})
		}
		sort.Slice(kvs, func(i, j int) bool { return kvs[i].k < kvs[j].k })
		d.sb.WriteString("map{")
		for i, e := range kvs {
			if i > 0 {
				d.sb.WriteString(" ")
			}
			d.sb.WriteString(e.k + ":")
			d.value(e.v, depth+1)
		}
		d.sb.WriteString("}")
	case reflect.Func:
		if v.IsNil() {
			d.sb.WriteString("nilfunc")
		} else {
			d.sb.WriteString("func")
		}
	case reflect.Chan, reflect.UnsafePointer:
		d.sb.WriteString(v.Kind().String())
	default:
		d.sb.WriteString("?" + v.Kind().String())
	}
}
