// C07: concurrent sessions plan independently of each other.
//
// Engine: vsched. 2-3 scheduler threads ("sessions", each with its own SessionExecutor) plan
// 1-2 statements each against ONE shared server.Namespace / router.Router built by the real
// NewNamespace (tables of the rule types mod, hash, range, date_month, mycat_murmur,
// mycat_long, mycat_string). Rewritten: proxy/router/router.go, rule.go, shard.go, shard_mycat.go
// and util/murmur.go - every read / write of a field of Router, BaseRule, LinkedRule, of the
// shard structs and of util.MurmurHash is an access point (scheduling point + input of the
// happens-before race detector). Parser and planner run un-instrumented between points.
//
// Operations (all through the real code paths):
//
//	plan       doQuery up to plan construction: checkSQLAllowed + getPlan (fast path
//	           preBuildUnshardPlan -> CheckUnshardBase/Insert/Update -> Router.GetRule, else
//	           parser + plan.BuildPlan)
//	fieldlist  the COM_FIELD_LIST handler handleFieldList (Router.GetRule(...).GetSlice(0),
//	           backend connection from a fake pool, USE phyDB, FieldList)
//	lookup     (separate scenarios, API level) rule := Router.GetRule(db, table); rule.GetDB()
//
// Error paths are part of the workload: sessions WITHOUT a selected database whose statements
// are refused with "no database selected", syntax errors, sharding-key errors - mixed with
// valid statements of other sessions. "Planned alone" means alone on FRESH PROCESS STATE: the
// references come from one short-lived process per statement, the explorer runs on one P with
// the collector confined to the gaps between executions (two cycles, which empty every
// sync.Pool), so state leaking through pooled per-statement objects of the planner is
// deterministic within an execution and cannot leak into the next one.
//
// Oracle:
//
//	(a) what each thread obtains (plan type, database, per-slice/per-db SQL map; for a field
//	    list: slice used, database selected, table asked) equals what the same statement
//	    yields when it is planned alone on a fresh namespace in a fresh process (a refused
//	    statement must be refused with the same error); for `lookup`: the rule returned for
//	    (db, table) reports db;
//	(b) no happens-before race on router / rule / shard state; a reflective deep dump of
//	    everything reachable from the Router (rules, slice and map CONTENTS, shard objects,
//	    hash function, bucket tree) is the same before and after the run.
package main

import (
	"context"
	"encoding/json"
	"fmt"
	"go/ast"
	"go/parser"
	"go/token"
	"os"
	"os/exec"
	"path/filepath"
	"runtime"
	"runtime/debug"
	"sort"
	"strings"
	"sync"
	"time"

	"github.com/XiaoMi/Gaea/backend"
	"github.com/XiaoMi/Gaea/models"
	"github.com/XiaoMi/Gaea/mysql"
	"github.com/XiaoMi/Gaea/proxy/plan"
	"github.com/XiaoMi/Gaea/proxy/router"
	"github.com/XiaoMi/Gaea/proxy/server"
	"github.com/XiaoMi/Gaea/verifshim/vsched"

	"verif/engine/ev"
	"verif/engine/gx"
	"verif/engine/vx"
)

const nsJSON = `{
 "name": "ns1", "online": true,
 "allowed_dbs": {"db1": true, "db2": true, "db3": true, "dbm": true},
 "default_phy_dbs": {"db1": "db1", "db2": "db2", "db3": "db3_phy", "dbm": "dbm_0"},
 "slices": [
  {"name": "slice-0", "user_name": "u", "password": "p", "capacity": 1, "max_capacity": 1, "idle_timeout": 60},
  {"name": "slice-1", "user_name": "u", "password": "p", "capacity": 1, "max_capacity": 1, "idle_timeout": 60}
 ],
 "shard_rules": [
  {"db": "db1", "table": "t", "type": "mod", "key": "id", "locations": [1, 1], "slices": ["slice-0", "slice-1"]},
  {"db": "db2", "table": "h", "type": "hash", "key": "id", "locations": [2, 2], "slices": ["slice-0", "slice-1"]},
  {"db": "db1", "table": "r", "type": "range", "key": "id", "locations": [2, 2], "slices": ["slice-0", "slice-1"], "table_row_limit": 100},
  {"db": "db1", "table": "dm", "type": "date_month", "key": "create_time", "slices": ["slice-0", "slice-1"], "date_range": ["201405-201406", "201408-201409"]},
  {"db": "dbm", "table": "mm", "type": "mycat_murmur", "key": "id", "locations": [2, 2], "slices": ["slice-0", "slice-1"], "databases": ["dbm_[0-3]"], "seed": "0", "virtual_bucket_times": "8"},
  {"db": "dbm", "table": "ml", "type": "mycat_long", "key": "id", "locations": [2, 2], "slices": ["slice-0", "slice-1"], "databases": ["dbm_[0-3]"], "partition_count": "4", "partition_length": "256"},
  {"db": "dbm", "table": "ms", "type": "mycat_string", "key": "id", "locations": [2, 2], "slices": ["slice-0", "slice-1"], "databases": ["dbm_[0-3]"], "partition_count": "4", "partition_length": "256", "hash_slice": "20"}
 ],
 "users": [{"user_name": "app", "password": "p", "namespace": "ns1", "rw_flag": 2, "rw_split": 0}],
 "default_slice": "slice-0"
}`

type op struct {
	Kind  string `json:"kind"` // plan | fieldlist | lookup
	DB    string `json:"db"`   // session database
	SQL   string `json:"sql,omitempty"`
	Table string `json:"table,omitempty"`
	// Refused: the statement is expected to be refused when planned alone (error path)
	Refused bool `json:"refused,omitempty"`
}

var ops = map[string]op{
	// unsharded, fast path (token pre-check), two logical databases
	"u1": {Kind: "plan", DB: "db1", SQL: "select * from u where id = 1"},
	"u2": {Kind: "plan", DB: "db2", SQL: "select a from u where a > 2"},
	"x2": {Kind: "plan", DB: "db1", SQL: "select * from db2.u"},
	// unsharded, parser path (logical db differs from physical db, pre-check declines)
	"u3": {Kind: "plan", DB: "db3", SQL: "select * from u where b = 2"},
	// sharded
	"s1": {Kind: "plan", DB: "db1", SQL: "select * from t where id = 3"},
	"sa": {Kind: "plan", DB: "db1", SQL: "select id from t"},
	"sh": {Kind: "plan", DB: "db2", SQL: "select * from h where id in (1, 2)"},
	"is": {Kind: "plan", DB: "db1", SQL: "insert into t (id, a) values (5, 1)"},
	// sharding-key conditions on every other rule type: the shard object of the rule (and what
	// hangs off it, e.g. the murmur hash function) is used by FindTableIndex
	"mm1": {Kind: "plan", DB: "dbm", SQL: "select * from mm where id = 'alpha-0001'"},
	"mm2": {Kind: "plan", DB: "dbm", SQL: "select * from mm where id = 'bravo-77'"},
	"mm3": {Kind: "plan", DB: "dbm", SQL: "select * from mm where id = 'kilo-3-xyz'"},
	"ml1": {Kind: "plan", DB: "dbm", SQL: "select * from ml where id = 5"},
	"ml2": {Kind: "plan", DB: "dbm", SQL: "select * from ml where id = 700"},
	"ms1": {Kind: "plan", DB: "dbm", SQL: "select * from ms where id = 'abc'"},
	"ms2": {Kind: "plan", DB: "dbm", SQL: "select * from ms where id = 'xyz9'"},
	"h3":  {Kind: "plan", DB: "db2", SQL: "select * from h where id = 7"},
	"dm1": {Kind: "plan", DB: "db1", SQL: "select * from dm where create_time = '2014-05-03'"},
	"dm2": {Kind: "plan", DB: "db1", SQL: "select * from dm where create_time = '2014-09-10'"},
	// range table: point, NOT BETWEEN / BETWEEN / IN, full list (select, delete), insert
	"r1":  {Kind: "plan", DB: "db1", SQL: "select * from r where id = 150"},
	"rnb": {Kind: "plan", DB: "db1", SQL: "select * from r where id not between 150 and 350"},
	"rb":  {Kind: "plan", DB: "db1", SQL: "select * from r where id between 150 and 250"},
	"rin": {Kind: "plan", DB: "db1", SQL: "select * from r where id in (50, 350)"},
	"ra":  {Kind: "plan", DB: "db1", SQL: "select id from r"},
	"rd":  {Kind: "plan", DB: "db1", SQL: "delete from r where a = 1"},
	"ir":  {Kind: "plan", DB: "db1", SQL: "insert into r (id, a) values (150, 1)"},
	// error paths. Sessions WITHOUT a selected database: statements that reach plan.BuildPlan
	// (the token pre-check declines them) and name a table without a database are refused with
	// "no database selected"; ndok names its database and is valid.
	"nd1":  {Kind: "plan", DB: "", SQL: "select * from db3.u where id in (select id from v)", Refused: true},
	"nd2":  {Kind: "plan", DB: "", SQL: "select * from db3.u a, v b where a.id = b.id", Refused: true},
	"nd3":  {Kind: "plan", DB: "", SQL: "explain select * from u where id = 1", Refused: true},
	"ndok": {Kind: "plan", DB: "", SQL: "select * from db1.t where id = 3"},
	// other refusals: syntax error, sharded insert without / with NULL sharding key, update of
	// the sharding key, key outside every range
	"epa": {Kind: "plan", DB: "db1", SQL: "select * from t where", Refused: true},
	"eik": {Kind: "plan", DB: "db1", SQL: "insert into t (a) values (1)", Refused: true},
	"ein": {Kind: "plan", DB: "db1", SQL: "insert into t (id, a) values (null, 1)", Refused: true},
	"euk": {Kind: "plan", DB: "db1", SQL: "update t set id = 5 where id = 1", Refused: true},
	"era": {Kind: "plan", DB: "db1", SQL: "insert into r (id, a) values (99999, 1)", Refused: true},
	// unsharded writes (CheckUnshardInsert / CheckUnshardUpdate / CheckUnshardBase for delete)
	"i1": {Kind: "plan", DB: "db1", SQL: "insert into u (a) values (1)"},
	"up": {Kind: "plan", DB: "db2", SQL: "update u set a = 1 where id = 2"},
	"de": {Kind: "plan", DB: "db1", SQL: "delete from db2.u where id = 1"},
	// COM_FIELD_LIST
	"f1": {Kind: "fieldlist", DB: "db1", Table: "u"},
	"f2": {Kind: "fieldlist", DB: "db2", Table: "u"},
	"fs": {Kind: "fieldlist", DB: "db1", Table: "t"},
	// API-level lookup of the default rule
	"l1": {Kind: "lookup", DB: "db1", Table: "u"},
	"l2": {Kind: "lookup", DB: "db2", Table: "u"},
}

type scenario struct {
	Name    string     `json:"name"`
	Threads [][]string `json:"threads"` // op names per thread
	Ops     string     `json:"ops"`     // "plan" or "lookup" (feature)
}

// ---------------------------------------------------------------------------------------
// world

type opResult struct {
	// filled by the fakes during a field list
	slice, useDB, flTable string
	desc                  string
}

type world struct {
	ns     *server.Namespace
	ses    []*server.SessionExecutor
	active map[string]*opResult // thread name -> running op
	got    [][]string           // per thread, per op: description
	state0 string
	order  []string // operations in completion order (thread:op)
	viol   []string
}

var w *world

var state0 string

func newNamespace() *server.Namespace {
	cfg := &models.Namespace{}
	if err := json.Unmarshal([]byte(nsJSON), cfg); err != nil {
		ev.Fatalf("namespace config: %v", err)
	}
	ns, err := server.NewNamespace(cfg, "")
	if err != nil {
		ev.Fatalf("NewNamespace: %v", err)
	}
	return ns
}

func newWorld(nThreads int) *world {
	ww := &world{ns: newNamespace(), active: map[string]*opResult{}, got: make([][]string, nThreads)}
	for _, name := range []string{"slice-0", "slice-1"} {
		sl := ww.ns.GetSlice(name)
		if sl == nil {
			ev.Fatalf("slice %s missing", name)
		}
		sl.Master = &backend.DBInfo{Nodes: []*backend.NodeInfo{{Address: name + ":3306", ConnPool: &fakePool{w: ww, slice: name}, Status: backend.StatusUp}}}
	}
	for i := 0; i < nThreads; i++ {
		ww.ses = append(ww.ses, server.VerifNewExecutor(ww.ns, "app"))
	}
	// the dump of a freshly built router is the same every time (checked once per process)
	if state0 == "" {
		state0 = router.VerifDump(ww.ns.GetRouter())
		if again := router.VerifDump(newNamespace().GetRouter()); again != state0 {
			ev.Fatalf("router dump is not deterministic: %s", firstDiff(state0, again))
		}
	}
	ww.state0 = state0
	return ww
}

// runOp executes one operation of a session and returns the canonical description of what
// the session obtained.
func runOp(ww *world, se *server.SessionExecutor, key string, o op) string {
	rec := &opResult{}
	ww.active[key] = rec
	defer delete(ww.active, key)
	server.VerifSetDB(se, o.DB)
	switch o.Kind {
	case "plan":
		p, err := server.VerifPlan(se, o.SQL)
		if err != nil {
			return "error: " + err.Error()
		}
		return plan.VerifDescribe(p)
	case "fieldlist":
		fs, err := server.VerifFieldList(se, o.Table, "")
		if err != nil {
			return "error: " + err.Error()
		}
		return fmt.Sprintf("fieldlist slice=%s usedb=%s table=%s fields=%d", rec.slice, rec.useDB, rec.flTable, len(fs))
	case "lookup":
		rule := ww.ns.GetRouter().GetRule(o.DB, o.Table)
		return fmt.Sprintf("rule type=%s db=%s", rule.GetType(), rule.GetDB())
	}
	return "?"
}

// Reference: every statement planned ALONE ON FRESH PROCESS STATE. Planning may leave state
// behind in package-level objects (sync.Pools of per-statement helpers), so the references are
// not computed in this process one after the other: the parent starts one short-lived copy of
// itself per statement (C07_ALONE=<name>) and hands the results to the exploration workers
// through the environment (C07_REFS).
var refs map[string]string

func alone(name string) string {
	d, ok := refs[name]
	if !ok {
		ev.Fatalf("no reference plan for statement %s", name)
	}
	return d
}

func aloneChild(name string) {
	o, ok := ops[name]
	if !ok {
		ev.Fatalf("C07_ALONE: unknown statement %q", name)
	}
	ww := newWorld(1)
	fmt.Print(runOp(ww, ww.ses[0], "", o))
	os.Exit(0)
}

func loadRefs(names []string) {
	if v := os.Getenv("C07_REFS"); v != "" {
		if err := json.Unmarshal([]byte(v), &refs); err != nil {
			ev.Fatalf("C07_REFS: %v", err)
		}
		return
	}
	self := os.Getenv("VERIF_CHECK_BIN")
	if self == "" {
		self, _ = os.Executable()
	}
	refs = map[string]string{}
	out := make([]string, len(names))
	errs := make([]error, len(names))
	var wg sync.WaitGroup
	sem := make(chan struct{}, 16)
	for i, n := range names {
		wg.Add(1)
		go func(i int, n string) {
			defer wg.Done()
			sem <- struct{}{}
			defer func() { <-sem }()
			cmd := exec.Command(self, "quick")
			cmd.Env = append(os.Environ(), "C07_ALONE="+n)
			cmd.Stderr = os.Stderr
			b, err := cmd.Output()
			out[i], errs[i] = string(b), err
		}(i, n)
	}
	wg.Wait()
	for i, n := range names {
		if errs[i] != nil {
			ev.Fatalf("reference plan of %s: %v", n, errs[i])
		}
		refs[n] = out[i]
	}
	b, _ := json.Marshal(refs)
	os.Setenv("C07_REFS", string(b))
}

func body(sc scenario) func() {
	return func() {
		ww := w
		for i, prog := range sc.Threads {
			name := fmt.Sprintf("T%d", i)
			i, prog := i, prog
			vsched.GoNamed(name, func() {
				for _, on := range prog {
					ww.got[i] = append(ww.got[i], runOp(ww, ww.ses[i], name, ops[on]))
					ww.order = append(ww.order, name+":"+on)
				}
			})
		}
		vsched.WaitOthers()
	}
}

// ---------------------------------------------------------------------------------------
// fakes (state is per running op, so they need no scheduling points)

type fakePool struct {
	w     *world
	slice string
}

func (p *fakePool) Get(ctx context.Context) (backend.PooledConnect, error) {
	rec := p.w.active[vsched.ThreadName()]
	if rec != nil {
		rec.slice = p.slice
	}
	return &fakeConn{p: p, rec: rec}, nil
}
func (p *fakePool) GetCheck(ctx context.Context) (backend.PooledConnect, error) { return p.Get(ctx) }
func (p *fakePool) Open() error                                                 { return nil }
func (p *fakePool) Addr() string                                                { return p.slice + ":3306" }
func (p *fakePool) Datacenter() string                                          { return "" }
func (p *fakePool) Close()                                                      {}
func (p *fakePool) Put(pc backend.PooledConnect)                                {}
func (p *fakePool) SetCapacity(capacity int) (err error)                        { return nil }
func (p *fakePool) SetIdleTimeout(idleTimeout time.Duration)                    {}
func (p *fakePool) StatsJSON() string                                           { return "{}" }
func (p *fakePool) Capacity() int64                                             { return 1 }
func (p *fakePool) Available() int64                                            { return 1 }
func (p *fakePool) Active() int64                                               { return 0 }
func (p *fakePool) InUse() int64                                                { return 0 }
func (p *fakePool) MaxCap() int64                                               { return 1 }
func (p *fakePool) WaitCount() int64                                            { return 0 }
func (p *fakePool) WaitTime() time.Duration                                     { return 0 }
func (p *fakePool) IdleTimeout() time.Duration                                  { return 0 }
func (p *fakePool) IdleClosed() int64                                           { return 0 }
func (p *fakePool) SetLastChecked()                                             {}
func (p *fakePool) GetLastChecked() int64                                       { return 0 }

type fakeConn struct {
	p   *fakePool
	rec *opResult
}

func (c *fakeConn) UseDB(db string) error {
	if c.rec != nil {
		c.rec.useDB = db
	}
	return nil
}
func (c *fakeConn) FieldList(table string, wc string) ([]*mysql.Field, error) {
	if c.rec != nil {
		c.rec.flTable = table
	}
	return []*mysql.Field{{Name: []byte("id")}, {Name: []byte("a")}}, nil
}
func (c *fakeConn) Recycle()         {}
func (c *fakeConn) Reconnect() error { return nil }
func (c *fakeConn) Close()           {}
func (c *fakeConn) IsClosed() bool   { return false }
func (c *fakeConn) Execute(sql string, maxRows int) (*mysql.Result, error) {
	return &mysql.Result{}, nil
}
func (c *fakeConn) ExecuteWithTimeout(sql string, maxRows int, timeout time.Duration) (*mysql.Result, error) {
	return &mysql.Result{}, nil
}
func (c *fakeConn) SetAutoCommit(v uint8) error                                 { return nil }
func (c *fakeConn) Begin() error                                                { return nil }
func (c *fakeConn) Commit() error                                               { return nil }
func (c *fakeConn) Rollback() error                                             { return nil }
func (c *fakeConn) Ping() error                                                 { return nil }
func (c *fakeConn) PingWithTimeout(timeout time.Duration) error                 { return nil }
func (c *fakeConn) SetCharset(cs string, co mysql.CollationID) (bool, error)    { return false, nil }
func (c *fakeConn) GetAddr() string                                             { return c.p.Addr() }
func (c *fakeConn) SetSessionVariables(f *mysql.SessionVariables) (bool, error) { return false, nil }
func (c *fakeConn) SyncSessionVariables(f *mysql.SessionVariables) error        { return nil }
func (c *fakeConn) WriteSetStatement() error                                    { return nil }
func (c *fakeConn) GetConnectionID() int64                                      { return 1 }
func (c *fakeConn) GetReturnTime() time.Time                                    { return time.Time{} }
func (c *fakeConn) MoreRowsExist() bool                                         { return false }
func (c *fakeConn) MoreResultsExist() bool                                      { return false }
func (c *fakeConn) FetchMoreRows(result *mysql.Result, maxRows int) error       { return nil }
func (c *fakeConn) ReadMoreResult(maxRows int) (*mysql.Result, error)           { return nil, nil }

// ---------------------------------------------------------------------------------------
// oracle

func raceNorm(x *vsched.Exec) (norm, detail string) {
	set := map[string]bool{}
	for _, ra := range x.Races {
		ka, kb := firstWord(ra.A), firstWord(ra.B)
		set[ra.Label+":"+ka+"/"+kb] = true
	}
	var ks []string
	for k := range set {
		ks = append(ks, k)
	}
	sort.Strings(ks)
	ra := x.Races[0]
	return strings.Join(ks, "+"), fmt.Sprintf("%s: %s / %s", ra.Label, ra.A, ra.B)
}

// firstDiff names the first rule line that differs between two router dumps and shows the
// neighbourhood of the first differing byte.
func firstDiff(before, after string) string {
	b, a := strings.Split(before, "\n"), strings.Split(after, "\n")
	for i := 0; i < len(b) && i < len(a); i++ {
		if b[i] == a[i] {
			continue
		}
		name := b[i]
		if k := strings.Index(name, " = "); k > 0 {
			name = name[:k]
		}
		j := 0
		for j < len(b[i]) && j < len(a[i]) && b[i][j] == a[i][j] {
			j++
		}
		cut := func(s string) string {
			lo, hi := j-70, j+50
			if lo < 0 {
				lo = 0
			}
			if hi > len(s) {
				hi = len(s)
			}
			return s[lo:hi]
		}
		return fmt.Sprintf("rule %s: was {...%s...} is {...%s...}", name, cut(b[i]), cut(a[i]))
	}
	return fmt.Sprintf("%d rule lines before, %d after", len(b), len(a))
}

func firstWord(s string) string {
	if i := strings.Index(s, " "); i > 0 {
		return s[:i]
	}
	return s
}

func classify(sc scenario) func(x *vsched.Exec) (string, string, string, string) {
	return func(x *vsched.Exec) (string, string, string, string) {
		ww := w
		state := router.VerifDump(ww.ns.GetRouter())
		var parts []string
		for i := range sc.Threads {
			parts = append(parts, fmt.Sprintf("T%d{%s}", i, strings.Join(ww.got[i], " || ")))
		}
		// the order in which the sessions' operations completed is what the schedule changes
		outcome := "order=" + strings.Join(ww.order, ",") + "|" + strings.Join(parts, " ")
		if x.Panic != nil || x.Deadlock || x.Horizon {
			k, d, n := vx.DefaultClassify(x)
			return k, d, n, outcome
		}
		// (a) every session got what it gets alone
		for i, prog := range sc.Threads {
			if len(ww.got[i]) != len(prog) {
				return "invariant", fmt.Sprintf("thread T%d finished %d of %d operations", i, len(ww.got[i]), len(prog)), "unfinished", outcome
			}
			for j, on := range prog {
				want := alone(on)
				if ww.got[i][j] != want {
					o := ops[on]
					if o.Kind == "lookup" {
						return "wrong-route", fmt.Sprintf("T%d GetRule(%s,%s): got {%s}, alone {%s}", i, o.DB, o.Table, ww.got[i][j], want), "defaultrule-db-seen", outcome
					}
					return "wrong-plan", fmt.Sprintf("T%d op %s (%s %s %s%s): got {%s}, planned alone {%s}", i, on, o.Kind, o.DB, o.SQL, o.Table, ww.got[i][j], want), "plan-differs:" + o.Kind, outcome
				}
			}
		}
		// (b) configuration untouched, no race
		if state != ww.state0 {
			d := "routing configuration changed by planning: " + firstDiff(ww.state0, state)
			if len(x.Races) > 0 {
				n, _ := raceNorm(x)
				d += " [races in this run: " + n + "]"
			}
			return "invariant", d, "router-config-changed", outcome
		}
		if len(x.Races) > 0 {
			n, d := raceNorm(x)
			return "race", d, n, outcome
		}
		return "", "", "", outcome
	}
}

// ---------------------------------------------------------------------------------------
// guard: the structs that hold routing state must be access points.
//
// router.go / rule.go: Router, BaseRule, LinkedRule. shard.go / shard_mycat.go: every struct
// type with a FindForKey method (the shard objects hanging off the rules). util/murmur.go:
// every struct type. mkoverlay's access_structs takes the FIELDS of a listed struct from the
// current tree (a new field is covered automatically); what it cannot know is a NEW struct
// type - this scan refuses to run (ENGINE-ERROR) when one appears that overlay.json does not
// list.

type ovRule struct {
	Files         []string `json:"files"`
	Access        []string `json:"access"`
	AccessStructs []string `json:"access_structs"`
}

func srcOf(rel string) string {
	if bd := os.Getenv("VERIF_BUILD_DIR"); bd != "" {
		if m := filepath.Join(bd, "mut", rel); fileExists(m) {
			return m
		}
	}
	return filepath.Join("/repo", rel)
}

func checkAccessList() {
	var ov struct {
		Rewrite []ovRule `json:"rewrite"`
	}
	b, err := os.ReadFile("/verif/checks/c07/overlay.json")
	if err != nil || json.Unmarshal(b, &ov) != nil || len(ov.Rewrite) == 0 {
		ev.Fatalf("cannot read checks/c07/overlay.json")
	}
	listed := map[string]map[string]bool{} // file -> struct names in access_structs
	for _, r := range ov.Rewrite {
		for _, f := range r.Files {
			if listed[f] == nil {
				listed[f] = map[string]bool{}
			}
			for _, n := range r.AccessStructs {
				listed[f][n] = true
			}
		}
	}
	need := func(rel string, want func(name string, hasFindForKey bool) bool) {
		if listed[rel] == nil {
			ev.Fatalf("%s is not rewritten by checks/c07/overlay.json", rel)
		}
		f, err := parser.ParseFile(token.NewFileSet(), srcOf(rel), nil, 0)
		if err != nil {
			ev.Fatalf("scan %s: %v", rel, err)
		}
		finders := map[string]bool{}
		for _, d := range f.Decls {
			fd, ok := d.(*ast.FuncDecl)
			if !ok || fd.Recv == nil || fd.Name.Name != "FindForKey" || len(fd.Recv.List) != 1 {
				continue
			}
			t := fd.Recv.List[0].Type
			if st, ok := t.(*ast.StarExpr); ok {
				t = st.X
			}
			if id, ok := t.(*ast.Ident); ok {
				finders[id.Name] = true
			}
		}
		ast.Inspect(f, func(n ast.Node) bool {
			ts, ok := n.(*ast.TypeSpec)
			if !ok {
				return true
			}
			if _, ok := ts.Type.(*ast.StructType); !ok {
				return true
			}
			if want(ts.Name.Name, finders[ts.Name.Name]) && !listed[rel][ts.Name.Name] {
				ev.Fatalf("struct %s in %s is not in access_structs of checks/c07/overlay.json: shared routing state would go unobserved - add it", ts.Name.Name, rel)
			}
			return true
		})
	}
	core := map[string]bool{"Router": true, "BaseRule": true, "LinkedRule": true}
	for _, rel := range []string{"proxy/router/router.go", "proxy/router/rule.go"} {
		need(rel, func(n string, _ bool) bool { return core[n] })
	}
	for _, rel := range []string{"proxy/router/shard.go", "proxy/router/shard_mycat.go"} {
		need(rel, func(_ string, finder bool) bool { return finder })
	}
	need("util/murmur.go", func(string, bool) bool { return true })
}

func fileExists(p string) bool { _, err := os.Stat(p); return err == nil }

// ---------------------------------------------------------------------------------------

func scenarios(r *ev.Run) []scenario {
	s := []scenario{
		// sharding-key conditions on every rule type (shard objects, murmur hash function); first: they are the longest
		{Name: "murmur-2keys", Threads: [][]string{{"mm1"}, {"mm2"}}},
		{Name: "murmur-repeat", Threads: [][]string{{"mm1", "mm3"}, {"u1"}}},
		{Name: "mycat-string-2keys", Threads: [][]string{{"ms1"}, {"ms2"}}},
		{Name: "mycat-long-2keys", Threads: [][]string{{"ml1"}, {"ml2"}}},
		{Name: "datemonth-2keys", Threads: [][]string{{"dm1"}, {"dm2"}}},
		{Name: "hash-2keys", Threads: [][]string{{"h3"}, {"sh"}}},
		{Name: "range-notbetween", Threads: [][]string{{"rnb", "ra"}, {"u1"}}},
		{Name: "range-between-in", Threads: [][]string{{"rb", "rin"}, {"u1"}}},
		{Name: "range-delete", Threads: [][]string{{"rd"}, {"u1"}}},
		{Name: "range-insert", Threads: [][]string{{"ir", "ra"}, {"u1"}}},
		{Name: "range-insert-conc", Threads: [][]string{{"ir"}, {"r1"}}},
		{Name: "3sessions-murmur", Threads: [][]string{{"mm1"}, {"mm2"}, {"mm3"}}},
		{Name: "3sessions-ruletypes", Threads: [][]string{{"ml1", "r1"}, {"ms2"}, {"dm1", "mm2"}}},
		// error paths mixed with valid statements of other sessions (sessions without a
		// selected database, syntax / sharding-key errors)
		{Name: "nodb-refused-then-valid", Threads: [][]string{{"nd1", "ndok"}, {"u3"}}},
		{Name: "nodb-join-explain", Threads: [][]string{{"nd2", "s1"}, {"nd3", "u3"}}},
		{Name: "errors-parse-key", Threads: [][]string{{"epa", "s1"}, {"eik", "u3"}}},
		{Name: "errors-insert-update", Threads: [][]string{{"ein", "is"}, {"euk"}}},
		{Name: "errors-range", Threads: [][]string{{"era", "ir"}, {"u3"}}},
		{Name: "3sessions-nodb", Threads: [][]string{{"nd1"}, {"s1"}, {"u3"}}},
		{Name: "3sessions-errors", Threads: [][]string{{"epa", "u3"}, {"nd2"}, {"eik", "s1"}}},
		{Name: "unshard-db1-db2", Threads: [][]string{{"u1"}, {"u2"}}},
		{Name: "unshard-shard-mix", Threads: [][]string{{"u1", "s1"}, {"u1", "x2"}}},
		{Name: "fieldlist-parserpath", Threads: [][]string{{"s1", "u2"}, {"f1", "u3"}}},
		{Name: "fieldlist-2db", Threads: [][]string{{"f1", "u1"}, {"f2"}}},
		{Name: "writes", Threads: [][]string{{"up", "i1"}, {"de", "is"}}},
		{Name: "sharded-only", Threads: [][]string{{"sa"}, {"fs", "s1"}}},
		{Name: "3sessions-unshard", Threads: [][]string{{"u1"}, {"u2"}, {"f2"}}},
		{Name: "3sessions-mix", Threads: [][]string{{"s1", "u1"}, {"x2"}, {"fs", "u3"}}},
		{Name: "lookup-2db", Ops: "lookup", Threads: [][]string{{"l1"}, {"l2"}}},
		{Name: "lookup-vs-plan", Ops: "lookup", Threads: [][]string{{"l1", "l1"}, {"u2"}}},
		{Name: "3sessions-writes", Threads: [][]string{{"i1", "s1"}, {"up", "f1"}, {"de", "sh"}}},
		{Name: "3sessions-2each", Threads: [][]string{{"u1", "u2"}, {"x2", "u3"}, {"f2", "f1"}}},
		{Name: "lookup-3", Ops: "lookup", Threads: [][]string{{"l1"}, {"l2"}, {"f2"}}},
	}
	for i := range s {
		if s[i].Ops == "" {
			s[i].Ops = "plan"
		}
	}
	return s
}

func main() {
	gx.Quiet()
	// One P: every scheduler thread then shares the per-P cache of a sync.Pool, so an object Put
	// by one session is what the next Get of any session returns - pooled per-statement
	// objects of the planner behave deterministically under the cooperative scheduler.
	// The collector only runs between executions (twice, in Before: two cycles empty every
	// sync.Pool, so nothing pooled survives into the next execution or into a replay).
	runtime.GOMAXPROCS(1)
	debug.SetGCPercent(-1)
	if n := os.Getenv("C07_ALONE"); n != "" {
		aloneChild(n)
	}
	r := ev.Start("C07", "model_checking")
	if os.Getenv("VX_CHILD") == "" {
		checkAccessList()
	}
	// reference: every statement planned alone (also a harness sanity check)
	names := make([]string, 0, len(ops))
	for n := range ops {
		names = append(names, n)
	}
	sort.Strings(names)
	loadRefs(names)
	distinct := map[string]bool{}
	for _, n := range names {
		d := alone(n)
		if refused := strings.HasPrefix(d, "error"); refused != ops[n].Refused || d == "?" || d == "" {
			ev.Fatalf("statement %s planned alone: %s (expected refused=%v)", n, d, ops[n].Refused)
		}
		distinct[d] = true
	}
	if os.Getenv("C07_SHOW") != "" {
		for _, n := range names {
			fmt.Printf("%s  %+v\n    => %s\n", n, ops[n], alone(n))
		}
	}
	var scs []*vx.Scenario
	for _, sc := range scenarios(r) {
		sc := sc
		bound := 2
		if len(sc.Threads) >= 3 && r.Quick() {
			bound = 1
		}
		if r.Thorough() && len(sc.Threads) < 3 {
			bound = 3
		}
		spec := map[string]interface{}{"name": sc.Name, "threads": sc.Threads}
		st := map[string]op{}
		for _, p := range sc.Threads {
			for _, n := range p {
				st[n] = ops[n]
			}
		}
		spec["statements"] = st
		scs = append(scs, &vx.Scenario{
			Name: sc.Name, Bound: bound, Spec: spec,
			Before: func() {
				runtime.GC()
				runtime.GC()
				w = newWorld(len(sc.Threads))
			},
			Body:     body(sc),
			Features: map[string]string{"ops": sc.Ops},
			Classify: classify(sc),
		})
	}
	r.Set("reference_plans", len(distinct))
	vx.Main(r, scs,
		"access points are the reads/writes of every field of router.Router, BaseRule, LinkedRule (router.go, rule.go), of every shard struct in shard.go / shard_mycat.go and of util.MurmurHash (the harness refuses to run if one of these files declares a shard struct that overlay.json does not list); parser, planner and server code between two such accesses run atomically",
		"backend pools of the namespace are fakes (field lists need a connection); sessions use user app (read-write, no read/write splitting)")
}
