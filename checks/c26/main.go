// C26: a replica is fused exactly when recent connection errors reach the threshold.
//
// Engine: xstate (BFS over event histories replayed on fresh real objects).
//
// Three modes, all against the real code:
//
//	trigger  backend.SlidingWindow.Trigger(now) called directly with enumerated timestamps
//	tryfuse  backend.Slice.TryFuse(node, err) with the clock of slice.go on vclock
//	getconn  backend.Slice.GetSlaveConn on a one-replica DBInfo whose fake pool fails Get
//	         with the scripted error (exercises getConnWithFuse -> TryFuse)
//
// Oracle (reference = plain list of recorded timestamps): an event recorded at `now`
// fires  <=>  #recorded events with timestamp in (now-W, now] >= M, where only
// connection errors (mysql.ConnTypeError values) are recorded; a disabled breaker
// (W<=0, M<=0, or strategies not installed = fuse_enabled off) never fires.
package main

import (
	"errors"
	"fmt"
	"sort"
	"strings"
	"sync"
	"time"

	"github.com/XiaoMi/Gaea/backend"
	"github.com/XiaoMi/Gaea/mysql"
	"github.com/XiaoMi/Gaea/util"
	"github.com/XiaoMi/Gaea/verifshim/vclock"

	"verif/engine/enum"
	"verif/engine/ev"
	"verif/engine/gx"
	"verif/engine/xstate"
	fakepool "verif/ref/fakepool_backend"
)

type config struct {
	Mode   string `json:"mode"`   // trigger | tryfuse | getconn | group2
	W      int64  `json:"w"`      // window seconds
	M      int64  `json:"m"`      // minimum error count
	Start  int64  `json:"start"`  // clock value before the first delta
	Policy string `json:"policy"` // hard | gradual | off (tryfuse/getconn only)
}

// event: the clock advances by D seconds, then an error of kind K is reported.
type event struct {
	D int64  `json:"d"`
	K string `json:"k"`
	R int    `json:"r,omitempty"` // mode group2: the replica (0 or 1) the error is reported for
}

type kase struct {
	Cfg  config  `json:"cfg"`
	Hist []event `json:"hist"`
}

// error kinds. "conn" and "pooltimeout" are mysql.ConnTypeError values (the only kind
// Slice.TryFuse may count); the others must never advance the window.
//
// "conn_down" (tryfuse mode only): the replica is down at that moment — marked down by the
// health check, as the harness does with SetStatusDown — and a session that had selected it
// earlier reports its connection error now; the health check then marks it up again. Such an
// error is a connection error recorded for the replica like any other (it must count in the
// window for later events); whether the breaker "fires" on it is not observable through the
// status, so only its effect on later events is checked.
var kinds = []string{"conn", "pooltimeout", "sql", "badconn", "exectimeout", "plain", "nil"}

func errOf(k string) error {
	switch k {
	case "conn", "conn_down":
		return mysql.NewConnTypeError("127.0.0.1:3307", "failed to dial")
	case "pooltimeout":
		return util.ErrTimeout // ConnTypeError too: the pool could not produce a connection in time
	case "sql":
		return mysql.NewError(mysql.ErrUnknown, "some sql error")
	case "badconn":
		return mysql.ErrBadConn
	case "exectimeout":
		return backend.ErrExecuteTimeout
	case "plain":
		return errors.New("plain error")
	}
	return nil
}

func counts(k string) bool { return k == "conn" || k == "pooltimeout" || k == "conn_down" }

func enabledCfg(c config) bool { return c.W > 0 && c.M > 0 && c.Policy != "off" }

func deltas(w int64) []int64 {
	var ds []int64
	if w <= 0 {
		return []int64{0, 1, 2}
	}
	seen := map[int64]bool{}
	for _, d := range []int64{0, 1, 2, w - 1, w, w + 1, 3 * w} {
		if d >= 0 && !seen[d] {
			seen[d] = true
			ds = append(ds, d)
		}
	}
	return ds
}

func events(c config) []event {
	var es []event
	if c.Mode == "group2" {
		seen := map[int64]bool{}
		for _, d := range []int64{0, 1, c.W - 1, c.W, c.W + 1} {
			if d < 0 || seen[d] {
				continue
			}
			seen[d] = true
			for rep := 0; rep < 2; rep++ {
				for _, k := range []string{"conn", "sql"} {
					es = append(es, event{D: d, K: k, R: rep})
				}
			}
		}
		return es
	}
	for _, d := range deltas(c.W) {
		if c.Mode == "trigger" {
			es = append(es, event{D: d, K: "conn"})
			continue
		}
		for _, k := range kinds {
			es = append(es, event{D: d, K: k})
		}
		if c.Mode == "tryfuse" {
			es = append(es, event{D: d, K: "conn_down"})
		}
	}
	return es
}

// vclock is process-global: replays that use it are serialised.
var clockMu sync.Mutex

type outcome struct {
	res      xstate.Result
	expired  bool // some recorded event had left the window when the last event was applied
	fired    bool
	inWindow int
}

// run replays a history on fresh objects and checks the oracle after every step.
func run(c config, hist []event) outcome {
	if c.Mode == "group2" {
		return run2(c, hist)
	}
	var (
		sw    *backend.SlidingWindow
		slice *backend.Slice
		node  *backend.NodeInfo
		dbi   *backend.DBInfo
		pool  *fakepool.Pool
		next  error
	)
	if c.Mode == "trigger" {
		sw = backend.NewSlidingWindow(c.W, c.M)
	} else {
		clockMu.Lock()
		defer clockMu.Unlock()
		vclock.Enable(time.Unix(c.Start, 0))
		defer vclock.Disable()
		pool = fakepool.New("127.0.0.1:3307", "dc")
		pool.GetFn = func(p *fakepool.Pool) (backend.PooledConnect, error) {
			if next != nil {
				return nil, next
			}
			return p.NewConn(), nil
		}
		node = &backend.NodeInfo{Address: "127.0.0.1:3307", Datacenter: "dc", Weight: 1, ConnPool: pool, Status: backend.StatusUp}
		dbi = &backend.DBInfo{Nodes: []*backend.NodeInfo{node}}
		if err := dbi.InitBalancers("dc"); err != nil {
			ev.Fatalf("InitBalancers: %v", err)
		}
		slice = &backend.Slice{Namespace: "ns", ProxyDatacenter: "dc", FuseEnabled: "on", FuseWindowSize: c.W, FuseMinErrorCount: c.M}
		if c.Policy == "hard" {
			slice.FuseCooldownPeriod = 5
		}
		slice.Slave = dbi
		if c.Policy != "off" {
			slice.FuseEnabled = "on"
			if err := slice.InitFuseRecoveryPolicy(dbi); err != nil {
				ev.Fatalf("InitFuseRecoveryPolicy: %v", err)
			}
			sw, _ = node.FuseStrategy.(*backend.SlidingWindow)
		} else {
			slice.FuseEnabled = "off"
		}
	}
	var ref []int64 // recorded timestamps
	now := c.Start
	var out outcome
	for i, e := range hist {
		now += e.D
		want, got := false, false
		recorded, unobservable := false, false
		switch c.Mode {
		case "trigger":
			got = sw.Trigger(now)
			recorded = true
		case "tryfuse":
			vclock.Set(time.Unix(now, 0))
			if e.K == "conn_down" {
				node.SetStatusDown() // what a health check does
				slice.TryFuse(node, errOf(e.K))
				node.SetStatusUp() // ... and a later one
				unobservable = true
			} else {
				slice.TryFuse(node, errOf(e.K))
				got = node.IsStatusDown()
			}
			recorded = counts(e.K)
		case "getconn":
			vclock.Set(time.Unix(now, 0))
			next = errOf(e.K)
			pc, err := slice.GetSlaveConn(dbi, backend.LocalSlaveReadClosed)
			if (err == nil) != (next == nil) || (err == nil && pc == nil) {
				out.res = xstate.Result{Violation: fmt.Sprintf("step %d: GetSlaveConn returned (%v,%v) for a pool answer %v", i, pc, err, next),
					Features: map[string]string{"mode": c.Mode, "kind": "getconn_result", "errkind": e.K}}
				return out
			}
			got = node.IsStatusDown()
			recorded = counts(e.K)
		}
		inWin := 0
		if recorded {
			ref = append(ref, now)
		}
		for _, t := range ref {
			if t > now-c.W && t <= now {
				inWin++
			}
		}
		if recorded && enabledCfg(c) {
			want = int64(inWin) >= c.M
		}
		if unobservable {
			got = want
		}
		if got != want {
			kind := "fired_below_threshold"
			if want {
				kind = "not_fired_at_threshold"
			}
			if !enabledCfg(c) {
				kind = "disabled_breaker_fired"
			} else if !recorded {
				kind = "non_connection_error_counted"
			}
			out.res = xstate.Result{
				Violation: fmt.Sprintf("step %d (t=%d, kind=%s): fired=%v but %d recorded connection errors lie in (t-%d, t], threshold %d", i, now, e.K, got, inWin, c.W, c.M),
				Features:  map[string]string{"mode": c.Mode, "kind": kind, "errkind": e.K, "policy": c.Policy, "enabled": fmt.Sprint(enabledCfg(c))},
			}
			return out
		}
		if c.Mode != "trigger" && got {
			// what a successful recovery does; keeps every later event observable through the status
			node.SetStatusUp()
		}
		if i == len(hist)-1 {
			out.fired = got
			out.inWindow = inWin
			out.expired = inWin < len(ref)
			out.res.Outcome = fmt.Sprintf("fired=%v inwin=%d", got, inWin)
		}
	}
	out.res.Key = stateKey(c, now, sw, ref)
	return out
}

// stateKey is the canonical state after a history.
//
// Merging argument: the future of the implementation depends on the window's private state
// (startSec, allErrorCount, every bucket's StartTime/ErrorCount at its index), on the clock
// (the next event happens at now+delta) and on nothing else (node status is up at every
// event boundary because the harness marks the node up again after a fuse; TryFuse's
// decision to mark down never reads the recovery strategy). The future of the oracle
// depends on the recorded timestamps still inside (now-W, now] — later events have
// timestamps >= now, so older ones can never count again. All arithmetic in Trigger/slide is
// on differences of absolute seconds and on `x % W` of non-negative seconds, so shifting
// every absolute quantity by a multiple of W is a symmetry: the key renders all absolute
// seconds minus base = now - now%W (the bucket index of every second is preserved).
// A disabled window has immutable state (enabled=false, no buckets): one state.
func stateKey(c config, now int64, sw *backend.SlidingWindow, ref []int64) string {
	if sw == nil {
		return "nostrategy"
	}
	en, startSec, all, buckets := backend.VerifWindowState(sw)
	if !en {
		return "disabled"
	}
	base := now - now%c.W
	var sb strings.Builder
	fmt.Fprintf(&sb, "n%d s%d a%d b", now-base, startSec-base, all)
	for _, b := range buckets {
		if b.Nil {
			sb.WriteString("[-]")
		} else {
			fmt.Fprintf(&sb, "[%d:%d]", b.StartTime-base, b.ErrorCount)
		}
	}
	var live []int64
	for _, t := range ref {
		if t > now-c.W {
			live = append(live, t-base)
		}
	}
	sort.Slice(live, func(i, j int) bool { return live[i] < live[j] })
	fmt.Fprintf(&sb, " r%v", live)
	return sb.String()
}

// run2 — mode group2: TWO replicas in one slave group, their fuse/recovery strategies
// installed by the real Slice.InitFuseRecoveryPolicy -> DBInfo.InitFuseRecoveryPolicy (what
// parseSlices calls), connection errors reported through the real Slice.TryFuse for either
// replica. The oracle is per replica: the replica the error is reported for goes down iff ITS
// OWN recorded connection errors in (now-W, now] reach M; the other replica keeps its status.
func run2(c config, hist []event) outcome {
	clockMu.Lock()
	defer clockMu.Unlock()
	vclock.Enable(time.Unix(c.Start, 0))
	defer vclock.Disable()
	dbi := &backend.DBInfo{}
	for i := 0; i < 2; i++ {
		p := fakepool.New(fmt.Sprintf("127.0.0.1:33%02d", 7+i), "dc")
		dbi.Nodes = append(dbi.Nodes, &backend.NodeInfo{Address: p.AddrS, Datacenter: "dc", Weight: 1, ConnPool: p, Status: backend.StatusUp})
	}
	if err := dbi.InitBalancers("dc"); err != nil {
		ev.Fatalf("InitBalancers: %v", err)
	}
	slice := &backend.Slice{Namespace: "ns", ProxyDatacenter: "dc", FuseEnabled: "on", FuseWindowSize: c.W, FuseMinErrorCount: c.M, Slave: dbi}
	if c.Policy == "hard" {
		slice.FuseCooldownPeriod = 5
	}
	if err := slice.InitFuseRecoveryPolicy(dbi); err != nil {
		ev.Fatalf("InitFuseRecoveryPolicy: %v", err)
	}
	var refs [2][]int64
	now := c.Start
	var out outcome
	for i, e := range hist {
		now += e.D
		vclock.Set(time.Unix(now, 0))
		slice.TryFuse(dbi.Nodes[e.R], errOf(e.K))
		recorded := counts(e.K)
		if recorded {
			refs[e.R] = append(refs[e.R], now)
		}
		inWin := 0
		for _, t := range refs[e.R] {
			if t > now-c.W && t <= now {
				inWin++
			}
		}
		for rep := 0; rep < 2; rep++ {
			got := dbi.Nodes[rep].IsStatusDown()
			want := rep == e.R && recorded && int64(inWin) >= c.M
			if got != want {
				kind := "fired_below_threshold"
				switch {
				case rep != e.R:
					kind = "other_replica_marked_down"
				case want:
					kind = "not_fired_at_threshold"
				case !recorded:
					kind = "non_connection_error_counted"
				}
				out.res = xstate.Result{
					Violation: fmt.Sprintf("step %d (t=%d, kind=%s on replica %d): replica %d down=%v; replica %d has %d own recorded connection errors in (t-%d, t], threshold %d", i, now, e.K, e.R, rep, got, e.R, inWin, c.W, c.M),
					Features:  map[string]string{"mode": c.Mode, "kind": kind, "errkind": e.K, "policy": c.Policy, "enabled": "true"},
				}
				return out
			}
			if got {
				dbi.Nodes[rep].SetStatusUp() // what a successful recovery does
			}
		}
		if i == len(hist)-1 {
			fired := recorded && int64(inWin) >= c.M
			out.fired = fired
			out.inWindow = inWin
			out.expired = inWin < len(refs[e.R])
			other := 0
			for _, t := range refs[1-e.R] {
				if t > now-c.W && t <= now {
					other++
				}
			}
			out.res.Outcome = fmt.Sprintf("fired=%v inwin=%d other=%d", fired, inWin, other)
			// non-trivial for this mode: both replicas hold errors in the window at once
			out.expired = inWin >= 1 && other >= 1
		}
	}
	var keys []string
	for rep := 0; rep < 2; rep++ {
		sw, _ := dbi.Nodes[rep].FuseStrategy.(*backend.SlidingWindow)
		keys = append(keys, stateKey(c, now, sw, refs[rep]))
	}
	out.res.Key = strings.Join(keys, " || ")
	return out
}

func runCase(r *ev.Run, k kase) {
	o := run(k.Cfg, k.Hist)
	if o.res.Violation != "" {
		r.Violation(ev.Witness{Summary: fmt.Sprintf("%+v hist=%v: %s", k.Cfg, k.Hist, o.res.Violation), Features: o.res.Features, Case: k})
	}
}

func configs(r *ev.Run) []config {
	maxWM := int64(r.Pick(4, 6))       // through Slice
	maxDirect := int64(r.Pick(6, 8)) // SlidingWindow directly
	var cs []config
	starts := func(w int64) []int64 {
		if w <= 1 {
			return []int64{0, 1000000000}
		}
		return []int64{0, w - 1, 1000000000}
	}
	for w := int64(1); w <= maxDirect; w++ {
		for m := int64(1); m <= maxDirect; m++ {
			for _, s := range starts(w) {
				cs = append(cs, config{Mode: "trigger", W: w, M: m, Start: s})
			}
		}
	}
	// disabled windows, direct
	for _, wm := range [][2]int64{{0, 1}, {-1, 1}, {2, 0}, {2, -1}, {0, 0}} {
		cs = append(cs, config{Mode: "trigger", W: wm[0], M: wm[1], Start: 1000000000})
	}
	// through Slice.TryFuse / GetSlaveConn (clock on vclock)
	for _, mode := range []string{"tryfuse", "getconn"} {
		for _, pol := range []string{"hard", "gradual"} {
			for w := int64(1); w <= maxWM; w++ {
				for m := int64(1); m <= maxWM; m++ {
					if r.Quick() && mode == "getconn" && (w > 3 || m > 3) {
						continue
					}
					for _, s := range starts(w) {
						if mode == "getconn" && s != 1000000000 {
							continue
						}
						cs = append(cs, config{Mode: mode, W: w, M: m, Start: s, Policy: pol})
					}
				}
			}
			for _, wm := range [][2]int64{{0, 1}, {2, 0}, {2, -1}} {
				cs = append(cs, config{Mode: mode, W: wm[0], M: wm[1], Start: 1000000000, Policy: pol})
			}
		}
		cs = append(cs, config{Mode: mode, W: 2, M: 1, Start: 1000000000, Policy: "off"})
	}
	// two replicas in one group, strategies from the real InitFuseRecoveryPolicy
	max2 := int64(r.Pick(3, 4))
	for _, pol := range []string{"hard", "gradual"} {
		for w := int64(1); w <= max2; w++ {
			for m := int64(1); m <= max2; m++ {
				cs = append(cs, config{Mode: "group2", W: w, M: m, Start: 1000000000, Policy: pol})
			}
		}
	}
	return cs
}

func main() {
	gx.Quiet()
	r := ev.Start("C26", "model_checking")
	var rc kase
	if r.ReplayCase(&rc) {
		runCase(r, rc)
		o := run(rc.Cfg, rc.Hist)
		fmt.Printf("replay %+v hist=%v -> violation=%q outcome=%q\n", rc.Cfg, rc.Hist, o.res.Violation, o.res.Outcome)
		r.Finish()
	}
	cs := configs(r)
	depthDirect := r.Pick(8, 10)
	depthSlice := r.Pick(5, 6)
	var mu sync.Mutex
	var states, transitions int64
	maxDepth := 0
	perMode := map[string]map[string]int64{}
	sampled := map[string]bool{}
	doCfg := func(c config) {
		depth := depthDirect
		if c.Mode != "trigger" {
			depth = depthSlice
		}
		if c.Mode == "group2" {
			depth = r.Pick(4, 5)
		}
		es := events(c)
		spec := xstate.Spec[event]{
			MaxDepth: depth, Workers: 1, Stop: r.TimeUp,
			Enabled: func(h []event) []event { return es },
			Replay: func(h []event) xstate.Result {
				o := run(c, h)
				if o.res.Violation == "" && len(h) > 0 {
					ck := fmt.Sprintf("%s/%d/%d/%d/%s|", c.Mode, c.W, c.M, c.Start, c.Policy)
					r.Distinct("outcomes", c.Mode+"|"+o.res.Outcome)
					if o.expired && o.inWindow >= 1 {
						// the window really slid: an earlier recorded error had expired while
						// the window still (or again) held errors
						r.Distinct("nontrivial", ck+o.res.Key)
						sk := fmt.Sprintf("%s/fired=%v", c.Mode, o.fired)
						mu.Lock()
						if !sampled[sk] && len(h) >= 4 {
							sampled[sk] = true
							r.Sample(map[string]interface{}{"cfg": c, "hist": append([]event{}, h...), "last_event_fired": o.fired, "errors_in_window": o.inWindow})
						}
						mu.Unlock()
					}
				}
				return o.res
			},
			OnViolation: func(h []event, res xstate.Result) {
				k := kase{Cfg: c, Hist: append([]event{}, h...)}
				// re-run 5x before believing it
				for i := 0; i < 5; i++ {
					if o := run(c, h); o.res.Violation != res.Violation {
						ev.Fatalf("violation did not reproduce: %+v", k)
					}
				}
				r.Violation(ev.Witness{Summary: fmt.Sprintf("%+v hist=%v: %s", c, h, res.Violation), Features: res.Features, Case: k})
			},
		}
		st := xstate.BFS(spec)
		mu.Lock()
		states += st.States
		transitions += st.Transitions
		if st.MaxDepth > maxDepth {
			maxDepth = st.MaxDepth
		}
		pm := perMode[c.Mode]
		if pm == nil {
			pm = map[string]int64{}
			perMode[c.Mode] = pm
		}
		pm["configs"]++
		pm["states"] += st.States
		pm["transitions"] += st.Transitions
		if st.Capped {
			pm["capped"]++
		}
		mu.Unlock()
		if st.Capped {
			r.Capped(fmt.Sprintf("time budget used up inside config %+v", c))
		}
	}
	// direct configs in parallel (no shared state); slice-level configs share vclock, so they
	// run on one goroutine, concurrently with the direct ones.
	var direct, viaSlice []config
	for _, c := range cs {
		if c.Mode == "trigger" {
			direct = append(direct, c)
		} else {
			viaSlice = append(viaSlice, c)
		}
	}
	var wg sync.WaitGroup
	wg.Add(1)
	go func() {
		defer wg.Done()
		for _, c := range viaSlice {
			if r.TimeUp() {
				r.Capped("time budget used up before all slice-level configs were explored")
				return
			}
			doCfg(c)
		}
	}()
	enum.Parallel(len(direct), r.TimeUp, func(i int) { doCfg(direct[i]) })
	wg.Wait()

	r.Set("states", states)
	r.Set("transitions", transitions)
	r.Set("traces_validated_against_impl", transitions)
	r.Set("max_depth", maxDepth)
	r.Set("configs", len(cs))
	r.Set("per_mode", perMode)
	r.Set("bounds", fmt.Sprintf("W,M in 1..%d (direct) / 1..%d (through Slice) plus disabled (W or M <= 0, strategies not installed); start clock in {0, W-1, 1e9}; time deltas {0,1,2,W-1,W,W+1,3W}; depth %d (SlidingWindow.Trigger direct) / %d (Slice.TryFuse, Slice.GetSlaveConn, 7 error kinds per step, plus in tryfuse mode a connection error that hits the replica while a health check has it down); policies hard, gradual; mode group2 (two replicas of one group, strategies from the real InitFuseRecoveryPolicy, errors on either replica through TryFuse): W,M in 1..%d, deltas {0,1,W-1,W,W+1}, kinds {conn, sql}, depth %d",
		r.Pick(6, 8), r.Pick(4, 6), depthDirect, depthSlice, r.Pick(3, 4), r.Pick(4, 5)))
	r.Set("explanation", "states = distinct canonical (window private state, clock mod W, live reference timestamps) per configuration, summed; transitions = histories replayed on fresh real objects (every one executes the real Trigger/TryFuse/GetSlaveConn and is compared with the reference count after every step); distinct_nontrivial = distinct states reached in which an earlier recorded error had already expired while the window still held errors (bucket expiry / reuse really exercised); distinct_outcomes = distinct (mode, fired, errors in window) observations")
	r.Assume("Slice.TryFuse reads the clock through vclock (time.Now rewritten in backend/slice.go, node_fuse.go, node.go); SlidingWindow.Trigger receives the timestamp as an argument and is not rewritten")
	r.Assume("timestamps are non-decreasing non-negative unix seconds (the property's quantifier); 'connection error' = a mysql.ConnTypeError value as produced by DirectConnection.connect and util.ResourcePool (pool time-out included)")
	r.Assume("in tryfuse/getconn mode the harness marks the node up again after every fuse (as a recovery would) so that every later event stays observable through the node status; the sliding window is not reset by that")
	r.Finish()
}
