//go:build verif

package backend

// Accessors for the C26 harness (injected by build overlay; not part of Gaea). Read-only
// views of the sliding window's private state, used only to build the canonical state key.

type VerifBucket struct {
	Nil        bool
	StartTime  int64
	ErrorCount int64
}

func VerifWindowState(sw *SlidingWindow) (enabled bool, startSec int64, all int64, buckets []VerifBucket) {
	sw.mu.Lock()
	defer sw.mu.Unlock()
	for _, b := range sw.buckets {
		if b == nil {
			buckets = append(buckets, VerifBucket{Nil: true})
		} else {
			buckets = append(buckets, VerifBucket{StartTime: b.StartTime, ErrorCount: b.ErrorCount})
		}
	}
	return sw.enabled, sw.startSec, sw.allErrorCount, buckets
}
