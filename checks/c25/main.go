// C25: replica selection follows weights, health and locality.
//
// Part (a) — engine enum: every replica list inside the bounds (weights 0-8, datacenter
// local/other, up/down) x every local-read policy x initial round-robin counters (0, 1 and
// all values from 2^32-L-1 to 2^32-1, set through an injected accessor) x the shuffle of
// newBalancer decided by vrand.Chooser (all permutations for short queues, a fixed family
// of arrangements for long ones). The real DBInfo.InitBalancers builds the balancers, the
// real Slice.GetSlaveConn selects; the fake pool tells which node handed out the connection.
//
// Part (b) — engine vsched (vx): 2-3 threads doing 1-3 GetSlaveConn each on one DBInfo;
// the multiset of picks must equal the one of the same number of sequential calls.
package main

import (
	"fmt"
	"os"
	"sort"
	"strings"
	"sync"

	"github.com/XiaoMi/Gaea/backend"
	"github.com/XiaoMi/Gaea/verifshim/vrand"
	"github.com/XiaoMi/Gaea/verifshim/vsched"

	"verif/engine/enum"
	"verif/engine/ev"
	"verif/engine/gx"
	"verif/engine/vx"
	fakepool "verif/ref/fakepool_backend"
)

type nodeSpec struct {
	W      int  `json:"w"`
	Remote bool `json:"remote,omitempty"`
	Down   bool `json:"down,omitempty"`
}

// kase is one sequential run: build the list with the shuffle answers in Tape, set every
// balancer's counter to Start, do Calls selections with Policy.
type kase struct {
	Scenario string     `json:"scenario,omitempty"` // set in vsched witnesses (handled by vx)
	Nodes    []nodeSpec `json:"nodes"`
	Policy   int        `json:"policy"` // 0 closed (global), 1 prefer local, 2 force local
	Start    uint32     `json:"start"`
	Tape     []int      `json:"tape"`
	Calls    int        `json:"calls"`
}

const localDC, otherDC = "dc-local", "dc-other"

var chooserMu sync.Mutex // vrand.Chooser is process-global

type world struct {
	slice *backend.Slice
	dbi   *backend.DBInfo
	pools []*fakepool.Pool
	ns    []int // the n of every rand.Intn(n) asked while building
}

// build makes fresh nodes, pools, DBInfo and balancers. The k-th rand.Intn(n) of
// newBalancer's shuffle answers tape[k] (n-1, "no swap", beyond the tape).
func build(nodes []nodeSpec, tape []int) *world {
	w := &world{}
	dbi := &backend.DBInfo{}
	for i, n := range nodes {
		dc := localDC
		if n.Remote {
			dc = otherDC
		}
		st := backend.StatusUp
		if n.Down {
			st = backend.StatusDown
		}
		p := fakepool.New(fmt.Sprintf("n%d", i), dc)
		w.pools = append(w.pools, p)
		dbi.Nodes = append(dbi.Nodes, &backend.NodeInfo{Address: p.AddrS, Datacenter: dc, Weight: n.W, ConnPool: p, Status: st})
	}
	chooserMu.Lock()
	k := 0
	vrand.Chooser = func(n int, what string) int {
		w.ns = append(w.ns, n)
		c := n - 1
		if k < len(tape) && tape[k] >= 0 && tape[k] < n {
			c = tape[k]
		}
		k++
		return c
	}
	err := dbi.InitBalancers(localDC)
	vrand.Chooser = nil
	chooserMu.Unlock()
	if err != nil {
		ev.Fatalf("InitBalancers(%v): %v", nodes, err)
	}
	w.dbi = dbi
	w.slice = &backend.Slice{Namespace: "ns", ProxyDatacenter: localDC, Slave: dbi}
	return w
}

// pick does one real selection; -1 = GetSlaveConn returned an error.
func (w *world) pick(policy int) int {
	pc, err := w.slice.GetSlaveConn(w.dbi, policy)
	if err != nil || pc == nil {
		return -1
	}
	c, ok := pc.(*fakepool.Conn)
	if !ok {
		ev.Fatalf("unexpected connection type %T", pc)
	}
	for i, p := range w.pools {
		if p == c.Pool {
			return i
		}
	}
	ev.Fatalf("connection of an unknown pool")
	return -1
}

var whichAll = []string{"global", "local", "remote"}

func relevant(policy int) []string {
	switch policy {
	case backend.LocalSlaveReadForce:
		return []string{"local"}
	case backend.LocalSlaveReadPrefer:
		return []string{"local", "remote"}
	}
	return []string{"global"}
}

// ---- reference ------------------------------------------------------------------------

func gcd(a, b int) int {
	for b != 0 {
		a, b = b, a%b
	}
	return a
}

func canServe(n nodeSpec) bool { return n.W > 0 && !n.Down }

type refInfo struct {
	allUp      bool
	eligibleUp bool  // some replica the policy may use is up
	localServe bool  // some local replica with weight > 0 is up
	want       []int // all-up case: picks of node i per window
	L          int   // all-up case: window length (0: nothing can be picked)
}

func reference(nodes []nodeSpec, policy int) refInfo {
	ri := refInfo{allUp: true}
	for _, n := range nodes {
		if n.Down {
			ri.allUp = false
		}
		if canServe(n) && !n.Remote {
			ri.localServe = true
		}
	}
	for _, n := range nodes {
		if !canServe(n) {
			continue
		}
		switch policy {
		case backend.LocalSlaveReadForce:
			if !n.Remote {
				ri.eligibleUp = true
			}
		default:
			ri.eligibleUp = true
		}
	}
	if ri.allUp {
		// the set served: closed = every weighted node; force = weighted local nodes;
		// prefer = weighted local nodes if there are any, else weighted remote nodes
		g := 0
		in := make([]bool, len(nodes))
		for i, n := range nodes {
			switch policy {
			case backend.LocalSlaveReadForce:
				in[i] = n.W > 0 && !n.Remote
			case backend.LocalSlaveReadPrefer:
				in[i] = n.W > 0 && n.Remote != ri.localServe
			default:
				in[i] = n.W > 0
			}
			if in[i] {
				g = gcd(g, n.W)
			}
		}
		ri.want = make([]int, len(nodes))
		for i, n := range nodes {
			if in[i] {
				ri.want[i] = n.W / g
				ri.L += n.W / g
			}
		}
	}
	return ri
}

// ---- one run + oracle -----------------------------------------------------------------

type verdict struct {
	viol     string
	features map[string]string
	picks    []int
	skipped  bool // some call had to step over a down node or fell back to the remote balancer
}

func policyName(p int) string { return [...]string{"closed", "prefer_local", "force_local"}[p] }

func runOn(w *world, k kase) verdict {
	for _, b := range whichAll {
		backend.VerifSetNextIndex(w.dbi, b, k.Start)
	}
	ri := reference(k.Nodes, k.Policy)
	rel := relevant(k.Policy)
	v := verdict{}
	first := make([][]uint32, len(rel)) // first counter value consumed by call i on balancer b (valid if consumed)
	last := make([][]uint32, len(rel))
	used := make([][]bool, len(rel))
	fail := func(kind, wrap, msg string) verdict {
		v.viol = msg
		v.features = map[string]string{"part": "sequential", "kind": kind, "wrap": wrap, "policy": policyName(k.Policy)}
		return v
	}
	straddle := func(call int) bool {
		for bi := range rel {
			if used[bi][call] && last[bi][call] < first[bi][call] {
				return true
			}
		}
		return false
	}
	wrapTag := func(b bool) string {
		if b {
			return "straddles_nextIndex_wrap"
		}
		return "no"
	}
	for i := 0; i < k.Calls; i++ {
		before := make([]uint32, len(rel))
		for bi, b := range rel {
			before[bi], _ = backend.VerifNextIndex(w.dbi, b)
		}
		p := w.pick(k.Policy)
		v.picks = append(v.picks, p)
		for bi, b := range rel {
			after, ok := backend.VerifNextIndex(w.dbi, b)
			first[bi] = append(first[bi], before[bi]+1)
			last[bi] = append(last[bi], after)
			used[bi] = append(used[bi], ok && after != before[bi])
			if ok && after-before[bi] > 1 {
				v.skipped = true
			}
		}
		if p < 0 {
			if ri.eligibleUp {
				return fail("no_pick_although_eligible_up", wrapTag(straddle(i)),
					fmt.Sprintf("call %d failed although a replica the policy may use is up", i))
			}
			continue
		}
		n := k.Nodes[p]
		switch {
		case n.W == 0:
			return fail("zero_weight_picked", wrapTag(straddle(i)), fmt.Sprintf("call %d picked node %d whose weight is 0", i, p))
		case n.Down && ri.eligibleUp:
			return fail("down_picked", wrapTag(straddle(i)), fmt.Sprintf("call %d picked node %d which is down while an eligible replica is up", i, p))
		case k.Policy == backend.LocalSlaveReadForce && n.Remote:
			return fail("force_local_picked_remote", wrapTag(straddle(i)), fmt.Sprintf("call %d picked remote node %d under force-local", i, p))
		case k.Policy == backend.LocalSlaveReadPrefer && n.Remote && ri.localServe:
			return fail("prefer_local_picked_remote", wrapTag(straddle(i)), fmt.Sprintf("call %d picked remote node %d under prefer-local although a local replica can serve", i, p))
		}
		if n.Remote && k.Policy == backend.LocalSlaveReadPrefer {
			v.skipped = true
		}
	}
	if ri.allUp && ri.L > 0 {
		cnt := make([]int, len(k.Nodes))
		for i, p := range v.picks {
			cnt[p]++
			if i >= ri.L {
				cnt[v.picks[i-ri.L]]--
			}
			if i >= ri.L-1 {
				a := i - ri.L + 1
				for j := range cnt {
					if cnt[j] != ri.want[j] {
						// the window consumed one counter value per call on the one balancer in use
						str := false
						for bi := range rel {
							if used[bi][a] && used[bi][i] && last[bi][i] < last[bi][a] {
								str = true
							}
						}
						return fail("window_count", wrapTag(str),
							fmt.Sprintf("calls %d..%d (window of L=%d) picked node %d %d times, normalized weight is %d; picks=%v", a, i, ri.L, j, cnt[j], ri.want[j], v.picks[a:i+1]))
					}
				}
			}
		}
	}
	return v
}

func runCase(k kase) verdict { return runOn(build(k.Nodes, k.Tape), k) }

// ---- enumeration ----------------------------------------------------------------------

var weightOrder = []int{1, 0, 2, 3, 4, 5, 6, 7, 8} // default first (for Deviations)

func listsProduct(n int, weights []int) int {
	p := 1
	for i := 0; i < n; i++ {
		p *= len(weights) * 4
	}
	return p
}

func decodeList(idx, n int, weights []int) []nodeSpec {
	ns := make([]nodeSpec, n)
	per := len(weights) * 4
	for i := n - 1; i >= 0; i-- {
		d := idx % per
		idx /= per
		ns[i] = nodeSpec{W: weights[d/4], Remote: d%4/2 == 1, Down: d%2 == 1}
	}
	return ns
}

// tapes returns the shuffle tapes to try for one (list, policy): all answer vectors for the
// shuffles of the balancers the policy uses when there are at most limit of them, else a
// fixed family of arrangements (identity, rotation, ...). Calls that belong to balancers the
// policy does not use answer "no swap".
func tapes(probe *world, policy int, limit int) (out [][]int, full bool) {
	ns := probe.ns
	// which Intn calls belong to which balancer: InitBalancers shuffles global, local, remote
	// in this order, len(queue)-1 draws each (none for queues shorter than 2)
	relSet := map[string]bool{}
	for _, b := range relevant(policy) {
		relSet[b] = true
	}
	isRel := make([]bool, len(ns))
	pos, sum := 0, 0
	for _, b := range whichAll {
		q := backend.VerifQueue(probe.dbi, b)
		c := 0
		if len(q) > 1 {
			c = len(q) - 1
		}
		sum += c
		for j := 0; j < c && pos < len(ns); j++ {
			isRel[pos] = relSet[b]
			pos++
		}
	}
	if sum != len(ns) { // the implementation draws differently from what is assumed here: vary everything
		for i := range isRel {
			isRel[i] = true
		}
	}
	total := 1
	for i, n := range ns {
		if isRel[i] {
			total *= n
			if total > limit {
				break
			}
		}
	}
	if total <= limit {
		dims := []int{}
		idxOf := []int{}
		for i, n := range ns {
			if isRel[i] {
				dims = append(dims, n)
				idxOf = append(idxOf, i)
			}
		}
		if len(dims) == 0 {
			return [][]int{nil}, true
		}
		enum.Product(dims, func(ix []int) {
			t := make([]int, len(ns))
			for i := range t {
				t[i] = ns[i] - 1
			}
			for j, i := range idxOf {
				t[i] = ix[j]
			}
			out = append(out, t)
		})
		return out, true
	}
	pat := []func(i, n int) int{
		func(i, n int) int { return n - 1 },       // identity
		func(i, n int) int { return 0 },           // rotation by one
		func(i, n int) int { return (n - 1) / 2 }, // middle
		func(i, n int) int { return (i % 2) * (n - 1) },
		func(i, n int) int {
			if n > 1 {
				return 1
			}
			return 0
		},
	}
	for _, f := range pat {
		t := make([]int, len(ns))
		for i, n := range ns {
			t[i] = n - 1
			if isRel[i] {
				t[i] = f(i, n)
			}
		}
		out = append(out, t)
	}
	return out, false
}

func maxRelLen(w *world, policy int) int {
	m := 0
	for _, b := range relevant(policy) {
		if l := len(backend.VerifQueue(w.dbi, b)); l > m {
			m = l
		}
	}
	return m
}

type stats struct {
	evals, lists, cases, fullPerm, nontrivial, wrapRuns int64
}

func main() {
	gx.Quiet()
	r := ev.Start("C25", "exploration")
	scs := scenarios(r)
	if os.Getenv("VX_CHILD") != "" {
		vx.Main(r, scs)
	}
	var rc kase
	if r.ReplayCase(&rc) {
		if rc.Scenario != "" {
			vx.Main(r, scs) // a vsched witness
		}
		v := runCase(rc)
		fmt.Printf("replay %+v\n  picks=%v\n  violation=%q features=%v\n", rc, v.picks, v.viol, v.features)
		if v.viol != "" {
			r.Violation(ev.Witness{Summary: v.viol, Features: v.features, Case: rc})
		}
		r.Finish()
	}

	// ---- part (a) ----
	type group struct {
		name  string
		count int
		get   func(i int) []nodeSpec
	}
	var groups []group
	fullW := []int{0, 1, 2, 3, 4, 5, 6, 7, 8}
	maxFull := r.Pick(3, 4)
	for n := 0; n <= maxFull; n++ {
		n := n
		groups = append(groups, group{fmt.Sprintf("n=%d full product (weights 0-8 x dc x status)", n), listsProduct(n, fullW), func(i int) []nodeSpec { return decodeList(i, n, fullW) }})
	}
	if r.Quick() {
		w4 := []int{0, 1, 2, 3, 4}
		groups = append(groups, group{"n=4 product with weights {0,1,2,3,4} x dc x status", listsProduct(4, w4), func(i int) []nodeSpec { return decodeList(i, 4, w4) }})
	}
	for n := 5; n <= 6; n++ {
		dims := make([]int, 3*n)
		for i := 0; i < n; i++ {
			dims[3*i], dims[3*i+1], dims[3*i+2] = len(weightOrder), 2, 2
		}
		var ls [][]nodeSpec
		enum.Deviations(dims, r.Pick(2, 3), func(ix []int) {
			l := make([]nodeSpec, n)
			for i := range l {
				l[i] = nodeSpec{W: weightOrder[ix[3*i]], Remote: ix[3*i+1] == 1, Down: ix[3*i+2] == 1}
			}
			ls = append(ls, l)
		})
		groups = append(groups, group{fmt.Sprintf("n=%d, at most %d deviations from (weight 1, local, up)", n, r.Pick(2, 3)), len(ls), func(i int) []nodeSpec { return ls[i] }})
	}
	permLimit := r.Pick(24, 120)
	var mu sync.Mutex
	var st stats
	groupInfo := []map[string]interface{}{}
	sampled := map[string]bool{}
	for _, g := range groups {
		g := g
		var gEvals int64
		done := enum.Parallel(g.count, r.TimeUp, func(i int) {
			nodes := g.get(i)
			var loc stats
			loc.lists++
			for policy := 0; policy <= 2; policy++ {
				loc.cases++
				probe := build(nodes, nil)
				ts, full := tapes(probe, policy, permLimit)
				if full {
					loc.fullPerm++
				}
				L := maxRelLen(probe, policy)
				ri := reference(nodes, policy)
				var starts []uint32
				calls := 2*L + 2
				if ri.allUp {
					starts = []uint32{0, uint32(0) - uint32(L+1)}
					calls = 3*L + 2
				} else {
					starts = []uint32{0, 1}
					for k := 1; k <= L+1; k++ {
						starts = append(starts, uint32(0)-uint32(k))
					}
				}
				nontriv := false
				for _, t := range ts {
					w := build(nodes, t)
					for _, s := range starts {
						k := kase{Nodes: nodes, Policy: policy, Start: s, Tape: t, Calls: calls}
						v := runOn(w, k)
						loc.evals++
						if s > 1 {
							loc.wrapRuns++
						}
						if v.viol != "" {
							for rep := 0; rep < 5; rep++ {
								if v2 := runCase(k); v2.viol != v.viol {
									ev.Fatalf("violation did not reproduce: %+v", k)
								}
							}
							r.Violation(ev.Witness{Summary: fmt.Sprintf("nodes=%+v policy=%s start=%d tape=%v: %s", nodes, policyName(policy), s, t, v.viol), Features: v.features, Case: k})
							continue
						}
						distinct := map[int]bool{}
						for _, p := range v.picks {
							if p >= 0 {
								distinct[p] = true
							}
						}
						if len(distinct) >= 2 || v.skipped {
							nontriv = true
							prof := profile(nodes, policy, v)
							r.Distinct("nontrivial", prof)
							mu.Lock()
							sk := fmt.Sprintf("%d/%d/%v/%v", len(nodes), policy, v.skipped, ri.allUp)
							if !sampled[sk] && len(sampled) < 8 && len(nodes) >= 2 {
								sampled[sk] = true
								r.Sample(map[string]interface{}{"case": k, "picks": v.picks})
							}
							mu.Unlock()
						}
					}
				}
				if nontriv {
					loc.nontrivial++
				}
			}
			mu.Lock()
			st.evals += loc.evals
			st.lists += loc.lists
			st.cases += loc.cases
			st.fullPerm += loc.fullPerm
			st.nontrivial += loc.nontrivial
			st.wrapRuns += loc.wrapRuns
			gEvals += loc.evals
			mu.Unlock()
		})
		groupInfo = append(groupInfo, map[string]interface{}{"group": g.name, "lists": g.count, "lists_done": done, "runs": gEvals})
		if done < g.count {
			r.Capped(fmt.Sprintf("time budget used up in group %q after %d of %d lists; earlier groups complete", g.name, done, g.count))
			break
		}
	}
	r.Set("evaluations", st.evals)
	r.Set("lists", st.lists)
	r.Set("list_policy_cases", st.cases)
	r.Set("list_policy_cases_nontrivial", st.nontrivial)
	r.Set("list_policy_cases_all_permutations", st.fullPerm)
	r.Set("runs_started_near_counter_wrap", st.wrapRuns)
	r.Set("groups", groupInfo)
	r.Set("rule", fmt.Sprintf("part (a): every replica list of the groups listed under 'groups' x 3 local-read policies x shuffle answers (all permutations when the balancers in use have at most %d, else 5 fixed arrangements) x initial counters {0, 2^32-L-1} (all up, 3L+2 calls) or {0,1,2^32-L-1..2^32-1} (some node down, 2L+2 calls); a run is non-trivial when at least two different nodes were picked or a call had to step over a down node / fall back to the remote balancer; distinct_nontrivial counts distinct (policy, multiset of (normalized weight, dc, status) of the nodes, pick-count vector) profiles of non-trivial runs plus the distinct outcomes of the vsched scenarios of part (b)", permLimit))
	r.Assume("the round-robin counter is set through an injected accessor (values near 2^32 stand for a balancer that has served ~4.3e9 selections)")
	r.Assume("fake pools always hand out a connection, so a selection fails only when the selection logic fails")
	r.Assume("'a selection must succeed while a replica the policy may use is up' is read into 'a down replica is never picked while another eligible replica is up'")

	// ---- part (b) ----
	vx.Main(r, scs, "part (b): shuffle answers are fixed per scenario (identity or rotation); DBInfo's mutex and the balancer's atomic counter are the scheduling points")
}

// profile: what kind of list this was and what the picks looked like, independent of node order.
func profile(nodes []nodeSpec, policy int, v verdict) string {
	cnt := make([]int, len(nodes))
	fails := 0
	for _, p := range v.picks {
		if p >= 0 {
			cnt[p]++
		} else {
			fails++
		}
	}
	var parts []string
	for i, n := range nodes {
		parts = append(parts, fmt.Sprintf("%d%v%v:%d", n.W, n.Remote, n.Down, cnt[i]))
	}
	sort.Strings(parts)
	return fmt.Sprintf("%d|%s|f%d", policy, strings.Join(parts, ","), fails)
}

// ---- part (b): vsched scenarios --------------------------------------------------------

type vscenario struct {
	Name    string     `json:"name"`
	Nodes   []nodeSpec `json:"nodes"`
	Policy  int        `json:"policy"`
	Rotate  bool       `json:"rotate"`  // shuffle answers: all 0 (rotation) instead of identity
	Threads []int      `json:"threads"` // selections per thread
	Bound   int        `json:"bound"`
}

type vworld struct {
	sc       vscenario
	w        *world
	seq      []int   // picks of the same number of sequential calls
	got      [][]int // picks per thread
	viol     string
	finalMsg string
}

var vw *vworld

func vtape(sc vscenario) []int {
	if !sc.Rotate {
		return nil
	}
	return make([]int, 64) // all zero
}

func vsetup(sc vscenario) {
	total := 0
	for _, c := range sc.Threads {
		total += c
	}
	ref := build(sc.Nodes, vtape(sc))
	var seq []int
	for i := 0; i < total; i++ {
		seq = append(seq, ref.pick(sc.Policy))
	}
	vw = &vworld{sc: sc, w: build(sc.Nodes, vtape(sc)), seq: seq, got: make([][]int, len(sc.Threads))}
}

func multiset(ps []int) string {
	c := append([]int{}, ps...)
	sort.Ints(c)
	return fmt.Sprint(c)
}

func vbody() {
	ww := vw
	for i, calls := range ww.sc.Threads {
		i, calls := i, calls
		vsched.GoNamed(fmt.Sprintf("T%d", i), func() {
			for c := 0; c < calls; c++ {
				ww.got[i] = append(ww.got[i], ww.w.pick(ww.sc.Policy))
			}
		})
	}
	vsched.WaitOthers()
	var all []int
	for _, g := range ww.got {
		all = append(all, g...)
	}
	if multiset(all) != multiset(ww.seq) {
		ww.viol = fmt.Sprintf("concurrent picks %v (per thread %v) differ as a multiset from the sequential picks %v", multiset(all), ww.got, multiset(ww.seq))
	}
	ww.finalMsg = fmt.Sprint(ww.got)
}

func scenarios(r *ev.Run) []*vx.Scenario {
	list := []vscenario{
		{Name: "allup-211-2x2", Nodes: []nodeSpec{{W: 2}, {W: 1}, {W: 1}}, Policy: 0, Threads: []int{2, 2}, Bound: 2},
		{Name: "down-up-3x1", Nodes: []nodeSpec{{W: 1, Down: true}, {W: 1}}, Policy: 0, Threads: []int{1, 1, 1}, Bound: 3},
		{Name: "down-up-up-2x2", Nodes: []nodeSpec{{W: 1, Down: true}, {W: 2}, {W: 1}}, Policy: 0, Rotate: true, Threads: []int{2, 2}, Bound: 2},
		{Name: "prefer-fallback-1+2", Nodes: []nodeSpec{{W: 1, Down: true}, {W: 1, Remote: true}, {W: 2, Remote: true}}, Policy: 1, Threads: []int{1, 2}, Bound: 2},
		{Name: "force-local-3x1", Nodes: []nodeSpec{{W: 1}, {W: 2}, {W: 3, Remote: true}}, Policy: 2, Threads: []int{1, 1, 1}, Bound: 2},
		{Name: "allup-12-3x3", Nodes: []nodeSpec{{W: 1}, {W: 2}}, Policy: 0, Rotate: true, Threads: []int{3, 3, 3}, Bound: 1},
	}
	if r.Thorough() {
		list = append(list,
			vscenario{Name: "down-mix-3x2", Nodes: []nodeSpec{{W: 2, Down: true}, {W: 1}, {W: 1, Down: true}, {W: 1}}, Policy: 0, Threads: []int{2, 2, 2}, Bound: 2},
			vscenario{Name: "prefer-mixed-3x2", Nodes: []nodeSpec{{W: 1}, {W: 1, Down: true}, {W: 1, Remote: true}}, Policy: 1, Threads: []int{2, 2, 2}, Bound: 2},
		)
	}
	var scs []*vx.Scenario
	for _, sc := range list {
		sc := sc
		scs = append(scs, &vx.Scenario{
			Name: sc.Name, Bound: sc.Bound, Spec: sc,
			Before:   func() { vsetup(sc) },
			Body:     vbody,
			Features: map[string]string{"part": "concurrent", "wrap": "no", "policy": policyName(sc.Policy)},
			Classify: func(x *vsched.Exec) (string, string, string, string) {
				if k, d, n := vx.DefaultClassify(x); k != "" {
					return k, d, n, vw.finalMsg
				}
				if vw.viol != "" {
					return "multiset_differs", vw.viol, "multiset_differs", vw.finalMsg
				}
				return "", "", "", vw.finalMsg
			},
		})
	}
	return scs
}
